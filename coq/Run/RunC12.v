(* Run/RunC12.v -- evaluation entry point for the C12 correspondence cases printed by harness/c12.go:
   every case carries what the implementation returned; [check_case] recomputes it with the primitive-float model
   (Model/Float.v, Model/Scale.v) under the conversion modes derived from the source (gen/ConvMode.v) and compares
   exactly: bit patterns for floats, equality for integers.  Complete 8/16-bit sweeps are compared against the
   tables built once in Inst/ (deviation lists and digests). *)
From Coq Require Import ZArith NArith List Bool Floats String Uint63.
Import ListNotations.
From Fit Require Export Model.Float Model.Profile Model.Scale Model.Sweep Model.Routes Run.RunCommon.
From Fit Require Import gen.ConvMode gen.ScaledAccessors Inst.Triples Inst.SweepTable.

Inductive c12_case :=
| CSweep (r : route) (bt s o : N) (ha hd : option N) (devs : list (Z * Z))
| CPoints (r : route) (bt s o : N) (pts : list (Z * option N * option N * Z))
| CGenericSweep (bt s o : N) (ha hd : N)
| CGeneric (signed : bool) (bits : Z) (s o : N) (pts : list (Z * N * N))
| CAcc (mesg field : string) (pts : list (Z * N * Z))
| CAccSweep (mesg field : string) (hg : N) (devs : list (Z * Z))
| CTime (pts : list (Z * Z * Z * Z))
| CToUint32 (pts : list (Z * Z))
| CSemi (pts : list (Z * N * Z))
| CToSemi (pts : list (N * Z))
(* digest forms (what the harness prints by default): explicit boundary values [xs] followed by [n] values of the
   generator [gen_values] from [seed]; the implementation's answers as digests in that order *)
| CSweepH (r : route) (bt s o : N) (ha nd hd : N)
| CPointsH (r : route) (bt s o : N) (xs : list Z) (seed n ha hr : N)
| CGenericH (signed : bool) (bits : Z) (s o : N) (xs : list Z) (seed n ha hd : N)
| CAccH (mesg field : string) (xs : list Z) (seed n hg hr : N)
| CAccSweepH (mesg field : string) (hg nd hd : N)
| CTimeH (xs : list Z) (seed n h : N)
| CToUint32H (rels : list Z) (h : N)
| CSemiH (xs : list Z) (seed n hb hr : N)
| CToSemiH (dbits : list N) (h : N).

Definition zz_eqb (a b : Z * Z) : bool := (fst a =? fst b)%Z && (snd a =? snd b)%Z.
Definition optN_ok (o : option N) (v : N) : bool := match o with None => true | Some x => N.eqb x v end.

Definition sweep_for (t : triple) : sweep :=
  match lookup_sweep t sweep_table with Some sw => sw | None => sweep_of t end.

(* restored integer of one route on one scaled float *)
Definition route_discard (r : route) (bt : N) (v s o : float) : Z :=
  match route_kind r with
  | KSlice => discard_slice mode_discard_slice_unscaled (route_mode r) bt v s o
  | _ => discard_value (route_mode r) bt v s o
  end.

Definition find_accessor (mesg field : string) : option accessor :=
  find (fun a => String.eqb (a_mesg a) mesg && String.eqb (a_field a) field) accessors.

(* direct enumeration of an accessor pair (slow path: literals that disagree, or a triple outside the tables) *)
Definition accessor_sweep (a : accessor) : N * list (Z * Z) :=
  let bt := a_base a in
  let gs := f64_of_bits (a_gscale a) in let go := f64_of_bits (a_goffset a) in
  let so := f64_of_bits (a_soffset a) in let ss := f64_of_bits (a_sscale a) in
  let xs := raw_range bt in
  (Z.to_N (Uint63.to_Z (fold_left (fun h x => hash_step h (getter_bits bt gs go x)) xs 0%uint63)),
   flat_map (fun x => let r := rt_accessor (a_mode a) bt gs go so ss x in if (r =? x)%Z then [] else [(x, r)]) xs).

Definition hash_term (b : N) : int := (Uint63.of_Z (Z.of_N b) + (if (b <? 9223372036854775808)%N then 0 else 1))%uint63.

Definition last_is (l : list Z) (v : Z) : bool := match l with [] => false | _ => (List.last l 0 =? v)%Z end.

(* the harness's generator of raw values (63-bit LCG; top bits) *)
Definition lcg (s : int) : int := (s * 6364136223846793005 + 1442695040888963407)%uint63.
Fixpoint gen_values (signed : bool) (bits : Z) (s : int) (n : nat) : list Z :=
  match n with
  | O => []
  | S n' =>
      if (bits <=? 32)%Z then
        let s1 := lcg s in
        let u := Uint63.to_Z (s1 >> Uint63.of_Z (63 - bits))%uint63 in
        (if signed then u - Z.shiftl 1 (bits - 1) else u)%Z :: gen_values signed bits s1 n'
      else
        let s1 := lcg s in let s2 := lcg s1 in
        let u := (Uint63.to_Z (s1 >> 31)%uint63 * 4294967296 + Uint63.to_Z (s2 >> 31)%uint63)%Z in
        (if signed then u - Z.shiftl 1 (bits - 1) else u)%Z :: gen_values signed bits s2 n'
  end.
Definition inputs (signed : bool) (bits : Z) (xs : list Z) (seed n : N) : list Z :=
  xs ++ gen_values signed bits (Uint63.of_Z (Z.of_N seed)) (N.to_nat n).

Definition hash_bits (l : list N) : N := Z.to_N (Uint63.to_Z (fold_left hash_step l 0%uint63)).
Definition hashz_step (h : int) (r : Z) : int := (h * 1000003 + Uint63.of_Z r)%uint63.
Definition hash_zs (l : list Z) : N := Z.to_N (Uint63.to_Z (fold_left hashz_step l 0%uint63)).
Definition hash_devs (d : list (Z * Z)) : N := hash_zs (flat_map (fun p => [fst p; snd p]) d).
Definition nlen {A} (l : list A) : N := N.of_nat (List.length l).

Definition accessor_devs (a : accessor) : option (list (Z * Z)) :=
  let bt := a_base a in
  let consistent := N.eqb (a_gscale a) (a_sscale a) && N.eqb (a_goffset a) (a_soffset a) in
  match (if consistent then lookup_sweep (bt, a_gscale a, a_goffset a) sweep_table else None) with
  | Some sw => if sw_scaled sw && sw_inv_ok sw && znull (sw_guarded sw) then Some (sweep_devs (a_mode a) KSetter bt sw) else None
  | None => None
  end.

Definition check_case (c : c12_case) : bool :=
  match c with
  | CSweep r bt s o ha hd devs =>
      let sw := sweep_for (bt, s, o) in
      optN_ok ha (sw_hash_apply sw) && optN_ok hd (sw_hash_disc sw) && sw_scaled sw &&
      list_eqb zz_eqb devs (sweep_devs (route_mode r) (route_kind r) bt sw)
  | CPoints r bt s o pts =>
      let sf := f64_of_bits s in let off := f64_of_bits o in
      forallb (fun p => let '(x, oa, od, res) := p in
                        let v := apply x sf off in
                        optN_ok oa (bits_of_f64 v) && optN_ok od (bits_of_f64 (discard v sf off)) &&
                        (route_discard r bt v sf off =? res)%Z) pts
  | CGenericSweep bt s o ha hd =>
      let sw := sweep_for (bt, s, o) in N.eqb ha (sw_hash_apply sw) && N.eqb hd (sw_hash_disc sw)
  | CGeneric signed bits s o pts =>
      let sf := f64_of_bits s in let off := f64_of_bits o in
      forallb (fun p => let '(x, ab, db) := p in
                        let v := apply x sf off in
                        N.eqb ab (bits_of_f64 v) && N.eqb db (bits_of_f64 (discard v sf off))) pts
  | CAcc mesg field pts =>
      match find_accessor mesg field with
      | None => false
      | Some a =>
          let bt := a_base a in
          let gs := f64_of_bits (a_gscale a) in let go := f64_of_bits (a_goffset a) in
          let so := f64_of_bits (a_soffset a) in let ss := f64_of_bits (a_sscale a) in
          forallb (fun p => let '(x, gb, res) := p in
                            N.eqb gb (getter_bits bt gs go x) && (rt_accessor (a_mode a) bt gs go so ss x =? res)%Z) pts
      end
  | CAccSweep mesg field hg devs =>
      match find_accessor mesg field with
      | None => false
      | Some a =>
          let bt := a_base a in
          let t := (bt, a_gscale a, a_goffset a) in
          let consistent := N.eqb (a_gscale a) (a_sscale a) && N.eqb (a_goffset a) (a_soffset a) in
          match (if consistent then lookup_sweep t sweep_table else None) with
          | Some sw =>
              if sw_scaled sw && sw_inv_ok sw && znull (sw_guarded sw) && last_is (raw_range bt) (bt_invalid bt) then
                (* digest of the getter = digest of Apply with the last term (the invalid raw value) replaced *)
                let inv_apply := bits_of_f64 (apply (bt_invalid bt) (f64_of_bits (a_gscale a)) (f64_of_bits (a_goffset a))) in
                let want := (Uint63.of_Z (Z.of_N (sw_hash_apply sw)) - hash_term inv_apply + hash_term f64_invalid_bits)%uint63 in
                N.eqb hg (Z.to_N (Uint63.to_Z want)) && list_eqb zz_eqb devs (sweep_devs (a_mode a) KSetter bt sw)
              else
                let '(h, d) := accessor_sweep a in N.eqb hg h && list_eqb zz_eqb devs d
          | None => let '(h, d) := accessor_sweep a in N.eqb hg h && list_eqb zz_eqb devs d
          end
      end
  | CTime pts =>
      forallb (fun p => let '(v, unix, ns, back) := p in
                        (to_time v + fit_epoch_unix * 1000000000 =? unix * 1000000000 + ns)%Z && (to_uint32 (to_time v) =? back)%Z) pts
  | CToUint32 pts => forallb (fun p => (to_uint32 (fst p) =? snd p)%Z) pts
  | CSemi pts =>
      forallb (fun p => let '(x, db, back) := p in N.eqb db (to_degrees_bits x) && (to_semicircles (to_degrees x) =? back)%Z) pts
  | CToSemi pts =>
      forallb (fun p => let '(db, got) := p in
                        ((if N.eqb db f64_invalid_bits then sint32_invalid else to_semicircles (f64_of_bits db)) =? got)%Z) pts
  | CSweepH r bt s o ha nd hd =>
      let sw := sweep_for (bt, s, o) in
      let d := sweep_devs (route_mode r) (route_kind r) bt sw in
      N.eqb ha (sw_hash_apply sw) && sw_scaled sw && N.eqb nd (nlen d) && N.eqb hd (hash_devs d)
  | CPointsH r bt s o xs seed n ha hr =>
      let sf := f64_of_bits s in let off := f64_of_bits o in
      let vs := map (fun x => apply x sf off) (inputs (bt_signed bt) (bt_bits bt) xs seed n) in
      N.eqb ha (hash_bits (map bits_of_f64 vs)) && N.eqb hr (hash_zs (map (fun v => route_discard r bt v sf off) vs))
  | CGenericH signed bits s o xs seed n ha hd =>
      let sf := f64_of_bits s in let off := f64_of_bits o in
      let vs := map (fun x => apply x sf off) (inputs signed bits xs seed n) in
      N.eqb ha (hash_bits (map bits_of_f64 vs)) && N.eqb hd (hash_bits (map (fun v => bits_of_f64 (discard v sf off)) vs))
  | CAccH mesg field xs seed n hg hr =>
      match find_accessor mesg field with
      | None => false
      | Some a =>
          let bt := a_base a in
          let gs := f64_of_bits (a_gscale a) in let go := f64_of_bits (a_goffset a) in
          let so := f64_of_bits (a_soffset a) in let ss := f64_of_bits (a_sscale a) in
          let ins := inputs (bt_signed bt) (bt_bits bt) xs seed n in
          N.eqb hg (hash_bits (map (getter_bits bt gs go) ins)) && N.eqb hr (hash_zs (map (rt_accessor (a_mode a) bt gs go so ss) ins))
      end
  | CAccSweepH mesg field hg nd hd =>
      match find_accessor mesg field with
      | None => false
      | Some a =>
          let bt := a_base a in
          match accessor_devs a, lookup_sweep (bt, a_gscale a, a_goffset a) sweep_table with
          | Some d, Some sw =>
              if last_is (raw_range bt) (bt_invalid bt) then
                let inv_apply := bits_of_f64 (apply (bt_invalid bt) (f64_of_bits (a_gscale a)) (f64_of_bits (a_goffset a))) in
                let want := (Uint63.of_Z (Z.of_N (sw_hash_apply sw)) - hash_term inv_apply + hash_term f64_invalid_bits)%uint63 in
                N.eqb hg (Z.to_N (Uint63.to_Z want)) && N.eqb nd (nlen d) && N.eqb hd (hash_devs d)
              else let '(h, d') := accessor_sweep a in N.eqb hg h && N.eqb nd (nlen d') && N.eqb hd (hash_devs d')
          | _, _ => let '(h, d') := accessor_sweep a in N.eqb hg h && N.eqb nd (nlen d') && N.eqb hd (hash_devs d')
          end
      end
  | CTimeH xs seed n h =>
      N.eqb h (hash_zs (flat_map (fun v => let t := (to_time v + fit_epoch_unix * 1000000000)%Z in
                                           [(t / 1000000000)%Z; (t mod 1000000000)%Z; to_uint32 (to_time v)]) (inputs false 32 xs seed n)))
  | CToUint32H rels h => N.eqb h (hash_zs (map to_uint32 rels))
  | CSemiH xs seed n hb hr =>
      let ins := inputs true 32 xs seed n in
      N.eqb hb (hash_bits (map to_degrees_bits ins)) && N.eqb hr (hash_zs (map (fun x => to_semicircles (to_degrees x)) ins))
  | CToSemiH dbits h =>
      N.eqb h (hash_zs (map (fun db => if N.eqb db f64_invalid_bits then sint32_invalid else to_semicircles (f64_of_bits db)) dbits))
  end.

(* classifier trunc_loses_unit: the truncating model loses the raw value *)
Definition trunc_loses_unit (bt s o : N) (x : Z) : bool :=
  negb (rt_helper Trunc bt (f64_of_bits s) (f64_of_bits o) x =? x)%Z.

(* model search for a failing raw value of an accessor pair (used when an Inst obligation about it broke) *)
Definition first_bad_accessor_value (a : accessor) : option (Z * Z) :=
  match snd (accessor_sweep a) with [] => None | d :: _ => Some d end.

(* ------------------------------------------------------------------ diagnosis of a disagreeing case:
   up to three (raw value, what the implementation returned, what the model computes) *)
Definition lookup_dev (x : Z) (d : list (Z * Z)) : Z := match find (fun p => (fst p =? x)%Z) d with Some p => snd p | None => x end.
Definition diff_devs (got model : list (Z * Z)) : list (Z * Z * Z) :=
  let a := flat_map (fun d => if existsb (zz_eqb d) model then [] else [(fst d, snd d, lookup_dev (fst d) model)]) got in
  let b := flat_map (fun d => if existsb (fun g => (fst g =? fst d)%Z) got then [] else [(fst d, fst d, snd d)]) model in
  firstn 3 (a ++ b).
Definition diag_case (c : c12_case) : list (Z * Z * Z) :=
  match c with
  | CSweep r bt s o ha hd devs => diff_devs devs (sweep_devs (route_mode r) (route_kind r) bt (sweep_for (bt, s, o)))
  | CPoints r bt s o pts =>
      let sf := f64_of_bits s in let off := f64_of_bits o in
      firstn 3 (flat_map (fun p => let '(x, oa, od, res) := p in
                        let v := apply x sf off in
                        let m := route_discard r bt v sf off in
                        if (m =? res)%Z && optN_ok oa (bits_of_f64 v) then [] else [(x, res, m)]) pts)
  | CGenericSweep _ _ _ _ _ => []
  | CGeneric signed bits s o pts =>
      let sf := f64_of_bits s in let off := f64_of_bits o in
      firstn 3 (flat_map (fun p => let '(x, ab, db) := p in
                        let v := apply x sf off in
                        if N.eqb ab (bits_of_f64 v) && N.eqb db (bits_of_f64 (discard v sf off)) then []
                        else [(x, Z.of_N db, Z.of_N (bits_of_f64 (discard v sf off)))]) pts)
  | CAcc mesg field pts =>
      match find_accessor mesg field with
      | None => []
      | Some a =>
          let bt := a_base a in
          let gs := f64_of_bits (a_gscale a) in let go := f64_of_bits (a_goffset a) in
          let so := f64_of_bits (a_soffset a) in let ss := f64_of_bits (a_sscale a) in
          firstn 3 (flat_map (fun p => let '(x, gb, res) := p in
                            let m := rt_accessor (a_mode a) bt gs go so ss x in
                            if N.eqb gb (getter_bits bt gs go x) && (m =? res)%Z then [] else [(x, res, m)]) pts)
      end
  | CAccSweep mesg field hg devs =>
      match find_accessor mesg field with
      | None => []
      | Some a => diff_devs devs (snd (accessor_sweep a))
      end
  | CTime pts =>
      firstn 3 (flat_map (fun p => let '(v, unix, ns, back) := p in
                        if (to_time v + fit_epoch_unix * 1000000000 =? unix * 1000000000 + ns)%Z
                        then (if (to_uint32 (to_time v) =? back)%Z then [] else [(v, back, to_uint32 (to_time v))])
                        else [(v, unix * 1000000000 + ns, to_time v + fit_epoch_unix * 1000000000)%Z]) pts)
  | CToUint32 pts => firstn 3 (flat_map (fun p => if (to_uint32 (fst p) =? snd p)%Z then [] else [(fst p, snd p, to_uint32 (fst p))]) pts)
  | CSemi pts =>
      firstn 3 (flat_map (fun p => let '(x, db, back) := p in
                        if N.eqb db (to_degrees_bits x) then (if (to_semicircles (to_degrees x) =? back)%Z then [] else [(x, back, to_semicircles (to_degrees x))])
                        else [(x, Z.of_N db, Z.of_N (to_degrees_bits x))]) pts)
  | CToSemi pts =>
      firstn 3 (flat_map (fun p => let '(db, got) := p in
                        let m := if N.eqb db f64_invalid_bits then sint32_invalid else to_semicircles (f64_of_bits db) in
                        if (m =? got)%Z then [] else [(Z.of_N db, got, m)]) pts)
  | _ => []      (* digest forms: the harness re-prints the case explicitly (--explicit i) for diagnosis *)
  end.
