From Coq Require Import NArith List Bool.
Import ListNotations.
From Fit Require Export Model.Encoder Run.RunDecode.
Open Scope N_scope.

(* input terms printed by the harness *)
Inductive ifield :=
| IK (num : N) (v : value) (expanded : bool)                       (* a field of the factory *)
| IU (num base ptype : N) (arr : bool) (v : value) (expanded : bool)  (* unknown field, typed by the caller *)
| INil.                                                             (* FieldBase == nil *)
Definition imsg := (N * list ifield * list (N * N * value))%type.
Definition ifile := (N * N * N * list imsg)%type.

Definition mk_field (mesgnum : N) (f : ifield) : option field :=
  match f with
  | IK num v ex => let f := create_field mesgnum num in Some (mkfield (f_fb f) (f_known f) v ex)
  | IU num base ptype arr v ex => Some (mkfield (with_type (unknown_fb num) base ptype arr) false v ex)
  | INil => None
  end.
Fixpoint somes {A} (l : list (option A)) : list A :=
  match l with [] => [] | Some x :: r => x :: somes r | None :: r => somes r end.
Definition mk_msg (m : imsg) : message :=
  let '(num, fs, ds) := m in
  mkmsg 0 num (somes (map (mk_field num) fs)) (map (fun d => let '(n, i, v) := d in mkdev n i v) ds).
Definition mk_file (f : ifile) : efile := let '(hs, pr, pv, ms) := f in mkefile hs pr pv (map mk_msg ms).

Inductive eobs := EOk (bs : bytes) (wb : list ((N * N * N * N * N) * N)) | EErr (e : N).

Fixpoint encode_chain (c : ecfg) (fs : list efile) (acc : bytes) (wb : list ((N * N * N * N * N) * N)) : eobs :=
  match fs with
  | [] => EOk acc (rev wb)
  | f :: r =>
    match encode_fit c f with
    | Ok x => encode_chain c r (acc ++ er_bytes x) ((er_header x, er_crc x) :: wb)
    | Err e => EErr e
    | Panic _ => EErr 97
    | OutOfFuel => EErr 98
    end
  end.
Definition wb_eqb (a b : (N * N * N * N * N) * N) : bool :=
  let '((s1, p1, v1, d1, c1), k1) := a in let '((s2, p2, v2, d2, c2), k2) := b in
  (s1 =? s2) && (p1 =? p2) && (v1 =? v2) && (d1 =? d2) && (c1 =? c2) && (k1 =? k2).
Definition eobs_eqb (a b : eobs) : bool :=
  match a, b with
  | EOk x w, EOk y v => list_N_eqb x y && list_eqb wb_eqb w v
  | EErr x, EErr y => x =? y
  | _, _ => false
  end.
Definition check_case (c : ecfg * list ifile * eobs) : bool :=
  let '(cfg, fs, obs) := c in eobs_eqb (encode_chain cfg (map mk_file fs) [] []) obs.
