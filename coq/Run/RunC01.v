From Coq Require Import NArith List Bool.
Import ListNotations.
From Fit Require Export Run.RunEncode Model.Wire.
Open Scope N_scope.

Definition check_enc := RunEncode.check_case.
Definition check_dec := RunDecode.check_case.
(* C02: independent well-formedness of the implementation's output; for 12-byte headers the relaxed reading
   separates the known finding (records-only CRC) from any other defect *)
Definition check_wf (c : bytes * N * bool) : bool := let '(bs, n, _) := c in wf_stream_b bs n.
Definition check_wf_legacy (c : bytes * N * bool) : bool := let '(bs, n, _) := c in wf_stream_legacy_b bs n.
(* C04/C02: the model's integrity check and the reference agree on the bytes *)
Definition check_integrity_ref (c : bytes * N * bool) : bool :=
  let '(bs, n, _) := c in let '(k, ok) := integrity_b bs in ok && (k =? n).
(* the stream encoder (WriteMessage / SequenceCompleted) accepts exactly what encode_fit accepts, and writes the same bytes *)
Definition check_senc (c : ecfg * list ifile * eobs) : bool :=
  let '(cfg, fs, obs) := c in
  match encode_chain cfg (map mk_file fs) [] [], obs with
  | EOk x _, EOk y _ => list_N_eqb x y
  | EErr _, EErr _ => true
  | _, _ => false
  end.

(* the message-level stream model itself (Model/Stream.v) on the same observations *)
From Fit Require Import Model.Stream.
Definition check_stream_model (c : ecfg * list ifile * eobs) : bool :=
  let '(cfg, fs, obs) := c in
  match stream_bytes cfg (map (fun f => ef_msgs (mk_file f)) fs), obs with
  | Ok x, EOk y _ => list_N_eqb x y
  | Ok _, _ => false
  | _, EOk _ _ => false
  | _, _ => true
  end.

(* one encoder going on after rejected files: every file is encoded as by a fresh encoder (bytes of that call / error class) *)
Fixpoint each_ok (cfg : ecfg) (fs : list ifile) (obs : list eobs) : bool :=
  match fs, obs with
  | [], [] => true
  | f :: fs', o :: obs' =>
      (match encode_fit cfg (mk_file f), o with
       | Ok x, EOk y _ => list_N_eqb (er_bytes x) y
       | Err e, EErr e' => e =? e'
       | Panic _, EErr e' => e' =? 97
       | _, _ => false
       end) && each_ok cfg fs' obs'
  | _, _ => false
  end.
Definition check_enc_each (c : ecfg * list ifile * list eobs) : bool :=
  let '(cfg, fs, obs) := c in each_ok cfg fs obs.
