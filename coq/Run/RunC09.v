From Coq Require Import NArith ZArith List Bool.
Import ListNotations.
From Fit Require Export Model.Writer Run.RunEncode.
Open Scope N_scope.

Fixpoint all_parts (c : ecfg) (fs : list efile) : option (list eparts) :=
  match fs with
  | [] => Some []
  | f :: r => match encode_parts c f, all_parts c r with Ok p, Some ps => Some (p :: ps) | _, _ => None end
  end.
Fixpoint bools_eqb (a b : list bool) : bool :=
  match a, b with [], [] => true | x :: a', y :: b' => Bool.eqb x y && bools_eqb a' b' | _, _ => false end.

(* (options, files, destination kind, write buffer size, stream?, fault plan, header data size preset to the true one?,
    bytes the destination held before (cursor at their end), observed error flag per call, observed destination content) *)
Definition check_case (c : ecfg * list ifile * wkind * Z * bool * option fault * bool * bytes * list bool * bytes) : bool :=
  let '(cfg, fs, kind, bufsize, stream, flt, preset, pre, errs, content) := c in
  match all_parts cfg (map mk_file fs) with
  | None => false
  | Some ps =>
    let w0 := wst_new kind bufsize pre flt in
    let '(merrs, w) := if stream then stream_chain w0 ps 0 []
                       else Writer.encode_chain w0 (map (fun p => (p, if preset then p_datasize p else 0)) ps) [] in
    bools_eqb merrs errs && list_N_eqb (final_bytes w) content
  end.
