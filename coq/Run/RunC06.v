From Coq Require Import NArith List Bool.
Import ListNotations.
From Fit Require Export Model.Value Run.RunCommon.
Open Scope N_scope.

Inductive c06case :=
| CVal (big : bool) (v : value) (bt sz : N) (mb : option bytes) (tag : N) (al va : bool)
| CUn (big : bool) (bt pt : N) (isarr : bool) (b : bytes) (res : outcome value).

Definition outcome_value_eqb (a b : outcome value) : bool :=
  match a, b with
  | Ok x, Ok y => value_eqb x y
  | Err x, Err y => x =? y
  | Panic _, Panic _ => true
  | _, _ => false
  end.

Definition check_case (c : c06case) : bool :=
  match c with
  | CVal big v bt sz mb tag al va =>
      value_ok v && (size v =? sz) && option_eqb list_N_eqb (marshal big v) mb && (type_tag v =? tag)
      && Bool.eqb (align v bt) al && Bool.eqb (valid v bt) va
  | CUn big bt pt isarr b res => outcome_value_eqb (unmarshal big bt pt isarr b) res
  end.
