From Coq Require Import NArith List Bool.
Import ListNotations.
From Fit Require Export Model.Api Run.RunDecode.
Open Scope N_scope.

Inductive obs :=
| OFit (f : ofit) | OHeader (h : N * N * N * N * N) | OFileId | OBool (b : bool)
| OIntegrity (n : N) (e : option N) | OErrR (e : N) | OUnit | OPanicR.

Definition proj_ares (r : ares) : obs :=
  match r with
  | RFit f => OFit (proj_fit f)
  | RHeader h => OHeader (h_size h, h_proto h, h_profile h, h_datasize h, h_crc h)
  | RFileId _ => OFileId
  | RBool b => OBool b
  | RIntegrity n e => OIntegrity n e
  | RErr e => OErrR e
  | RUnit => OUnit
  | RPanic => OPanicR
  | RFuel => OErrR 98
  end.
Definition obs_eqb (a b : obs) : bool :=
  match a, b with
  | OFit x, OFit y => ofit_eqb x y
  | OHeader (a1, a2, a3, a4, a5), OHeader (b1, b2, b3, b4, b5) => (a1 =? b1) && (a2 =? b2) && (a3 =? b3) && (a4 =? b4) && (a5 =? b5)
  | OFileId, OFileId => true
  | OBool x, OBool y => Bool.eqb x y
  | OIntegrity n e, OIntegrity m f => (n =? m) && option_eqb (fun x y => err_class x =? err_class y) e f
  | OErrR x, OErrR y => err_class x =? err_class y
  | OUnit, OUnit => true
  | OPanicR, OPanicR => true
  | _, _ => false
  end.
Definition check_case (c : dcfg * bytes * list aop * list obs) : bool :=
  let '(cfg, bs, ops, observed) := c in list_eqb obs_eqb (map proj_ares (api_run (api_new cfg bs) ops)) observed.
