(* projection of decoder results compared with the implementation *)
From Coq Require Import NArith List Bool.
Import ListNotations.
From Fit Require Export Model.Decoder Run.RunCommon.
Open Scope N_scope.

Definition ofield := (N * N * value * bool)%type.
Definition odev := (N * N * value)%type.
Definition omsg := (N * N * list ofield * list odev)%type.
Definition ofit := ((N * N * N * N * N) * list omsg * N)%type.
Inductive ores := OFits (l : list ofit) | OErr (e : N) | OPanic.

Definition proj_field (f : field) : ofield := (f_num f, f_base f, f_value f, f_expanded f).
Definition proj_dev (d : devfield) : odev := (df_num d, df_idx d, df_value d).
Definition proj_msg (m : message) : omsg := (m_header m, m_num m, map proj_field (m_fields m), map proj_dev (m_devs m)).
Definition proj_fit (f : fit) : ofit :=
  let h := fit_header f in ((h_size h, h_proto h, h_profile h, h_datasize h, h_crc h), map proj_msg (fit_msgs f), fit_crc f).

Definition ofield_eqb (a b : ofield) : bool :=
  let '(n1, b1, v1, e1) := a in let '(n2, b2, v2, e2) := b in (n1 =? n2) && (b1 =? b2) && value_eqb v1 v2 && Bool.eqb e1 e2.
Definition odev_eqb (a b : odev) : bool :=
  let '(n1, i1, v1) := a in let '(n2, i2, v2) := b in (n1 =? n2) && (i1 =? i2) && value_eqb v1 v2.
Definition omsg_eqb (a b : omsg) : bool :=
  let '(h1, n1, f1, d1) := a in let '(h2, n2, f2, d2) := b in
  (h1 =? h2) && (n1 =? n2) && list_eqb ofield_eqb f1 f2 && list_eqb odev_eqb d1 d2.
Definition ofit_eqb (a b : ofit) : bool :=
  let '((s1, p1, v1, d1, c1), m1, k1) := a in let '((s2, p2, v2, d2, c2), m2, k2) := b in
  (s1 =? s2) && (p1 =? p2) && (v1 =? v2) && (d1 =? d2) && (c1 =? c2) && list_eqb omsg_eqb m1 m2 && (k1 =? k2).

(* io.EOF and io.ErrUnexpectedEOF are one class (which of them a truncated stream yields depends on buffering: C08's known finding) *)
Definition err_class (e : N) : N := if e =? E_UnexpectedEOF then E_EOF else e.
Definition ores_eqb (a b : ores) : bool :=
  match a, b with
  | OFits x, OFits y => list_eqb ofit_eqb x y
  | OErr x, OErr y => err_class x =? err_class y
  | OPanic, OPanic => true
  | _, _ => false
  end.
Definition proj_res (r : outcome (list fit)) : ores :=
  match r with Ok l => OFits (map proj_fit l) | Err e => OErr e | Panic _ => OPanic | OutOfFuel => OErr 98 end.

Definition check_case (c : bool * bool * bytes * ores) : bool :=
  let '(cs, ex, bs, obs) := c in ores_eqb (proj_res (decode_stream (mkcfg cs ex 4096) bs)) obs.
