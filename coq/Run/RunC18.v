From Coq Require Import NArith List Bool.
Import ListNotations.
From Fit Require Export Model.Crc Run.RunCommon.
Open Scope N_scope.

Definition crc_out_eqb (a b : crc_out) : bool :=
  match a, b with
  | OutNone, OutNone => true
  | OutSum16 x, OutSum16 y => N.eqb x y
  | OutSum x, OutSum y => list_eqb N.eqb x y
  | _, _ => false
  end.
(* a case: the script the implementation ran, and what it returned *)
Definition check_case (c : list crc_op * list crc_out) : bool :=
  list_eqb crc_out_eqb (crc_run 0 (fst c)) (snd c).

(* model search when an obligation broke: first (state, byte) where the translated update leaves the definition,
   over a strided part of the domain (the implementation side enumerates it completely) *)
Definition first_bad_update (stride : N) : option (N * N) :=
  let states := map (fun i => i * stride) (Nrange (65536 / stride)) in
  let fix go (ss : list N) := match ss with
    | [] => None
    | s :: r => match find (fun b => negb (update_ok s b)) (Nrange 256) with
                | Some b => Some (s, b) | None => go r end end in go states.
