From Coq Require Import NArith List Bool.
Import ListNotations.
From Fit Require Export Run.RunEncode.
Open Scope N_scope.

Inductive vres := VOk (m : omsg) | VErr (e : N).
Definition vres_eqb (a b : vres) : bool :=
  match a, b with VOk x, VOk y => omsg_eqb x y | VErr x, VErr y => x =? y | _, _ => false end.

(* run the validator over the sequence (stateful: developer data ids, field descriptions) until the first error *)
Fixpoint validate_seq (preserve : bool) (vs : vstate) (ms : list message) : list vres :=
  match ms with
  | [] => []
  | m :: r =>
    match validate preserve vs m with
    | Ok (m', vs') => VOk (proj_msg (mkmsg 0 (m_num m') (m_fields m') (m_devs m'))) :: validate_seq preserve vs' r
    | Err e => [VErr e]
    | Panic _ => [VErr 97]
    | OutOfFuel => [VErr 98]
    end
  end.
Definition check_case (c : bool * list imsg * list vres) : bool :=
  let '(preserve, ms, obs) := c in list_eqb vres_eqb (validate_seq preserve vs_init (map mk_msg ms)) obs.
