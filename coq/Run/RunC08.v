From Coq Require Import NArith List Bool Arith.
Import ListNotations.
From Fit Require Export Run.RunCommon.
From Fit Require Export Model.ReadBuf.

Definition err_eqb (a b : err) : bool :=
  match a, b with EOF, EOF | UnexpectedEOF, UnexpectedEOF | ShortBuffer, ShortBuffer => true | _, _ => false end.
Fixpoint bytes_eqb (a b : list N) : bool :=
  match a, b with [], [] => true | x :: a', y :: b' => N.eqb x y && bytes_eqb a' b' | _, _ => false end.
Definition out_eqb (a b : outcome (list N)) : bool :=
  match a, b with Ok x, Ok y => bytes_eqb x y | Err x, Err y => err_eqb x y | Panic, Panic => true | _, _ => false end.

(* (buffer size option, chunk plan, EOF together with the last bytes, stream, ReadN requests, observed results) *)
Definition check_case (c : nat * list nat * bool * list N * list nat * list (outcome (list N))) : bool :=
  let '(size, plan, eofwd, data, ns, observed) := c in
  list_eqb out_eqb (run_script (rb_new size) {| rest := data; plan := plan; eof_with_data := eofwd |} ns) observed.

(* a long-lived buffer: Reset(size, reader) / ReadN(n) scripts; observed: len(buf) after each Reset, the result of each ReadN *)
Definition robs_eqb (a b : robs) : bool :=
  match a, b with RLen x, RLen y => Nat.eqb x y | ROut x, ROut y => out_eqb x y | RPanic, RPanic => true | _, _ => false end.
Definition check_reuse (c : list rop * list robs) : bool :=
  let '(ops, observed) := c in
  list_eqb robs_eqb (run_ops (S (length ops)) rb_zero {| rest := []; plan := []; eof_with_data := false |} ops) observed.
