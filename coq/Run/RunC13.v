(* C13 -- evaluation entry points for cases.v: the generic model with the translated specification of the
   message type, compared with what the implementation returned. *)
From Coq Require Import NArith ZArith List Bool String.
Import ListNotations.
From Fit Require Export Model.Profile Model.Mesgdef Run.RunCommon.
From Fit Require gen.Factory gen.MesgdefSpec.
Open Scope N_scope.

Inductive c13_out := OutMesg (m : message) | OutPanic.

Definition opt_eqb {A} (eqb : A -> A -> bool) (a b : option A) : bool :=
  match a, b with Some x, Some y => eqb x y | None, None => true | _, _ => false end.
Definition value_eqb (a b : value) : bool :=
  match a, b with
  | VInvalid, VInvalid => true
  | VNum t x, VNum u y => ntype_eqb t u && (x =? y)
  | VArr t l, VArr u k => ntype_eqb t u && opt_eqb (leqb N.eqb) l k
  | VStr x, VStr y => leqb N.eqb x y
  | VStrs l, VStrs k => opt_eqb (leqb (leqb N.eqb)) l k
  | _, _ => false
  end.
Definition field_eqb (a b : field) : bool :=
  (f_num a =? f_num b) && Bool.eqb (f_known a) (f_known b) && (f_base a =? f_base b)
  && value_eqb (f_value a) (f_value b) && Bool.eqb (f_expanded a) (f_expanded b).
Definition dev_eqb (a b : devfield) : bool :=
  (df_num a =? df_num b) && (df_index a =? df_index b) && value_eqb (df_value a) (df_value b).
Definition mesg_eqb (a b : message) : bool :=
  (m_num a =? m_num b) && leqb field_eqb (m_fields a) (m_fields b) && leqb dev_eqb (m_devs a) (m_devs b).

Definition spec_of (num : N) : option mspec := find (fun s => ms_num s =? num) MesgdefSpec.mspecs.
Definition std_fac : N -> N -> option fieldbase := Factory.factory.

(* message -> struct -> message on the model, with every index checked *)
Definition roundtrip (s : mspec) (o : options) (m : message) : outcome message :=
  bind (reset s m) (to_mesg std_fac s o).

Definition check_case (c : N * options * message * c13_out) : bool :=
  let '(num, o, m, out) := c in
  match spec_of num with
  | None => false
  | Some s =>
    match roundtrip s o m, out with
    | Ok r, OutMesg g => mesg_eqb r g
    | Panic _, OutPanic => true
    | _, _ => false
    end
  end.

(* diagnosis when the Inst obligation broke: specs and slots that fail wf_mspec *)
Definition pc : profile_consts :=
  mkpc MesgdefSpec.basetype_table MesgdefSpec.ptype_bool MesgdefSpec.ptype_date_time MesgdefSpec.ptype_local_date_time.
Definition failing_specs : list (string * bool * bool * list (string * N)) :=
  map (fun s => (ms_name s, wf_core std_fac s, wf_profile pc Factory.mesgs s, bad_slots pc Factory.mesgs s))
      (filter (fun s => negb (wf_mspec pc Factory.mesgs s)) MesgdefSpec.mspecs).

(* ---- struct -> message -> struct, each half against the implementation *)
Definition sval_eqb (a b : sval) : bool :=
  match a, b with
  | SVNum x, SVNum y => x =? y
  | SVTime x, SVTime y => (x =? y)%Z
  | SVArr l, SVArr k => opt_eqb (leqb N.eqb) l k
  | SVFix l, SVFix k => leqb N.eqb l k
  | SVStr x, SVStr y => leqb N.eqb x y
  | SVStrs l, SVStrs k => opt_eqb (leqb (leqb N.eqb)) l k
  | SVFixStr l, SVFixStr k => leqb (leqb N.eqb) l k
  | _, _ => false
  end.
Definition tstruct_eqb (a b : tstruct) : bool :=
  leqb sval_eqb (t_slots a) (t_slots b) && (t_state a =? t_state b)
  && leqb field_eqb (t_unknown a) (t_unknown b) && leqb dev_eqb (t_devs a) (t_devs b).

(* (message number, options, struct, ToMesg(struct), NewXxx(ToMesg(struct))) as observed *)
Definition check_struct_case (c : N * options * tstruct * message * tstruct) : bool :=
  let '(num, o, t, m, t') := c in
  match spec_of num with
  | None => false
  | Some s =>
    match to_mesg std_fac s o t, reset s m with
    | Ok m1, Ok t1 => mesg_eqb m1 m && tstruct_eqb t1 t'
    | _, _ => false
    end
  end.
