From Coq Require Import NArith List Bool.
Import ListNotations.
From Fit Require Export Model.Base Model.Wire Run.RunCommon.
Open Scope N_scope.

(* (bytes, sequences counted by CheckIntegrity, accepted) *)
Definition verdict_eqb (a b : N * bool) : bool := (fst a =? fst b) && Bool.eqb (snd a) (snd b).
(* the reference rules *)
Definition check_case (c : bytes * N * bool) : bool := let '(bs, n, ok) := c in verdict_eqb (integrity_b bs) (n, ok).
(* the reference rules with the two known deviations switched on: separates the known findings from anything else *)
Definition check_impl (c : bytes * N * bool) : bool := let '(bs, n, ok) := c in verdict_eqb (integrity_impl_b bs) (n, ok).
(* which known class a deviating case belongs to: 1 = 12-byte header, 2 = zero header CRC, 0 = neither alone explains it *)
Definition deviation_class (c : bytes * N * bool) : N :=
  let '(bs, n, ok) := c in
  if verdict_eqb (integrity_gen true false (S (length bs)) bs 0) (n, ok) then 1
  else if verdict_eqb (integrity_gen false true (S (length bs)) bs 0) (n, ok) then 2 else 0.
Definition class_is (k : N) (c : bytes * N * bool) : bool := deviation_class c =? k.
