(* C19 correspondence: run the model of fitcsv on what the implementation was given and compare with what it produced.
   A case carries: options, the decoder events (definitions and messages) the converter received, the rows of cells of the CSV it
   wrote (as read back by encoding/csv), the messages decoded from the FIT file it produced from that CSV, and a table
   text -> (ParseFloat 64 bits, ParseFloat 32 bits widened) for every float-looking cell element (strconv is not modelled). *)
From Coq Require Import NArith ZArith List Bool String Ascii.
Import ListNotations.
From Fit Require Export Model.Profile Model.Csv Run.RunCommon gen.CsvConvMode.
Open Scope N_scope.
Open Scope list_scope.

Inductive rowtext := RCells (cells : list string) | RTab (joined : string).
Definition row_cells (r : rowtext) : list string :=
  match r with RCells l => l | RTab EmptyString => [] | RTab s => split_on 9 s end.

Record case := mkcase { c_opts : opts; c_events : list event; c_rows_t : list (N * rowtext); c_out : list (list mesg);
                        c_ftab : list (string * N * N) }.

(* rows are transmitted without their trailing empty cells, with their column count *)
Definition c_rows (c : case) : list (list string) :=
  map (fun r => row_cells (snd r) ++ repeat EmptyString (N.to_nat (fst r) - List.length (row_cells (snd r)))) (c_rows_t c).

Definition canon (b : N) : N := if is_nan_bits b then nan_bits else b.
Fixpoint tab_find (t : list (string * N * N)) (s : string) : option (N * N) :=
  match t with [] => None | (k, a, b) :: r => if String.eqb k s then Some (a, b) else tab_find r s end.
Definition tab_parse64 (t : list (string * N * N)) (s : string) : option N :=
  match tab_find t s with Some (a, _) => Some a
  | None => match parse_Z s with Some z => Some (bits_of_float (float_of_Z z)) | None => None end end.
Definition tab_parse32 (t : list (string * N * N)) (s : string) : option N :=
  match tab_find t s with Some (_, b) => Some b
  | None => match parse_Z s with Some z => Some (to32 (bits_of_float (float_of_Z z))) | None => None end end.
(* the text the implementation printed for this value (any text of the table that parses to it) *)
Fixpoint tab_fmt (t : list (string * N * N)) (k32 : bool) (b : N) : string :=
  match t with
  | [] => "?"%string
  | (k, a, _) :: r => if N.eqb (canon a) (canon b) then k else tab_fmt r k32 b
  end.

(* cells are compared through the parsed value where both are float texts of the table *)
Definition elem_eqb (t : list (string * N * N)) (a b : string) : bool :=
  String.eqb a b || match tab_find t a, tab_find t b with Some (x, _), Some (y, _) => N.eqb (canon x) (canon y) | _, _ => false end.
Definition cell_eqb (t : list (string * N * N)) (a b : string) : bool :=
  String.eqb a b || list_eqb (elem_eqb t) (split_on sep_write a) (split_on sep_write b).
Definition rows_eqb (t : list (string * N * N)) (a b : list (list string)) : bool := list_eqb (list_eqb (cell_eqb t)) a b.

(* output messages: NaN payloads are not visible to the float model (one NaN) except through the table *)
Definition scalar_eqc (a b : scalar) : bool :=
  match a, b with SF x, SF y => N.eqb x y | _, _ => scalar_eqb a b end.
Definition field_eqb (a b : field) : bool := N.eqb (f_num a) (f_num b) && N.eqb (f_base a) (f_base b) && value_eqb (f_val a) (f_val b).
Definition dev_eqb (a b : devfield) : bool := N.eqb (d_num a) (d_num b) && N.eqb (d_idx a) (d_idx b) && value_eqb (d_val a) (d_val b).
Definition mesg_eqb (a b : mesg) : bool :=
  N.eqb (m_num a) (m_num b) && list_eqb field_eqb (m_fields a) (m_fields b) && list_eqb dev_eqb (m_devs a) (m_devs b).

Definition model_rows (c : case) : list (list string) := fit_to_rows (tab_fmt (c_ftab c)) (c_opts c) (c_events c).
Definition model_out (c : case) : option (list (list mesg)) := rows_to_fit (tab_parse64 (c_ftab c)) (tab_parse32 (c_ftab c)) (c_rows c).

Definition check_rows (c : case) : bool := rows_eqb (c_ftab c) (model_rows c) (c_rows c).
Definition check_out (c : case) : bool :=
  match model_out c with Some seqs => list_eqb (list_eqb mesg_eqb) seqs (c_out c) | None => false end.
Definition check_case (c : case) : bool := check_rows c && check_out c.

(* diagnostics for a disagreeing case: first differing row / message *)
Fixpoint first_diff {A} (eqb : A -> A -> bool) (i : N) (a b : list A) : option (N * option A * option A) :=
  match a, b with
  | [], [] => None
  | x :: a', y :: b' => if eqb x y then first_diff eqb (N.succ i) a' b' else Some (i, Some x, Some y)
  | x :: _, [] => Some (i, Some x, None)
  | [], y :: _ => Some (i, None, Some y)
  end.
Definition diag_rows (c : case) := first_diff (list_eqb (cell_eqb (c_ftab c))) 0 (model_rows c) (c_rows c).
Definition diag_out (c : case) :=
  match model_out c with
  | Some seqs => first_diff mesg_eqb 0 (List.concat seqs) (List.concat (c_out c))
  | None => Some (99999, None, None)
  end.
