(* C20 correspondence: a case = what the harness gave the real packages and what came back; check_case runs the model
   on the same input and compares the message lists (combine: body exactly, summary tail on the modelled fields). *)
From Coq Require Import NArith ZArith List Bool.
Import ListNotations.
From Fit Require Export Model.Activity Run.RunCommon.
Open Scope N_scope.

Definition value_eqb (a b : value) : bool :=
  match a, b with
  | U8 x, U8 y | U16 x, U16 y | U32 x, U32 y | Oth x, Oth y => x =? y
  | S32 x, S32 y => Z.eqb x y
  | U8s x, U8s y | U32s x, U32s y => list_eqb N.eqb x y
  | _, _ => false
  end.
Definition field_eqb (a b : field) : bool :=
  (fnum a =? fnum b) && (fbase a =? fbase b) && Bool.eqb (facc a) (facc b) && value_eqb (fval a) (fval b).
Definition mesg_eqb (a b : mesg) : bool :=
  (mnum a =? mnum b) && list_eqb field_eqb (mfields a) (mfields b) && list_eqb N.eqb (mdev a) (mdev b).
Definition mesgs_eqb := list_eqb mesg_eqb.
Definition session_eqb (a b : session) : bool :=
  (s_timestamp a =? s_timestamp b) && (s_start_time a =? s_start_time b) && (s_sport a =? s_sport b) && (s_sub_sport a =? s_sub_sport b) &&
  (s_elapsed a =? s_elapsed b) && (s_timer a =? s_timer b) && (s_distance a =? s_distance b) && (s_cycles a =? s_cycles b) &&
  (s_avg_hr a =? s_avg_hr b) && (s_max_hr a =? s_max_hr b) && (s_min_hr a =? s_min_hr b) && (s_num_laps a =? s_num_laps b).

Inductive case :=
| CConceal (first last : N) (input output : list mesg)
| CRemove (unknown : bool) (nums : list N) (dev : bool) (input output : list mesg)
| CReduceDist (quarter_metres : N) (ok : bool) (input output : list mesg)      (* WithDistanceInterval(q/4): interval = 25 q *)
| CReduceTime (seconds : N) (ok : bool) (input output : list mesg)
| CReduceRdp (eps_zero : bool) (kept : list nat) (ok : bool) (input output : list mesg)           (* kept: indices rdp.Simplify returned *)
| CCombine (inputs : list (list mesg)) (ok : bool) (output : list mesg).

Definition opt_check (r : option (list mesg)) (ok : bool) (input output : list mesg) : bool :=
  match r with
  | Some ms => ok && mesgs_eqb ms output
  | None => negb ok && mesgs_eqb input output                                  (* an error leaves the messages alone *)
  end.

Fixpoint split_body (ms : list mesg) : list mesg * list mesg :=
  match ms with [] => ([], []) | m :: r => if is_summary (mnum m) then ([], ms) else let (b, t) := split_body r in (m :: b, t) end.
Definition count_num (n : N) (ms : list mesg) : nat := length (filter (fun m => mnum m =? n) ms).
(* the tail must be sports, split summaries, sessions, one activity, in this order *)
Fixpoint tail_ordered (stage : N) (ms : list mesg) : bool :=
  match ms with
  | [] => stage =? 3
  | m :: r =>
      let st := if mnum m =? SPORT then 0 else if mnum m =? SPLIT_SUMMARY then 1 else if mnum m =? SESSION then 2 else if mnum m =? ACTIVITY then 3 else 4 in
      (stage <=? st) && (st <? 4) && negb ((stage =? 3) && (st =? 3)) && tail_ordered st r
  end.
Definition summary_check (t : summary) (tl : list mesg) : bool :=
  tail_ordered 0 tl &&
  Nat.eqb (count_num SPORT tl) (sm_sports t) && Nat.eqb (count_num SPLIT_SUMMARY tl) (sm_splits t) &&
  list_eqb session_eqb (map new_session (filter (fun m => mnum m =? SESSION) tl)) (sm_sessions t) &&
  match filter (fun m => mnum m =? ACTIVITY) tl with
  | [a] => (get_u32 ACT_TIMESTAMP a =? sm_act_timestamp t) && (get_u32 ACT_TOTAL_TIMER_TIME a =? sm_act_timer t) &&
           (get_u16 ACT_NUM_SESSIONS a =? sm_act_num_sessions t)
  | _ => false
  end.

Definition check_case (c : case) : bool :=
  match c with
  | CConceal first last input output => mesgs_eqb (conceal first last input) output
  | CRemove u nums dv input output => mesgs_eqb (remove u nums dv input) output
  | CReduceDist q ok input output => opt_check (reduce_distance (25 * q) input) ok input output
  | CReduceTime s ok input output => opt_check (reduce_time s input) ok input output
  | CReduceRdp ez kept ok input output => opt_check (reduce_rdp_checked (fun _ => kept) ez input) ok input output
  | CCombine inputs ok output =>
      match combine inputs with
      | CombErr => negb ok
      | CombOk body t => ok && (let (b, tl) := split_body output in mesgs_eqb body b && summary_check t tl)
      end
  end.

(* diagnostics for a disagreeing case: what the model computed *)
Definition model_output (c : case) : option (list mesg) :=
  match c with
  | CConceal first last input _ => Some (conceal first last input)
  | CRemove u nums dv input _ => Some (remove u nums dv input)
  | CReduceDist q _ input _ => reduce_distance (25 * q) input
  | CReduceTime s _ input _ => reduce_time s input
  | CReduceRdp ez kept _ input _ => reduce_rdp_checked (fun _ => kept) ez input
  | CCombine inputs _ _ => match combine inputs with CombErr => None | CombOk body _ => Some body end
  end.
