(* C14 -- evaluation entry points for cases.v and for the search after a broken obligation. *)
From Coq Require Import NArith ZArith List Bool String Arith.
Import ListNotations.
From Fit Require Export Model.Filedef Model.FiledefTables Model.Listener gen.FiledefSpec gen.ListenerSpec Run.RunCommon.
Open Scope N_scope.

(* observable of a message: number, identity tag, candidate timestamp fields *)
Definition obs := (N * N * list (N * N))%type.
Definition obs_of (m : msg) : obs := (m_num m, m_id m, m_ts m).
Definition pair_eqb (a b : N * N) : bool := (fst a =? fst b) && (snd a =? snd b).
Definition obs_eqb (a b : obs) : bool :=
  let '(n1, i1, t1) := a in let '(n2, i2, t2) := b in (n1 =? n2) && (i1 =? i2) && list_eqb pair_eqb t1 t2.

Definition dummy_spec : fspec := Build_fspec "" "" [] [] None [] None false.
Definition spec_at (i : nat) : fspec := nth i fspecs dummy_spec.

(* ---- file types: NewXxx(ms...).ToFIT() *)
Definition fcase := (nat * list msg * list obs)%type.
Definition check_case (c : fcase) : bool :=
  let '(i, ms, out) := c in list_eqb obs_eqb (map obs_of (file_of cmp (spec_at i) ms)) out.

(* ---- listener: one object, configured (NewListener / Reset) with a channel-buffer option, then fed sequences *)
Inductive lres := LDeadlock | LNoFile | LFile (i : nat) (out : list obs).
Definition lres_eqb (a b : lres) : bool :=
  match a, b with
  | LDeadlock, LDeadlock | LNoFile, LNoFile => true
  | LFile i x, LFile j y => Nat.eqb i j && list_eqb obs_eqb x y
  | _, _ => false
  end.
(* processMesg (recognised form checked by the translator): a file_id of a known type starts a new file, one of an unknown type is
   skipped leaving the file as it is; without a file messages are skipped *)
Definition proc (f : option (nat * state)) (m : msg) : option (nat * state) :=
  if m_num m =? 0 then
    match find (fun p => fst p =? m_aux m) filesets with
    | Some p => Some (snd p, add (spec_at (snd p)) (Filedef.init (spec_at (snd p))) m)
    | None => f
    end
  else match f with Some (i, st) => Some (i, add (spec_at i) st m) | None => None end.
Definition result_of (f : option (nat * state)) : lres :=
  match f with Some (i, st) => LFile i (map obs_of (to_fit cmp (spec_at i) st)) | None => LNoFile end.

(* run one sequence through the protocol model (one schedule) and build the file from what the worker processed *)
Definition run_sequence (Pn Bn Kn : nat) (ms : list msg) : option (list msg) :=
  let fuel := (8 * List.length ms + 4 * Kn + 16)%nat in
  let s := run Pn Bn Kn fuel (Listener.init Pn ms) in
  if final_b s then Some (processed s) else None.
Fixpoint run_sequences (Pn Bn Kn : nat) (seqs : list (list msg)) : list lres :=
  match seqs with
  | [] => []
  | ms :: r => match run_sequence Pn Bn Kn ms with
               | Some done => result_of (fold_left proc done None) :: run_sequences Pn Bn Kn r
               | None => [LDeadlock]            (* the harness abandons the object after a deadlock *)
               end
  end.
Fixpoint run_phases (o : lobj) (phases : list (nat * list (list msg))) : list lres :=
  match phases with
  | [] => []
  | (buf, seqs) :: r =>
      let o' := configure lspec o buf in
      let res := run_sequences (snd o') (queue_size lspec buf) (close_count lspec buf) seqs in
      if existsb (fun x => match x with LDeadlock => true | _ => false end) res then res else (res ++ run_phases o' r)%list
  end.
Definition lcase := (list (nat * list (list msg)) * list lres)%type.
Definition check_lcase (c : lcase) : bool := list_eqb lres_eqb (run_phases fresh_obj (fst c)) (snd c).

(* ---- diagnostics after a broken Inst obligation: which file type / which condition *)
Definition bad_specs : list (string * list string) :=
  flat_map (fun sp =>
    if wf_fspec sp then [] else
    [(fs_name sp, List.concat [
      (if nodupb (emit_order sp) then [] else ["a slot is emitted twice by ToFIT"%string]);
      (if forallb (fun s => memb s (emit_order sp)) (map ff_slot (fs_fields sp)) then [] else ["a struct field is not emitted by ToFIT"%string]);
      (if forallb (emit_ok sp) (fs_tofit sp) then [] else ["emission form does not fit the field kind"%string]);
      (if nodupb (map ac_slot (fs_add sp)) then [] else ["two Add cases fill the same field"%string]);
      (if forallb (case_ok sp) (fs_add sp) then [] else ["an Add case fills a field of another message type"%string]);
      (if forallb (fun f => fkind_eqb (ff_kind f) Unrelated || memb (ff_slot f) (map ac_slot (fs_add sp))) (fs_fields sp) then [] else ["a typed field is never filled by Add"%string]);
      (if prefix_ok sp then [] else ["prefix / sortStartPos"%string])])]) fspecs.
Definition sort_modes : list (string * option sort_mode) := map (fun sp => (fs_name sp, classify sp)) fspecs.
Definition not_all : list string := map fs_name (filter (fun sp => negb (is_all sp)) fspecs).
Definition pool_at_zero : nat := pool_size lspec 0.
Definition obligations : list (string * bool) :=
  [("forallb wf_fspec fspecs"%string, forallb wf_fspec fspecs); ("wf_cmp cmp"%string, wf_cmp cmp); ("filesets_ok"%string, filesets_ok);
   ("ts_names_ok"%string, ts_names_ok); ("wf_lspec lspec"%string, wf_lspec lspec)].
