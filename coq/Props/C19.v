(* C19 -- fitconv: FIT -> CSV -> FIT preserves messages and field values.
   Statements only; each is closed by [exact] of a lemma of Proofs/CsvProofs.v.  The model (Model/Csv.v) is at the level of
   rows of cells; fmtf / parse64 / parse32 stand for strconv (float text) and are universally quantified, with the facts the
   converter relies on as explicit hypotheses.  LEVEL: PARTIAL -- CSV quoting (encoding/csv) and float text are assumptions
   validated by the correspondence run, not proved. *)
From Coq Require Import NArith ZArith List Bool String.
Import ListNotations.
From Fit Require Import Model.Profile Model.Csv Proofs.CsvProofs gen.CsvConvMode gen.CsvNames.
Open Scope N_scope.
Open Scope list_scope.

(* the decimal codec used for every integer cell *)
Theorem C19_codec_N : forall n, parse_N (print_N n) = Some n.
Proof. exact parse_print_N. Qed.
Print Assumptions C19_codec_N.

Theorem C19_codec_Z : forall z, parse_Z (print_Z z) = Some z.
Proof. exact parse_print_Z. Qed.
Print Assumptions C19_codec_Z.

(* every line of the CSV -- header, definition rows, data rows -- has the header's number of cells, for every event list and
   every option set without trim.  Scope of the step from cells to text: names and units without comma / quote / line break
   (fit_to_csv.go writes them unquoted); developer field names with a comma are outside it (run as a remark), and so is the
   one profile field whose units contain a comma (C19_units_with_comma below: a finding). *)
Theorem C19_columns : forall fmtf o evs, o_trim o = false ->
  Forall (fun r => List.length r = List.length (header_row (w_max (run_events fmtf o evs)))) (fit_to_rows fmtf o evs).
Proof. exact columns_uniform. Qed.
Print Assumptions C19_columns.

Theorem C19_columns_trim : forall fmtf o evs, o_trim o = true ->
  Forall (fun r => (List.length r <= List.length (header_row (w_max (run_events fmtf o evs))))%nat) (fit_to_rows fmtf o evs).
Proof. exact columns_trim. Qed.
Print Assumptions C19_columns_trim.

(* finding units_with_comma: the scope hypothesis of the text step is false of the profile itself *)
Theorem C19_units_with_comma : forall w, first_unclean_units = Some w ->
  exists m f n u subs, w = (m, f, n, u, subs) /\ In w Fit.gen.FactoryNames.names /\ clean_text u = false.
Proof. exact units_with_comma_witness. Qed.
Print Assumptions C19_units_with_comma.

(* raw mode, one cell: for every integer base type and every value of its range, parseValue (print z) = z
   (the file-level statement C19_raw is assembled from this in C19_raw_partial below) *)
Theorem C19_raw_cell : forall parse64 parse32 bt pt s o units k bits sg z,
  int_shape bt = Some (k, bits, sg) -> (pt =? profile_bool) = false ->
  (String.eqb units units_degrees_parsed && (bt =? 133)) = false -> in_range bits sg z ->
  parse_value parse64 parse32 (print_Z z) bt pt s o units = Some (VOne k (SZ z)).
Proof. exact raw_int_cell. Qed.
Print Assumptions C19_raw_cell.

(* scaled (default) mode, one cell: reduced to the arithmetic obligation of C12,  to_int (discard (apply x s o) s o) = x  *)
Theorem C19_scaled : forall fmtf parse64 parse32 bt pt s o units k bits sg x,
  int_shape bt = Some (k, bits, sg) -> (pt =? profile_bool) = false ->
  (String.eqb units units_degrees_parsed && (bt =? 133)) = false ->
  is_unit_scale s o = false -> is_int_kind k = true ->
  let b := bits_of_float (apply_f (float_of_Z x) s o) in
  has_dot (fmtf false b) = true -> parse64 (fmtf false b) = Some b ->
  (parse_value parse64 parse32 (format_value fmtf (apply_value (VOne k (SZ x)) s o)) bt pt s o units = Some (VOne k (SZ x))
   <-> scaled_back bits sg s o x = x).
Proof. exact scaled_cell_iff. Qed.
Print Assumptions C19_scaled.

(* ... which fails for the conversion the source uses today (truncation): record.distance 16039 -> 16038 at scale 100.
   Finding trunc_loses_unit; classifier = trunc_loses_unit bits signed scale offset x (computable). *)
Theorem C19_scaled_refuted : parse_conv_mode = ConvTruncate ->
  exists bits sg s o x, in_range bits sg x /\ scaled_back bits sg s o x <> x /\ trunc_loses_unit bits sg s o x = true.
Proof. exact scaled_refuted. Qed.
Print Assumptions C19_scaled_refuted.

(* chained inputs: the FIT output has exactly one sequence per file_id row of the CSV (and one if there is none), whenever the
   conversion succeeds; fit_to_rows writes one "Data" row per message whose name cell is mesg_name(num), file_id's name
   resolves to 0 under every option set and no other profile name does (C19_file_id_name, C19_other_names: table facts).
   FULL STATEMENT (not proved, validated by the correspondence run on chains of 1..3 sequences):
     forall o evs seqs, rows_to_fit (fit_to_rows o evs) = Some seqs -> length seqs = max 1 (number of file_id messages in evs). *)
Theorem C19_chain_partial : forall parse64 parse32 rows seqs,
  rows_to_fit parse64 parse32 rows = Some seqs -> List.length seqs = Nat.max 1 (count_file_id_rows rows).
Proof. exact sequences_follow_file_id. Qed.
Print Assumptions C19_chain_partial.

Theorem C19_file_id_name : forall v, resolve_mesg_num (mesg_name v 0) = Some (Some 0).
Proof. exact file_id_name_resolves. Qed.
Print Assumptions C19_file_id_name.

Theorem C19_other_names :
  forallb (fun p => (fst p =? 0) || negb (match resolve_mesg_num (snd p) with Some (Some n) => n =? 0 | _ => false end)) mesg_names = true.
Proof. exact other_names_do_not_resolve_to_file_id. Qed.
Print Assumptions C19_other_names.

(* NOT PROVED (rung 1/2 of the ladder; the statements the cell lemmas above are meant to be assembled into):
   C19_raw     : forall fit, in_scope fit -> rows_to_fit (fit_to_rows raw_opts (events fit)) = Some (messages fit)
                 where in_scope = profile messages and fields, values of the field's kind and range, clean strings, no active
                 ambiguity (no expansion target present, unique developer names, distinct field numbers, >= 1 field per message);
                 proved here only per cell for the 14 integer base types (C19_raw_cell); strings, floats (text assumption),
                 sub-field reversal, developer fields and the row/file composition are covered by the correspondence run only.
   C19_verbose : the same with o_verbose = true including unknown(N) messages / fields and base-type recovery from the units cell
                 (FromString (String bt) = bt is a table fact of gen/CsvNames.v); correspondence only. *)

(* non-vacuity *)
Example C19_example_codec : parse_Z (print_Z (-16039)) = Some (-16039)%Z.
Proof. vm_compute. reflexivity. Qed.
Example C19_example_semicircles : to_semicircles (to_degrees_bits 495280430) = 495280430%Z.
Proof. vm_compute. reflexivity. Qed.
