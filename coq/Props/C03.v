(* C03 -- Decoding arbitrary bytes never panics, hangs or fakes success.
   On Model/Decoder.v + Model/Api.v, where every Go index, slice, wide read and divisor is a checked operation that
   yields [Panic] when Go would panic and every loop runs on fuel: for EVERY byte string, EVERY option set and EVERY history
   of entry-point calls, no step panics and no loop exhausts its fuel; errors are sticky.  The models are tied to decoder.go
   by differential execution on every run (outcome class and delivered messages), over arbitrary bytes and structure-aware
   mutations.  The raw decoder's fixed array is covered by C03_raw_slices_fit (lengths it computes) + C03_raw_array_suffices (declared
   array length, translated).  Typed-file listener and DecodeWithContext are covered by the Go oracle (recover + watchdog) and
   by C13's totality theorem, not by this file. *)
From Coq Require Import NArith List Bool.
Import ListNotations.
From Fit Require Import Model.Api Model.Raw Model.Crc gen.DecConst Proofs.DecoderSafety Proofs.ApiSafety Proofs.ApiProofs Proofs.RawSafety.
Open Scope N_scope.

(* full decode of a (possibly chained) stream: neither Panic nor OutOfFuel *)
Theorem C03_decode_total : forall c bs, match decode_stream c bs with Panic _ | OutOfFuel => False | _ => True end.
Proof. intros c bs. pose proof (decode_stream_safe c bs) as H. destruct (decode_stream c bs); exact H. Qed.
Print Assumptions C03_decode_total.

(* every entry point of the decoder object, after any history *)
Theorem C03_api_total : forall c bs ops, Forall (fun r => r <> RPanic /\ r <> RFuel) (api_run (api_new c bs) ops).
Proof. intros c bs ops. apply api_run_safe. apply api_new_inv. Qed.
Print Assumptions C03_api_total.

(* the bounds the code relies on, as the proof uses them *)
Theorem C03_wide_read_guard : forall big bt pt arr b, (arr = true \/ bt_size bt <= len b) -> safe (unmarshal big bt pt arr b).
Proof. exact unmarshal_safe. Qed.
Print Assumptions C03_wide_read_guard.

Theorem C03_width_is_basetype_size : forall bt t, bt_ntype bt = Some t -> N.of_nat (width t) = bt_size bt.
Proof. exact width_matches. Qed.
Print Assumptions C03_width_is_basetype_size.

(* after an error every entry point keeps returning it (until Reset); no FIT value accompanies an error by construction of [ares] *)
Theorem C03_sticky : forall a e o, a_err a = Some e -> (forall bs c, o <> AReset bs c) -> o <> ASeekStart ->
  fst (api_step a o) = a /\ (snd (api_step a o) = RErr e \/ snd (api_step a o) = RBool false \/ snd (api_step a o) = RIntegrity 0 (Some e)).
Proof. exact error_is_sticky. Qed.
Print Assumptions C03_sticky.

(* DecodeWithContext under a context that is already done returns the context's error, no FIT value, and the error is kept:
   every later entry point returns it (until Reset) -- never a FIT assembled from what had been decoded before *)
Theorem C03_context_error_is_kept : forall a o, a_err a = None -> (forall bs c, o <> AReset bs c) -> o <> ASeekStart ->
  let a1 := fst (api_step a ADecodeCancelled) in
  snd (api_step a ADecodeCancelled) = RErr E_Context /\ fst (api_step a1 o) = a1 /\
  (snd (api_step a1 o) = RErr E_Context \/ snd (api_step a1 o) = RBool false \/ snd (api_step a1 o) = RIntegrity 0 (Some E_Context)).
Proof.
  intros a o Hn Hr Hs. cbn zeta.
  assert (E : api_step a ADecodeCancelled = (fail a E_Context, RErr E_Context)) by (unfold api_step; rewrite Hn; reflexivity).
  rewrite E. cbn [fst snd]. split; [reflexivity|]. apply error_is_sticky; [reflexivity|exact Hr|exact Hs].
Qed.
Print Assumptions C03_context_error_is_kept.

(* raw decoder: every slice d.BytesArray[:n] it takes -- each emitted segment, each data-record length it stores -- has
   n <= 130051 for every byte stream, and the array declared in decoder/raw.go (translated: gen/DecConst.v) is that long *)
Theorem C03_raw_slices_fit : forall bs, bytes_ok bs -> res_ok (raw_decode bs).
Proof. exact raw_segments_fit. Qed.
Print Assumptions C03_raw_slices_fit.

Theorem C03_raw_lengths_bounded : forall s lens, st_ok s -> lens_ok lens ->
  match raw_record s lens with inl (s', lens') => st_ok s' /\ lens_ok lens' | inr _ => True end.
Proof. exact raw_record_lens. Qed.
Print Assumptions C03_raw_lengths_bounded.

Example C03_raw_array_suffices : (raw_bound <=? raw_array_len) = true.
Proof. vm_compute. reflexivity. Qed.

(* non-vacuity of the Panic modelling: the same scalar read without the guard does panic in the model *)
Example C03_unguarded_read_panics : unmarshal false bt_uint16 bt_uint16 false [7] = Panic P_Index.
Proof. vm_compute. reflexivity. Qed.

(* the raw decoder stops on every byte string and never reaches the model's "impossible" branches: no error code 98 (fuel of the
   model's loops exhausted -- every iteration consumes at least one byte) and no code 97 *)
From Fit Require Import Proofs.RawTotal.
Theorem C03_raw_total : forall bs, let '(_, _, e) := raw_decode bs in e <> Some 97 /\ e <> Some 98.
Proof. exact raw_decode_total. Qed.
Print Assumptions C03_raw_total.

(* the typed-file listener (filedef.Listener: decoder goroutine and worker goroutine over the channels poolc / mesgc / done,
   capacities read from listener.go on every run) never blocks the decoder forever and never livelocks, for EVERY
   channel-buffer option (0 included), every message list and every scheduling: every execution is finite, and a maximal one
   (nothing enabled any more) has reached the final state with every message handed over in order *)
Close Scope N_scope.
From Coq Require Import Arith.
From Fit Require Import Model.Listener gen.ListenerSpec Proofs.ListenerProofs Inst.ListenerInst.
Theorem C03_listener_never_deadlocks : forall (M : Type) (buf : nat) (ms : list M) s,
  maximal (pool_size lspec buf) (queue_size lspec buf) (close_count lspec buf) (Listener.init (pool_size lspec buf) ms) s ->
  final s /\ processed s = ms.
Proof.
  intros M buf ms s Hm. destruct (maximal_final _ _ _ ms s (pool_always_positive buf) Hm) as [Hf [Hp _]]. split; assumption.
Qed.
Print Assumptions C03_listener_never_deadlocks.
Theorem C03_listener_terminates : forall (M : Type) (P B K : nat), well_founded (fun s' s : @st M => In s' (steps P B K s)).
Proof. intros M P B K. exact (steps_wf P B K). Qed.
Print Assumptions C03_listener_terminates.
Theorem C03_listener_structure : wf_lspec lspec = true.
Proof. exact lspec_wf. Qed.
Print Assumptions C03_listener_structure.
