(* C03 -- Decoding arbitrary bytes never panics, hangs or fakes success.
   On Model/Decoder.v + Model/Api.v, where every Go index, slice, wide read and divisor is a checked operation that
   yields [Panic] when Go would panic and every loop runs on fuel: for EVERY byte string, EVERY option set and EVERY history
   of entry-point calls, no step panics and no loop exhausts its fuel; errors are sticky.  The models are tied to decoder.go
   by differential execution on every run (outcome class and delivered messages), over arbitrary bytes and structure-aware
   mutations.  Typed-file listener, raw decoder and DecodeWithContext are covered by the Go oracle (recover + watchdog) and by
   C13's totality theorem / C16, not by this file. *)
From Coq Require Import NArith List Bool.
Import ListNotations.
From Fit Require Import Model.Api Proofs.DecoderSafety Proofs.ApiSafety Proofs.ApiProofs.
Open Scope N_scope.

(* full decode of a (possibly chained) stream: neither Panic nor OutOfFuel *)
Theorem C03_decode_total : forall c bs, match decode_stream c bs with Panic _ | OutOfFuel => False | _ => True end.
Proof. intros c bs. pose proof (decode_stream_safe c bs) as H. destruct (decode_stream c bs); exact H. Qed.
Print Assumptions C03_decode_total.

(* every entry point of the decoder object, after any history *)
Theorem C03_api_total : forall c bs ops, Forall (fun r => r <> RPanic /\ r <> RFuel) (api_run (api_new c bs) ops).
Proof. intros c bs ops. apply api_run_safe. apply api_new_inv. Qed.
Print Assumptions C03_api_total.

(* the bounds the code relies on, as the proof uses them *)
Theorem C03_wide_read_guard : forall big bt pt arr b, (arr = true \/ bt_size bt <= len b) -> safe (unmarshal big bt pt arr b).
Proof. exact unmarshal_safe. Qed.
Print Assumptions C03_wide_read_guard.

Theorem C03_width_is_basetype_size : forall bt t, bt_ntype bt = Some t -> N.of_nat (width t) = bt_size bt.
Proof. exact width_matches. Qed.
Print Assumptions C03_width_is_basetype_size.

(* after an error every entry point keeps returning it (until Reset); no FIT value accompanies an error by construction of [ares] *)
Theorem C03_sticky : forall a e o, a_err a = Some e -> (forall bs c, o <> AReset bs c) -> o <> ASeekStart ->
  fst (api_step a o) = a /\ (snd (api_step a o) = RErr e \/ snd (api_step a o) = RBool false \/ snd (api_step a o) = RIntegrity 0 (Some e)).
Proof. exact error_is_sticky. Qed.
Print Assumptions C03_sticky.

(* non-vacuity of the Panic modelling: the same scalar read without the guard does panic in the model *)
Example C03_unguarded_read_panics : unmarshal false bt_uint16 bt_uint16 false [7] = Panic P_Index.
Proof. vm_compute. reflexivity. Qed.
