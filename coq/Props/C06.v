(* C06 -- Protocol values marshal to their declared size and unmarshal to themselves. *)
From Coq Require Import NArith List Bool.
Import ListNotations.
From Fit Require Import Model.Value Proofs.ValueProofs.
Open Scope N_scope.

(* every value, both byte orders: reported size = number of bytes marshalled *)
Theorem C06_size : forall big v m, marshal big v = Some m -> len m = size v.
Proof. exact size_marshal. Qed.
Print Assumptions C06_size.

(* every numeric scalar / array of any length, every base type the value aligns with, both byte orders *)
Theorem C06_roundtrip_scalar : forall big t x bt pt m, elt_ok t x = true -> numeric t -> bt_for t bt -> pt_for t pt ->
  marshal big (VNum t x) = Some m -> unmarshal big bt pt false m = Ok (VNum t x).
Proof. exact roundtrip_scalar. Qed.
Print Assumptions C06_roundtrip_scalar.

Theorem C06_roundtrip_array : forall big t l bt pt m, forallb (elt_ok t) l = true -> numeric t -> bt_for t bt -> pt_for t pt ->
  marshal big (VArr t l) = Some m -> unmarshal big bt pt true m = Ok (VArr t l).
Proof. exact roundtrip_array. Qed.
Print Assumptions C06_roundtrip_array.

(* bool: the constructor admits {0,1,255}; array elements > 1 come back as 255 (the documented bool normalisation) *)
Theorem C06_roundtrip_bool : forall big x bt m, (x < 2 \/ x = 255) -> bt_for TBool bt ->
  marshal big (VNum TBool x) = Some m -> unmarshal big bt pt_Bool false m = Ok (VNum TBool x).
Proof. exact roundtrip_bool. Qed.
Print Assumptions C06_roundtrip_bool.

Theorem C06_roundtrip_bool_array : forall big l bt m, Forall (fun x => x < 256) l -> bt_for TBool bt ->
  marshal big (VArr TBool l) = Some m -> unmarshal big bt pt_Bool true m = Ok (VArr TBool (map norm_bool l)).
Proof. exact roundtrip_bool_array. Qed.
Print Assumptions C06_roundtrip_bool_array.

(* strings: valid UTF-8 without NUL and without U+FFFD comes back unchanged (scalar and slices of non-empty strings) *)
Theorem C06_roundtrip_string : forall big s pt m, clean s ->
  marshal big (VStr s) = Some m -> unmarshal big bt_string pt false m = Ok (VStr s).
Proof. exact roundtrip_string. Qed.
Print Assumptions C06_roundtrip_string.

Theorem C06_roundtrip_strings : forall big ss pt m, Forall (fun s => clean s /\ s <> []) ss -> ss <> [] ->
  marshal big (VStrs ss) = Some m -> unmarshal big bt_string pt true m = Ok (VStrs ss).
Proof. exact roundtrip_strings. Qed.
Print Assumptions C06_roundtrip_strings.

(* no value of one type is reported as another: equal tags mean the same constructor and element type *)
Theorem C06_type_tag_injective : forall v w, type_tag v = type_tag w -> shape v = shape w.
Proof. exact type_tag_injective. Qed.
Print Assumptions C06_type_tag_injective.

(* the full statement "every valid UTF-8 string without NUL round-trips" is FALSE of the faithful model (and of the
   code): a validly encoded U+FFFD is dropped.  Known finding string_contains_U+FFFD (pinned by TestUTF8String). *)
Theorem C06_string_refuted : exists s, utf8_valid s = true /\ ~ In 0 s /\
  unmarshal false bt_string pt_String false (str_bytes s) <> Ok (VStr s).
Proof. exists [0x61; 0xEF; 0xBF; 0xBD; 0x62]. split; [reflexivity|]. split; [cbn; intuition discriminate|]. vm_compute. discriminate. Qed.
Print Assumptions C06_string_refuted.

(* non-vacuity *)
Example C06_clean_example : clean [0x61; 0xC3; 0xA9].
Proof. apply (clean_seq 1 [0x61] [0xC3; 0xA9]); [reflexivity|reflexivity|discriminate|reflexivity|].
  apply (clean_seq 2 [0xC3; 0xA9] []); [reflexivity|reflexivity|discriminate|reflexivity|constructor]. Qed.
