(* C01 -- Encode then decode returns the messages that were written.
   Status: the byte-level encoder (Model/Encoder.v) and decoder (Model/Decoder.v) are tied to the implementation by
   differential execution on every run; the theorems below are the parts of the round trip proved so far on those models
   (value level: Props/C06.v; accumulated size/CRC: Props/C02.v; compressed timestamps for every message sequence), and
   executable instances.  The full statement, kept visible:

     forall c f r, wf_input f -> encode_fit c f = Ok r ->
       decode_stream (mkcfg true false 4096) (er_bytes r) = Ok [fit with messages = expected c (er_msgs r)]

   where [expected] moves the timestamp of a compressed message to the front and applies C06's string normalisation. *)
From Coq Require Import NArith List Bool Lia.
Import ListNotations.
From Fit Require Import Model.Encoder Proofs.ValueProofs Proofs.TimestampProofs Proofs.RoundtripSeq Proofs.RoundtripComp Proofs.RoundtripChain.
Open Scope N_scope.

Definition rec (ts hr : N) : message :=
  mkmsg 0 mesgnum_Record [set_value (create_field mesgnum_Record 253) (VNum TU32 ts); set_value (create_field mesgnum_Record 3) (VNum TU8 hr)] [].
Definition timestamps (ms : list message) : list N := map (fun m => u32_of (field_value_by_num (m_fields m) FieldNumTimestamp)) ms.
Definition decoded_timestamps (r : outcome (list fit)) : list N :=
  match r with Ok fs => flat_map (fun f => timestamps (fit_msgs f)) fs | _ => [] end.
Definition cfg_compressed := mkecfg false true 0 proto_V2 false.
Definition t0 : N := 1000000000.
Definition back_file := mkefile 14 0 0 [rec t0 1; rec (t0 + 10) 2; rec (t0 + 5) 3; rec (t0 + 6) 4].
Definition mono_file := mkefile 14 0 0 [rec t0 1; rec (t0 + 10) 2; rec (t0 + 15) 3; rec (t0 + 60) 4; rec (t0 + 61) 5].

(* a field that was written with its matching base type is read back unchanged (value level of the round trip) *)
Theorem C01_field_value_scalar : forall big t x bt pt m, elt_ok t x = true -> numeric t -> bt_for t bt -> pt_for t pt ->
  marshal big (VNum t x) = Some m -> unmarshal big bt pt false m = Ok (VNum t x).
Proof. exact roundtrip_scalar. Qed.
Print Assumptions C01_field_value_scalar.

Theorem C01_field_value_array : forall big t l bt pt m, forallb (elt_ok t) l = true -> numeric t -> bt_for t bt -> pt_for t pt ->
  marshal big (VArr t l) = Some m -> unmarshal big bt pt true m = Ok (VArr t l).
Proof. exact roundtrip_array. Qed.
Print Assumptions C01_field_value_array.

(* compressed timestamps: for EVERY sequence of messages (with or without a uint32 timestamp field; wrap-around, invalid and
   pre-DateTimeMin values included) the decoder's clock reconstructs exactly the timestamps the encoder compressed or wrote.
   Rests on the translated fact that the encoder tracks the last written timestamp (fix: 0d6e112); on the pinned tree the
   flag is false, this obligation fails and [t, t+10, t+5, t+6] decodes as [t, t+10, t+37, t+38]. *)
Theorem C01_timestamps : forall ms, Forall ts_ok ms -> run_dec (0, 0) (run_enc 0 0 ms) = map ts_field_u32 ms.
Proof. apply timestamps_roundtrip_init. reflexivity. Qed.
Print Assumptions C01_timestamps.

(* the former witness of the violation now round-trips *)
Example C01_back_in_window_instance :
  match encode_fit cfg_compressed back_file with
  | Ok r => decoded_timestamps (decode_stream (mkcfg true false 4096) (er_bytes r)) = [t0; t0 + 10; t0 + 5; t0 + 6]
  | _ => False
  end.
Proof. vm_compute. reflexivity. Qed.

(* executable instance: non-decreasing timestamps inside and across the window come back exactly *)
Example C01_monotone_instance :
  match encode_fit cfg_compressed mono_file with
  | Ok r => decoded_timestamps (decode_stream (mkcfg true false 4096) (er_bytes r)) = timestamps (ef_msgs mono_file)
  | _ => False
  end.
Proof. vm_compute. reflexivity. Qed.

(* sequence level (normal headers, no developer fields): for EVERY list of messages whose fields round-trip at the value level
   ([msg_rt]: the decoder's own reading of the field's definition -- the profile's field, or an unknown field typed by the base type --
   filled with what [unmarshal] makes of what [marshal] wrote is the field itself; 1..255 bytes, at least one base-type unit; numeric
   scalars and arrays and clean strings of known fields, numeric scalars and arrays of unknown fields satisfy it: C01_*_qualify), under
   every encoder option set with normal headers (byte order, number of local message types 1..16 -- so every pattern of LRU
   hits, free slots and evictions --, header size 12/14, protocol version) and every read-buffer size, decoding what
   encode_fit wrote yields exactly one sequence whose messages are, in order, the validated input messages (number, fields with
   their values, no developer fields).  The decoder runs with checksum verification and component expansion switched off
   (CRC acceptance of the same bytes: Props/C04.v C04_encoder_output_accepted; expansion only appends marked fields: Props/C05.v). *)
Theorem C01_sequence_roundtrip : forall c f r dc,
  e_compressed c = false -> c_checksum dc = false -> c_expand dc = false -> 765 <= c_bufsize dc ->
  encode_fit c f = Ok r -> Forall (msg_rt (e_big c)) (er_msgs r) -> len (er_bytes r) < 4294967296 ->
  exists ft, decode_stream dc (er_bytes r) = Ok [ft] /\ map content (fit_msgs ft) = map content (er_msgs r).
Proof. exact encode_decode_roundtrip. Qed.
Print Assumptions C01_sequence_roundtrip.

Theorem C01_numeric_fields_qualify : forall big mn f t x,
  create_field mn (f_num f) = mkfield (f_fb f) true VInvalid false -> f_known f = true -> f_expanded f = false ->
  f_value f = VNum t x -> elt_ok t x = true -> numeric t -> bt_for t (f_base f) -> pt_for t (fb_ptype (f_fb f)) -> fb_array (f_fb f) = false ->
  field_rt big mn f.
Proof. exact field_rt_scalar. Qed.
Print Assumptions C01_numeric_fields_qualify.

(* unknown fields (not in the profile): typed by the base type of the definition *)
Theorem C01_unknown_fields_qualify : forall big mn f t x, factory mn (f_num f) = None -> f_known f = false -> f_expanded f = false ->
  f_value f = VNum t x -> elt_ok t x = true -> numeric t -> bt_for t (f_base f) -> pt_for t (N.land (f_base f) BaseTypeNumMask) ->
  f_fb f = with_type (unknown_fb (f_num f)) (f_base f) (N.land (f_base f) BaseTypeNumMask) false -> field_rt big mn f.
Proof. exact field_rt_unknown_scalar. Qed.
Print Assumptions C01_unknown_fields_qualify.

Theorem C01_unknown_arrays_qualify : forall big mn f t l, factory mn (f_num f) = None -> f_known f = false -> f_expanded f = false ->
  f_value f = VArr t l -> forallb (elt_ok t) l = true -> numeric t -> bt_for t (f_base f) -> pt_for t (N.land (f_base f) BaseTypeNumMask) ->
  f_fb f = with_type (unknown_fb (f_num f)) (f_base f) (N.land (f_base f) BaseTypeNumMask) true ->
  2 <= len l -> len l * N.of_nat (width t) <= 255 -> field_rt big mn f.
Proof. exact field_rt_unknown_array. Qed.
Print Assumptions C01_unknown_arrays_qualify.

Theorem C01_strings_qualify : forall big mn f s, create_field mn (f_num f) = mkfield (f_fb f) true VInvalid false -> f_known f = true -> f_expanded f = false ->
  f_value f = VStr s -> clean s -> f_base f = bt_string -> fb_array (f_fb f) = false -> str_size s <= 255 -> field_rt big mn f.
Proof. exact field_rt_string. Qed.
Print Assumptions C01_strings_qualify.

Theorem C01_numeric_arrays_qualify : forall big mn f t l,
  create_field mn (f_num f) = mkfield (f_fb f) true VInvalid false -> f_known f = true -> f_expanded f = false ->
  f_value f = VArr t l -> forallb (elt_ok t) l = true -> numeric t -> bt_for t (f_base f) -> pt_for t (fb_ptype (f_fb f)) -> fb_array (f_fb f) = true ->
  l <> [] -> len l * N.of_nat (width t) <= 255 -> field_rt big mn f.
Proof. exact field_rt_array. Qed.
Print Assumptions C01_numeric_arrays_qualify.

(* the hypotheses are satisfiable: a file whose record messages alternate between two shapes with ONE local message type
   (every change of shape evicts the other definition), big-endian *)
Definition rec2 (ts hr cad : N) : message :=
  mkmsg 0 mesgnum_Record [set_value (create_field mesgnum_Record 253) (VNum TU32 ts); set_value (create_field mesgnum_Record 3) (VNum TU8 hr);
                          set_value (create_field mesgnum_Record 4) (VNum TU8 cad)] [].
Definition cfg_one_slot := mkecfg true false 0 proto_V2 false.
Definition evict_file := mkefile 14 0 0 [rec t0 1; rec2 (t0 + 1) 2 80; rec (t0 + 2) 3; rec (t0 + 2) 4; rec2 (t0 + 3) 5 81].
Lemma rec_rt ts hr : ts < 4294967296 -> hr < 256 -> msg_rt true (rec ts hr).
Proof.
  intros Ht Hh. unfold msg_rt, rec. cbn [m_devs m_fields m_num length]. split; [reflexivity|]. split; [lia|]. split; [vm_compute; reflexivity|].
  constructor; [|constructor; [|constructor]].
  - eapply field_rt_scalar with (t := TU32) (x := ts); try reflexivity; try exact I; [apply N.ltb_lt; exact Ht|split; [discriminate|reflexivity]].
  - eapply field_rt_scalar with (t := TU8) (x := hr); try reflexivity; try exact I; [apply N.ltb_lt; exact Hh|split; [discriminate|reflexivity]|discriminate].
Qed.
Lemma rec2_rt ts hr cad : ts < 4294967296 -> hr < 256 -> cad < 256 -> msg_rt true (rec2 ts hr cad).
Proof.
  intros Ht Hh Hc. unfold msg_rt, rec2. cbn [m_devs m_fields m_num length]. split; [reflexivity|]. split; [lia|]. split; [vm_compute; reflexivity|].
  constructor; [|constructor; [|constructor; [|constructor]]].
  - eapply field_rt_scalar with (t := TU32) (x := ts); try reflexivity; try exact I; [apply N.ltb_lt; exact Ht|split; [discriminate|reflexivity]].
  - eapply field_rt_scalar with (t := TU8) (x := hr); try reflexivity; try exact I; [apply N.ltb_lt; exact Hh|split; [discriminate|reflexivity]|discriminate].
  - eapply field_rt_scalar with (t := TU8) (x := cad); try reflexivity; try exact I; [apply N.ltb_lt; exact Hc|split; [discriminate|reflexivity]|discriminate].
Qed.
Example C01_sequence_instance :
  exists r, encode_fit cfg_one_slot evict_file = Ok r /\ Forall (msg_rt true) (er_msgs r) /\ len (er_bytes r) < 4294967296 /\ len (er_bytes r) = 102.
Proof.
  assert (E : exists r, encode_fit cfg_one_slot evict_file = Ok r /\ er_msgs r = ef_msgs evict_file /\ len (er_bytes r) = 102)
    by (eexists; split; [vm_compute; reflexivity|split; vm_compute; reflexivity]).
  destruct E as (r & E & Em & El). exists r. split; [exact E|]. rewrite Em, El. split; [|split; [reflexivity|reflexivity]].
  unfold evict_file. cbn [ef_msgs].
  repeat (apply Forall_cons; [first [apply rec_rt; vm_compute; reflexivity | apply rec2_rt; vm_compute; reflexivity]|]). apply Forall_nil.
Qed.

(* the same with the compressed-timestamp header option (1..4 local message types): a message whose timestamp lies within 32 s
   after the last written one goes out with the timestamp in its record header; the decoder rebuilds the field from its clock
   and puts it in front.  For every list of messages that round-trip at the value level and carry at most one timestamp field
   ([msg_rtc]), decoding yields the same messages in order, each with its fields as written or with the timestamp field -- the
   ORIGINAL field, value included -- moved to the front ([msg_sim]).  Joins the LRU/framing induction with the clock invariant
   of C01_timestamps (encoder's last written timestamp = decoder's clock); rests on the translated flag (fix: 0d6e112). *)
Theorem C01_sequence_roundtrip_compressed : forall c f r dc,
  e_compressed c = true -> encoder_tracks_last_timestamp = true -> c_checksum dc = false -> c_expand dc = false -> 765 <= c_bufsize dc ->
  encode_fit c f = Ok r -> Forall (msg_rtc (e_big c)) (er_msgs r) -> len (er_bytes r) < 4294967296 ->
  exists ft, decode_stream dc (er_bytes r) = Ok [ft] /\ Forall2 msg_sim (fit_msgs ft) (er_msgs r).
Proof. exact encode_decode_roundtrip_compressed. Qed.
Print Assumptions C01_sequence_roundtrip_compressed.

(* satisfiable, on the former witness of the timestamp defect [t, t+10, t+5, t+6] *)
Lemma rec_rtc ts hr : ts < 4294967296 -> hr < 256 -> msg_rtc false (rec ts hr).
Proof.
  intros Ht Hh. split; [|split; [|split]].
  - unfold msg_rt, rec. cbn [m_devs m_fields m_num length]. split; [reflexivity|]. split; [lia|]. split; [vm_compute; reflexivity|].
    constructor; [|constructor; [|constructor]].
    + eapply field_rt_scalar with (t := TU32) (x := ts); try reflexivity; try exact I; [apply N.ltb_lt; exact Ht|split; [discriminate|reflexivity]].
    + eapply field_rt_scalar with (t := TU8) (x := hr); try reflexivity; try exact I; [apply N.ltb_lt; exact Hh|split; [discriminate|reflexivity]|discriminate].
  - unfold ts_unique, rec. cbn. lia.
  - unfold ts_ok, rec. cbn. exact Ht.
  - unfold ts_known, rec. cbn [m_fields m_num]. intros f Hf. vm_compute in Hf. injection Hf as <-. split; [vm_compute; reflexivity|split; reflexivity].
Qed.
Example C01_compressed_instance :
  encoder_tracks_last_timestamp = true /\
  exists r, encode_fit cfg_compressed back_file = Ok r /\ Forall (msg_rtc false) (er_msgs r) /\ len (er_bytes r) < 4294967296.
Proof.
  split; [reflexivity|].
  assert (E : exists r, encode_fit cfg_compressed back_file = Ok r /\ er_msgs r = ef_msgs back_file /\ len (er_bytes r) < 4294967296)
    by (eexists; split; [vm_compute; reflexivity|split; vm_compute; reflexivity]).
  destruct E as (r & E & Em & El). exists r. split; [exact E|]. rewrite Em. split; [|exact El].
  unfold back_file. cbn [ef_msgs].
  repeat (apply Forall_cons; [apply rec_rtc; vm_compute; reflexivity|]). apply Forall_nil.
Qed.

(* chained files: the encoder's output for a list of files is the concatenation of the single outputs, and the decoder, looping
   over the stream as a caller does, returns one sequence per file, each related to its input as above: every sequence is left in
   the state a fresh decoder starts in, so sequences do not interfere.  Any number of files. *)
Theorem C01_chain_roundtrip : forall c dc fs out, e_compressed c = false -> c_checksum dc = false -> c_expand dc = false -> 765 <= c_bufsize dc ->
  fs <> [] -> encode_fits c fs [] = Ok out ->
  exists rs, Forall2 (fun f r => encode_fit c f = Ok r) fs rs /\ out = concat (map er_bytes rs) /\
    (Forall (fun r => Forall (msg_rt (e_big c)) (er_msgs r) /\ len (er_bytes r) < 4294967296) rs ->
     exists fts, decode_stream dc out = Ok fts /\ Forall2 (fun ft r => map content (fit_msgs ft) = map content (er_msgs r)) fts rs).
Proof. exact chain_roundtrip_normal. Qed.
Print Assumptions C01_chain_roundtrip.

Theorem C01_chain_roundtrip_compressed : forall c dc fs out, e_compressed c = true -> encoder_tracks_last_timestamp = true ->
  c_checksum dc = false -> c_expand dc = false -> 765 <= c_bufsize dc ->
  fs <> [] -> encode_fits c fs [] = Ok out ->
  exists rs, Forall2 (fun f r => encode_fit c f = Ok r) fs rs /\ out = concat (map er_bytes rs) /\
    (Forall (fun r => Forall (msg_rtc (e_big c)) (er_msgs r) /\ len (er_bytes r) < 4294967296) rs ->
     exists fts, decode_stream dc out = Ok fts /\ Forall2 (fun ft r => Forall2 msg_sim (fit_msgs ft) (er_msgs r)) fts rs).
Proof. exact chain_roundtrip_compressed. Qed.
Print Assumptions C01_chain_roundtrip_compressed.

(* developer fields (normal headers): a developer field is typed by the FIRST field description with its index and number among the
   field_description messages of the sequence so far (the message itself included).  For every list of messages whose fields
   round-trip at the value level and whose developer fields round-trip under the description in force at their position
   ([msgs_rtd], threading the description list through the messages), single or chained files, decoding yields the same messages:
   numbers, fields, developer fields (number, developer data index, value), in order. *)
From Fit Require Import Proofs.RoundtripDev.
Theorem C01_chain_roundtrip_dev : forall c dc fs out, e_compressed c = false -> c_checksum dc = false -> c_expand dc = false -> 765 <= c_bufsize dc ->
  fs <> [] -> encode_fits c fs [] = Ok out ->
  exists rs, Forall2 (fun f r => encode_fit c f = Ok r) fs rs /\ out = concat (map er_bytes rs) /\
    (Forall (fun r => msgs_rtd (e_big c) [] (er_msgs r) /\ len (er_bytes r) < 4294967296) rs ->
     exists fts, decode_stream dc out = Ok fts /\ Forall2 (fun ft r => map content (fit_msgs ft) = map content (er_msgs r)) fts rs).
Proof. exact chain_roundtrip_dev. Qed.
Print Assumptions C01_chain_roundtrip_dev.

(* satisfiable: developer_data_id, field_description (field 7 of developer 0 is a uint8), then a record carrying that developer field *)
Definition dev_file := mkefile 14 0 0
  [mkmsg 0 mesgnum_DeveloperDataId [set_value (create_field mesgnum_DeveloperDataId 3) (VNum TU8 0)] [];
   mkmsg 0 mesgnum_FieldDescription [set_value (create_field mesgnum_FieldDescription 0) (VNum TU8 0); set_value (create_field mesgnum_FieldDescription 1) (VNum TU8 7);
                                     set_value (create_field mesgnum_FieldDescription 2) (VNum TU8 2)] [];
   mkmsg 0 mesgnum_Record [set_value (create_field mesgnum_Record 253) (VNum TU32 t0); set_value (create_field mesgnum_Record 3) (VNum TU8 61)] [mkdev 7 0 (VNum TU8 99)]].
Ltac u8field := eapply field_rt_scalar with (t := TU8); try reflexivity; try exact I; [split; [discriminate|reflexivity]|discriminate].
Example C01_dev_instance :
  exists r, encode_fit (mkecfg false false 2 proto_V2 false) dev_file = Ok r /\ msgs_rtd false [] (er_msgs r) /\ len (er_bytes r) < 4294967296
            /\ exists m, nth_error (er_msgs r) 2 = Some m /\ m_devs m = [mkdev 7 0 (VNum TU8 99)].
Proof.
  assert (E : exists r, encode_fit (mkecfg false false 2 proto_V2 false) dev_file = Ok r /\ er_msgs r = ef_msgs dev_file /\ len (er_bytes r) < 4294967296)
    by (eexists; split; [vm_compute; reflexivity|split; vm_compute; reflexivity]).
  destruct E as (r & E & Em & El). exists r. split; [exact E|]. rewrite Em. split; [|split; [exact El|eexists; split; reflexivity]].
  unfold dev_file. cbn [ef_msgs msgs_rtd]. split; [|split; [|split; [|exact I]]].
  - unfold msg_rtd. cbn [m_fields m_devs m_num length]. split; [lia|]. split; [lia|]. split; [vm_compute; reflexivity|]. split; [|constructor].
    constructor; [u8field|constructor].
  - unfold msg_rtd. cbn [m_fields m_devs m_num length]. split; [lia|]. split; [lia|]. split; [vm_compute; reflexivity|]. split; [|constructor].
    constructor; [u8field|constructor; [u8field|constructor; [u8field|constructor]]].
  - unfold msg_rtd. cbn [m_fields m_devs m_num length]. split; [lia|]. split; [lia|]. split; [vm_compute; reflexivity|]. split.
    + constructor; [eapply field_rt_scalar with (t := TU32); try reflexivity; try exact I; split; [discriminate|reflexivity]|constructor; [u8field|constructor]].
    + constructor; [|constructor]. unfold dev_rt. eexists. eexists. split; [vm_compute; reflexivity|]. split; [reflexivity|]. split; [reflexivity|].
      split; [vm_compute; split; [reflexivity|discriminate]|]. split; [vm_compute; discriminate|vm_compute; reflexivity].
Qed.

(* the same for EVERY decoder option set with component expansion off -- checksum verification on (the default) or off, any
   read-buffer size: with verification on, the header CRC the encoder wrote is the CRC of the header's first 12 bytes, every
   record byte is hashed while it is decoded and the running value meets the stored file CRC, so neither check fails.
   These two are the strongest forms: single or chained files; known and unknown fields, developer fields (normal headers);
   compressed-timestamp headers. *)
From Fit Require Import Proofs.RoundtripCk.
Theorem C01_roundtrip : forall c dc fs out, e_compressed c = false -> c_expand dc = false -> 765 <= c_bufsize dc ->
  fs <> [] -> encode_fits c fs [] = Ok out ->
  exists rs, Forall2 (fun f r => encode_fit c f = Ok r) fs rs /\ out = concat (map er_bytes rs) /\
    (Forall (fun r => msgs_rtd (e_big c) [] (er_msgs r) /\ len (er_bytes r) < 4294967296 /\ bytes_ok (er_bytes r)) rs ->
     exists fts, decode_stream dc out = Ok fts /\ Forall2 (fun ft r => map content (fit_msgs ft) = map content (er_msgs r)) fts rs).
Proof. exact roundtrip_any. Qed.
Print Assumptions C01_roundtrip.

Theorem C01_roundtrip_compressed : forall c dc fs out, e_compressed c = true -> encoder_tracks_last_timestamp = true -> c_expand dc = false -> 765 <= c_bufsize dc ->
  fs <> [] -> encode_fits c fs [] = Ok out ->
  exists rs, Forall2 (fun f r => encode_fit c f = Ok r) fs rs /\ out = concat (map er_bytes rs) /\
    (Forall (fun r => Forall (msg_rtc (e_big c)) (er_msgs r) /\ len (er_bytes r) < 4294967296 /\ bytes_ok (er_bytes r)) rs ->
     exists fts, decode_stream dc out = Ok fts /\ Forall2 (fun ft r => Forall2 msg_sim (fit_msgs ft) (er_msgs r)) fts rs).
Proof. exact roundtrip_compressed_any. Qed.
Print Assumptions C01_roundtrip_compressed.

(* the compressed-timestamp option in full generality: developer fields AND timestamps moved into record headers (the remaining
   combination of options): single or chained files, any decoder option set with expansion off.  [msgs_all]: fields and developer
   fields round-trip at the value level (descriptions threaded through the sequence), at most one timestamp field, which is the
   profile's; field_description messages carry no timestamp. *)
From Fit Require Import Proofs.RoundtripAll.
Theorem C01_roundtrip_all_compressed : forall c dc fs out, e_compressed c = true -> encoder_tracks_last_timestamp = true -> c_expand dc = false -> 765 <= c_bufsize dc ->
  fs <> [] -> encode_fits c fs [] = Ok out ->
  exists rs, Forall2 (fun f r => encode_fit c f = Ok r) fs rs /\ out = concat (map er_bytes rs) /\
    (Forall (fun r => msgs_all (e_big c) [] (er_msgs r) /\ len (er_bytes r) < 4294967296 /\ bytes_ok (er_bytes r)) rs ->
     exists fts, decode_stream dc out = Ok fts /\ Forall2 (fun ft r => Forall2 msg_simd (fit_msgs ft) (er_msgs r)) fts rs).
Proof. exact roundtrip_all_compressed. Qed.
Print Assumptions C01_roundtrip_all_compressed.

(* satisfiable: developer_data_id, field_description, then two records 5 s apart that both carry the developer field *)
Definition dev_file_c := mkefile 14 0 0
  [mkmsg 0 mesgnum_DeveloperDataId [set_value (create_field mesgnum_DeveloperDataId 3) (VNum TU8 0)] [];
   mkmsg 0 mesgnum_FieldDescription [set_value (create_field mesgnum_FieldDescription 0) (VNum TU8 0); set_value (create_field mesgnum_FieldDescription 1) (VNum TU8 7);
                                     set_value (create_field mesgnum_FieldDescription 2) (VNum TU8 2)] [];
   mkmsg 0 mesgnum_Record [set_value (create_field mesgnum_Record 253) (VNum TU32 t0); set_value (create_field mesgnum_Record 3) (VNum TU8 61)] [mkdev 7 0 (VNum TU8 99)];
   mkmsg 0 mesgnum_Record [set_value (create_field mesgnum_Record 253) (VNum TU32 (t0 + 5)); set_value (create_field mesgnum_Record 3) (VNum TU8 62)] [mkdev 7 0 (VNum TU8 98)]].
Ltac ts_side := split; [unfold ts_unique; cbn; lia|split; [unfold ts_ok; vm_compute; first [exact I | reflexivity]|split; [unfold ts_known; cbn [m_fields m_num]; intros f Hf; vm_compute in Hf; first [discriminate Hf | injection Hf as <-; split; [vm_compute; reflexivity|split; reflexivity]]|intros Hn; vm_compute in Hn; first [discriminate Hn | vm_compute; reflexivity]]]].
Example C01_all_instance :
  exists r, encode_fit cfg_compressed dev_file_c = Ok r /\ msgs_all false [] (er_msgs r) /\ len (er_bytes r) < 4294967296.
Proof.
  assert (E : exists r, encode_fit cfg_compressed dev_file_c = Ok r /\ er_msgs r = ef_msgs dev_file_c /\ len (er_bytes r) < 4294967296)
    by (eexists; split; [vm_compute; reflexivity|split; vm_compute; reflexivity]).
  destruct E as (r & E & Em & El). exists r. split; [exact E|]. rewrite Em. split; [|exact El].
  unfold dev_file_c. cbn [ef_msgs msgs_all]. split; [|split; [|split; [|split; [|exact I]]]].
  - split; [|ts_side]. unfold msg_rtd. cbn [m_fields m_devs m_num length]. split; [lia|]. split; [lia|]. split; [vm_compute; reflexivity|]. split; [|constructor].
    constructor; [u8field|constructor].
  - split; [|ts_side]. unfold msg_rtd. cbn [m_fields m_devs m_num length]. split; [lia|]. split; [lia|]. split; [vm_compute; reflexivity|]. split; [|constructor].
    constructor; [u8field|constructor; [u8field|constructor; [u8field|constructor]]].
  - split; [|ts_side]. unfold msg_rtd. cbn [m_fields m_devs m_num length]. split; [lia|]. split; [lia|]. split; [vm_compute; reflexivity|]. split.
    + constructor; [eapply field_rt_scalar with (t := TU32); try reflexivity; try exact I; split; [discriminate|reflexivity]|constructor; [u8field|constructor]].
    + constructor; [|constructor]. unfold dev_rt. eexists. eexists. split; [vm_compute; reflexivity|]. split; [reflexivity|]. split; [reflexivity|].
      split; [vm_compute; split; [reflexivity|discriminate]|]. split; [vm_compute; discriminate|vm_compute; reflexivity].
  - split; [|ts_side]. unfold msg_rtd. cbn [m_fields m_devs m_num length]. split; [lia|]. split; [lia|]. split; [vm_compute; reflexivity|]. split.
    + constructor; [eapply field_rt_scalar with (t := TU32); try reflexivity; try exact I; split; [discriminate|reflexivity]|constructor; [u8field|constructor]].
    + constructor; [|constructor]. unfold dev_rt. eexists. eexists. split; [vm_compute; reflexivity|]. split; [reflexivity|]. split; [reflexivity|].
      split; [vm_compute; split; [reflexivity|discriminate]|]. split; [vm_compute; discriminate|vm_compute; reflexivity].
Qed.

(* ... and for every writer kind, write-buffer size and caller-preset data size, batch or stream encoder (C09 composed with the
   above): the destination ends up holding the bytes of encode_fits, and decoding the destination content yields the messages *)
From Fit Require Import Model.Writer Proofs.RoundtripWriter.
Theorem C01_roundtrip_any_writer : forall c dc k size fs (ps : list (eparts * N)), e_compressed c = false -> c_expand dc = false -> 765 <= c_bufsize dc ->
  fs <> [] -> Forall2 (fun f x => encode_parts c f = Ok (fst x)) fs ps ->
  exists w' rs, encode_chain (wst_new k size [] None) ps [] = (repeat false (length ps), w')
    /\ Forall2 (fun f r => encode_fit c f = Ok r) fs rs /\ final_bytes w' = concat (map er_bytes rs)
    /\ (Forall (fun r => msgs_rtd (e_big c) [] (er_msgs r) /\ len (er_bytes r) < 4294967296 /\ bytes_ok (er_bytes r)) rs ->
        exists fts, decode_stream dc (final_bytes w') = Ok fts /\ Forall2 (fun ft r => map content (fit_msgs ft) = map content (er_msgs r)) fts rs).
Proof. exact roundtrip_any_writer. Qed.
Print Assumptions C01_roundtrip_any_writer.

Theorem C01_roundtrip_stream_writer : forall c dc k size fs (ps : list eparts), e_compressed c = false -> c_expand dc = false -> 765 <= c_bufsize dc ->
  fs <> [] -> Forall2 (fun f p => encode_parts c f = Ok p) fs ps -> (can_seek k || can_writeat k = true)%bool ->
  exists w' rs, stream_chain (wst_new k size [] None) ps 0 [] = (repeat false (length ps), w')
    /\ Forall2 (fun f r => encode_fit c f = Ok r) fs rs /\ final_bytes w' = concat (map er_bytes rs)
    /\ (Forall (fun r => msgs_rtd (e_big c) [] (er_msgs r) /\ len (er_bytes r) < 4294967296 /\ bytes_ok (er_bytes r)) rs ->
        exists fts, decode_stream dc (final_bytes w') = Ok fts /\ Forall2 (fun ft r => map content (fit_msgs ft) = map content (er_msgs r)) fts rs).
Proof. exact roundtrip_stream_writer. Qed.
Print Assumptions C01_roundtrip_stream_writer.

(* ... and the stream encoder at message level (WriteMessage per message with the state kept between calls, SequenceCompleted
   with Encoder.reset as translated from the source): whatever it accepts and writes is an output of encode_fits for the same
   message lists under the stream encoder's zero header, so every round-trip statement above applies to it unchanged *)
From Fit Require Import Model.Stream Proofs.StreamProofs.
Theorem C01_stream_output_is_encode_fits : forall c fs out, stream_bytes c fs = Ok out ->
  encode_fits c (map (mkefile 0 0 0) fs) [] = Ok out.
Proof. exact stream_bytes_are_encode_fits. Qed.
Print Assumptions C01_stream_output_is_encode_fits.
