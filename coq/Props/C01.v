(* C01 -- Encode then decode returns the messages that were written.
   Status: the byte-level encoder (Model/Encoder.v) and decoder (Model/Decoder.v) are tied to the implementation by
   differential execution on every run; the theorems below are the parts of the round trip proved so far on those models
   (value level: Props/C06.v; accumulated size/CRC: Props/C02.v; compressed timestamps for every message sequence), and
   executable instances.  The full statement, kept visible:

     forall c f r, wf_input f -> encode_fit c f = Ok r ->
       decode_stream (mkcfg true false 4096) (er_bytes r) = Ok [fit with messages = expected c (er_msgs r)]

   where [expected] moves the timestamp of a compressed message to the front and applies C06's string normalisation. *)
From Coq Require Import NArith List Bool.
Import ListNotations.
From Fit Require Import Model.Encoder Proofs.ValueProofs Proofs.TimestampProofs.
Open Scope N_scope.

Definition rec (ts hr : N) : message :=
  mkmsg 0 mesgnum_Record [set_value (create_field mesgnum_Record 253) (VNum TU32 ts); set_value (create_field mesgnum_Record 3) (VNum TU8 hr)] [].
Definition timestamps (ms : list message) : list N := map (fun m => u32_of (field_value_by_num (m_fields m) FieldNumTimestamp)) ms.
Definition decoded_timestamps (r : outcome (list fit)) : list N :=
  match r with Ok fs => flat_map (fun f => timestamps (fit_msgs f)) fs | _ => [] end.
Definition cfg_compressed := mkecfg false true 0 proto_V2 false.
Definition t0 : N := 1000000000.
Definition back_file := mkefile 14 0 0 [rec t0 1; rec (t0 + 10) 2; rec (t0 + 5) 3; rec (t0 + 6) 4].
Definition mono_file := mkefile 14 0 0 [rec t0 1; rec (t0 + 10) 2; rec (t0 + 15) 3; rec (t0 + 60) 4; rec (t0 + 61) 5].

(* a field that was written with its matching base type is read back unchanged (value level of the round trip) *)
Theorem C01_field_value_scalar : forall big t x bt pt m, elt_ok t x = true -> numeric t -> bt_for t bt -> pt_for t pt ->
  marshal big (VNum t x) = Some m -> unmarshal big bt pt false m = Ok (VNum t x).
Proof. exact roundtrip_scalar. Qed.
Print Assumptions C01_field_value_scalar.

Theorem C01_field_value_array : forall big t l bt pt m, forallb (elt_ok t) l = true -> numeric t -> bt_for t bt -> pt_for t pt ->
  marshal big (VArr t l) = Some m -> unmarshal big bt pt true m = Ok (VArr t l).
Proof. exact roundtrip_array. Qed.
Print Assumptions C01_field_value_array.

(* compressed timestamps: for EVERY sequence of messages (with or without a uint32 timestamp field; wrap-around, invalid and
   pre-DateTimeMin values included) the decoder's clock reconstructs exactly the timestamps the encoder compressed or wrote.
   Rests on the translated fact that the encoder tracks the last written timestamp (fix: 0d6e112); on the pinned tree the
   flag is false, this obligation fails and [t, t+10, t+5, t+6] decodes as [t, t+10, t+37, t+38]. *)
Theorem C01_timestamps : forall ms, Forall ts_ok ms -> run_dec (0, 0) (run_enc 0 0 ms) = map ts_field_u32 ms.
Proof. apply timestamps_roundtrip_init. reflexivity. Qed.
Print Assumptions C01_timestamps.

(* the former witness of the violation now round-trips *)
Example C01_back_in_window_instance :
  match encode_fit cfg_compressed back_file with
  | Ok r => decoded_timestamps (decode_stream (mkcfg true false 4096) (er_bytes r)) = [t0; t0 + 10; t0 + 5; t0 + 6]
  | _ => False
  end.
Proof. vm_compute. reflexivity. Qed.

(* executable instance: non-decreasing timestamps inside and across the window come back exactly *)
Example C01_monotone_instance :
  match encode_fit cfg_compressed mono_file with
  | Ok r => decoded_timestamps (decode_stream (mkcfg true false 4096) (er_bytes r)) = timestamps (ef_msgs mono_file)
  | _ => False
  end.
Proof. vm_compute. reflexivity. Qed.
