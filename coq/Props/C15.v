(* C15 -- Independent SDK objects can be used concurrently without interference.
   LEVEL: PARTIAL.  The theorems are about FOOTPRINTS: operations as sequences of accesses to shared locations, run by
   threads that interleave arbitrarily over a sequentially consistent shared store.  What ties them to the code is the
   extraction of the footprint from the sources (coq/gen/Footprint.v, syntactic: a store through an alias the extractor
   cannot see is not in it) and the race-detector workload of the check.  The Go memory model, the scheduler and the
   reuse policy of sync.Pool are not formalised.
   FULL STATEMENT (not proved, because it is a statement about the Go runtime): for every set of operations on distinct
   decoders / encoders / stream encoders / listeners / typed messages running in different goroutines, under every
   schedule, there is no data race and every operation returns what it returns alone.
   Only statements here, each closed by [exact] of a lemma proved elsewhere, with its assumptions printed. *)
From Coq Require Import NArith List String Bool.
Import ListNotations.
From Fit Require Import Model.FootprintTypes Model.Footprint Proofs.FootprintProofs Inst.FootprintInst.
From Fit Require gen.Footprint.
Open Scope list_scope.

(* the interleaving model: if every thread's program has no plain store to shared state, loads a Once-initialised
   location only after calling that Once, and resets pooled objects before Put, then no reachable configuration is racy,
   and every finished thread holds the canonical result of its program *)
Theorem C15_noninterference :
  forall (priv : Type) (inits : list (location * location * val)) (mem0 : location -> val) (s0 : shared) (ts : list (thread priv)),
    inv inits mem0 s0 -> Forall (ready inits) ts ->
    forall s ts', steps inits (s0, ts) (s, ts') ->
      ~ racy inits (s, ts') /\
      Forall (fun t' => prog t' = [] -> pv t' = canon inits mem0 (orig t') (pv0 t')) ts' /\
      map (@orig priv) ts' = map (@orig priv) ts /\ map (@pv0 priv) ts' = map (@pv0 priv) ts.
Proof. exact (@noninterference). Qed.
Print Assumptions C15_noninterference.

(* ... which is the result of the same thread run alone from the same state *)
Theorem C15_same_as_alone :
  forall (priv : Type) (inits : list (location * location * val)) (mem0 : location -> val) (s0 : shared) (ts : list (thread priv)),
    inv inits mem0 s0 -> Forall (ready inits) ts ->
    forall s ts' i t t', steps inits (s0, ts) (s, ts') -> nth_error ts i = Some t -> nth_error ts' i = Some t' -> prog t' = [] ->
    forall s1 t1, steps inits (s0, [t]) (s1, [t1]) -> prog t1 = [] -> pv t' = pv t1.
Proof. exact (@same_as_alone). Qed.
Print Assumptions C15_same_as_alone.

(* instantiated on the footprint extracted from the sources: threads that run any sequence of extracted functions whose
   own accesses satisfy the side condition (fn_ok) neither race nor influence each other's results, whatever values the
   Once stores (vals) and whatever package initialisation left in the store (mem0) *)
Theorem C15_noninterference_extracted_partial :
  forall (priv : Type) (vals : location -> val) (mem0 : location -> val) (s0 : shared) (ts : list (thread priv)),
    inv (inits_of vals gen.Footprint.accesses) mem0 s0 ->
    Forall (runs_admitted gen.Footprint.accesses) ts ->
    forall s ts', steps (inits_of vals gen.Footprint.accesses) (s0, ts) (s, ts') ->
      ~ racy (inits_of vals gen.Footprint.accesses) (s, ts') /\
      forall i t t', nth_error ts i = Some t -> nth_error ts' i = Some t' -> prog t' = [] ->
        forall s1 t1, steps (inits_of vals gen.Footprint.accesses) (s0, [t]) (s1, [t1]) -> prog t1 = [] -> pv t' = pv t1.
Proof. exact (noninterference_extracted gen.Footprint.accesses). Qed.
Print Assumptions C15_noninterference_extracted_partial.

(* which functions that is: all of them, except the documented set-up functions and the known finding *)
Theorem C15_side_condition : unexplained gen.Footprint.accesses = [].
Proof. exact footprint_side_condition. Qed.
Print Assumptions C15_side_condition.

Theorem C15_once_bodies : once_bodies_ok gen.Footprint.accesses = true.
Proof. exact once_bodies_deterministic. Qed.
Print Assumptions C15_once_bodies.

(* operations compose: in sequence and nested (a callee inside its caller) *)
Theorem C15_compose :
  forall inits, (forall ps c, Forall (fun p => safe_from inits [] p = true) ps -> safe_from inits c (List.concat ps) = true) /\
                (forall p1 p2 q c, safe_from inits c (p1 ++ p2) = true -> safe_from inits [] q = true -> safe_from inits c (p1 ++ q ++ p2) = true).
Proof. exact (fun inits => conj (safe_from_concat inits) (safe_from_insert inits)). Qed.
Print Assumptions C15_compose.

(* the side condition is needed: a plain store in an operation makes two threads running it race *)
Theorem C15_unguarded_write_races :
  forall (priv : Type) (inits : list (location * location * val)) (p : list (instr priv)) l x1 x2 s0,
    In (SWrite l) (map shape_of p) ->
    exists s ts, steps inits (s0, [start p x1; start p x2]) (s, ts) /\ racy inits (s, ts).
Proof. exact (@unguarded_write_races). Qed.
Print Assumptions C15_unguarded_write_races.

(* known finding options_factory_write: the side condition is violated by the extracted store to options.Factory in a
   generated ToMesg (first such record = the witness); two threads running that function on one options value race.
   After the repair (a local variable instead of the store) the witness is None and the statement is the None branch. *)
Theorem C15_options_refuted :
  match options_witness gen.Footprint.accesses with
  | Some a =>
      (* refuted_by: *)
      In a (offenders gen.Footprint.accesses) /\ is_options_factory_write a = true /\ a_guard a = GNone /\
      footprint_ok gen.Footprint.accesses = false /\ fn_ok gen.Footprint.accesses (key a) = false /\
      In (SWrite options_loc) (fn_shapes gen.Footprint.accesses (key a)) /\
      forall priv inits (p : list (instr priv)) x1 x2 s0, map shape_of p = fn_shapes gen.Footprint.accesses (key a) ->
        exists s ts, steps inits (s0, [start p x1; start p x2]) (s, ts) /\ racy inits (s, ts)
  | None => forall a, In a (offenders gen.Footprint.accesses) -> is_options_factory_write a = false
  end.
Proof. exact options_refuted. Qed.
Print Assumptions C15_options_refuted.

(* non-vacuity: the hypotheses are satisfiable (a Once user and a pool user), and extracted functions are admitted *)
Example C15_hypotheses_satisfiable :
  let o := LGlobal "factory" "once" in let l := LGlobal "factory" "protoMesgs" in let p := LPool "mesgdef" "pool" in
  let inits := [(o, l, 5%N)] in let mem0 := fun _ : location => 0%N in
  let s0 := mkS mem0 (fun _ => false) (fun _ => []) in
  let ts := [start [IOnce o; IRead l (fun v x => v :: x)] ([] : list N);
             start [IGet p (fun v x => v :: x); IPut p true (fun _ => 9%N)] []] in
  inv inits mem0 s0 /\ Forall (ready inits) ts /\
  fn_ok gen.Footprint.accesses ("profile/factory", "(*Factory).CreateMesg")%string = true /\
  fn_shapes gen.Footprint.accesses ("profile/factory", "(*Factory).CreateMesg")%string <> [].
Proof.
  cbn zeta. split; [|split; [|split]].
  - split; [|split].
    + intros l o v H Hd. discriminate Hd.
    + intros l H. reflexivity.
    + intros p v [].
  - repeat constructor.
  - vm_compute. reflexivity.
  - vm_compute. discriminate.
Qed.
