(* C17 -- Generated profile code is exactly what Profile.xlsx prescribes.
   Only statements, each closed by [exact] of a lemma proved elsewhere, with its assumptions printed.
   Conjunct (1), byte-for-byte regeneration of the 304 generated files, is deterministic re-execution done by
   checks/c17.py (exhaustive over the complete file set); it is not a theorem.
   Gen.ProfileSpec  : independent reading of Profile.xlsx (translator/xlsx2coq.py)
   Gen.Factory/FactoryNames/ProfileTypes : dumped from the running implementation (harness dump-factory, dump-profiletypes)
   Gen.Typedef/Nums : translated from profile/typedef/*_gen.go, profile/untyped/*, profile/version_gen.go *)
From Coq Require Import NArith ZArith String List Bool.
Import ListNotations.
From Fit Require Import Model.Profile Model.ProfileRows Model.ProfileCheck Proofs.ProfileCheckProofs.
From Fit Require Import Inst.ProfileInst Inst.TypedefInst Inst.NumsInst.
From Fit Require gen.ProfileSpec gen.Factory gen.FactoryNames gen.ProfileTypes gen.Nums gen.Typedef gen.TypedefRun.
Open Scope N_scope.

(* (2) every message x field x component x sub-field x map: number, profile type, base type, array flag, accumulate,
   scale, offset, components (destination, accumulate, bits, scale, offset), sub-fields (type, scale, offset, reference
   field and value, components) computed from the sheet = the table factory.CreateField serves *)
Theorem C17_factory_matches_spreadsheet :
  expected_table name_fixes ProfileSpec.type_rows ProfileSpec.mesg_rows = Some Factory.mesgs.
Proof. exact factory_matches_spreadsheet. Qed.
Print Assumptions C17_factory_matches_spreadsheet.

(* (2) names and units of every field and sub-field, modulo the three spelling corrections of RULE 10 *)
Theorem C17_names_units_match_spreadsheet :
  expected_names name_fixes ProfileSpec.type_rows ProfileSpec.mesg_rows = FactoryNames.names.
Proof. exact names_match_spreadsheet. Qed.
Print Assumptions C17_names_units_match_spreadsheet.

(* known finding spelling_corrected_names: the literal reading of the names is NOT what the factory serves
   (full statement [expected_names [] .. = FactoryNames.names] is false); the numeric table is unaffected *)
Theorem C17_names_literal_refuted :
  expected_names [] ProfileSpec.type_rows ProfileSpec.mesg_rows <> FactoryNames.names
  /\ expected_table [] ProfileSpec.type_rows ProfileSpec.mesg_rows = Some Factory.mesgs.
Proof. exact (conj literal_names_differ factory_matches_literal_reading). Qed.
Print Assumptions C17_names_literal_refuted.

(* (3a) every listed constant of every generated type: FromString (String c) = c; names unique; listed = named *)
Theorem C17_typedef_roundtrip :
  (forall td, In td Typedef.typedefs -> typedef_good td) /\ NoDup (map td_name Typedef.typedefs).
Proof. exact typedefs_good. Qed.
Print Assumptions C17_typedef_roundtrip.

(* (3a) tie of the translated case lists to the running code: for every element c of every ListX() the triple
   (value, c.String(), XFromString(c.String())) computed from Gen.Typedef = the triple the running package returns *)
Theorem C17_typedef_translation_agrees_with_implementation :
  typedef_run_agrees_b Typedef.typedefs TypedefRun.runtime_typedefs = true.
Proof. exact typedef_run_agrees. Qed.
Print Assumptions C17_typedef_translation_agrees_with_implementation.

(* (3a') every type of the Types sheet (except fit_base_type, hand written in profile/basetype) has exactly one generated
   type whose String cases are the sheet's (value name, value) rows in order (RULE 11), with the FIT invalid value *)
Theorem C17_typedef_matches_spreadsheet :
  (forall t, In t (types_of name_fixes ProfileSpec.type_rows) -> pt_name t <> fit_base_type_name ->
     exists td, In td Typedef.typedefs /\ squash (td_name td) = squash (pt_name t) /\ kept_values t = typedef_values td /\
                exists c v, invalid_const td = Some (c, v) /\ invalid_of_base (pt_base t) = Some v)
  /\ List.length (generated_types (types_of name_fixes ProfileSpec.type_rows)) = List.length Typedef.typedefs.
Proof. exact (typedefs_match_sheet_sound _ _ typedefs_match_sheet_b_true). Qed.
Print Assumptions C17_typedef_matches_spreadsheet.

(* (3b) every component destination, sub-field reference field and sub-field component destination is a field of the same message *)
Theorem C17_references_resolve : forall m f fb, Factory.factory m f = Some fb ->
    (forall c, In c (fb_comps fb) -> exists fb', Factory.factory m (c_num c) = Some fb') /\
    (forall s, In s (fb_subs fb) ->
       (forall mp, In mp (s_maps s) -> exists fb', Factory.factory m (fst mp) = Some fb') /\
       (forall c, In c (s_comps s) -> exists fb', Factory.factory m (c_num c) = Some fb')).
Proof. exact factory_refs_resolve. Qed.
Print Assumptions C17_references_resolve.

(* (3c) component widths: each <= 32 bits, their sum <= 8 * size of the base type (scalar container) or 2040 (array container) *)
Theorem C17_bits_fit : forall m f fb, Factory.factory m f = Some fb ->
    exists cap, capacity ProfileTypes.basetypes fb = Some cap /\
      Forall (fun c => c_bits c <= 32) (fb_comps fb) /\ sum_bits (fb_comps fb) <= cap /\
      (forall s, In s (fb_subs fb) -> Forall (fun c => c_bits c <= 32) (s_comps s) /\ sum_bits (s_comps s) <= cap).
Proof. exact factory_bits_fit. Qed.
Print Assumptions C17_bits_fit.

(* (3d) mesgnum / fieldnum constants = the sheet (identifiers compared modulo case and separators), no duplicates,
   and every (message, field, name) the factory serves has its two constants *)
Theorem C17_nums_match :
  ((forall x, In x expected_mesgnum_list <-> In x (squashed Nums.mesgnum_consts)) /\ NoDup (map fst (squashed Nums.mesgnum_consts))
     /\ List.length expected_mesgnum_list = List.length Nums.mesgnum_consts)
  /\ ((forall x, In x expected_fieldnum_list <-> In x (squashed Nums.fieldnum_consts)) /\ NoDup (map fst (squashed Nums.fieldnum_consts))
     /\ List.length expected_fieldnum_list = List.length Nums.fieldnum_consts)
  /\ nums_cover_factory_b Nums.mesgnum_consts Nums.fieldnum_consts FactoryNames.names = true.
Proof. exact (conj (same_consts_sound _ _ mesgnums_match_b) (conj (same_consts_sound _ _ fieldnums_match_b) nums_cover_factory)). Qed.
Print Assumptions C17_nums_match.

(* (3e) ProfileType: number, String() and BaseType() of every named value of the running implementation = the sheet
   (RULE 7, RULE 8); ProfileTypeFromString / ListProfileType agree; basetype.List() = the fit_base_type rows *)
Theorem C17_profile_types_match :
  expected_ptypes sheet_types = map (fun p => (fst (fst p), snd (fst p), Some (snd p))) ProfileTypes.ptypes
  /\ ProfileTypes.ptypes_from_string = map (fun p => fst (fst p)) ProfileTypes.ptypes
  /\ ProfileTypes.ptypes_listed = map (fun p => fst (fst p)) ProfileTypes.ptypes
  /\ basetypes_match_b sheet_types ProfileTypes.basetypes = true.
Proof. exact (conj profile_types_match (conj (proj1 profile_types_string_roundtrip) (conj (proj2 profile_types_string_roundtrip) base_types_match))). Qed.
Print Assumptions C17_profile_types_match.

(* (3f) profile.Version = the digits of the dotted version named in version_gen.go (the version the check passes to the generator) *)
Theorem C17_version :
  version_ok_b Nums.version_major Nums.version_minor Nums.version_const ProfileTypes.profile_version_const = true.
Proof. exact version_ok. Qed.
Print Assumptions C17_version.

(* the reading is well formed and not vacuous *)
Theorem C17_sheet_well_formed :
  (accum_rule_total sheet_mesgs && mesg_names_unique sheet_mesgs && field_names_unique sheet_mesgs && type_names_unique sheet_types)%bool = true
  /\ table_sorted_b Factory.mesgs = true.
Proof. exact (conj sheet_well_formed factory_sorted). Qed.
Print Assumptions C17_sheet_well_formed.

Example C17_nonvacuous : (100 <=? Factory.n_mesgs) && (1000 <=? Factory.n_fields) && (100 <=? Typedef.n_typedefs) = true.
Proof. vm_compute. reflexivity. Qed.
