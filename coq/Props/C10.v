(* C10 -- The encoder writes only what the protocol allows and rejects the rest.
   Theorems on Model/Encoder.v's validator (tied to encoder/validator.go by differential execution on every run). *)
From Coq Require Import NArith List Bool.
Import ListNotations.
From Fit Require Import Model.Encoder Proofs.ValidatorProofs.
Open Scope N_scope.

(* frame: validation removes only expanded and (unless preserving) invalid-valued fields, keeps order and values of the rest
   (float-valued fields of scaled profile fields are restored to their integer representation first) *)
Theorem C10_frame : forall preserve fs out, validate_fields preserve fs [] = Ok out -> out = retained preserve fs.
Proof. exact validate_fields_frame. Qed.
Print Assumptions C10_frame.

(* limits: at most 255 fields, every value at most 255 bytes and of the type of its base type, none expanded, none invalid unless preserving *)
Theorem C10_post : forall preserve fs out, validate_fields preserve fs [] = Ok out ->
  (length out <= 255)%nat /\
  Forall (fun f => f_expanded f = false /\ align (f_value f) (f_base f) = true /\ size (f_value f) <= 255
                   /\ (preserve = false -> valid (f_value f) (f_base f) = true)) out.
Proof. exact validate_fields_post. Qed.
Print Assumptions C10_post.

Theorem C10_utf8 : forall preserve fs out, validate_fields preserve fs [] = Ok out ->
  Forall (fun f => match f_value f with VStr s => utf8_valid s = true | VStrs ss => forallb utf8_valid ss = true | _ => True end) out.
Proof. exact validate_fields_utf8. Qed.
Print Assumptions C10_utf8.

(* validating twice equals validating once -- under the hypothesis the proof forces: restoring a retained value again
   changes nothing.  It fails exactly for float64 targets with a scale (developer fields described as float64 with a
   scale: known finding dev_float64_with_scale); no profile field has that shape (Inst check below) *)
Theorem C10_idempotent_partial : forall preserve fs out, validate_fields preserve fs [] = Ok out ->
  Forall (fun f => restore_field f = f) out -> validate_fields preserve out [] = Ok out.
Proof. exact validate_fields_idempotent. Qed.
Print Assumptions C10_idempotent_partial.

(* no field of the profile is a scaled float (so the hypothesis above holds for every integer-valued profile field) *)
Definition no_scaled_float (t : mesgtable) : bool :=
  forallb (fun mf => forallb (fun fb => negb (scaled fb && ((fb_base fb =? bt_float32) || (fb_base fb =? bt_float64)))) (snd mf)) t.
Theorem C10_no_scaled_float_in_profile : no_scaled_float mesgs = true.
Proof. vm_compute. reflexivity. Qed.
Print Assumptions C10_no_scaled_float_in_profile.

(* protocol 1.0: accepted messages have no developer fields and no base type added after byte *)
Theorem C10_v1 : forall m, proto_validate proto_V1 m = Ok tt ->
  m_devs m = [] /\ Forall (fun f => N.land (f_base f) BaseTypeNumMask <= N.land bt_byte BaseTypeNumMask) (m_fields m).
Proof.
  intros m. unfold proto_validate. rewrite N.eqb_refl. destruct (m_devs m); [|discriminate].
  destruct (existsb _ _) eqn:E; [discriminate|]. intros _. split; [reflexivity|].
  apply Forall_forall. intros f Hin. destruct (N.leb_spec (N.land (f_base f) BaseTypeNumMask) (N.land bt_byte BaseTypeNumMask)) as [H|H]; [exact H|].
  exfalso. assert (Hex : existsb (fun f => N.land bt_byte BaseTypeNumMask <? N.land (f_base f) BaseTypeNumMask) (m_fields m) = true).
  { apply existsb_exists. exists f. split; [exact Hin|apply N.ltb_lt; exact H]. }
  rewrite Hex in E. discriminate.
Qed.
Print Assumptions C10_v1.

(* the idempotence clause at full strength is false: a developer field described as float64 with scale 2 *)
Definition fd_float64_scale2 : fdesc := mkfdesc 0 0 bt_float64 2 0 MesgNumInvalid 255.
Theorem C10_idempotent_refuted : exists d, restore_dev (restore_dev d fd_float64_scale2) fd_float64_scale2 <> restore_dev d fd_float64_scale2.
Proof. exists (mkdev 0 0 (VNum TF64 4609434218613702656)). vm_compute. discriminate. Qed.
Print Assumptions C10_idempotent_refuted.

(* developer fields: whenever validation accepts a message's developer fields, every one of them belongs to a developer data index
   declared earlier in the sequence and has a field description; what is retained is exactly the restored fields whose value is
   valid under the description's base type (all of them when preserving invalid values), in their original order; at most 255 *)
Theorem C10_frame_devs : forall preserve vs ds out, validate_devs preserve vs ds [] = Ok out ->
  out = retained_devs preserve vs ds /\ Forall (dev_declared vs) ds /\ (length out <= 255)%nat.
Proof. exact validate_devs_frame. Qed.
Print Assumptions C10_frame_devs.
