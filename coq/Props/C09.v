(* C09 -- Output bytes do not depend on writer kind, buffering or batch vs stream.
   Model/Writer.v mirrors encoder/writebuffer.go, the writing half of encoder.go (strategy selection, e.n / lastFileHeaderPos
   accounting, updateFileHeader through Seek or WriteAt) and stream.go, over a scripted destination (byte vector + cursor);
   the Write calls it issues are those of Model/Encoder.encode_parts.  Tied to the code on every run by differential
   execution: same options, messages, destination kind, buffer size, batch/stream => same error flags and same destination
   bytes (Run/RunC09.v).
   Proved, for every destination kind, every buffer size (none, 1, ... any), every chain of sequences, every caller data size:
   the destination ends up holding exactly the concatenation of the sequences' final bytes; the stream encoder produces the
   same; and those bytes are the bytes of Model/Encoder.encode_fit (the model of C01/C02). *)
From Coq Require Import NArith ZArith List Bool.
Import ListNotations.
From Fit Require Import Model.Writer Proofs.WriterProofs.
Open Scope N_scope.

(* batch: a chain of Encode calls on one encoder into an empty destination *)
Theorem C09_writer_kind_and_buffer_independent : forall k size (ps : list (eparts * N)), Forall (fun x => parts_ok (fst x)) ps ->
  exists w', encode_chain (wst_new k size [] None) ps [] = (repeat false (length ps), w')
    /\ final_bytes w' = concat (map (fun x => sequence_bytes (fst x)) ps).
Proof. exact writer_kind_independent. Qed.
Print Assumptions C09_writer_kind_and_buffer_independent.

(* stream: WriteMessage per message then SequenceCompleted, on destinations a stream encoder accepts *)
Theorem C09_stream_equals_batch : forall k size (ps : list eparts), Forall parts_ok ps -> (can_seek k || can_writeat k = true)%bool ->
  exists w', stream_chain (wst_new k size [] None) ps 0 [] = (repeat false (length ps), w')
    /\ final_bytes w' = concat (map sequence_bytes ps).
Proof. exact stream_equals_batch. Qed.
Print Assumptions C09_stream_equals_batch.

(* destination that already holds earlier sequences of the same encoder: one more Encode appends exactly the new sequence
   and leaves everything before it untouched (tidy = the encoder's position bookkeeping is consistent with the destination) *)
Theorem C09_append_to_earlier_sequences : forall w p ds, tidy w -> parts_ok p ->
  exists w', encode_one w p ds = (false, w') /\ tidy w' /\ w_buf w' = [] /\ view w' = view w ++ sequence_bytes p
    /\ w_kind w' = w_kind w /\ w_size w' = w_size w.
Proof. exact encode_one_spec. Qed.
Print Assumptions C09_append_to_earlier_sequences.

Theorem C09_stream_append : forall w p prev, tidy w -> parts_ok p -> (ew_seeker w || ew_writerat w = true)%bool ->
  exists w', stream_one w p prev = (false, w') /\ tidy w' /\ w_buf w' = [] /\ view w' = view w ++ sequence_bytes p
    /\ w_kind w' = w_kind w /\ w_size w' = w_size w.
Proof. exact stream_one_spec. Qed.
Print Assumptions C09_stream_append.

(* a FRESH encoder on a destination that already holds bytes (cursor at their end): plain writers and everything that can
   seek append exactly the sequences and leave the earlier bytes untouched, for every buffer size.  WriterAt-only
   destinations are addressed by absolute offsets counted from where the encoder started and are excluded. *)
Theorem C09_batch_appends_to_earlier_content : forall k size pre (ps : list (eparts * N)), appends_safely k = true ->
  Forall (fun x => parts_ok (fst x)) ps ->
  exists w', encode_chain (wst_new k size pre None) ps [] = (repeat false (length ps), w')
    /\ final_bytes w' = pre ++ concat (map (fun x => sequence_bytes (fst x)) ps).
Proof. exact batch_appends_to_earlier_content. Qed.
Print Assumptions C09_batch_appends_to_earlier_content.

Theorem C09_stream_appends_to_earlier_content : forall k size pre (ps : list eparts), can_seek k = true -> Forall parts_ok ps ->
  exists w', stream_chain (wst_new k size pre None) ps 0 [] = (repeat false (length ps), w')
    /\ final_bytes w' = pre ++ concat (map sequence_bytes ps).
Proof. exact stream_appends_to_earlier_content. Qed.
Print Assumptions C09_stream_appends_to_earlier_content.

(* the hypothesis parts_ok is met by everything the encoder model produces, and the bytes are those of encode_fit *)
Theorem C09_parts_ok : forall c f p, encode_parts c f = Ok p -> parts_ok p.
Proof. exact encode_parts_ok. Qed.
Print Assumptions C09_parts_ok.

Theorem C09_parts_are_fit : forall c f, match encode_parts c f, encode_fit c f with
  | Ok p, Ok r => sequence_bytes p = er_bytes r
  | Err e, Err e' => e = e' | Panic a, Panic b => a = b | OutOfFuel, OutOfFuel => True
  | _, _ => False end.
Proof. exact parts_are_fit. Qed.
Print Assumptions C09_parts_are_fit.

(* the stream encoder at message level (Model/Stream.v): WriteMessage validates and encodes one message at a time with the state
   the encoder keeps between calls; SequenceCompleted resets it as the source says (gen/DecoderReset.v, read from
   Encoder.reset and SequenceCompleted on every run: reset_complete_now fails to check when one of the fields is no longer
   cleared).  For EVERY chain of message lists the stream encoder accepts the chain iff the batch encoder accepts every file
   (under the stream encoder's zero header), and then the parts handed to the destination -- hence, with the theorems above,
   the bytes -- are the same: validation state, LRU, timestamp reference, data size and CRC do not leak from one sequence
   into the next, and interleaving validation with encoding changes nothing. *)
From Fit Require Import Model.Stream Proofs.StreamProofs.
Theorem C09_stream_message_level : forall c fs,
  match stream_bytes c fs, encode_fits c (map (mkefile 0 0 0) fs) [] with
  | Ok a, Ok b => a = b
  | Ok _, _ => False
  | _, Ok _ => False
  | _, _ => True
  end.
Proof. exact (fun c fs => stream_bytes_spec c fs reset_complete_now). Qed.
Print Assumptions C09_stream_message_level.
Theorem C09_stream_sequences_are_batch_parts : forall c fs,
  match stream_sequences c (ss_init c) fs [], batch_parts c fs [] with
  | Ok ps, Ok qs => ps = qs
  | Ok _, _ => False
  | _, Ok _ => False
  | _, _ => True
  end.
Proof. exact (fun c fs => stream_sequences_spec c reset_complete_now fs []). Qed.
Print Assumptions C09_stream_sequences_are_batch_parts.
(* end to end: a chain of message lists written message by message through the stream encoder into a rewritable destination of
   any kind through any write buffer -- if the stream encoder accepts it, every call succeeds and the destination ends up
   holding exactly encode_fits of the same lists *)
Theorem C09_stream_end_to_end : forall c k size fss ps, (can_seek k || can_writeat k = true)%bool ->
  stream_sequences c (ss_init c) fss [] = Ok ps ->
  exists w', stream_chain (wst_new k size [] None) ps 0 [] = (repeat false (length ps), w') /\
             encode_fits c (map (mkefile 0 0 0) fss) [] = Ok (final_bytes w').
Proof. exact stream_end_to_end. Qed.
Print Assumptions C09_stream_end_to_end.

(* non-vacuity: two sequences through the stream model, the second relying on nothing of the first *)
Example C09_stream_instance :
  let ms := [mkmsg 0 0 [set_value (create_field 0 0) (VNum TU8 4)] []; mkmsg 0 20 [set_value (create_field 20 253) (VNum TU32 1000000000)] []] in
  match stream_bytes (mkecfg false true 2 proto_V2 false) [ms; ms] with Ok b => (60 <? len b) = true | _ => False end.
Proof. vm_compute. reflexivity. Qed.

(* non-vacuity: a concrete file through a 7-byte buffer into a seekable destination, and through no buffer into a plain one *)
Definition c09_file := mkefile 14 0 0 [mkmsg 0 0 [set_value (create_field 0 0) (VNum TU8 4)] []; mkmsg 0 20 [set_value (create_field 20 253) (VNum TU32 1000000000)] []].
Example C09_instance : match encode_parts (mkecfg false false 0 proto_V2 false) c09_file with
  | Ok p => let a := Writer.encode_chain (wst_new KSeeker 7 [] None) [(p, 0)] [] in
            let b := Writer.encode_chain (wst_new KPlain 0 [] None) [(p, 0)] [] in
            fst a = [false] /\ final_bytes (snd a) = final_bytes (snd b) /\ (30 <? len (final_bytes (snd a))) = true
  | _ => False end.
Proof. vm_compute. auto. Qed.
