(* C13 -- typed message structs (profile/mesgdef) round-trip with protocol messages, for every message type.
   Only statements, each closed by [exact] of a lemma proved elsewhere, with its assumptions printed.
   [MesgdefSpec.mspecs] is regenerated from profile/mesgdef/*_gen.go on every run (119 specifications, 1382 slots),
   [Factory] from the factory table the implementation serves.  [reset] = NewXxx/Reset, [to_mesg] = ToMesg, with every
   Go array index a checked operation ([Panic]); [normalise], [canonical] are in Model/Mesgdef.v, Proofs/MesgdefProofs.v. *)
From Coq Require Import NArith ZArith List Bool String.
Import ListNotations.
From Fit Require Import Model.Profile Model.Mesgdef Proofs.MesgdefProofs Inst.MesgdefInst.
From Fit Require gen.Factory gen.MesgdefSpec.
Open Scope N_scope.

(* the translated specifications agree with the profile: per struct field index = field number <= bound < len(vals),
   accessor type = constructor type = element type of the factory base type, guard sentinel = accessor sentinel = invalid
   value of that base type (z types included), array flag / bool / date_time profile types, fixed-array length and fill,
   expandable set = MarkAsExpandedField cases = component destinations of the message, state array large enough,
   one struct field per factory field and vice versa *)
Theorem C13_specs_wf : forallb (wf_mspec pc Factory.mesgs) MesgdefSpec.mspecs = true.
Proof. exact all_wf. Qed.
Print Assumptions C13_specs_wf.

Theorem C13_specs_cover_factory :
  (N.of_nat (List.length MesgdefSpec.mspecs) =? Factory.n_mesgs) &&
  nodup_b (map ms_num MesgdefSpec.mspecs) &&
  forallb (fun p => existsb (fun s => ms_num s =? fst p) MesgdefSpec.mspecs) Factory.mesgs &&
  (N.of_nat (List.length (flat_map ms_fields MesgdefSpec.mspecs)) =? Factory.n_fields) = true.
Proof. exact specs_cover_factory. Qed.
Print Assumptions C13_specs_cover_factory.

(* message -> struct -> message, every message type, every input message (any field numbers, value types, duplicates,
   marks), both option values: never a panic, and the result is the normal form -- known fields that carry a valid value
   of the slot's type in struct order (fixed arrays padded / cut), marks kept on expandable fields, expanded fields left
   out unless asked for, unknown fields and developer fields verbatim *)
Theorem C13_mesg_struct_mesg : forall s, In s MesgdefSpec.mspecs -> forall o m,
  bind (reset s m) (to_mesg std_fac s o) = Ok (normalise std_fac s o m).
Proof. intros s H o m. exact (mesg_struct_mesg std_fac s (wf_core_of_in s H) o m). Qed.
Print Assumptions C13_mesg_struct_mesg.

(* struct -> message -> struct is the identity on canonical structs (whole-second times in range, Bool 0/1/invalid,
   fixed arrays of the declared length, marks only on emitted destination fields and only when expanded fields are included) *)
Theorem C13_struct_mesg_struct : forall s, In s MesgdefSpec.mspecs -> forall o t, canonical s o t ->
  bind (to_mesg std_fac s o t) (reset s) = Ok t.
Proof. intros s H o t Hc. exact (struct_mesg_struct std_fac s (wf_core_of_in s H) o t Hc). Qed.
Print Assumptions C13_struct_mesg_struct.

(* no panic: Reset on an arbitrary message and ToMesg on an arbitrary struct never index vals / state out of range *)
Theorem C13_total : forall s, In s MesgdefSpec.mspecs ->
  (forall m, exists t, reset s m = Ok t) /\ (forall o t, exists m, to_mesg std_fac s o t = Ok m).
Proof.
  intros s H. split; [intros m; exact (reset_total std_fac s (wf_core_of_in s H) m)
                     |intros o t; exact (to_mesg_total std_fac s (wf_core_of_in s H) o t)].
Qed.
Print Assumptions C13_total.

(* a field that Reset classifies as unknown (number above the bound, or name "unknown") is kept verbatim *)
Theorem C13_unknown_kept : forall s o m f, In f (m_fields m) -> goes_unknown s f = true ->
  In f (m_fields (normalise std_fac s o m)).
Proof. intros s o m f. exact (unknown_kept std_fac s o m f). Qed.
Print Assumptions C13_unknown_kept.

(* every field the factory defines for a message has a struct field that reads it (nothing known is without a slot) *)
Theorem C13_every_field_has_slot : forall s, In s MesgdefSpec.mspecs -> forall n fb, std_fac (ms_num s) n = Some fb ->
  exists mf, In mf (ms_fields s) /\ mf_num mf = n.
Proof. exact every_field_has_slot. Qed.
Print Assumptions C13_every_field_has_slot.

(* a known field of the input that is the only one with its number, carries a value valid for the slot of that number
   (norm_value: right type, not the invalid value; fixed arrays padded / cut) and is marked only if it is a component
   destination and expanded fields are asked for, is in the output with that value and that mark *)
Theorem C13_known_field_kept : forall s, In s MesgdefSpec.mspecs -> forall o m f mf v',
  In f (m_fields m) -> goes_unknown s f = false -> only_one s (m_fields m) f ->
  In mf (ms_fields s) -> mf_num mf = f_num f ->
  norm_value (mf_acc mf) (Some (f_value f)) = Some v' ->
  (f_expanded f = true -> expandable s (f_num f) = true /\ include_expanded o = true) ->
  exists r, bind (reset s m) (to_mesg std_fac s o) = Ok r /\
            In (created std_fac s (f_num f) v' (f_expanded f)) (m_fields r).
Proof.
  intros s H o m f mf v' H1 H2 H3 H4 H5 H6 H7. exists (normalise std_fac s o m). split.
  - exact (mesg_struct_mesg std_fac s (wf_core_of_in s H) o m).
  - exact (known_field_kept std_fac s o m f mf v' H1 H2 H3 H4 H5 H6 H7).
Qed.
Print Assumptions C13_known_field_kept.

(* ---- the three input classes on which the statement of C13 is false of the faithful model (known findings) *)
Definition hr_marked : message := mkmesg 20 [mkfield 3 true 2 (VNum TU8 100) true] [].
Theorem C13_mark_on_non_destination_refuted : exists s o m, In s MesgdefSpec.mspecs /\
  existsb f_expanded (m_fields m) = true /\ include_expanded o = true /\
  (exists r, bind (reset s m) (to_mesg std_fac s o) = Ok r /\ existsb f_expanded (m_fields r) = false).
Proof.
  exists MesgdefSpec.spec_Record, (mkopt true), hr_marked. split; [|split; [reflexivity|split; [reflexivity|]]].
  - unfold MesgdefSpec.mspecs. repeat (try (left; reflexivity); right).
  - eexists. split; [vm_compute; reflexivity|reflexivity].
Qed.
Print Assumptions C13_mark_on_non_destination_refuted.

Theorem C13_devfields_refuted : exists s o m, In s MesgdefSpec.mspecs /\ m_devs m <> [] /\
  (exists r, bind (reset s m) (to_mesg std_fac s o) = Ok r /\ m_devs r = []).
Proof.
  exists MesgdefSpec.spec_FileId, (mkopt true), (mkmesg 0 [] [mkdev 1 0 (VNum TU8 1)]). split; [|split; [discriminate|]].
  - unfold MesgdefSpec.mspecs. repeat (try (left; reflexivity); right).
  - eexists. split; [vm_compute; reflexivity|reflexivity].
Qed.
Print Assumptions C13_devfields_refuted.

Theorem C13_named_field_without_slot_refuted : exists s o m, In s MesgdefSpec.mspecs /\ m_fields m <> [] /\
  (exists r, bind (reset s m) (to_mesg std_fac s o) = Ok r /\ m_fields r = []).
Proof.
  exists MesgdefSpec.spec_Record, (mkopt true), (mkmesg 20 [mkfield 14 true 2 (VNum TU8 7) false] []). split; [|split; [discriminate|]].
  - unfold MesgdefSpec.mspecs. repeat (try (left; reflexivity); right).
  - eexists. split; [vm_compute; reflexivity|reflexivity].
Qed.
Print Assumptions C13_named_field_without_slot_refuted.

(* ---- non-vacuity *)
(* a canonical struct exists and comes back: FileCreator{SoftwareVersion: 5, HardwareVersion: invalid} with one unknown field *)
Example C13_canonical_example :
  let t := mkts [SVNum 5; SVNum 255] 0 [mkfield 9 false 0 (VNum TU16 1) false] [mkdev 0 0 (VNum TU8 3)] in
  In MesgdefSpec.spec_FileCreator MesgdefSpec.mspecs /\ canonical MesgdefSpec.spec_FileCreator (mkopt false) t /\
  bind (to_mesg std_fac MesgdefSpec.spec_FileCreator (mkopt false) t) (reset MesgdefSpec.spec_FileCreator) = Ok t.
Proof.
  cbv zeta. split; [unfold MesgdefSpec.mspecs; repeat (try (left; reflexivity); right)|]. split; [|vm_compute; reflexivity].
  split; [repeat constructor|]. split; [intros n H; rewrite N.bits_0 in H; discriminate|]. split; [repeat constructor|discriminate].
Qed.

(* record: speed (an expandable field) marked expanded survives with its mark when asked for, and is left out otherwise *)
Example C13_mark_kept_example :
  let m := mkmesg 20 [mkfield 6 true 132 (VNum TU16 1000) true; mkfield 3 true 2 (VNum TU8 100) false] [] in
  bind (reset MesgdefSpec.spec_Record m) (to_mesg std_fac MesgdefSpec.spec_Record (mkopt true)) =
    Ok (mkmesg 20 [mkfield 3 true 2 (VNum TU8 100) false; mkfield 6 true 132 (VNum TU16 1000) true] []) /\
  bind (reset MesgdefSpec.spec_Record m) (to_mesg std_fac MesgdefSpec.spec_Record (mkopt false)) =
    Ok (mkmesg 20 [mkfield 3 true 2 (VNum TU8 100) false] []).
Proof. split; vm_compute; reflexivity. Qed.

(* the Panic modelling is not vacuous: the same Reset with the bound check one too large indexes vals out of range *)
Example C13_mutant_panics :
  let bad := mkspec "Record" "record_gen.go" 20 254 254 14 109 109 [5; 6; 19; 29; 73; 78; 108] true
                    (ms_fields MesgdefSpec.spec_Record) [] in
  reset bad (mkmesg 20 [mkfield 254 true 0 (VNum TU8 1) false] []) = Panic 1.
Proof. vm_compute. reflexivity. Qed.
