(* C04 -- Corrupted or truncated files are rejected, never silently accepted.
   The integrity rules are Model/Wire.v's [integrity] (written from the property text); CheckIntegrity is compared with it
   on every run on arbitrary byte strings.  Proved on the rules, for files of any length: any burst of <= 16 consecutive bits
   (single-bit flips included) inside the records or the trailing CRC breaks the CRC equation; every proper prefix of an
   accepted sequence is rejected; an accepted sequence followed by a suffix is read as that sequence and then the suffix.
   Per run, not by theorem: that decoding (not only the integrity check) fails on the corrupted file, and CheckIntegrity =
   reference on all byte strings (C04_reference), which is refuted for 12-byte headers and zero header CRCs (known findings). *)
From Coq Require Import NArith List Bool.
Import ListNotations.
From Fit Require Import Model.Base Model.Crc Model.Wire Proofs.CrcProofs Proofs.CrcDetection Proofs.IntegrityProofs.
Open Scope N_scope.

Theorem C04_burst : forall region region' i p j, bytes_ok region -> bytes_ok region' -> write 0 region = 0 ->
  bits_ok p -> (length p < 16)%nat ->
  bits_of_bytes region' = xorl (bits_of_bytes region) (repeat 0 i ++ 1 :: p ++ repeat 0 j) ->
  length (bits_of_bytes region) = (i + S (length p) + j)%nat ->
  write 0 region' <> 0.
Proof. exact burst_rejected. Qed.
Print Assumptions C04_burst.

(* records ++ stored CRC of an intact file is such a region, and a region that is no codeword fails the CRC rule *)
Theorem C04_intact_is_codeword : forall r c0 c1, bytes_ok r -> write 0 r = c0 + 256 * c1 -> c0 < 256 -> c1 < 256 -> write 0 (r ++ [c0; c1]) = 0.
Proof. exact crc_match_syndrome. Qed.
Print Assumptions C04_intact_is_codeword.
Theorem C04_corrupted_fails_rule : forall r' c0 c1, bytes_ok r' -> c0 < 256 -> c1 < 256 ->
  write 0 (r' ++ [c0; c1]) <> 0 -> write 0 r' <> c0 + 256 * c1.
Proof. exact corrupted_crc_mismatch. Qed.
Print Assumptions C04_corrupted_fails_rule.

Theorem C04_trunc : forall bs k, integrity_sequence bs = Some [] -> (k < length bs)%nat -> integrity_sequence (firstn k bs) = None.
Proof. exact truncation_rejected. Qed.
Print Assumptions C04_trunc.

Theorem C04_append : forall bs suf, integrity_sequence bs = Some [] -> integrity_sequence (bs ++ suf) = Some suf.
Proof. exact append_reads_suffix. Qed.
Print Assumptions C04_append.

(* the reference and the implementation's variant differ: a 12-byte-header file whose CRC covers the records only *)
Theorem C04_reference_refuted : exists bs, integrity_impl_b bs = (1, true) /\ integrity_b bs = (0, false).
Proof. exists [12; 32; 166; 82; 11; 0; 0; 0; 46; 70; 73; 84; 64; 0; 0; 0; 0; 1; 0; 1; 0; 0; 4; 84; 47]. split; vm_compute; reflexivity. Qed.
Print Assumptions C04_reference_refuted.

(* what the encoder model writes (14-byte header) is accepted by the rules: the rules are not vacuous on real output, and
   together with C04_trunc every proper prefix of it is rejected *)
From Fit Require Import Model.Encoder Proofs.AcceptProofs.
Theorem C04_encoder_output_accepted : forall c f r, encode_fit c f = Ok r -> (ef_hsize f =? 12) = false ->
  bytes_ok (er_bytes r) -> 16 < len (er_bytes r) < 2 ^ 32 -> integrity_sequence (er_bytes r) = Some [].
Proof. exact encode_fit_accepted. Qed.
Print Assumptions C04_encoder_output_accepted.

(* the MODEL of Decoder.CheckIntegrity (Model/Api.v over Model/Decoder.v: header, discardMessages in 765-byte reads with the
   running CRC, trailing CRC, loop over chained sequences; tied to the code by differential execution of API histories) gives,
   for every byte string and every read-buffer size, exactly the count and verdict of the rules with the two known deviations *)
From Fit Require Import Model.Api Proofs.IntegrityModel.
Theorem C04_model_is_rules : forall c bs, 765 <= c_bufsize c -> bytes_ok bs ->
  exists n e, snd (api_step (api_new c bs) ACheckIntegrity) = RIntegrity n e /\ integrity_impl_b bs = (n, verdict e).
Proof. exact check_integrity_is_rules. Qed.
Print Assumptions C04_model_is_rules.

Theorem C04_deviations_only_in_known_classes : forall bs d q, hdr_ok bs = Some (14, d, q) -> q <> 0 ->
  integrity_sequence_gen true true bs = integrity_sequence bs.
Proof. exact deviations_only_in_known_classes. Qed.
Print Assumptions C04_deviations_only_in_known_classes.

(* Decode itself (not only CheckIntegrity): with checksum verification on, every byte the model of the full decoder obtains through
   readN is hashed whatever it is taken for (definition, field of any size and type, developer field, skipped field), and the
   trailing two bytes are compared with the running value.  So whenever Decode accepts a stream that is exactly one sequence
   long by its own header, everything after the header is a CRC codeword -- and by C04_burst a single-sequence file whose record
   region or stored CRC was hit by a burst of at most 16 bits (single-bit flips included) is rejected by Decode, for every
   option set with checksums on and every read-buffer size.  (For a corrupted sequence followed by further sequences the
   decoder may frame the records differently and compare the CRC at another place; that case is decided per run.) *)
From Fit Require Import Proofs.DecodeCrc.
Theorem C04_decode_accepts_only_codewords : forall c bs fits evs, c_checksum c = true -> bytes_ok bs ->
  decode_all (S (length bs)) c (init_state bs) [] = (Ok fits, evs) ->
  len bs = nth 0 bs 0 + le_word (take 4 (drop 4 bs)) + 2 -> write 0 (drop (nth 0 bs 0) bs) = 0.
Proof. exact decode_single_sequence_codeword. Qed.
Print Assumptions C04_decode_accepts_only_codewords.

Theorem C04_decode_rejects_burst : forall c hdr region region' i p j fits evs, c_checksum c = true ->
  bytes_ok hdr -> bytes_ok region -> bytes_ok region' -> write 0 region = 0 ->
  len hdr = nth 0 hdr 0 -> (8 <= length hdr)%nat -> len region' = le_word (take 4 (drop 4 hdr)) + 2 ->
  bits_ok p -> (length p < 16)%nat ->
  bits_of_bytes region' = xorl (bits_of_bytes region) (repeat 0 i ++ 1 :: p ++ repeat 0 j) ->
  length (bits_of_bytes region) = (i + S (length p) + j)%nat ->
  decode_all (S (length (hdr ++ region'))) c (init_state (hdr ++ region')) [] <> (Ok fits, evs).
Proof. exact decode_rejects_burst. Qed.
Print Assumptions C04_decode_rejects_burst.

(* the hypotheses are met by real output: the decoder model (checksums on, defaults) accepts this encoder output, which is exactly
   one sequence long by its own header and whose region is a codeword; flipping one bit of it makes the decoder model fail *)
Definition c04_file := mkefile 14 0 0 [mkmsg 0 mesgnum_Record [set_value (create_field mesgnum_Record 253) (VNum TU32 1000000000); set_value (create_field mesgnum_Record 3) (VNum TU8 61)] []].
Example C04_decode_instance :
  match encode_fit (mkecfg false false 0 proto_V2 false) c04_file with
  | Ok r => let bs := er_bytes r in
            (exists fits, fst (decode_all (S (length bs)) default_cfg (init_state bs) []) = Ok fits /\ length fits = 1%nat)
            /\ len bs = nth 0 bs 0 + le_word (take 4 (drop 4 bs)) + 2 /\ write 0 (drop (nth 0 bs 0) bs) = 0
            /\ (let bs' := firstn 20 bs ++ [N.lxor (nth 20 bs 0) 4] ++ skipn 21 bs in
                exists e, fst (decode_all (S (length bs')) default_cfg (init_state bs') []) = Err e)
  | _ => False
  end.
Proof. vm_compute. split; [eexists; split; reflexivity|]. split; [reflexivity|]. split; [reflexivity|]. eexists. reflexivity. Qed.

(* the verdict does not depend on what the decoder did before it was Reset onto the bytes: Reset leaves a new decoder
   (C07_reset_is_new), so CheckIntegrity after Reset is CheckIntegrity of a fresh decoder, for every earlier history *)
From Fit Require Import Proofs.ApiProofs gen.DecoderReset.
Theorem C04_verdict_after_reset_is_fresh : forall a bs c,
  snd (api_step (fst (api_step a (AReset bs c))) ACheckIntegrity) = snd (api_step (api_new c bs) ACheckIntegrity).
Proof. intros a bs c. rewrite (reset_is_new a bs c (conj eq_refl eq_refl) eq_refl). reflexivity. Qed.
Print Assumptions C04_verdict_after_reset_is_fresh.
