(* C12 -- scaled and raw representations convert back and forth.
   Only statements, each closed by [exact] of a lemma proved elsewhere, with its assumptions printed.
   Model: Model/Float.v (Go float64 = Coq primitive binary64), Model/Scale.v (the routes), Model/Routes.v (the
   conversion mode of every route, derived from the source on every run: gen/ConvMode.v).
   [rt_kind k mu m bt s o x] is raw -> scaled -> raw through a route of shape k (helper / slice / generated accessor)
   whose integer conversion has mode m (Trunc = plain Go conversion, Round = math.Round first). *)
From Coq Require Import ZArith NArith List Floats.
Import ListNotations.
From Fit Require Import Model.Float Model.Profile Model.Scale Model.Routes gen.Factory gen.ScaledAccessors.
From Fit Require Import Proofs.ScaleProofs Proofs.SweepProofs Inst.ScaleInst.

(* FIT timestamp -> time.Time -> FIT timestamp is the identity on every uint32, the invalid sentinel
   0xFFFFFFFF included (it maps to the zero time.Time, which is before the epoch, and back) *)
Theorem C12_time : forall v, (0 <= v < 2 ^ 32)%Z -> to_uint32 (to_time v) = v.
Proof. exact time_roundtrip. Qed.
Print Assumptions C12_time.

(* semicircles -> degrees -> semicircles is the identity on every int32, the invalid sentinel 0x7FFFFFFF
   included (it maps to the invalid float64, a NaN, and back) *)
Theorem C12_semicircles : forall x, (- 2 ^ 31 <= x < 2 ^ 31)%Z -> to_semicircles (to_degrees x) = x.
Proof. exact semicircles_roundtrip. Qed.
Print Assumptions C12_semicircles.

(* scale 1, offset 0: exact for every value below 2^53 of every integer base type, under either conversion mode
   (above 2^53 an int64/uint64 is not a float64: Apply[T] itself is lossy there; ApplyValue/ApplyAny leave unscaled values alone) *)
Theorem C12_exact_when_unscaled : forall m mu bt x, (0 < bt_bits bt)%Z -> in_range bt x -> (Z.abs x < 2 ^ 53)%Z ->
  rt_helper m bt 1 0 x = x /\ rt_slice mu m bt 1 0 x = x.
Proof. exact exact_when_unscaled. Qed.
Print Assumptions C12_exact_when_unscaled.

(* FULL STATEMENT for a rounding conversion: every (base type, scale, offset) triple occurring in the factory (fields,
   sub-fields, components) with an 8- or 16-bit base type, EVERY raw value of the type, every route shape:
   the raw value comes back.  Complete vm_compute sweeps (Inst/Sweep16_*.v) lifted with forallb_forall. *)
Theorem C12_16bit : forall bt sb ob, In (bt, sb, ob) (all_triples mesgs) -> (1 <= bt_bits bt <= 16)%Z ->
  forall k mu x, in_range bt x -> rt_kind k mu Round bt (f64_of_bits sb) (f64_of_bits ob) x = x.
Proof. intros bt sb ob Hin Hb k mu x. exact (sixteen_round bt sb ob Hin Hb k mu x). Qed.
Print Assumptions C12_16bit.

(* the same for every 32-bit raw value, by error analysis (four roundings stay within 1/4 of x); Inst: every 32-bit
   triple of the factory has 1/2 <= scale <= 2^17, |offset| <= 2^10 *)
Theorem C12_32bit : forall bt sb ob k mu x, In (bt, sb, ob) (all_triples mesgs) -> (17 <= bt_bits bt <= 32)%Z -> in_range bt x ->
  rt_kind k mu Round bt (f64_of_bits sb) (f64_of_bits ob) x = x.
Proof. exact thirtytwo_round. Qed.
Print Assumptions C12_32bit.

(* nothing wider or non-integer is scaled in the profile *)
Theorem C12_scaled_are_small_integers : forall bt sb ob, In (bt, sb, ob) (all_triples mesgs) -> (0 < bt_bits bt <= 32)%Z.
Proof.
  intros bt sb ob Hin. pose proof scaled_are_integers as H. rewrite forallb_forall in H.
  rewrite <- Inst.Triples.triples_all_eq in Hin. specialize (H _ Hin). cbn in H.
  apply andb_prop in H. destruct H as [H1 H2]. apply Z.ltb_lt in H1. apply Z.leb_le in H2. split; assumption.
Qed.
Print Assumptions C12_scaled_are_small_integers.

(* PARTIAL (the truncating conversion): at most one unit toward zero, every 8/16-bit raw value.
   Full statement: C12_16bit with Trunc in place of Round -- refuted below. *)
Theorem C12_within_one : forall bt sb ob, In (bt, sb, ob) (all_triples mesgs) -> (1 <= bt_bits bt <= 16)%Z ->
  forall k mu x, in_range bt x ->
  let r := rt_kind k mu Trunc bt (f64_of_bits sb) (f64_of_bits ob) x in
  r = x \/ (0 <= x /\ r = x - 1)%Z \/ (x < 0 /\ r = x + 1)%Z.
Proof. intros bt sb ob Hin Hb k mu x. exact (sixteen_trunc bt sb ob Hin Hb k mu x). Qed.
Print Assumptions C12_within_one.

(* the truncating conversion does lose raw values of profile triples (uint16, scale 100: 29 -> 28) *)
Theorem C12_refuted : exists bt sb ob x, In (bt, sb, ob) (all_triples mesgs) /\ in_range bt x /\
  rt_helper Trunc bt (f64_of_bits sb) (f64_of_bits ob) x <> x.
Proof. exact trunc_refuted. Qed.
Print Assumptions C12_refuted.

(* THE OBLIGATION FOR THE CODE AS IT STANDS: for every route, with the mode derived from the source --
   the full statement when the route rounds, "at most one unit toward zero" while it truncates *)
Theorem C12_16bit_current : forall r, expected_for (route_mode r) (route_kind r).
Proof. exact sixteen_current. Qed.
Print Assumptions C12_16bit_current.

(* every generated XxxScaled / SetXxxScaled pair carries the factory's scale, offset and base type in both directions,
   has the field's array shape, and converts the way the template does *)
Theorem C12_accessors : forallb accessor_ok accessors = true /\ N.of_nat (length accessors) = n_accessors.
Proof. exact (conj accessors_ok accessors_counted). Qed.
Print Assumptions C12_accessors.

(* non-vacuity *)
Example C12_witnesses :
  rt_helper Trunc 132 100 0 29 = 28%Z /\ rt_helper Trunc 132 100 0 16039 = 16038%Z /\ rt_helper Trunc 132 5 500 1 = 0%Z /\
  rt_helper Round 132 100 0 29 = 29%Z /\ rt_helper Round 132 100 0 16039 = 16039%Z /\ rt_helper Round 132 5 500 1 = 1%Z.
Proof. exact trunc_witnesses. Qed.
Example C12_time_example : to_uint32 (to_time 1000000000) = 1000000000%Z /\ to_uint32 (to_time 4294967295) = 4294967295%Z.
Proof. vm_compute. split; reflexivity. Qed.
Example C12_triples_nonempty : In (132%N, 4636737291354636288%N, 0%N) (all_triples mesgs) /\ In (134%N, 4652007308841189376%N, 0%N) (all_triples mesgs).
Proof. rewrite <- Inst.Triples.triples_all_eq. split; apply triple_mem_In; vm_compute; reflexivity. Qed.
