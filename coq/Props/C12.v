(* C12 -- scaled and raw representations convert back and forth.
   Only statements, each closed by [exact] of a lemma proved elsewhere, with its assumptions printed. *)
From Coq Require Import ZArith NArith List Floats.
Import ListNotations.
From Fit Require Import Model.Float Model.Profile Model.Scale Proofs.ScaleProofs.

(* FIT timestamp -> time.Time -> FIT timestamp is the identity on every uint32, the invalid sentinel
   0xFFFFFFFF included (it maps to the zero time.Time, which is before the epoch, and back) *)
Theorem C12_time : forall v, (0 <= v < 2 ^ 32)%Z -> to_uint32 (to_time v) = v.
Proof. exact time_roundtrip. Qed.
Print Assumptions C12_time.

(* semicircles -> degrees -> semicircles is the identity on every int32, the invalid sentinel 0x7FFFFFFF
   included (it maps to the invalid float64, a NaN, and back) *)
Theorem C12_semicircles : forall x, (- 2 ^ 31 <= x < 2 ^ 31)%Z -> to_semicircles (to_degrees x) = x.
Proof. exact semicircles_roundtrip. Qed.
Print Assumptions C12_semicircles.

(* scale 1, offset 0: exact for every value below 2^53 of every integer base type, under either conversion mode *)
Theorem C12_exact_when_unscaled : forall m mu bt x, (0 < bt_bits bt)%Z -> in_range bt x -> (Z.abs x < 2 ^ 53)%Z ->
  rt_helper m bt 1 0 x = x /\ rt_slice mu m bt 1 0 x = x.
Proof. exact exact_when_unscaled. Qed.
Print Assumptions C12_exact_when_unscaled.

Example C12_time_example : to_uint32 (to_time 1000000000) = 1000000000%Z /\ to_uint32 (to_time 4294967295) = 4294967295%Z.
Proof. vm_compute. split; reflexivity. Qed.
