(* C18 -- The checksum is the FIT CRC-16 of the bytes, however they are written.
   Only statements, each closed by [exact] of a lemma proved elsewhere, with its assumptions printed. *)
From Coq Require Import NArith List.
Import ListNotations.
From Fit Require Import Model.Crc Proofs.CrcProofs.
Open Scope N_scope.

(* every (state, byte): the translated table update is eight steps of the bit-serial definition *)
Theorem C18_update : forall s b, s < 65536 -> b < 256 ->
  update s b = crc_bits s (bits_of 8 b) /\ update s b < 65536.
Proof. exact update_spec. Qed.
Print Assumptions C18_update.

(* every byte string: checksum = CRC-16/ARC (reflected 0xA001, init 0, no final xor) *)
Theorem C18_reference : forall bs, bytes_ok bs -> sum16 bs = crc16_arc bs.
Proof. exact CrcProofs.C18_reference. Qed.
Print Assumptions C18_reference.

(* every split into successive writes gives the checksum of the concatenation *)
Theorem C18_chunking : forall chunks, fold_left write chunks 0 = sum16 (concat chunks).
Proof. exact CrcProofs.C18_chunking. Qed.
Print Assumptions C18_chunking.

(* every script of Write/Sum16/Sum/Reset on one object = the abstract object (restart from zero after reset) *)
Theorem C18_object : forall ops acc, bytes_ok acc -> Forall op_ok ops ->
  crc_run (sum16 acc) ops = spec_run acc ops.
Proof. exact CrcProofs.C18_object. Qed.
Print Assumptions C18_object.

Theorem C18_reset : forall ops1 ops2, Forall op_ok ops2 ->
  skipn (length ops1 + 1) (crc_run 0 (ops1 ++ OpReset :: ops2)) = crc_run 0 ops2.
Proof. exact CrcProofs.C18_reset. Qed.
Print Assumptions C18_reset.

(* non-vacuity: the CRC-16/ARC check value *)
Example C18_check_value : sum16 [49;50;51;52;53;54;55;56;57] = 0xBB3D.
Proof. vm_compute. reflexivity. Qed.
