(* C08 -- Decoding is independent of how the reader fragments the stream.
   Model/ReadBuf.v is readbuffer.go with the real array / cur / last / memmove layout, io.ReadAtLeast as the loop it is and
   every slice expression bounds-checked; readers are arbitrary chunk schedules ending in EOF together with or after the last
   bytes.  Proved at the level every decoder read goes through (ReadN): the bytes delivered and the point of failure are a
   function of the stream alone, for every schedule, EOF style and buffer size.  Lifting to whole decodes (the decoder only
   sees its input through ReadN) is decided per run by the chunked-vs-contiguous Go oracle; the error KIND on a truncated
   stream is not a function of the stream (known finding eof_kind_depends_on_chunking, refuted below). *)
From Coq Require Import NArith List Bool Arith.
Import ListNotations.
From Fit Require Import Model.ReadBuf Proofs.ReadBufProofs.

Theorem C08_read_n : forall b r n, inv b -> n <= RESERVED ->
  match read_n b r n with
  | (Ok bytes, b', r') => n <= length (stream b r) /\ bytes = firstn n (stream b r) /\ stream b' r' = skipn n (stream b r) /\ inv b'
  | (Err e, _, r') => length (stream b r) < n /\ (e = EOF \/ e = UnexpectedEOF)
  | (Panic, _, _) => False
  end.
Proof. exact read_n_spec. Qed.
Print Assumptions C08_read_n.

Theorem C08_schedules_agree : forall ns b1 r1 b2 r2, inv b1 -> inv b2 -> stream b1 r1 = stream b2 r2 ->
  Forall (fun n => n <= RESERVED) ns ->
  map erase_kind (run_script b1 r1 ns) = map erase_kind (run_script b2 r2 ns).
Proof. exact scripts_agree. Qed.
Print Assumptions C08_schedules_agree.

(* every buffer size option gives a well-formed buffer, and the decoder's largest request (255 definitions x 3 bytes) fits the reserved section *)
Theorem C08_any_buffer_size : forall size, inv (rb_new size).
Proof. exact rb_new_inv. Qed.
Print Assumptions C08_any_buffer_size.
Theorem C08_requests_fit : 255 * 3 <= RESERVED.
Proof. exact requests_fit. Qed.
Print Assumptions C08_requests_fit.

(* the error kind depends on the chunking: the same 3-byte stream, a 5-byte request *)
Theorem C08_error_kind_refuted : exists data n p1 p2,
  fst (fst (read_n (rb_new 0) {| rest := data; plan := p1; eof_with_data := false |} n)) = Err UnexpectedEOF /\
  (let '(_, b1, r1) := read_n (rb_new 0) {| rest := data; plan := p2; eof_with_data := false |} 3 in
   fst (fst (read_n b1 r1 (n - 3)))) = Err EOF.
Proof. exists [1; 2; 3]%N, 5, [1], [3]. split; vm_compute; reflexivity. Qed.
Print Assumptions C08_error_kind_refuted.
