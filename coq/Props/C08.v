(* C08 -- Decoding is independent of how the reader fragments the stream.
   Model/ReadBuf.v is readbuffer.go with the real array / cur / last / memmove layout, io.ReadAtLeast as the loop it is and
   every slice expression bounds-checked; readers are arbitrary chunk schedules ending in EOF together with or after the last
   bytes.  Proved at the level every decoder read goes through (ReadN): the bytes delivered and the point of failure are a
   function of the stream alone, for every schedule, EOF style and buffer size.  Lifted to whole decodes for the fragmentations
   the decoder model knows (buffer size, amount already buffered): C08_decode_buffer_independent below; arbitrary chunk plans
   under Decode are decided per run by the chunked-vs-contiguous Go oracle; the error KIND on a truncated
   stream is not a function of the stream (known finding eof_kind_depends_on_chunking, refuted below). *)
From Coq Require Import NArith List Bool Arith.
Import ListNotations.
From Fit Require Import Model.ReadBuf Proofs.ReadBufProofs.

Theorem C08_read_n : forall b r n, inv b -> n <= RESERVED ->
  match read_n b r n with
  | (Ok bytes, b', r') => n <= length (stream b r) /\ bytes = firstn n (stream b r) /\ stream b' r' = skipn n (stream b r) /\ inv b'
  | (Err e, _, r') => length (stream b r) < n /\ (e = EOF \/ e = UnexpectedEOF)
  | (Panic, _, _) => False
  end.
Proof. exact read_n_spec. Qed.
Print Assumptions C08_read_n.

Theorem C08_schedules_agree : forall ns b1 r1 b2 r2, inv b1 -> inv b2 -> stream b1 r1 = stream b2 r2 ->
  Forall (fun n => n <= RESERVED) ns ->
  map erase_kind (run_script b1 r1 ns) = map erase_kind (run_script b2 r2 ns).
Proof. exact scripts_agree. Qed.
Print Assumptions C08_schedules_agree.

(* every buffer size option gives a well-formed buffer, and the decoder's largest request (255 definitions x 3 bytes) fits the reserved section *)
Theorem C08_any_buffer_size : forall size, inv (rb_new size).
Proof. exact rb_new_inv. Qed.
Print Assumptions C08_any_buffer_size.
Theorem C08_requests_fit : 255 * 3 <= RESERVED.
Proof. exact requests_fit. Qed.
Print Assumptions C08_requests_fit.

(* a reused buffer (Decoder.Reset with another size option): whatever array the buffer holds from earlier uses, Reset yields a
   well-formed, empty window of RESERVED + clamp(size) bytes within the capacity -- the slice expression never panics -- and
   keeps the array exactly when it is large enough; the reused buffer then serves any stream like a fresh one *)
Theorem C08_reset_any_history : forall (s : rstate) size,
  exists s', rb_reset s size = Ok s' /\ inv (fst s') /\ length (buf (fst s')) = RESERVED + clamp_size size /\
             pending (fst s') = [] /\ rb_cap s <= rb_cap s' /\
             (RESERVED + clamp_size size <= rb_cap s -> rb_cap s' = rb_cap s).
Proof. exact rb_reset_ok. Qed.
Print Assumptions C08_reset_any_history.
Theorem C08_reused_like_fresh : forall (s : rstate) size r ns, Forall (fun n => n <= RESERVED) ns ->
  exists s', rb_reset s size = Ok s' /\
  map erase_kind (run_script (fst s') r ns) = map erase_kind (run_script (rb_new size) r ns).
Proof. exact reused_like_fresh. Qed.
Print Assumptions C08_reused_like_fresh.
(* non-vacuity: a default-size buffer reset to 4500 (inside the 765-byte band above the old size) gets a new array *)
Example C08_reset_instance :
  match rb_reset (rb_new 4096, []) 4500 with Ok s' => length (buf (fst s')) = 765 + 4500 /\ rb_cap s' = 765 + 4500 | _ => False end /\
  match rb_reset (rb_new 4096, []) 1000 with Ok s' => length (buf (fst s')) = 765 + 1000 /\ rb_cap s' = 765 + 4096 | _ => False end.
Proof. vm_compute. repeat split. Qed.

(* the error kind depends on the chunking: the same 3-byte stream, a 5-byte request *)
Theorem C08_error_kind_refuted : exists data n p1 p2,
  fst (fst (read_n (rb_new 0) {| rest := data; plan := p1; eof_with_data := false |} n)) = Err UnexpectedEOF /\
  (let '(_, b1, r1) := read_n (rb_new 0) {| rest := data; plan := p2; eof_with_data := false |} 3 in
   fst (fst (read_n b1 r1 (n - 3)))) = Err EOF.
Proof. exists [1; 2; 3]%N, 5, [1], [3]. split; vm_compute; reflexivity. Qed.
Print Assumptions C08_error_kind_refuted.

(* lifted to the decoder (Model/Decoder.v: one refill delivers min(buffer size, what the reader still holds), so the buffer size
   decides how the stream reaches the decoder): what Decode returns depends neither on the buffer size option nor on how much
   of the stream already sits in the buffer -- same headers, messages and CRCs, or errors of one class (io.EOF and
   io.ErrUnexpectedEOF being one class: C08_error_kind_refuted).  Relational proof through every function of the decoder model
   with two option sets that differ in the buffer size only.  With C08_read_n (any chunking reader answers every ReadN with the
   next n bytes) this covers the fragmentations a reader can produce; arbitrary chunk plans directly under Decode are decided
   per run by the Go oracle. *)
From Fit Require Import Model.Api Proofs.IntegrityModel Proofs.ApiIndependence Proofs.ChunkIndependence.
Theorem C08_decode_buffer_independent : forall a b, a_err a = None -> a_err b = None -> a_once a = false -> a_once b = false ->
  c_checksum (a_cfg b) = c_checksum (a_cfg a) -> c_expand (a_cfg b) = c_expand (a_cfg a) ->
  765 <= c_bufsize (a_cfg a) -> 765 <= c_bufsize (a_cfg b) -> dsim (a_s a) (a_s b) ->
  match snd (api_step a ADecode), snd (api_step b ADecode) with
  | RFit f, RFit g => f = g /\ dsim (a_s (fst (api_step a ADecode))) (a_s (fst (api_step b ADecode)))
  | r1, r2 => res_class r1 = res_class r2 /\ (forall f, r1 <> RFit f) /\ (forall f, r2 <> RFit f)
  end.
Proof. exact decode_is_buffer_independent. Qed.
Print Assumptions C08_decode_buffer_independent.

Theorem C08_fresh_decoders_agree : forall ck ex k1 k2 bs, 765 <= k1 -> 765 <= k2 -> bytes_ok bs ->
  match snd (api_step (api_new (mkcfg ck ex k1) bs) ADecode), snd (api_step (api_new (mkcfg ck ex k2) bs) ADecode) with
  | RFit f, RFit g => f = g
  | r1, r2 => res_class r1 = res_class r2 /\ (forall f, r1 <> RFit f) /\ (forall f, r2 <> RFit f)
  end.
Proof. exact fresh_decoders_agree. Qed.
Print Assumptions C08_fresh_decoders_agree.

(* the decoder model's own read layer (Model/Decoder.v: read_raw, the only place the decoder touches the stream) meets the very
   specification C08_read_n proves of readBuffer.ReadN over ANY chunking reader: the next n bytes of the stream, or an
   end-of-stream error iff fewer remain (n <= 765: C08_requests_fit).  So the decoder model is the decoder over an arbitrary
   fragmenting reader, error kind aside -- the two layers meet at one specification *)
Theorem C08_decoder_reads_are_stream_reads : forall c s n, bufok s -> n <= 765 -> 765 <= c_bufsize c ->
  match read_raw c s n with
  | Base.Ok (b, s') => n <= len (s_rest s) /\ b = take n (s_rest s) /\ s_rest s' = drop n (s_rest s) /\ bufok s'
  | Base.Err e => len (s_rest s) < n /\ (e = E_EOF \/ e = E_UnexpectedEOF)
  | _ => False
  end.
Proof. exact read_raw_is_stream_read. Qed.
Print Assumptions C08_decoder_reads_are_stream_reads.
