(* C11 -- Destination failures surface as errors; incomplete output is never a valid file.
   On Model/Writer.v (see Props/C09.v for what it mirrors and how it is tied to the code) with a fault plan: the operation
   with a given index -- counting every Write, Seek and WriteAt the destination receives -- fails after taking
   min(accept, len-1) bytes.
   Proved, for every destination kind, buffer size, chain, failure index and accepted byte count: a call that reports success
   consumed no failing operation; hence if the failing operation was reached, some call of the chain returned an error
   (the model stops a chain at the first error, as the harness does).  The model is total (no panic state exists in it);
   absence of panics in the Go code is decided per run by the harness under recover().
   Crash clause, proved on the integrity rules of Model/Wire.v: while the provisional header (data size 0) is in place, no
   prefix of the destination's content is accepted (C11_crash_partial); no proper prefix of an encoded sequence with its final 14-byte header is accepted
   (C11_crash_final_header, from: the model's output is accepted + truncation lemma of C04).
   The step from "prefix of the operations took effect" to these two shapes is decided per run (every operation index, four
   accepted-byte counts, through the real CheckIntegrity): C11_crash_partial. *)
From Coq Require Import NArith ZArith List Bool.
Import ListNotations.
From Fit Require Import Model.Writer Model.Wire Model.Crc Proofs.WriterFaultProofs Proofs.CrashProofs Proofs.AcceptProofs.
Open Scope N_scope.

Theorem C11_success_means_no_failure_batch : forall w p ds w', noerr w -> encode_one w p ds = (false, w') -> clean w w' /\ noerr w'.
Proof. exact encode_one_success_is_clean. Qed.
Print Assumptions C11_success_means_no_failure_batch.

Theorem C11_success_means_no_failure_stream : forall w p prev w', noerr w -> stream_one w p prev = (false, w') -> clean w w' /\ noerr w'.
Proof. exact stream_one_success_is_clean. Qed.
Print Assumptions C11_success_means_no_failure_stream.

Theorem C11_failure_is_reported_batch : forall k size pre f ps errs w',
  encode_chain (wst_new k size pre (Some f)) ps [] = (errs, w') -> f_at f < d_ops (w_dest w') -> In true errs.
Proof. exact fault_reached_is_reported. Qed.
Print Assumptions C11_failure_is_reported_batch.

Theorem C11_failure_is_reported_stream : forall k size pre f ps errs w',
  stream_chain (wst_new k size pre (Some f)) ps 0 [] = (errs, w') -> f_at f < d_ops (w_dest w') -> In true errs.
Proof. exact fault_reached_is_reported_stream. Qed.
Print Assumptions C11_failure_is_reported_stream.

(* crash while the provisional header is in place *)
Theorem C11_crash_partial : forall l12 zc hs ver pv rest k, (hs = 12 \/ hs = 14) ->
  integrity_sequence_gen l12 zc (firstn k (header_bytes hs ver pv 0 ++ rest)) = None.
Proof. exact provisional_prefix_rejected. Qed.
Print Assumptions C11_crash_partial.

(* crash while a sequence with its final header is being written (plain writers: the header goes out final; rewritable
   destinations whose caller preset the data size): no proper prefix of the sequence is accepted.  The hypotheses say the
   model's output is a byte string of a size a 32-bit data size can describe; C11_final_instance shows they are satisfiable *)
Theorem C11_crash_final_header : forall c f r k, encode_fit c f = Ok r -> (ef_hsize f =? 12) = false ->
  bytes_ok (er_bytes r) -> 16 < len (er_bytes r) < 2 ^ 32 -> (k < length (er_bytes r))%nat ->
  integrity_sequence (firstn k (er_bytes r)) = None.
Proof. exact encode_fit_prefix_rejected. Qed.
Print Assumptions C11_crash_final_header.

(* non-vacuity: a fault at operation 1 that takes 3 bytes is reached and reported, and what the destination then holds is
   rejected by the integrity rules *)
Definition c11_file := mkefile 14 0 0 [mkmsg 0 0 [set_value (create_field 0 0) (VNum TU8 4)] []].
Example C11_instance : match encode_parts (mkecfg false false 0 proto_V2 false) c11_file with
  | Ok p => let a := Writer.encode_chain (wst_new KWriterAt 0 [] (Some (mkfault 1 3))) [(p, 0)] [] in
            fst a = [true] /\ (1 <? d_ops (w_dest (snd a))) = true /\ integrity_b (final_bytes (snd a)) = (0, false)
  | _ => False end.
Proof. vm_compute. auto. Qed.
Example C11_final_instance : match encode_fit (mkecfg false false 0 proto_V2 false) c11_file with
  | Ok r => bytes_okb (er_bytes r) = true /\ (16 <? len (er_bytes r)) = true /\ integrity_b (er_bytes r) = (1, true)
  | _ => False end.
Proof. vm_compute. auto. Qed.

(* ---- a destination that is only appended to (a plain io.Writer), ANY fault plan (which operation fails, how many bytes it
   still takes), any write-buffer size, any chain, any earlier content: after the Encode calls -- successful, failed half way
   through a Write, or with bytes still held back by bufio -- the destination holds the earlier content followed by a PREFIX
   of the concatenated sequences: nothing is ever out of order or duplicated *)
From Fit Require Import Proofs.WriterProofs Proofs.PlainCrash.
Theorem C11_plain_destination_holds_a_prefix : forall size pre f (ps : list (eparts * N)) errs w',
  encode_chain (wst_new KPlain size pre f) ps [] = (errs, w') ->
  is_prefix (d_bytes (w_dest w')) (pre ++ concat (map (fun x => sequence_bytes (fst x)) ps)).
Proof. exact plain_destination_holds_a_prefix. Qed.
Print Assumptions C11_plain_destination_holds_a_prefix.

(* ... and the integrity rules accept a prefix of a chain of encoder outputs only when it is exactly the first j >= 1
   completed sequences: incomplete output is never a valid file, whatever the failure point (the crash clause for plain
   destinations in full; good_output = an output of encode_fit with a 14-byte header, of a size a 32-bit data size can
   describe, C11_final_instance shows it is satisfiable) *)
Theorem C11_plain_crash_accepted_only_at_boundary : forall c size flt fs rs (ps : list (eparts * N)) errs w' n,
  Forall2 (good_output c) fs rs ->
  Forall2 (fun f x => encode_parts c f = Ok (fst x)) fs ps ->
  encode_chain (wst_new KPlain size [] flt) ps [] = (errs, w') ->
  is_prefix (d_bytes (w_dest w')) (concat (map er_bytes rs)) /\
  (integrity_b (d_bytes (w_dest w')) = (n, true) ->
     exists j, n = N.of_nat j /\ (0 < j <= length rs)%nat /\ d_bytes (w_dest w') = concat (map er_bytes (firstn j rs))).
Proof. exact plain_crash_accepted_only_at_boundary. Qed.
Print Assumptions C11_plain_crash_accepted_only_at_boundary.

(* the rules on any prefix of any chain of valid sequences *)
Theorem C11_prefix_of_chain_accepted_only_at_boundary : forall seqs, Forall (fun s => integrity_sequence s = Some [] /\ s <> []) seqs ->
  forall x n, is_prefix x (concat seqs) -> integrity_b x = (n, true) ->
  exists j, n = N.of_nat j /\ (j <= length seqs)%nat /\ x = concat (firstn j seqs) /\ n <> 0.
Proof. intros seqs HF x n Hp Hv. exact (chain_prefix_verdict seqs HF x _ 0 n Hp (Nat.lt_succ_diag_r _) Hv). Qed.
Print Assumptions C11_prefix_of_chain_accepted_only_at_boundary.

(* non-vacuity: two files through a 7-byte buffer into a plain destination whose 4th operation fails after 2 bytes: the
   first call succeeds or the failure is reported, the content is a proper prefix and the rules reject it *)
Example C11_plain_instance : match encode_parts (mkecfg false false 0 proto_V2 false) c11_file with
  | Ok p => let a := Writer.encode_chain (wst_new KPlain 7 [] (Some (mkfault 3 2))) [(p, 0); (p, 0)] [] in
            In true (fst a) /\ (len (d_bytes (w_dest (snd a))) <? 2 * len (sequence_bytes p)) = true /\
            (0 <? len (d_bytes (w_dest (snd a)))) = true /\ snd (integrity_b (d_bytes (w_dest (snd a)))) = false
  | _ => False end.
Proof. vm_compute. auto. Qed.
