(* C20 -- fitactivity: conceal hides the stretch; remove / reduce / combine conserve the rest.
   Only statements, each closed by [exact] of a lemma of Proofs/ActivityProofs.v, with its assumptions printed.
   The model (Model/Activity.v) is tied to cmd/fitactivity/{concealer,remover,reducer,combiner} by Run/RunC20.v. *)
From Coq Require Import NArith ZArith List Bool Permutation Sorted.
Import ListNotations.
From Fit Require Import Model.Activity Proofs.ActivityProofs.
Open Scope N_scope.

(* ---- every in-place swap-compaction loop (replacement in place, state, early exit) is the stable stateful filter-map *)
Theorem C20_swap_compact_is_filter : forall (keep : mesg -> bool) ms, compact_keep keep ms = filter keep ms.
Proof. exact swap_compact_is_filter. Qed.
Print Assumptions C20_swap_compact_is_filter.

Theorem C20_compact_is_sfm : forall (A St : Type) (d : A) (stop : St -> bool) (decide : St -> A -> option A * St) s0 xs,
  compact d stop decide s0 xs = sfm stop decide s0 xs.
Proof. exact @compact_is_sfm. Qed.
Print Assumptions C20_compact_is_sfm.

(* ---- remove: exactly the selected messages go; the others keep order and content (developer fields emptied on request) *)
Theorem C20_remove_spec : forall unknown nums dev ms,
  remove unknown nums dev ms =
  map (fun m => if dev then clear_dev m else m) (filter (fun m => negb (remove_selected unknown nums dev m)) ms).
Proof. exact remove_spec. Qed.
Print Assumptions C20_remove_spec.

(* ---- reduce by distance / time = the statement's selection (first record kept; a record dropped exactly when closer than the
   interval to the previously kept record; non-records untouched), for inputs whose records all carry the reduced quantity.
   FULL statement (without the has_key hypothesis) is false of the code: finding reduce_record_without_key. *)
Theorem C20_reduce_interval_spec_partial : forall key thr ms, Forall (has_key key) ms ->
  reduce_interval key thr ms = reduce_select key thr None ms.
Proof. exact reduce_interval_spec. Qed.
Print Assumptions C20_reduce_interval_spec_partial.

(* the same with the finding's computable classifier as the hypothesis *)
Theorem C20_reduce_interval_spec_outside_finding : forall key thr ms, cls_reduce_record_without_key key ms = false ->
  reduce_interval key thr ms = reduce_select key thr None ms.
Proof. exact reduce_interval_spec_outside_finding. Qed.
Print Assumptions C20_reduce_interval_spec_outside_finding.

Theorem C20_reduce_keeps_non_records : forall key thr ms,
  filter (fun m => negb (is_rec m)) (reduce_interval key thr ms) = filter (fun m => negb (is_rec m)) ms.
Proof. exact reduce_keeps_non_records. Qed.
Print Assumptions C20_reduce_keeps_non_records.

Theorem C20_reduce_first_record_kept : forall key thr pre m post,
  Forall (fun x => is_rec x = false) pre -> is_rec m = true ->
  exists rest, reduce_interval key thr (pre ++ m :: post) = pre ++ m :: rest.
Proof. exact reduce_first_record_kept. Qed.
Print Assumptions C20_reduce_first_record_kept.

(* ---- RDP: defragment removes exactly the fragment indices; findFragments = record indices the simplification did not keep *)
Theorem C20_defragment_spec : forall ms frs, StronglySorted lt frs ->
  defragment ms frs = filter_idx (fun j => negb (memn j frs)) 0 ms.
Proof. exact defragment_spec. Qed.
Print Assumptions C20_defragment_spec.

Theorem C20_find_fragments_spec : forall ris pts, StronglySorted lt ris -> StronglySorted lt pts ->
  find_fragments ris pts = filter (fun r => negb (memn r pts)) ris.
Proof. exact find_fragments_spec. Qed.
Print Assumptions C20_find_fragments_spec.

Theorem C20_reduce_rdp_spec : forall (simplify : list nat -> list nat) ms,
  StronglySorted lt (simplify (indices_from has_point 0 ms)) -> indices_from has_point 0 ms <> [] ->
  reduce_rdp simplify ms =
  Some (filter_idx (fun j => negb (memn j (filter (fun r => negb (memn r (simplify (indices_from has_point 0 ms)))) (indices_from is_rec 0 ms)))) 0 ms).
Proof. exact reduce_rdp_spec. Qed.
Print Assumptions C20_reduce_rdp_spec.

(* ---- conceal *)
(* nothing other than record / lap / session position fields changes (no hypothesis) *)
Theorem C20_conceal_frame : forall first last ms, Forall2 same_but_pos ms (conceal first last ms).
Proof. exact conceal_frame. Qed.
Print Assumptions C20_conceal_frame.

Theorem C20_conceal_frame_other : forall first last ms,
  Forall2 (fun m m' => pos_fields (mnum m) = [] -> m' = m) ms (conceal first last ms).
Proof. exact conceal_frame_other. Qed.
Print Assumptions C20_conceal_frame_other.

(* valid non-decreasing distances: records inside either stretch lose their position, all other records are unchanged *)
Theorem C20_conceal_records : forall first last ms, valid_nondecreasing_distances ms -> Forall nodup_fields ms ->
  Forall2 (fun m m' => is_rec m = true ->
             (in_start first m || in_end last (last_dist ms) m = true -> has_field REC_LAT m' = false /\ has_field REC_LONG m' = false) /\
             (in_start first m || in_end last (last_dist ms) m = false -> m' = m))
          ms (conceal first last ms).
Proof. exact conceal_records. Qed.
Print Assumptions C20_conceal_records.

(* laps / sessions, the code's OWN criterion, at the level of updateStartPosition / updateEndPosition.
   FULL statement (pipeline level: "in conceal's output every lap that the criterion selects has none of the four position
   fields") is not proved: missing is the lifting through the later stages (they only remove or re-value existing fields). *)
Theorem C20_conceal_laps_start_partial : forall ph t la lo pre m post,
  Forall (fun x => mnum x = ph_num ph -> lap_before ph t x = true) pre -> mnum m = ph_num ph ->
  update_start ph t la lo (pre ++ m :: post) =
  map (strip_if_ph ph) pre ++
  (if lap_before ph t m then strip4 ph m :: update_start ph t la lo post
   else set_or_remove (ph_slong ph) lo (set_or_remove (ph_slat ph) la m) :: post).
Proof. exact update_start_spec. Qed.
Print Assumptions C20_conceal_laps_start_partial.

Theorem C20_conceal_laps_end_partial : forall ph ov t la lo pre m post,
  Forall (fun x => mnum x = ph_num ph -> lap_after ph t x = true) post -> mnum m = ph_num ph -> lap_after ph t m = false ->
  fst (update_end ph ov t la lo (pre ++ m :: post)) =
  pre ++ set_or_remove (ph_elong ph) lo (set_or_remove (ph_elat ph) la
           (if ov then remove_field (ph_slong ph) (remove_field (ph_slat ph) m) else m)) :: map (strip_if_ph ph) post.
Proof. exact update_end_spec. Qed.
Print Assumptions C20_conceal_laps_end_partial.

Theorem C20_strip4_no_positions : forall ph m, nodup_fields m ->
  has_field (ph_slat ph) (strip4 ph m) = false /\ has_field (ph_slong ph) (strip4 ph m) = false /\
  has_field (ph_elat ph) (strip4 ph m) = false /\ has_field (ph_elong ph) (strip4 ph m) = false.
Proof. exact strip4_no_positions. Qed.
Print Assumptions C20_strip4_no_positions.

(* outside classifier lap_inside_concealed_zone the code's test is the time-based one *)
Theorem C20_lap_before_is_time_based : forall ph recTs m, mnum m = ph_num ph ->
  lap_unit_differs ph recTs m = false -> get_u32 (ph_start_time ph) m <> U32INV -> get_u32 (ph_ttt ph) m <> U32INV ->
  lap_before ph recTs m = lap_ends_before ph recTs m.
Proof. exact lap_before_is_time_based. Qed.
Print Assumptions C20_lap_before_is_time_based.

(* the time-based reading of the statement is false of the faithful model: findings lap_inside_concealed_zone and
   conceal_end_zone_covers_activity *)
Theorem C20_conceal_laps_refuted : exists ms first last i m m',
  valid_nondecreasing_distances ms /\ wf_activity_b ms = true /\
  nth_error ms i = Some m /\ nth_error (conceal first last ms) i = Some m' /\
  lap_ends_before lap_ph (first_revealed_ts first ms) m = true /\ any_position lap_ph m' = true /\
  cls_lap_inside_concealed_zone first ms = true.
Proof. exact conceal_laps_refuted. Qed.
Print Assumptions C20_conceal_laps_refuted.

Theorem C20_conceal_end_zone_refuted : exists ms first last i m',
  valid_nondecreasing_distances ms /\ wf_activity_b ms = true /\
  forallb (fun m => negb (is_rec m) || negb (has_field REC_LAT m || has_field REC_LONG m)) (conceal first last ms) = true /\
  nth_error (conceal first last ms) i = Some m' /\ mnum m' = LAP /\ any_position lap_ph m' = true /\
  cls_end_zone_covers_activity last ms = true /\ cls_lap_inside_concealed_zone first ms = false.
Proof. exact conceal_end_zone_refuted. Qed.
Print Assumptions C20_conceal_end_zone_refuted.

(* ---- combine *)
Theorem C20_sort_is_permutation : forall l, Permutation (sort_fits l) l.
Proof. exact sort_fits_perm. Qed.
Print Assumptions C20_sort_is_permutation.

Theorem C20_sort_is_sorted : forall l, StronglySorted tc_le (sort_fits l).
Proof. exact sort_fits_sorted. Qed.
Print Assumptions C20_sort_is_sorted.

(* first file verbatim, then the later files in creation-time order, message by message, nothing lost or duplicated,
   nothing changed except accumulable values; in particular every record of every input, in that order *)
Theorem C20_combine_records : forall fits body t, combine fits = CombOk body t ->
  exists f0 rest, map strip_summary (sort_fits (filter (fun f => match f with [] => false | _ => true end) fits)) = f0 :: rest /\
    exists tail, body = f0 ++ tail /\ Forall2 acc_rel (concat (map (filter not_ids) rest)) tail.
Proof. exact combine_records. Qed.
Print Assumptions C20_combine_records.

Theorem C20_combine_records_in_order : forall fits body t, combine fits = CombOk body t ->
  exists f0 rest, map strip_summary (sort_fits (filter (fun f => match f with [] => false | _ => true end) fits)) = f0 :: rest /\
    Forall2 acc_rel (filter is_rec (f0 ++ concat (map (filter not_ids) rest))) (filter is_rec body).
Proof. exact combine_records_in_order. Qed.
Print Assumptions C20_combine_records_in_order.

(* value in a later file = value + last accumulated value of the earlier files, for a quantity the accumulator already knows;
   the last value so produced becomes the base of the next file.
   FULL statement (every accumulable quantity, also one that first appears in a later file, continues from the last accumulated
   value or from 0) is false of the code: finding combine_first_seen_in_later_file; the chaining over the list of files
   (induction over merge_files with this lemma as the step) is not stated as one theorem. *)
Theorem C20_combine_accumulate_partial : forall mn fn v0 ms a l0, lookup a mn fn = Some (v0, l0) ->
  Forall2 (fun m m' => Forall2 (fun f f' => hits mn fn (mnum m) f = true -> fval f' = vsum (fval f) v0) (mfields m) (mfields m'))
          (filter not_ids ms) (fst (accumulate_mesgs ms a)) /\
  lookup (acc_sequence_completed (snd (accumulate_mesgs ms a))) mn fn =
    Some (last_in_mesgs mn fn v0 l0 ms, last_in_mesgs mn fn v0 l0 ms).
Proof. exact combine_accumulate. Qed.
Print Assumptions C20_combine_accumulate_partial.

(* the classifier of combine_first_seen_in_later_file fires on the finding's witness and not on the continuing case *)
Example C20_first_seen_classifier :
  let rec d := M RECORD [F REC_DIST BT_UINT32 true (U32 d)] [] in
  let ses := M SESSION [F SES_SPORT BT_ENUM false (U8 1)] [] in
  let fid t := M FILE_ID [F FILE_ID_TIME_CREATED BT_UINT32 false (U32 t)] [] in
  cls_first_seen_in_later_file [[fid 1; ses]; [fid 2; rec 300; rec 400; rec 500; ses]] = true /\
  cls_first_seen_in_later_file [[fid 1; rec 100; ses]; [fid 2; rec 300; rec 400; rec 500; ses]] = false /\
  match combine [[fid 1; ses]; [fid 2; rec 300; rec 400; rec 500; ses]] with
  | CombOk body _ => map dist (filter is_rec body) = [300; 700; 800] | CombErr => False end.
Proof. vm_compute. repeat split; reflexivity. Qed.

(* ---- non-vacuity *)
Example C20_witness_in_scope : valid_nondecreasing_distances witness_activity /\ Forall nodup_fields witness_activity.
Proof.
  split; [apply mono_b_sound; vm_compute; reflexivity|].
  repeat constructor; cbn; intuition discriminate.
Qed.
Example C20_conceal_changes_something : conceal 45000 0 witness_activity <> witness_activity.
Proof. vm_compute. discriminate. Qed.
Example C20_reduce_drops_something :
  length (reduce_interval REC_DIST 25000 witness_activity) = 7%nat /\ Forall (has_key REC_DIST) witness_activity.
Proof. split; [vm_compute; reflexivity|]. repeat constructor; unfold has_key; vm_compute; intros; discriminate. Qed.
Example C20_combine_accumulates :
  match combine [witness_activity ++ [M SESSION [F SES_SPORT BT_ENUM false (U8 1)] []];
                 M FILE_ID [F FILE_ID_TIME_CREATED BT_UINT32 false (U32 5)] [] :: witness_activity ++ [M SESSION [F SES_SPORT BT_ENUM false (U8 1)] []]] with
  | CombOk body _ => map dist (filter is_rec body) =
      [0; 10000; 20000; 30000; 40000; 50000; 60000; 70000; 80000; 90000; 90000; 100000; 110000; 120000; 130000; 140000; 150000; 160000; 170000; 180000]
  | CombErr => False
  end.
Proof. vm_compute. reflexivity. Qed.
