(* C07 -- A sequence decodes the same whatever the decoder did before.
   Model/Api.v is the decoder object as a state machine over its entry points; gen/DecoderReset.v carries what the
   source's reset()/CheckIntegrity()/PeekFileId() do (translated on every run).  Proved: at every sequence boundary every
   per-sequence component is initial, so the next operation sees a state that is a function of the remaining stream, the
   buffer fill, the byte counter and the listener log only -- and none of these three influences what Decode returns
   (C07_history_independence, a relational proof through every function of the decoder model), so at a boundary Decode returns
   exactly what a fresh decoder over the remaining stream returns (C07_same_as_fresh).  Errors are compared by class, io.EOF
   and io.ErrUnexpectedEOF being one class (which of the two a cut-off stream yields does depend on the buffer fill: known
   finding eof_kind_depends_on_chunking). *)
From Coq Require Import NArith List Bool.
Import ListNotations.
From Fit Require Import Model.Api Model.Crc Proofs.ApiProofs Proofs.IntegrityModel Proofs.ApiIndependence.
Open Scope N_scope.

(* the source clears every per-sequence table in reset() (false on the pinned tree before the fix: commits 964b17b / 2753899) *)
Theorem C07_source_resets_everything : source_resets_everything.
Proof. split; reflexivity. Qed.
Print Assumptions C07_source_resets_everything.

Theorem C07_boundary_after_decode : forall a a' f, api_step a ADecode = (a', RFit f) -> boundary a'.
Proof. intros a a' f. apply decode_ends_at_boundary. exact C07_source_resets_everything. Qed.
Print Assumptions C07_boundary_after_decode.

Theorem C07_boundary_after_discard : forall a a', api_step a ADiscard = (a', RUnit) -> boundary a'.
Proof. intros a a'. apply discard_ends_at_boundary. exact C07_source_resets_everything. Qed.
Print Assumptions C07_boundary_after_discard.

Theorem C07_boundary_after_reset : forall a bs c a' r, api_step a (AReset bs c) = (a', r) -> boundary a'.
Proof. intros a bs c a' r. apply reset_ends_at_boundary. exact C07_source_resets_everything. Qed.
Print Assumptions C07_boundary_after_reset.

Theorem C07_boundary_after_integrity : forall a a' n e, a_err a = None -> api_step a ACheckIntegrity = (a', RIntegrity n e) -> boundary a'.
Proof. intros a a' n e. apply integrity_ends_at_boundary. exact C07_source_resets_everything. Qed.
Print Assumptions C07_boundary_after_integrity.

Theorem C07_boundary_state_partial : forall a, boundary a ->
  a_s a = mkst (s_rest (a_s a)) (s_buf (a_s a)) (s_n (a_s a)) 0 0 0 0 no_defs [] [] [] None zero_header [] (s_events (a_s a)).
Proof. exact boundary_state_canonical. Qed.
Print Assumptions C07_boundary_state_partial.

(* Reset(r, opts...) leaves exactly a new decoder on r with those options: byte counter, buffer, tables, clock, accumulators,
   error, header-once flag.  So whatever the decoder did before, every entry point -- Decode, Next, the peeks, Discard,
   CheckIntegrity -- answers after Reset as on a decoder that was never used (the full statement of C07 for Reset).  Rests on
   what reset() and Reset() clear in the source, translated on every run (public_reset_clears_n: the byte counter, by which
   Next and CheckIntegrity tell a clean end of the stream) *)
Theorem C07_reset_is_new : forall a bs c, fst (api_step a (AReset bs c)) = api_new c bs.
Proof. intros a bs c. exact (reset_is_new a bs c C07_source_resets_everything eq_refl). Qed.
Print Assumptions C07_reset_is_new.
Theorem C07_after_reset_every_entry_point_as_fresh : forall a bs c o,
  api_step (fst (api_step a (AReset bs c))) o = api_step (api_new c bs) o.
Proof. intros a bs c o. rewrite C07_reset_is_new. reflexivity. Qed.
Print Assumptions C07_after_reset_every_entry_point_as_fresh.

(* after a failed integrity check the read buffer is dropped, so rewinding the reader gives exactly the stream again *)
Theorem C07_integrity_then_rewind : integrity_drops_buffer = true.
Proof. reflexivity. Qed.
Print Assumptions C07_integrity_then_rewind.

(* PeekFileId stays inside the sequence *)
Theorem C07_peekfileid_bounded : peekfileid_bounded = true.
Proof. reflexivity. Qed.
Print Assumptions C07_peekfileid_bounded.

(* ... also when its last message straddles the end of a corrupted sequence: every message PeekFileId decodes ends within the
   declared data size or the call fails, so a Discard after it ends exactly where the sequence ends (holds since
   fix: 7fda71f; before it, [PeekFileId, Discard] on a predecessor whose records overran its data size left the decoder in the
   middle of the next sequence, whose Decode then failed although a fresh decoder decodes it) *)
Theorem C07_peekfileid_stays_inside : forall c fuel s s', until_file_id fuel c s = Base.Ok s' ->
  s' = s \/ s_cur s' <= h_datasize (s_header s').
Proof. exact (fun c => until_file_id_inside c eq_refl). Qed.
Print Assumptions C07_peekfileid_stays_inside.

(* C03: errors are sticky until Reset *)
Theorem C07_error_is_sticky : forall a e o, a_err a = Some e -> (forall bs c, o <> AReset bs c) -> o <> ASeekStart ->
  fst (api_step a o) = a /\ (snd (api_step a o) = RErr e \/ snd (api_step a o) = RBool false \/ snd (api_step a o) = RIntegrity 0 (Some e)).
Proof. exact error_is_sticky. Qed.
Print Assumptions C07_error_is_sticky.

(* two decoder objects whose states differ at most in byte counter, buffer fill and listener log *)
Theorem C07_history_independence : forall a b, a_err a = None -> a_err b = None -> a_once a = false -> a_once b = false ->
  a_cfg a = a_cfg b -> 765 <= c_bufsize (a_cfg a) -> dsim (a_s a) (a_s b) ->
  match snd (api_step a ADecode), snd (api_step b ADecode) with
  | RFit f, RFit g => f = g /\ dsim (a_s (fst (api_step a ADecode))) (a_s (fst (api_step b ADecode)))
  | r1, r2 => res_class r1 = res_class r2 /\ (forall f, r1 <> RFit f) /\ (forall f, r2 <> RFit f)
  end.
Proof. exact decode_is_history_independent. Qed.
Print Assumptions C07_history_independence.

Theorem C07_same_as_fresh : forall a, boundary a -> bufok (a_s a) -> bytes_ok (s_rest (a_s a)) -> 765 <= c_bufsize (a_cfg a) ->
  let fresh := api_new (a_cfg a) (s_rest (a_s a)) in
  match snd (api_step a ADecode), snd (api_step fresh ADecode) with
  | RFit f, RFit g => f = g
  | r1, r2 => res_class r1 = res_class r2 /\ (forall f, r1 <> RFit f) /\ (forall f, r2 <> RFit f)
  end.
Proof. exact same_as_fresh. Qed.
Print Assumptions C07_same_as_fresh.

Example C07_boundary_exists : boundary (api_new default_cfg [1; 2; 3]).
Proof. unfold boundary, seq_initial. cbn. repeat split. Qed.
