(* C02 -- Successful encodes are well-formed, self-consistent FIT streams.
   Proved on Model/Encoder.v (tied to encoder.go by byte-exact differential execution on every run):
   shape of a sequence, data size, header CRC, file CRC over the records, write-back = wire, and that for a
   14-byte header the file CRC equals the CRC of all preceding bytes of the sequence.  The record-grammar clause
   (every data record has a live definition whose sizes add up) is decided per run by evaluating the independent
   specification Model/Wire.v on the implementation's bytes (wf_stream_b), not yet by a theorem: C02_wf_partial. *)
From Coq Require Import NArith List Bool.
Import ListNotations.
From Fit Require Import Model.Encoder Model.Wire Proofs.EncoderProofs Proofs.CrcProofs.
Open Scope N_scope.

Theorem C02_running_size_and_crc : forall c ms st acc out st', encode_messages c st ms acc = Ok (out, st') ->
  exists x, out = acc ++ x /\ wrap 32 (es_datasize st') = wrap 32 (es_datasize st + len x) /\ es_crc st' = write (es_crc st) x.
Proof. exact encode_messages_acc. Qed.
Print Assumptions C02_running_size_and_crc.

Theorem C02_wf_partial : forall c f r, encode_fit c f = Ok r ->
  exists hb records, er_bytes r = hb ++ records ++ le_bytes 2 (er_crc r)
    /\ er_crc r = write 0 records
    /\ (let '(hsize, ver, pv, dsize, hcrc) := er_header r in
        len hb = hsize /\ (hsize = 12 \/ hsize = 14) /\ wrap 32 dsize = wrap 32 (len records)
        /\ firstn 12 hb = hsize :: ver :: le_bytes 2 pv ++ le_bytes 4 dsize ++ DataTypeFIT
        /\ (hsize = 14 -> skipn 12 hb = le_bytes 2 hcrc /\ hcrc = write 0 (firstn 12 hb))).
Proof. exact encode_fit_shape. Qed.
Print Assumptions C02_wf_partial.

(* header with its own correct CRC: the CRC of header ++ records is the CRC of the records alone *)
Theorem C02_crc_whole_sequence_14 : forall h12 records, bytes_ok h12 ->
  write 0 ((h12 ++ le_bytes 2 (write 0 h12)) ++ records) = write 0 records.
Proof. exact crc_header14_transparent. Qed.
Print Assumptions C02_crc_whole_sequence_14.

(* 12-byte header: the encoder's CRC covers the records only; the protocol's CRC covers the sequence from its first byte.
   Known finding legacy_header_file_crc: the independent specification rejects the model's own 12-byte output. *)
Definition one_msg_file (hs : N) := mkefile hs 0 0 [mkmsg 0 0 [set_value (create_field 0 0) (VNum TU8 4)] []].
Theorem C02_legacy_header_refuted : exists c f r, encode_fit c f = Ok r /\ wf_stream_b (er_bytes r) 1 = false
  /\ wf_stream_legacy_b (er_bytes r) 1 = true.
Proof.
  exists (mkecfg false false 0 proto_V2 false), (one_msg_file 12).
  destruct (encode_fit _ _) as [r| | |] eqn:E; [|vm_compute in E; discriminate E ..].
  exists r. split; [reflexivity|].
  assert (Hr : Ok r = encode_fit (mkecfg false false 0 proto_V2 false) (one_msg_file 12)) by (symmetry; exact E).
  vm_compute in Hr. injection Hr as ->. split; vm_compute; reflexivity.
Qed.
Print Assumptions C02_legacy_header_refuted.

(* non-vacuity: a 14-byte-header output satisfies the independent specification *)
Example C02_wf_instance : match encode_fit (mkecfg false false 0 proto_V2 false) (one_msg_file 14) with
  | Ok r => wf_stream_b (er_bytes r) 1 = true | _ => False end.
Proof. vm_compute. reflexivity. Qed.
