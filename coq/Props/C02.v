(* C02 -- Successful encodes are well-formed, self-consistent FIT streams.
   Proved on Model/Encoder.v (tied to encoder.go by byte-exact differential execution on every run):
   shape of a sequence, data size, header CRC, file CRC over the records, write-back = wire, and that for a
   14-byte header the file CRC equals the CRC of all preceding bytes of the sequence.  The record-grammar clause
   (every data record has a live definition whose sizes add up, records cover exactly the declared data size) is a theorem
   too: C02_wf -- for a 14-byte header the whole output is a well-formed sequence of the independent specification
   Model/Wire.v, via the invariant "the encoder's LRU slot i holds definition d  =>  the grammar's record length for local
   number i is the one d announces" (Proofs/GrammarProofs.v).  The same specification is also evaluated on the
   implementation's bytes on every run (wf_stream_b). *)
From Coq Require Import NArith List Bool.
Import ListNotations.
From Fit Require Import Model.Encoder Model.Wire Proofs.EncoderProofs Proofs.CrcProofs Proofs.GrammarProofs Proofs.WfProofs.
Open Scope N_scope.

Theorem C02_running_size_and_crc : forall c ms st acc out st', encode_messages c st ms acc = Ok (out, st') ->
  exists x, out = acc ++ x /\ wrap 32 (es_datasize st') = wrap 32 (es_datasize st + len x) /\ es_crc st' = write (es_crc st) x.
Proof. exact encode_messages_acc. Qed.
Print Assumptions C02_running_size_and_crc.

Theorem C02_wf_partial : forall c f r, encode_fit c f = Ok r ->
  exists hb records, er_bytes r = hb ++ records ++ le_bytes 2 (er_crc r)
    /\ er_crc r = write 0 records
    /\ (let '(hsize, ver, pv, dsize, hcrc) := er_header r in
        len hb = hsize /\ (hsize = 12 \/ hsize = 14) /\ wrap 32 dsize = wrap 32 (len records)
        /\ firstn 12 hb = hsize :: ver :: le_bytes 2 pv ++ le_bytes 4 dsize ++ DataTypeFIT
        /\ (hsize = 14 -> skipn 12 hb = le_bytes 2 hcrc /\ hcrc = write 0 (firstn 12 hb))).
Proof. exact encode_fit_shape. Qed.
Print Assumptions C02_wf_partial.

(* the whole output is a well-formed sequence of the independent wire specification (14-byte header).  Hypotheses: the output
   is a byte string and shorter than 4 GiB (the data size is a uint32); C02_wf_instance shows they are satisfiable *)
Theorem C02_wf : forall c f r, encode_fit c f = Ok r -> (ef_hsize f =? 12) = false ->
  bytes_ok (er_bytes r) -> len (er_bytes r) < 2 ^ 32 -> exists segs, wf_sequence (er_bytes r) = Some (segs, []).
Proof. exact encode_fit_wf. Qed.
Print Assumptions C02_wf.

(* its core: whatever the messages, options and LRU history, the records written for a list of validated messages parse under
   the record grammar, starting from any table of record lengths that agrees with the encoder's LRU *)
Theorem C02_records_parse : forall c ms st acc out st' lens, winv c (es_lru st) lens -> Forall msg_ok ms ->
  encode_messages c st ms acc = Ok (out, st') ->
  exists lens' segs x, out = acc ++ x /\ winv c (es_lru st') lens' /\
    forall rest k segs2 rest', parses lens' rest k segs2 rest' -> parses lens (x ++ rest) (len x + k) (segs ++ segs2) rest'.
Proof. exact encode_messages_parses. Qed.
Print Assumptions C02_records_parse.

Theorem C02_validated_messages_fit : forall preserve ms vs acc out, validate_all preserve vs ms acc = Ok out -> Forall msg_ok acc -> Forall msg_ok out.
Proof. exact validate_all_ok. Qed.
Print Assumptions C02_validated_messages_fit.

(* header with its own correct CRC: the CRC of header ++ records is the CRC of the records alone *)
Theorem C02_crc_whole_sequence_14 : forall h12 records, bytes_ok h12 ->
  write 0 ((h12 ++ le_bytes 2 (write 0 h12)) ++ records) = write 0 records.
Proof. exact crc_header14_transparent. Qed.
Print Assumptions C02_crc_whole_sequence_14.

(* 12-byte header: the encoder's CRC covers the records only; the protocol's CRC covers the sequence from its first byte.
   Known finding legacy_header_file_crc: the independent specification rejects the model's own 12-byte output. *)
Definition one_msg_file (hs : N) := mkefile hs 0 0 [mkmsg 0 0 [set_value (create_field 0 0) (VNum TU8 4)] []].
Theorem C02_legacy_header_refuted : exists c f r, encode_fit c f = Ok r /\ wf_stream_b (er_bytes r) 1 = false
  /\ wf_stream_legacy_b (er_bytes r) 1 = true.
Proof.
  exists (mkecfg false false 0 proto_V2 false), (one_msg_file 12).
  destruct (encode_fit _ _) as [r| | |] eqn:E; [|vm_compute in E; discriminate E ..].
  exists r. split; [reflexivity|].
  assert (Hr : Ok r = encode_fit (mkecfg false false 0 proto_V2 false) (one_msg_file 12)) by (symmetry; exact E).
  vm_compute in Hr. injection Hr as ->. split; vm_compute; reflexivity.
Qed.
Print Assumptions C02_legacy_header_refuted.

(* non-vacuity: a 14-byte-header output satisfies the independent specification *)
Example C02_wf_instance : match encode_fit (mkecfg false false 0 proto_V2 false) (one_msg_file 14) with
  | Ok r => wf_stream_b (er_bytes r) 1 = true | _ => False end.
Proof. vm_compute. reflexivity. Qed.

(* chained files: the output for a list of files (14-byte headers) is exactly that many well-formed sequences and nothing else --
   nothing between and nothing after them *)
From Fit Require Import Proofs.WfChain.
Theorem C02_chain_wf : forall c fs out, encode_fits c fs [] = Ok out -> Forall (fun f => (ef_hsize f =? 12) = false) fs ->
  bytes_ok out -> len out < 2 ^ 32 -> wf_stream_b out (N.of_nat (length fs)) = true.
Proof. exact encode_fits_wf_b. Qed.
Print Assumptions C02_chain_wf.
