(* C05 -- Expanded component fields carry exactly the value of their source bits.
   Model/Decoder.v carries the whole expansion (makeBits/storeFromSlice/Pull over 32 64-bit words, the accumulator, sub-field
   substitution, replace-or-append, recursion) and is tied to decoder.go by differential execution on every run (fixtures and
   one generated file per component owner).  Proved on that model: Pull cuts consecutive bit slices from the least significant
   bit of the whole container; the accumulator yields the running total of a wrapping k-bit counter; expansion only appends
   fields marked expanded and only changes values of fields that are already there, so expansion off = on minus expanded
   fields (field set, order, definitions, marks).  The VALUE clause (exact when integral, else within one unit) is decided per
   run by an exact-rational Go oracle over every component owner; the float step follows gen/ConvMode.v (rounding since fix:
   9f54978; before it, truncation lost one unit: C12's finding). *)
From Coq Require Import NArith List Bool.
Import ListNotations.
From Fit Require Import Model.Decoder Proofs.BitsProofs Proofs.ExpandProofs.
Open Scope N_scope.

Theorem C05_pull : forall k, 1 <= k <= 63 -> forall store, words_ok store -> store <> [] -> k <= 32 ->
  fst (pull store k) = V store mod 2 ^ k /\ V (snd (pull store k)) = V store / 2 ^ k /\ words_ok (snd (pull store k)).
Proof. exact pull_spec. Qed.
Print Assumptions C05_pull.

Theorem C05_pull_in_order : forall k1 k2 store, 1 <= k1 <= 32 -> 1 <= k2 <= 32 -> words_ok store -> store <> [] -> snd (pull store k1) <> [] ->
  fst (pull (snd (pull store k1)) k2) = (V store / 2 ^ k1) mod 2 ^ k2.
Proof. exact pull_twice. Qed.
Print Assumptions C05_pull_in_order.

Theorem C05_accumulate : forall m f k, 1 <= k <= 32 -> forall incs t r, Forall (fun i => i < 2 ^ k) incs ->
  acc_run (mkacc m f (t mod 2 ^ k) (t mod W32) :: r) m f k (map (fun x => x mod 2 ^ k) (totals t incs)) = map (fun x => x mod W32) (totals t incs).
Proof. exact accumulate_spec. Qed.
Print Assumptions C05_accumulate.

Theorem C05_off_is_on_minus_expanded : forall k i mesgnum fs acc, Forall (fun f => f_expanded f = false) fs ->
  sig (filter (fun f => negb (f_expanded f)) (fst (expand_all k i mesgnum fs acc))) = sig fs.
Proof. exact expansion_off_is_on_minus_expanded. Qed.
Print Assumptions C05_off_is_on_minus_expanded.

(* every component of the profile is between 1 and 32 bits wide (hypothesis of C05_pull), checked on the table served by the implementation *)
Definition all_comps (fb : fieldbase) : list comp := fb_comps fb ++ flat_map s_comps (fb_subs fb).
Definition comp_bits_ok (t : mesgtable) : bool :=
  forallb (fun mf => forallb (fun fb => forallb (fun c => (1 <=? c_bits c) && (c_bits c <=? 32)) (all_comps fb)) (snd mf)) t.
Theorem C05_component_bits : comp_bits_ok mesgs = true.
Proof. vm_compute. reflexivity. Qed.
Print Assumptions C05_component_bits.

(* instance: compressed_speed_distance [0x36, 0x03, ...] -> speed bits = 822 *)
Example C05_pull_instance : fst (pull (store_from_slice [0x36; 0x03; 0x12] TU8 1 0 0 zero_store) 12) = 822.
Proof. vm_compute. reflexivity. Qed.

(* frame: a field that is no destination is left alone.  A destination number of message m is a number some component of some
   field or sub-field of m in the profile expands into ([dest], read off the factory table).  For fields as the decoder builds them
   (components and sub-fields as in the factory), whatever the values, the accumulator history, the sub-field substitutions chosen
   and the nesting depth: a field whose number is no destination number is, after expansion, at the same position and identical. *)
From Fit Require Import Proofs.ExpandFrame.
Theorem C05_non_destination_unchanged : forall m k i fs acc j f,
  Forall (fun f => fb_comps (f_fb f) = fb_comps (f_fb (create_field m (f_num f))) /\ fb_subs (f_fb f) = fb_subs (f_fb (create_field m (f_num f)))) fs ->
  nth_opt fs j = Some f -> ~ dest m (f_num f) -> nth_opt (fst (expand_all k i m fs acc)) j = Some f.
Proof. exact decoded_non_destination_unchanged. Qed.
Print Assumptions C05_non_destination_unchanged.

(* value level, complete for the narrow components: for every component of the profile that is at most 16 bits wide (15 distinct
   width / scale / offset combinations, 120 components) and EVERY raw value of its width, what the expansion computes --
   f64_to_u32 (so_discard (so_apply bits cscale coffset) dscale doffset), the very expression of expand_loop, over primitive
   floats -- is the exact rational ((bits / cscale - coffset) + doffset) x dscale rounded half away from zero.  A complete sweep
   under vm_compute, lifted to the profile table.  Wider components (17..32 bits, accumulated totals) stay with the per-run
   oracle. *)
From Coq Require Import ZArith.
From Fit Require Import Proofs.ExpandValue.
Theorem C05_small_component_values_exact : forall m fbs fb c v, In (m, fbs) mesgs -> In fb fbs -> In c (ExpandValue.all_comps fb) ->
  c_bits c <= 16 -> v < 2 ^ c_bits c ->
  let '(ds, do_) := dest_so m c in
  exists z, exact_value v (f64_of_bits (c_scale c)) (f64_of_bits (c_offset c)) ds do_ = Some z /\
            pipeline v (f64_of_bits (c_scale c)) (f64_of_bits (c_offset c)) ds do_ = Z.to_N (z mod 4294967296)%Z.
Proof. exact small_component_values_exact. Qed.
Print Assumptions C05_small_component_values_exact.
(* the pipeline is the expression of the expansion loop *)
Example C05_pipeline_is_expand_loop : forall v cs co ds do_,
  pipeline v cs co ds do_ = f64_to_u32_mode mode_expand (so_discard (so_apply v cs co) ds do_).
Proof. reflexivity. Qed.
