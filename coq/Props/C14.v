(* C14 -- file types conserve messages; the concurrent listener equals sequential building.
   Only statements; proofs are in Proofs/FiledefProofs.v, Proofs/ListenerProofs.v, Inst/FiledefInst.v, Inst/ListenerInst.v.

   Vocabulary (Model/Filedef.v): [file_of cmp sp ms] = NewXxx(ms...).ToFIT() for the file type with translated specification [sp]
   and translated comparator [cmp]; a message is (number, identity tag, candidate timestamp fields before / after the typed round
   trip); [normalise sp m] = the typed round trip (property C13) when the file type has a typed slot for m's number, m itself
   otherwise; [survivors sp ms] drops a message of a singleton kind when a later one has the same number.
   [has_file_id ms] is forced: FileId is held by value, a list without file_id gains a fabricated one (outside the property's
   domain: a FIT file has a file_id).
   Listener (Model/Listener.v): two threads over poolc (size P), mesgc (size B), done; P, B, K are the translated capacity
   expressions of listener.go evaluated at the channel-buffer option.  Proved over this channel model; the Go scheduler and memory
   model (data-race freedom) are validated dynamically only (-race runs): partial. *)
From Coq Require Import NArith ZArith Arith List Bool Permutation.
Import ListNotations.
From Fit Require Import Model.Filedef Model.FiledefTables Model.Listener gen.FiledefSpec gen.ListenerSpec
  Proofs.FiledefProofs Proofs.ListenerProofs Inst.FiledefInst Inst.ListenerInst.
Open Scope N_scope.

(* ---------------------------------------------------------------- file types *)
Theorem C14_specs_wellformed : forall sp, In sp fspecs -> wf_fspec sp = true.
Proof. exact specs_wf. Qed.
Print Assumptions C14_specs_wellformed.

(* neither loses nor duplicates a message (singletons keep the last), alters none beyond the normalisation *)
Theorem C14_conserve : forall sp, In sp fspecs -> forall ms, has_file_id ms = true ->
  Permutation (file_of cmp sp ms) (map (normalise sp) (survivors sp ms)).
Proof. intros sp Hsp ms H. exact (conserve cmp sp ms (specs_wf sp Hsp) H). Qed.
Print Assumptions C14_conserve.

(* file_id (the last one) first, then the developer-data-id messages, then the field-description messages, each in arrival order *)
Theorem C14_prefix : forall sp, In sp fspecs -> forall ms, has_file_id ms = true ->
  exists fid, last_num num_file_id ms = Some fid /\
    firstn (prefix_len ms) (file_of cmp sp ms) =
      norm fid :: map norm (with_num num_developer_data_id ms) ++ map norm (with_num num_field_description ms).
Proof. intros sp Hsp ms H. exact (prefix_first cmp sp ms (specs_wf sp Hsp) H). Qed.
Print Assumptions C14_prefix.

(* the rest is ordered by timestamp, timestamp-less messages first (course_point / set read their own field number) ... *)
Theorem C14_sorted : forall sp, In sp fspecs -> is_all sp = true -> forall ms, has_file_id ms = true ->
  sorted (kle (key cmp)) (skipn (prefix_len ms) (file_of cmp sp ms)).
Proof. intros sp Hsp Hall ms H. exact (sorted_all cmp sp ms cmp_wf (specs_wf sp Hsp) H Hall). Qed.
Print Assumptions C14_sorted.

(* ... stably: messages with equal keys stay in emission order (typed groups in ToFIT order, each in arrival order, then the
   unrelated messages in arrival order -- C14_slot_contents) *)
Theorem C14_stable : forall sp, In sp fspecs -> is_all sp = true -> forall ms, has_file_id ms = true -> forall k,
  filter (same_key (key cmp) k) (skipn (prefix_len ms) (file_of cmp sp ms)) =
  filter (same_key (key cmp) k) (flat_map (build sp ms) (body_slots sp)).
Proof. intros sp Hsp Hall ms H. exact (stable_all cmp sp ms cmp_wf (specs_wf sp Hsp) H Hall). Qed.
Print Assumptions C14_stable.

Theorem C14_slot_contents : forall sp, In sp fspecs -> forall ms,
  (forall c, In c (fs_add sp) -> build sp ms (ac_slot c) =
     if is_append (ac_kind c) then Filedef.init sp (ac_slot c) ++ map norm (with_num (ac_num c) ms)
     else match last_num (ac_num c) ms with Some m => [norm m] | None => Filedef.init sp (ac_slot c) end) /\
  (forall u cl, fs_default sp = Some (u, cl) ->
     build sp ms u = Filedef.init sp u ++ filter (fun m => negb (typed sp (m_num m))) ms).
Proof.
  intros sp Hsp ms. split.
  - intros c Hc. exact (typed_slot_contents sp ms c (specs_wf sp Hsp) Hc).
  - intros u cl Hd. exact (unrelated_slot_contents sp ms u cl (specs_wf sp Hsp) Hd).
Qed.
Print Assumptions C14_slot_contents.

(* the comparator reads the field the profile calls "timestamp" in every message (factory dump) *)
Theorem C14_timestamp_fields : ts_names_ok = true.
Proof. exact ts_names. Qed.
Print Assumptions C14_timestamp_fields.

(* one file type per source file, and the listener's default file sets reach every one of them *)
Theorem C14_filesets : filesets_ok = true.
Proof. exact filesets_wf. Qed.
Print Assumptions C14_filesets.

(* Ordering clause for the file types that do not sort everything after the prefix (finding partial_timestamp_order):
   FULL STATEMENT (C14_sorted without the hypothesis [is_all sp = true]) is false of the faithful model -- refuted below;
   what these file types do have: typed groups in emission order, then the unrelated messages sorted (or nothing sorted). *)
Theorem C14_order_partial : forall sp, In sp fspecs -> is_all sp = false -> forall ms, has_file_id ms = true ->
  (classify sp = Some SortNone /\ skipn (prefix_len ms) (file_of cmp sp ms) = flat_map (build sp ms) (body_slots sp)) \/
  (classify sp = Some SortUnrelated /\ exists tys u, body_slots sp = tys ++ [u] /\
     skipn (prefix_len ms) (file_of cmp sp ms) = flat_map (build sp ms) tys ++ isort (kle (key cmp)) (build sp ms u) /\
     sorted (kle (key cmp)) (isort (kle (key cmp)) (build sp ms u))).
Proof. intros sp Hsp Hall ms H. exact (tail_other cmp sp ms cmp_wf (specs_wf sp Hsp) H Hall). Qed.
Print Assumptions C14_order_partial.

Theorem C14_order_refuted : forall sp, In sp fspecs -> is_all sp = false ->
  exists ms, has_file_id ms = true /\ ~ sorted (kle (key cmp)) (skipn (prefix_len ms) (file_of cmp sp ms)).
Proof. exact (order_refuted cmp fspecs refuted_where_not_all). Qed.
Print Assumptions C14_order_refuted.

(* ---------------------------------------------------------------- listener *)
Close Scope N_scope.
Open Scope nat_scope.
Theorem C14_listener_structure : wf_lspec lspec = true.
Proof. exact lspec_wf. Qed.
Print Assumptions C14_listener_structure.

(* for every channel-buffer option giving a non-empty pool, every message list and every scheduling: a maximal execution
   (nothing enabled any more) has reached the final state -- no deadlock --, the worker has been handed exactly the messages
   of the sequence in order (so the file is the one built by adding them sequentially), every slice is back in the pool *)
Theorem C14_listener : forall (M : Type) (buf : nat), 1 <= pool_size lspec buf -> forall (ms : list M) s,
  maximal (pool_size lspec buf) (queue_size lspec buf) (close_count lspec buf) (Listener.init (pool_size lspec buf) ms) s ->
  final s /\ processed s = ms /\ pool s = pool_size lspec buf /\ q s = [].
Proof. intros M buf HP ms s Hm. exact (maximal_final _ _ _ ms s HP Hm). Qed.
Print Assumptions C14_listener.

Theorem C14_listener_pool : forall buf, 1 <= buf -> 1 <= pool_size lspec buf.
Proof. exact pool_positive. Qed.
Print Assumptions C14_listener_pool.

(* every channel-buffer option, 0 included, gives a non-empty pool (the pool has one slot more than the option and is built
   when still nil: since fix b34bd23), so the protocol theorem holds for every option value *)
Theorem C14_listener_pool_any : forall buf, 1 <= pool_size lspec buf.
Proof. exact pool_always_positive. Qed.
Print Assumptions C14_listener_pool_any.
Theorem C14_listener_any_buffer : forall (M : Type) (buf : nat) (ms : list M) s,
  maximal (pool_size lspec buf) (queue_size lspec buf) (close_count lspec buf) (Listener.init (pool_size lspec buf) ms) s ->
  final s /\ processed s = ms /\ pool s = pool_size lspec buf /\ q s = [].
Proof. intros M buf ms s Hm. exact (maximal_final _ _ _ ms s (pool_always_positive buf) Hm). Qed.
Print Assumptions C14_listener_any_buffer.

(* every execution is finite (no livelock): the successor relation is well founded, for all P, B, K *)
Theorem C14_listener_terminates : forall (M : Type) (P B K : nat), well_founded (fun s' s : @st M => In s' (steps P B K s)).
Proof. intros M P B K. exact (steps_wf P B K). Qed.
Print Assumptions C14_listener_terminates.

(* never stuck before the final state *)
Theorem C14_listener_progress : forall (M : Type) (buf : nat), 1 <= pool_size lspec buf -> forall (ms : list M) s,
  reach (pool_size lspec buf) (queue_size lspec buf) (close_count lspec buf) (Listener.init (pool_size lspec buf) ms) s ->
  ~ final s -> steps (pool_size lspec buf) (queue_size lspec buf) (close_count lspec buf) s <> [].
Proof. intros M buf HP ms s Hr. exact (progress _ _ _ ms s HP (reach_inv _ _ _ ms s Hr)). Qed.
Print Assumptions C14_listener_progress.

(* nothing of one sequence is carried into the next: the state the next OnMesg starts from is the initial state *)
Theorem C14_listener_no_carry_over : forall (M : Type) (buf : nat), 1 <= pool_size lspec buf -> forall (ms ms' : list M) s,
  maximal (pool_size lspec buf) (queue_size lspec buf) (close_count lspec buf) (Listener.init (pool_size lspec buf) ms) s ->
  next_sequence s ms' = Listener.init (pool_size lspec buf) ms'.
Proof. intros M buf HP ms ms' s Hm. exact (next_is_init _ _ _ ms s ms' HP Hm). Qed.
Print Assumptions C14_listener_no_carry_over.

(* finding listener_buffer_zero: an option that leaves the pool empty blocks the first OnMesg forever.
   FULL STATEMENT (C14_listener without [1 <= pool_size lspec buf]) is false whenever [pool_size lspec 0 = 0]. *)
Theorem C14_listener_empty_pool_refuted : forall (M : Type) (buf : nat), pool_size lspec buf = 0 -> forall (m : M) ms,
  steps (pool_size lspec buf) (queue_size lspec buf) (close_count lspec buf) (Listener.init (pool_size lspec buf) (m :: ms)) = [] /\
  ~ final (Listener.init (pool_size lspec buf) (m :: ms)).
Proof. intros M buf HP m ms. exact (empty_pool_deadlock _ _ _ m ms HP). Qed.
Print Assumptions C14_listener_empty_pool_refuted.

(* hypotheses are satisfiable *)
Example C14_hypotheses_satisfiable :
  has_file_id [mkmsg num_file_id 1%N [] [] 4%N] = true /\ (exists sp, In sp fspecs /\ is_all sp = true) /\ 1 <= pool_size lspec 128.
Proof.
  split; [reflexivity|]. split.
  - assert (H : existsb is_all fspecs = true) by (vm_compute; reflexivity).
    apply existsb_exists in H. destruct H as (sp & Hin & Hall). exists sp. auto.
  - apply Nat.leb_le. vm_compute. reflexivity.
Qed.
