(* C16 -- Raw decoder segments exactly the bytes and agrees with the full decoder.
   Model/Raw.v mirrors RawDecoder.Decode (tied to raw.go by differential execution: segments, consumed count, error class).
   Proved: the segments concatenate to exactly the consumed prefix (for every byte string), and every segment has the length the
   independent record grammar of Model/Wire.v prescribes: whenever the raw decoder accepts and the grammar segments the stream
   at all (no record straddles the end of its data region, which the grammar rejects and the decoders tolerate), both give the
   same segments (C16_lengths; record by record the two are the same function while the raw decoder's reads succeed).
   The agreement with the full decoder is decided by the Go oracle (same series of definitions and data messages whenever the
   full decoder accepts): C16_agree is not yet a theorem. *)
From Coq Require Import NArith List Bool.
Import ListNotations.
From Fit Require Import Model.Raw Model.Crc Run.RunC16 Proofs.RawProofs Proofs.RawWire.
Open Scope N_scope.

Theorem C16_concat : forall bs, result_ok bs (raw_decode bs).
Proof. exact raw_concat. Qed.
Print Assumptions C16_concat.

Theorem C16_concat_success : forall bs segs n, raw_decode bs = (segs, n, None) -> concat (map snd segs) = take n bs.
Proof. exact raw_concat_success. Qed.
Print Assumptions C16_concat_success.

Theorem C16_lengths : forall bs, bytes_ok bs -> len bs < 4294967296 ->
  let '(segs, n, e) := raw_decode bs in check_wire (bs, segs, n, e) = true.
Proof. exact raw_lengths_are_the_grammar. Qed.
Print Assumptions C16_lengths.

Example C16_instance : exists segs, raw_decode [14; 32; 0; 0; 11; 0; 0; 0; 46; 70; 73; 84; 0; 0; 64; 0; 0; 0; 0; 1; 0; 1; 0; 0; 4; 9; 9] = (segs, 27, None) /\ length segs = 4%nat.
Proof. eexists. split; [vm_compute; reflexivity|reflexivity]. Qed.
