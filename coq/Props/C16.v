(* C16 -- Raw decoder segments exactly the bytes and agrees with the full decoder.
   Model/Raw.v mirrors RawDecoder.Decode (tied to raw.go by differential execution: segments, consumed count, error class).
   Proved: the segments concatenate to exactly the consumed prefix (for every byte string), and every segment has the length the
   independent record grammar of Model/Wire.v prescribes: whenever the raw decoder accepts and the grammar segments the stream
   at all (no record straddles the end of its data region, which the grammar rejects and the decoders tolerate), both give the
   same segments (C16_lengths; record by record the two are the same function while the raw decoder's reads succeed).
   Agreement with the full decoder (C16_agree): whenever the model of the full decoder (Model/Decoder.v, any options -- checksum
   verified or ignored, expansion on or off -- and any read-buffer size) decodes a byte string and its sequences account for
   every byte (sum over the file headers of header size + data size + 2 >= length: the decoder tolerates a cut-off header
   after a complete sequence, the raw decoder reports it), the raw decoder model accepts the string and its segments are, one
   for one and in order, the full decoder's events: file header (size, data size), message definition (header byte hence local
   number, reserved, architecture, global number, field and developer field definitions), message data (header byte), CRC.
   Hence also the same number of sequences (C16_same_sequence_count).  Both models are tied to the Go code by differential
   execution, and the Go oracle compares the two Go decoders directly on every run. *)
From Coq Require Import NArith List Bool.
Import ListNotations.
From Fit Require Import Model.Decoder Model.Raw Model.Crc Run.RunC16 Proofs.RawProofs Proofs.RawWire Proofs.DecoderWire.
Open Scope N_scope.

Theorem C16_concat : forall bs, result_ok bs (raw_decode bs).
Proof. exact raw_concat. Qed.
Print Assumptions C16_concat.

Theorem C16_concat_success : forall bs segs n, raw_decode bs = (segs, n, None) -> concat (map snd segs) = take n bs.
Proof. exact raw_concat_success. Qed.
Print Assumptions C16_concat_success.

Theorem C16_lengths : forall bs, bytes_ok bs -> len bs < 4294967296 ->
  let '(segs, n, e) := raw_decode bs in check_wire (bs, segs, n, e) = true.
Proof. exact raw_lengths_are_the_grammar. Qed.
Print Assumptions C16_lengths.

Theorem C16_agree : forall c bs fits evs, bytes_ok bs ->
  decode_all (S (length bs)) c (init_state bs) [] = (Ok fits, evs) -> len bs <= covered evs ->
  exists segs n, raw_decode bs = (segs, n, None) /\ items_agree evs segs.
Proof. exact decoder_raw_agree. Qed.
Print Assumptions C16_agree.

Theorem C16_same_sequence_count : forall evs segs, items_agree evs segs ->
  length (filter (fun e => match e with EvHeader _ => true | _ => false end) evs)
  = length (filter (fun sg => match fst sg with RFHeader => true | _ => false end) segs).
Proof. exact same_sequence_count. Qed.
Print Assumptions C16_same_sequence_count.

(* the hypotheses of C16_agree are satisfiable: the full decoder model accepts this stream and accounts for all 27 bytes *)
Example C16_agree_instance :
  let bs := [14; 32; 0; 0; 11; 0; 0; 0; 46; 70; 73; 84; 0; 0; 64; 0; 0; 0; 0; 1; 0; 1; 0; 0; 4; 9; 9] in
  exists fits evs, decode_all (S (length bs)) (mkcfg false true 4096) (init_state bs) [] = (Ok fits, evs) /\ length fits = 1%nat /\ len bs <= covered evs.
Proof. eexists. eexists. split; [vm_compute; reflexivity|]. split; [reflexivity|vm_compute; discriminate]. Qed.

Example C16_instance : exists segs, raw_decode [14; 32; 0; 0; 11; 0; 0; 0; 46; 70; 73; 84; 0; 0; 64; 0; 0; 0; 0; 1; 0; 1; 0; 0; 4; 9; 9] = (segs, 27, None) /\ length segs = 4%nat.
Proof. eexists. split; [vm_compute; reflexivity|reflexivity]. Qed.
