(* Independent reading of the FIT protocol (written from the protocol text; shares no definition with
   Encoder.v / Decoder.v): stream = sequences; sequence = 12/14-byte header, records, 2-byte CRC.
   Used as the specification for C02 (well-formed output), C04 (integrity reference) and C16 (segmentation). *)
From Coq Require Import NArith List Bool.
Import ListNotations.
From Fit Require Import Model.Base Model.Crc.
Open Scope N_scope.

Definition fit_tag : bytes := [46; 70; 73; 84].       (* ".FIT" *)
Fixpoint beq (a b : bytes) : bool :=
  match a, b with [], [] => true | x :: a', y :: b' => (x =? y) && beq a' b' | _, _ => false end.
Definition le16 (b : bytes) : N := match b with [x; y] => x + 256 * y | _ => 0 end.
Definition le32 (b : bytes) : N := match b with [a; b; c; d] => a + 256 * (b + 256 * (c + 256 * d)) | _ => 0 end.

Inductive segkind := SHeader | SDef | SData | SCrc.
Definition segment := (segkind * bytes)%type.

(* ---- records: a definition is 6 + 3n (+ 1 + 3m) bytes; a data record is 1 + sum of the sizes of its live definition *)
Definition is_def (h : N) : bool := N.land h 192 =? 64.               (* bit 7 clear, bit 6 set *)
Definition local_of (h : N) : N := if N.land h 128 =? 128 then N.shiftr (N.land h 96) 5 else N.land h 15.
Fixpoint sum_sizes (triples : bytes) (fuel : nat) : N :=
  match fuel with
  | O => 0
  | S f => match triples with _ :: sz :: _ :: r => sz + sum_sizes r f | _ => 0 end
  end.
(* lens: data-record length per local number (0 = no live definition) *)
Definition set_len (lens : list N) (i v : N) : list N := replace_nth lens (N.to_nat i) v.
Definition get_len (lens : list N) (i : N) : N := nth (N.to_nat i) lens 0.

(* one record from the front of bs: (segment, rest, lens') *)
Definition parse_record (lens : list N) (bs : bytes) : option (segment * bytes * list N) :=
  match bs with
  | [] => None
  | h :: _ =>
    if is_def h then
      match nth_opt bs 5 with
      | None => None
      | Some n =>
        let base := 6 + 3 * n in
        if len bs <? base then None else
        let fsum := sum_sizes (take (3 * n) (drop 6 bs)) (N.to_nat n) in
        if N.land h 32 =? 32 then
          match nth_opt bs (N.to_nat base) with
          | None => None
          | Some m =>
            let total := base + 1 + 3 * m in
            if len bs <? total then None else
            let dsum := sum_sizes (take (3 * m) (drop (base + 1) bs)) (N.to_nat m) in
            Some ((SDef, take total bs), drop total bs, set_len lens (N.land h 15) (1 + fsum + dsum))
          end
        else Some ((SDef, take base bs), drop base bs, set_len lens (N.land h 15) (1 + fsum))
      end
    else
      let l := get_len lens (local_of h) in
      if l =? 0 then None else
      if len bs <? l then None else Some ((SData, take l bs), drop l bs, lens)
  end.

(* records covering exactly [size] bytes (a record may not straddle the end of the data region) *)
Fixpoint parse_records (fuel : nat) (lens : list N) (bs : bytes) (size : N) : option (list segment * bytes) :=
  if size =? 0 then Some ([], bs) else
  match fuel with
  | O => None
  | S f =>
    match parse_record lens bs with
    | None => None
    | Some ((k, seg), rest, lens') =>
      if size <? len seg then None else
      match parse_records f lens' rest (size - len seg) with
      | Some (segs, rest') => Some ((k, seg) :: segs, rest')
      | None => None
      end
    end
  end.

Definition crc_of (bs : bytes) : N := write 0 bs.      (* = crc16_arc bs for byte strings: Props/C18.v *)

(* ---- one well-formed sequence at the front of bs *)
(* [legacy12]: accept, for 12-byte headers only, a CRC over the records alone (what the pinned encoder writes: known finding
   legacy_header_file_crc); the specification is [legacy12 = false] *)
Definition wf_sequence_gen (legacy12 : bool) (bs : bytes) : option (list segment * bytes) :=
  match bs with
  | hs :: _ =>
    if negb ((hs =? 12) || (hs =? 14)) then None else
    if len bs <? hs then None else
    let h := take hs bs in
    if negb (beq (take 4 (drop 8 h)) fit_tag) then None else
    let dsize := le32 (take 4 (drop 4 h)) in
    if (hs =? 14) && negb (le16 (drop 12 h) =? crc_of (take 12 h)) then None else
    match parse_records (S (length bs)) (repeat 0 16) (drop hs bs) dsize with
    | None => None
    | Some (segs, rest) =>
      match rest with
      | c0 :: c1 :: rest' =>
        let seq_bytes := if legacy12 && (hs =? 12) then take dsize (drop hs bs) else take (hs + dsize) bs in
        if (c0 + 256 * c1) =? crc_of seq_bytes then Some ((SHeader, h) :: segs ++ [(SCrc, [c0; c1])], rest') else None
      | _ => None
      end
    end
  | [] => None
  end.

Definition wf_sequence := wf_sequence_gen false.

(* exactly n sequences and nothing else *)
Fixpoint wf_stream (legacy12 : bool) (fuel : nat) (bs : bytes) (n : N) : bool :=
  match fuel with
  | O => false
  | S f =>
    if n =? 0 then match bs with [] => true | _ => false end
    else match wf_sequence_gen legacy12 bs with Some (_, rest) => wf_stream legacy12 f rest (n - 1) | None => false end
  end.
Definition wf_stream_b (bs : bytes) (n : N) : bool := wf_stream false (S (N.to_nat n)) bs n.
Definition wf_stream_legacy_b (bs : bytes) (n : N) : bool := wf_stream true (S (N.to_nat n)) bs n.

(* ---- integrity rules (C04 reference): header size and tag, non-zero data size, header CRC when present and non-zero,
        file CRC over the whole sequence from its first byte, no trailing bytes.  Returns (valid leading sequences, verdict) *)
(* [legacy12] / [zerocrc]: the two known deviations of the implementation -- file CRC over the records only when the header
   is 12 bytes long / when a 14-byte header carries a zero CRC field.  The reference is both flags false. *)
Definition integrity_sequence_gen (legacy12 zerocrc : bool) (bs : bytes) : option bytes :=
  match bs with
  | hs :: _ =>
    if negb ((hs =? 12) || (hs =? 14)) then None else
    if len bs <? hs then None else
    let h := take hs bs in
    if negb (beq (take 4 (drop 8 h)) fit_tag) then None else
    let dsize := le32 (take 4 (drop 4 h)) in
    if dsize =? 0 then None else
    let hcrc := if hs =? 14 then le16 (drop 12 h) else 0 in
    if negb (hcrc =? 0) && negb (hcrc =? crc_of (take 12 h)) then None else
    if len bs <? hs + dsize + 2 then None else
    let fcrc := le16 (take 2 (drop (hs + dsize) bs)) in
    let records_only := (legacy12 && (hs =? 12)) || (zerocrc && (hs =? 14) && (hcrc =? 0)) in
    if fcrc =? (if records_only then crc_of (take dsize (drop hs bs)) else crc_of (take (hs + dsize) bs))
    then Some (drop (hs + dsize + 2) bs) else None
  | [] => None
  end.
Definition integrity_sequence := integrity_sequence_gen false false.
Fixpoint integrity_gen (l12 zc : bool) (fuel : nat) (bs : bytes) (count : N) : N * bool :=
  match fuel with
  | O => (count, false)
  | S f =>
    match bs with
    | [] => (count, negb (count =? 0))
    | _ => match integrity_sequence_gen l12 zc bs with Some rest => integrity_gen l12 zc f rest (count + 1) | None => (count, false) end
    end
  end.
Definition integrity := integrity_gen false false.
Definition integrity_b (bs : bytes) : N * bool := integrity (S (length bs)) bs 0.
Definition integrity_impl_b (bs : bytes) : N * bool := integrity_gen true true (S (length bs)) bs 0.

(* ---- segmentation only (no CRC, no data-size-zero rule): what C16 compares the raw decoder with *)
Definition segment_sequence (bs : bytes) : option (list segment * bytes) :=
  match bs with
  | hs :: _ =>
    if negb ((hs =? 12) || (hs =? 14)) then None else
    if len bs <? hs then None else
    let h := take hs bs in
    if negb (beq (take 4 (drop 8 h)) fit_tag) then None else
    match parse_records (S (length bs)) (repeat 0 16) (drop hs bs) (le32 (take 4 (drop 4 h))) with
    | None => None
    | Some (segs, rest) =>
      match rest with
      | c0 :: c1 :: rest' => Some ((SHeader, h) :: segs ++ [(SCrc, [c0; c1])], rest')
      | _ => None
      end
    end
  | [] => None
  end.
Fixpoint segment_stream (fuel : nat) (bs : bytes) (acc : list segment) : option (list segment) :=
  match fuel with
  | O => None
  | S f =>
    match segment_sequence bs with
    | None => None
    | Some (segs, rest) => match rest with [] => Some (acc ++ segs) | _ => segment_stream f rest (acc ++ segs) end
    end
  end.
Definition segment_stream_b (bs : bytes) : option (list segment) := segment_stream (S (length bs)) bs [].
