(* decoder/raw.go: RawDecoder.Decode over a contiguous stream (io.ReadFull = the next k bytes, io.EOF when nothing is left,
   io.ErrUnexpectedEOF when fewer than k are left).  Segments are (flag, bytes); n counts every byte obtained. *)
From Coq Require Import NArith List Bool.
Import ListNotations.
From Fit Require Export Model.Base gen.Consts.
Open Scope N_scope.

Inductive rawflag := RFHeader | RFDef | RFData | RFCrc.
Definition rsegment := (rawflag * bytes)%type.
Record rstate := mkr { r_rest : bytes; r_n : N; r_segs : list rsegment (* newest first *) }.

(* io.ReadFull(r, buf[:k]): (bytes obtained, error); the obtained bytes are counted even on error *)
Definition read_full (s : rstate) (k : N) : bytes * option N * rstate :=
  if k =? 0 then ([], None, s)
  else if k <=? len (r_rest s) then (take k (r_rest s), None, mkr (drop k (r_rest s)) (r_n s + k) (r_segs s))
  else match r_rest s with
       | [] => ([], Some E_EOF, s)
       | rest => (rest, Some E_UnexpectedEOF, mkr [] (r_n s + len rest) (r_segs s))
       end.
Definition emit (s : rstate) (f : rawflag) (b : bytes) : rstate := mkr (r_rest s) (r_n s) ((f, b) :: r_segs s).

Fixpoint sizes_sum (triples : bytes) : N :=
  match triples with _ :: sz :: _ :: r => sz + sizes_sum r | _ => 0 end.
Definition local_mesg_num (h : N) : N :=
  if N.land h MesgCompressedHeaderMask =? MesgCompressedHeaderMask
  then N.shiftr (N.land h CompressedLocalMesgNumMask) CompressedBitShift else N.land h LocalMesgNumMask.

Definition result := (list rsegment * N * option N)%type.
Definition finish (s : rstate) (e : option N) : result := (rev (r_segs s), r_n s, e).

(* one record of the data region; lens = data-record length per local number (uint32, 0 = none) *)
Definition raw_record (s : rstate) (lens : list N) : (rstate * list N) + result :=
  let '(hb, e, s) := read_full s 1 in
  match e, hb with
  | Some e, _ => inr (finish s (Some e))
  | None, [h] =>
    if N.land h (N.lor MesgCompressedHeaderMask MesgDefinitionMask) =? MesgDefinitionMask then
      let '(fixed, e, s) := read_full s 5 in
      match e with Some e => inr (finish s (Some e)) | None =>
      let nfields := nth 4 fixed 0 in
      let '(fds, e, s) := read_full s (nfields * 3) in
      match e with Some e => inr (finish s (Some e)) | None =>
      let lenmesg := 1 + sizes_sum fds in
      if N.land h DevDataMask =? DevDataMask then
        let '(nd, e, s) := read_full s 1 in
        match e with Some e => inr (finish s (Some e)) | None =>
        let ndev := nth 0 nd 0 in
        let '(dds, e, s) := read_full s (ndev * 3) in
        match e with Some e => inr (finish s (Some e)) | None =>
        inl (emit s RFDef (h :: fixed ++ fds ++ nd ++ dds), replace_nth lens (N.to_nat (N.land h LocalMesgNumMask)) (wrap 32 (lenmesg + sizes_sum dds)))
        end end
      else inl (emit s RFDef (h :: fixed ++ fds), replace_nth lens (N.to_nat (N.land h LocalMesgNumMask)) (wrap 32 lenmesg))
      end end
    else
      let l := nth (N.to_nat (local_mesg_num h)) lens 0 in
      if l =? 0 then inr (finish s (Some E_MesgDefMissing)) else
      let '(body, e, s) := read_full s (l - 1) in
      match e with Some e => inr (finish s (Some e)) | None => inl (emit s RFData (h :: body), lens) end
  | None, _ => inr (finish s (Some 97))
  end.

Fixpoint raw_records (fuel : nat) (s : rstate) (lens : list N) (pos datasize : N) : rstate + result :=
  if datasize <=? wrap 32 (r_n s - pos) then inl s else
  match fuel with
  | O => inr (finish s (Some 98))
  | S f => match raw_record s lens with
           | inl (s', lens') => raw_records f s' lens' pos datasize
           | inr r => inr r
           end
  end.

Fixpoint list_N_eqb_raw (a b : bytes) : bool :=
  match a, b with [], [] => true | x :: a', y :: b' => (x =? y) && list_N_eqb_raw a' b' | _, _ => false end.

Definition raw_sequence (s : rstate) (seq : N) : rstate + result :=
  let '(b0, e, s) := read_full s 1 in
  match e, b0 with
  | Some e, _ => if negb (seq =? 0) && (e =? E_EOF) then inr (finish s None) else inr (finish s (Some e))
  | None, [hs] =>
    if negb ((hs =? 12) || (hs =? 14)) then inr (finish s (Some E_NotFIT)) else
    let '(hr, e, s) := read_full s (hs - 1) in
    match e with Some e => inr (finish s (Some e)) | None =>
    let h := hs :: hr in
    if negb (list_N_eqb_raw (take 4 (drop 8 h)) DataTypeFIT) then inr (finish s (Some E_NotFIT)) else
    let datasize := le_word (take 4 (drop 4 h)) in
    let s := emit s RFHeader h in
    match raw_records (S (length (r_rest s))) s (repeat 0 16) (r_n s) datasize with
    | inr r => inr r
    | inl s =>
      let '(c, e, s) := read_full s 2 in
      match e with Some e => inr (finish s (Some e)) | None => inl (emit s RFCrc c) end
    end
    end
  | None, _ => inr (finish s (Some 97))
  end.

Fixpoint raw_loop (fuel : nat) (s : rstate) (seq : N) : result :=
  match fuel with
  | O => finish s (Some 98)
  | S f => match raw_sequence s seq with inl s' => raw_loop f s' (seq + 1) | inr r => r end
  end.
Definition raw_decode (bs : bytes) : result := raw_loop (S (length bs)) (mkr bs 0 []) 0.
