(* decoder/decoder.go (+ bits.go, accumulator.go) on a contiguous byte stream: file header, message definitions,
   message data with the factory lookup and the three size fallbacks, compressed timestamps, developer fields,
   component expansion with accumulation, CRC.  Every read is checked ([Err] when the stream is short) and every
   Go operation that can panic is a checked operation ([Panic]); loops run on fuel ([OutOfFuel]).
   The reader layer (readbuffer.go) is modelled separately in Model/ReadBuf.v; here ReadN(n) on the stream is
   "the next n bytes or a truncation error". *)
From Coq Require Import NArith ZArith List Bool Floats.
Import ListNotations.
From Fit Require Export Model.Value Model.Profile Model.Crc Model.F64 gen.Factory gen.ConvMode.
Open Scope N_scope.

(* ---------------------------------------------------------------- protocol records *)
Record fdef := mkfd { fd_num : N; fd_size : N; fd_base : N }.
Record ddef := mkdd { dd_num : N; dd_size : N; dd_idx : N }.
Record mdef := mkmd { md_header : N; md_reserved : N; md_arch : N; md_num : N; md_fields : list fdef; md_devs : list ddef }.
Record field := mkfield { f_fb : fieldbase; f_known : bool; f_value : value; f_expanded : bool }.
Record devfield := mkdev { df_num : N; df_idx : N; df_value : value }.
Record message := mkmsg { m_header : N; m_num : N; m_fields : list field; m_devs : list devfield }.
Record fheader := mkfh { h_size : N; h_proto : N; h_profile : N; h_datasize : N; h_crc : N }.
Record fit := mkfit { fit_header : fheader; fit_msgs : list message; fit_crc : N }.
Definition f_num (f : field) := fb_num (f_fb f).
Definition f_base (f : field) := fb_base (f_fb f).

(* factory.CreateField: a known field or createUnknownField (Scale 1, Offset 0, everything else zero) *)
Definition unknown_fb (num : N) : fieldbase := mkf num 0 0 false false one_bits 0 [] [].
Definition create_field (m f : N) : field :=
  match factory m f with
  | Some fb => mkfield fb true VInvalid false
  | None => mkfield (unknown_fb f) false VInvalid false
  end.
Definition set_value (f : field) (v : value) : field := mkfield (f_fb f) (f_known f) v (f_expanded f).
Definition set_fb (f : field) (fb : fieldbase) : field := mkfield fb (f_known f) (f_value f) (f_expanded f).
Definition with_type (fb : fieldbase) (base ptype : N) (arr : bool) : fieldbase :=
  mkf (fb_num fb) ptype base arr (fb_accum fb) (fb_scale fb) (fb_offset fb) (fb_comps fb) (fb_subs fb).

(* ---------------------------------------------------------------- options and state *)
Record dcfg := mkcfg { c_checksum : bool; c_expand : bool; c_bufsize : N }.     (* c_bufsize: read buffer size after clamping (default 4096) *)
Definition default_cfg := mkcfg true true 4096.

Record fdesc := mkfdesc { fdx_idx : N; fdx_num : N; fdx_base : N; fdx_scale : N; fdx_offset : N; fdx_nmesg : N; fdx_nfield : N }.
Record accval := mkacc { a_mesg : N; a_field : N; a_last : N; a_value : N }.

Inductive event := EvHeader (h : fheader) | EvDef (d : mdef) | EvMesg (m : message) | EvCrc (c : N).

Record dstate := mkst {
  s_rest : bytes;            (* the unread stream: bytes already in the read buffer followed by what the reader still holds *)
  s_buf : N;                 (* how many leading bytes of s_rest sit in the read buffer (b.last - b.cur) *)
  s_n : N;                   (* d.n *)
  s_cur : N;                 (* d.cur, uint32 *)
  s_crc : N;                 (* d.crc16 *)
  s_ts : N; s_lto : N;       (* d.timestamp, d.lastTimeOffset *)
  s_defs : list (option mdef);   (* d.localMessageDefinitions, 16 slots *)
  s_devidx : list N;         (* d.developerDataIndexes *)
  s_fdescs : list fdesc;     (* d.fieldDescriptions *)
  s_acc : list accval;       (* d.accumulator.values *)
  s_fileid : option message; (* d.fileId (the message it was built from) *)
  s_header : fheader;        (* d.fileHeader *)
  s_msgs : list message;     (* d.messages, newest first *)
  s_events : list event      (* listener events, newest first *)
}.
Definition no_defs : list (option mdef) := repeat None 16.
Definition zero_header := mkfh 0 0 0 0 0.
Definition init_state (bs : bytes) : dstate := mkst bs 0 0 0 0 0 0 no_defs [] [] [] None zero_header [] [].

Definition upd_read (s : dstate) (rest : bytes) (buf n cur crc : N) : dstate :=
  mkst rest buf n cur crc (s_ts s) (s_lto s) (s_defs s) (s_devidx s) (s_fdescs s) (s_acc s) (s_fileid s) (s_header s) (s_msgs s) (s_events s).
Definition upd_crc (s : dstate) (crc : N) := upd_read s (s_rest s) (s_buf s) (s_n s) (s_cur s) crc.
Definition upd_time (s : dstate) (ts lto : N) : dstate :=
  mkst (s_rest s) (s_buf s) (s_n s) (s_cur s) (s_crc s) ts lto (s_defs s) (s_devidx s) (s_fdescs s) (s_acc s) (s_fileid s) (s_header s) (s_msgs s) (s_events s).
Definition upd_defs (s : dstate) (defs : list (option mdef)) : dstate :=
  mkst (s_rest s) (s_buf s) (s_n s) (s_cur s) (s_crc s) (s_ts s) (s_lto s) defs (s_devidx s) (s_fdescs s) (s_acc s) (s_fileid s) (s_header s) (s_msgs s) (s_events s).
Definition upd_dev (s : dstate) (idx : list N) (fds : list fdesc) : dstate :=
  mkst (s_rest s) (s_buf s) (s_n s) (s_cur s) (s_crc s) (s_ts s) (s_lto s) (s_defs s) idx fds (s_acc s) (s_fileid s) (s_header s) (s_msgs s) (s_events s).
Definition upd_acc (s : dstate) (acc : list accval) : dstate :=
  mkst (s_rest s) (s_buf s) (s_n s) (s_cur s) (s_crc s) (s_ts s) (s_lto s) (s_defs s) (s_devidx s) (s_fdescs s) acc (s_fileid s) (s_header s) (s_msgs s) (s_events s).
Definition upd_fileid (s : dstate) (m : option message) : dstate :=
  mkst (s_rest s) (s_buf s) (s_n s) (s_cur s) (s_crc s) (s_ts s) (s_lto s) (s_defs s) (s_devidx s) (s_fdescs s) (s_acc s) m (s_header s) (s_msgs s) (s_events s).
Definition upd_header (s : dstate) (h : fheader) : dstate :=
  mkst (s_rest s) (s_buf s) (s_n s) (s_cur s) (s_crc s) (s_ts s) (s_lto s) (s_defs s) (s_devidx s) (s_fdescs s) (s_acc s) (s_fileid s) h (s_msgs s) (s_events s).
Definition push_msg (s : dstate) (m : message) : dstate :=
  mkst (s_rest s) (s_buf s) (s_n s) (s_cur s) (s_crc s) (s_ts s) (s_lto s) (s_defs s) (s_devidx s) (s_fdescs s) (s_acc s) (s_fileid s) (s_header s) (m :: s_msgs s) (EvMesg m :: s_events s).
Definition push_event (s : dstate) (e : event) : dstate :=
  mkst (s_rest s) (s_buf s) (s_n s) (s_cur s) (s_crc s) (s_ts s) (s_lto s) (s_defs s) (s_devidx s) (s_fdescs s) (s_acc s) (s_fileid s) (s_header s) (s_msgs s) (e :: s_events s).

(* ---------------------------------------------------------------- reads *)
(* readBuffer.ReadN over a contiguous reader (bytes.Reader: one Read delivers min(buffer size, what is left)):
   served from the buffer when it holds n bytes; otherwise one refill, then n bytes or io.EOF (the reader had nothing
   left) / io.ErrUnexpectedEOF (it had something, not enough).  Arbitrary chunkings: Model/ReadBuf.v *)
Definition read_raw (c : dcfg) (s : dstate) (n : N) : outcome (bytes * dstate) :=
  if n <=? s_buf s then Ok (take n (s_rest s), upd_read s (drop n (s_rest s)) (s_buf s - n) (s_n s + n) (s_cur s) (s_crc s))
  else
    let inreader := len (s_rest s) - s_buf s in
    let got := N.min inreader (c_bufsize c) in
    if n <=? s_buf s + got then Ok (take n (s_rest s), upd_read s (drop n (s_rest s)) (s_buf s + got - n) (s_n s + n) (s_cur s) (s_crc s))
    else Err (if got =? 0 then E_EOF else E_UnexpectedEOF).
(* d.readN: counts into cur (uint32) and hashes when checksums are on *)
Definition read_n (c : dcfg) (s : dstate) (n : N) : outcome (bytes * dstate) :=
  do r <- read_raw c s n;
  let '(b, s1) := r in
  Ok (b, upd_read s1 (s_rest s1) (s_buf s1) (s_n s1) (wrap 32 (s_cur s1 + n)) (if c_checksum c then write (s_crc s1) b else s_crc s1)).

Definition byte_at (b : bytes) (i : nat) : outcome N :=
  match nth_opt b i with Some x => Ok x | None => Panic P_Index end.
Definition slice (b : bytes) (lo hi : nat) : outcome bytes :=
  if (Nat.leb lo hi && Nat.leb hi (length b))%bool then Ok (firstn (hi - lo) (skipn lo b)) else Panic P_Slice.

(* ---------------------------------------------------------------- file header *)
Definition decode_file_header (c : dcfg) (s : dstate) : outcome dstate :=
  do r <- read_raw c s 1;
  let '(b, s) := r in
  do size <- byte_at b 0;
  if negb ((size =? 12) || (size =? 14)) then Err E_NotFIT else
  let s := upd_crc s (write (s_crc s) b) in
  do r <- read_raw c s (size - 1);
  let '(b, s) := r in
  do dt <- slice b 7 11;
  if negb (list_N_eqb dt DataTypeFIT) then Err E_NotFIT else
  do b0 <- byte_at b 0;
  do pv <- slice b 1 3;
  do ds <- slice b 3 7;
  let datasize := le_word ds in
  if datasize =? 0 then Err E_NotFIT else
  do hcrc <- (if size =? 14 then do x <- slice b 11 13; Ok (le_word x) else Ok 0);
  let h := mkfh size b0 (le_word pv) datasize hcrc in
  let s := push_event (upd_header s h) (EvHeader h) in
  if (hcrc =? 0) || negb (c_checksum c) then Ok (upd_crc s 0) else
  let crc := write (s_crc s) (firstn (length b - 2) b) in
  if negb (crc =? hcrc) then Err E_CRC else Ok (upd_crc s 0).

(* ---------------------------------------------------------------- message definition *)
Definition bt_valid (t : N) : bool := 0 <? bt_size t.

Fixpoint parse_fdefs (fuel : nat) (b : bytes) : outcome (list fdef) :=
  match fuel with
  | O => Ok []
  | S f =>
    match b with
    | num :: size :: base :: r =>
        if bt_valid base then do rest <- parse_fdefs f r; Ok (mkfd num size base :: rest) else Err E_InvalidBaseType
    | _ => Ok []
    end
  end.
Fixpoint parse_ddefs (fuel : nat) (b : bytes) : list ddef :=
  match fuel with
  | O => []
  | S f => match b with num :: size :: idx :: r => mkdd num size idx :: parse_ddefs f r | _ => [] end
  end.

Definition has (x mask : N) : bool := N.land x mask =? mask.

Definition decode_definition (c : dcfg) (s : dstate) (header : N) : outcome dstate :=
  do r <- read_n c s 5;
  let '(b, s) := r in
  let local := N.land header LocalMesgNumMask in
  do reserved <- byte_at b 0;
  do arch <- byte_at b 1;
  do mn <- slice b 2 4;
  let mesgnum := dec (negb (arch =? LittleEndian)) mn in
  do n <- byte_at b 4;
  do r <- read_n c s (n * 3);
  let '(b, s) := r in
  do fds <- parse_fdefs (length b) b;
  do r2 <- (if has header DevDataMask then
              do r <- read_n c s 1;
              let '(b, s) := r in
              do n <- byte_at b 0;
              do r <- read_n c s (n * 3);
              let '(b, s) := r in
              Ok (parse_ddefs (length b) b, s)
            else Ok ([], s));
  let '(dds, s) := r2 in
  let d := mkmd header reserved arch mesgnum fds dds in
  Ok (push_event (upd_defs s (replace_nth (s_defs s) (N.to_nat local) (Some d))) (EvDef d)).

(* ---------------------------------------------------------------- values *)
(* convertBytesToValue: the "size smaller than the base type" fallback *)
Fixpoint be_word (bs : bytes) (acc : N) : N := match bs with [] => acc | b :: r => be_word r (acc * 256 + b) end.
Definition convert_bytes_to_value (b : bytes) (arch : N) (base : N) : value :=
  let v := if arch =? LittleEndian then le_word b else be_word b 0 in
  if base =? bt_sint16 then VNum TI16 (wrap 16 v)
  else if (base =? bt_uint16) || (base =? bt_uint16z) then VNum TU16 (wrap 16 v)
  else if base =? bt_sint32 then VNum TI32 (wrap 32 v)
  else if (base =? bt_uint32) || (base =? bt_uint32z) then VNum TU32 (wrap 32 v)
  else if base =? bt_sint64 then VNum TI64 (wrap 64 v)
  else if (base =? bt_uint64) || (base =? bt_uint64z) then VNum TU64 (wrap 64 v)
  else if base =? bt_float32 then VNum TF32 (f32_bits_of_N v)
  else if base =? bt_float64 then VNum TF64 (f64_bits_of_N v)
  else VArr TU8 b.

Definition slice_u8 (v : value) : bytes := match v with VArr TU8 l => l | _ => [] end.

(* d.readValue *)
Definition read_value (c : dcfg) (s : dstate) (size arch base ptype : N) (is_array override_strarr : bool) : outcome (value * dstate) :=
  do r <- read_n c s size;
  let '(b, s) := r in
  let is_array := if override_strarr && (base =? bt_string) then 1 <? strcount b else is_array in
  do v <- unmarshal (negb (arch =? LittleEndian)) base ptype is_array b;
  Ok (v, s).

(* ---------------------------------------------------------------- accumulator *)
Fixpoint acc_collect (a : list accval) (m f v : N) : list accval :=
  match a with
  | [] => [mkacc m f v v]
  | x :: r => if (a_mesg x =? m) && (a_field x =? f) then mkacc m f v v :: r else x :: acc_collect r m f v
  end.
Fixpoint acc_accumulate (a : list accval) (m f v bits : N) : list accval * N :=
  match a with
  | [] => ([mkacc m f v v], v)
  | x :: r =>
      if (a_mesg x =? m) && (a_field x =? f) then
        let mask := wrap 32 (wrap 32 (N.shiftl 1 bits) + 4294967295) in       (* uint32: (1 << bits) - 1 *)
        let nv := wrap 32 (a_value x + N.land (wrap 32 (v + 4294967296 - a_last x)) mask) in
        (mkacc m f v nv :: r, nv)
      else let '(r', out) := acc_accumulate r m f v bits in (x :: r', out)
  end.

(* uint32(x) of each Go numeric kind *)
Definition to_u32 (t : ntype) (x : N) : N :=
  match t with
  | TF32 => 0      (* float containers: not produced by any profile field; see DESIGN limits *)
  | TF64 => f64_to_u32 (f64_of_bits x)
  | TBool => wrap 32 x
  | _ => Z.to_N ((to_Z t x) mod 4294967296)%Z
  end.
Definition collect_accumulable (a : list accval) (m f : N) (v : value) : list accval :=
  match v with
  | VNum TBool _ => a
  | VNum t x => acc_collect a m f (to_u32 t x)
  | VArr TBool _ => a
  | VArr t l => fold_left (fun a x => acc_collect a m f (to_u32 t x)) l a
  | _ => a
  end.

(* ---------------------------------------------------------------- bits *)
Definition w64 (x : N) := x mod two64.
Definition shl64 (x k : N) : N := if 64 <=? k then 0 else w64 (N.shiftl x k).
Definition shr64 (x k : N) : N := if 64 <=? k then 0 else N.shiftr x k.
Definition to_u64 (t : ntype) (x : N) : N :=
  match t with
  | TF32 | TF64 => 0
  | _ => Z.to_N ((to_Z t x) mod 18446744073709551616)%Z
  end.
(* storeFromSlice: index, pos are uint8; bitsize = element size in bytes *)
Fixpoint store_from_slice (l : list N) (t : ntype) (bytesz : N) (index pos : N) (store : list N) : list N :=
  match l with
  | [] => store
  | x :: r =>
      if 32 <=? index then store else
      let cur := nth (N.to_nat index) store 0 in
      let store := replace_nth store (N.to_nat index) (N.lor cur (shl64 (to_u64 t x) (pos * 8))) in
      let pos := wrap 8 (pos + bytesz) in
      if pos =? 8 then store_from_slice r t bytesz (wrap 8 (index + 1)) 0 store
      else store_from_slice r t bytesz index pos store
  end.
Definition zero_store : list N := repeat 0 32.
Definition make_bits (v : value) : option (list N) :=
  match v with
  | VNum TBool _ | VArr TBool _ => None
  | VNum t x => Some (replace_nth zero_store 0 (to_u64 t x))
  | VArr t l => Some (store_from_slice l t (N.of_nat (width t)) 0 0 zero_store)
  | _ => None
  end.
(* bits.Pull *)
Fixpoint pull_rest (prev : N) (rest : list N) (mask bitsize : N) : list N :=
  (* prev = store[i-1] (already shifted), rest = store[i..] ; returns store[i-1..] *)
  match rest with
  | [] => [prev]
  | x :: r =>
      if x =? 0 then prev :: pull_rest x r mask bitsize
      else
        let hi := N.land x mask in
        let lo := shl64 hi (wrap 8 (64 + 256 - bitsize)) in
        N.lor prev lo :: pull_rest (shr64 x bitsize) r mask bitsize
  end.
Definition pull (store : list N) (bitsize : N) : N * list N :=
  match store with
  | [] => (0, [])
  | s0 :: rest =>
      let mask := w64 (shl64 1 bitsize + (two64 - 1)) in
      let val := wrap 32 (N.land s0 mask) in
      (val, pull_rest (shr64 s0 bitsize) rest mask bitsize)
  end.

(* ---------------------------------------------------------------- component expansion *)
Definition convert_to_int64 (v : value) : option Z :=
  match v with
  | VNum TBool _ | VNum TF32 _ | VNum TF64 _ => None
  | VNum TU64 x => Some (if two63 <=? x then (Z.of_N x - 18446744073709551616)%Z else Z.of_N x)
  | VNum t x => Some (to_Z t x)
  | _ => None
  end.
Fixpoint field_by_num (fs : list field) (num : N) : option field :=
  match fs with [] => None | f :: r => if f_num f =? num then Some f else field_by_num r num end.
Definition map_matches (fs : list field) (mp : N * Z) : bool :=
  match field_by_num fs (fst mp) with
  | Some f => match convert_to_int64 (f_value f) with Some z => Z.eqb z (snd mp) | None => false end
  | None => false
  end.
Fixpoint subfield_substitution (subs : list subf) (fs : list field) : option subf :=
  match subs with
  | [] => None
  | sf :: r => if existsb (map_matches fs) (s_maps sf) then Some sf else subfield_substitution r fs
  end.

Definition convert_u32_to_value (v base : N) : value :=
  match bt_ntype base with
  | Some TI8 => VNum TI8 (wrap 8 v) | Some TU8 => VNum TU8 (wrap 8 v)
  | Some TI16 => VNum TI16 (wrap 16 v) | Some TU16 => VNum TU16 (wrap 16 v)
  | Some TI32 => VNum TI32 v | Some TU32 => VNum TU32 v
  | Some TI64 => VNum TI64 v | Some TU64 => VNum TU64 v
  | Some TF32 => VNum TF32 (f32_bits_of_N v) | Some TF64 => VNum TF64 (f64_bits_of_N v)
  | _ => VInvalid
  end.
Definition value_append (sl elem : value) : value :=
  match elem with
  | VNum TBool _ => sl
  | VNum t x => match sl with VArr u l => if ntype_eqb t u then VArr t (l ++ [x]) else VArr t [x] | _ => VArr t [x] end
  | _ => sl
  end.

(* index of the last field with the given number *)
Fixpoint last_index (fs : list field) (num : N) (i : nat) (found : option nat) : option nat :=
  match fs with [] => found | f :: r => last_index r num (S i) (if f_num f =? num then Some i else found) end.

(* one component after the other: cut its bits, accumulate, scale into the destination's units, replace or append the
   destination, then expand the destination's own components ([rec] = expandComponents one level deeper) *)
Fixpoint expand_loop (rec : list field -> list accval -> value -> N -> list comp -> list field * list accval)
         (mesgnum : N) (many : bool) (cs : list comp) (store : list N) (fs : list field) (acc : list accval) {struct cs}
  : list field * list accval :=
  match cs with
  | [] => (fs, acc)
  | cmp :: rest =>
    let cf := create_field mesgnum (c_num cmp) in
    let cf := mkfield (f_fb cf) (f_known cf) (f_value cf) true in
    let pv := pull store (c_bits cmp) in
    let v := fst pv in
    let store := snd pv in
    if (v =? 0) && many then (fs, acc) else
    let av := if c_accum cmp then acc_accumulate acc mesgnum (c_num cmp) v (c_bits cmp) else (acc, v) in
    let acc := fst av in
    let v := snd av in
    let scaled := so_apply v (f64_of_bits (c_scale cmp)) (f64_of_bits (c_offset cmp)) in
    let v := f64_to_u32_mode mode_expand (so_discard scaled (f64_of_bits (fb_scale (f_fb cf))) (f64_of_bits (fb_offset (f_fb cf)))) in
    let val := convert_u32_to_value v (f_base cf) in
    let fs :=
      match last_index fs (c_num cmp) 0 None with
      | Some j =>
          match nth_opt fs j with
          | Some fr => replace_nth fs j (set_value fr (if fb_array (f_fb fr) then value_append (f_value fr) val else val))
          | None => fs
          end
      | None => fs ++ [set_value cf (if fb_array (f_fb cf) then value_append (f_value cf) val else val)]
      end in
    let comps' := match subfield_substitution (fb_subs (f_fb cf)) fs with Some sf => s_comps sf | None => fb_comps (f_fb cf) end in
    let r := rec fs acc val (f_base cf) comps' in
    expand_loop rec mesgnum many rest store (fst r) (snd r)
  end.

Fixpoint expand_components (fuel : nat) (mesgnum : N) (fs : list field) (acc : list accval)
         (containing : value) (base : N) (comps : list comp) : list field * list accval :=
  match fuel with
  | O => (fs, acc)
  | S fuel' =>
    match comps with
    | [] => (fs, acc)
    | _ =>
      if negb (valid containing base) then (fs, acc) else
      match make_bits containing with
      | None => (fs, acc)
      | Some store => expand_loop (expand_components fuel' mesgnum) mesgnum (1 <? len comps) comps store fs acc
      end
    end
  end.
Definition expand_fuel : nat := 6.

(* the outer loop of decodeFields: for i := range mesg.Fields (length fixed at loop entry) *)
Fixpoint expand_all (k : nat) (i : nat) (mesgnum : N) (fs : list field) (acc : list accval) : list field * list accval :=
  match k with
  | O => (fs, acc)
  | S k' =>
    match nth_opt fs i with
    | None => (fs, acc)
    | Some f =>
      let comps := match subfield_substitution (fb_subs (f_fb f)) fs with Some sf => s_comps sf | None => fb_comps (f_fb f) end in
      let '(fs, acc) := expand_components expand_fuel mesgnum fs acc (f_value f) (f_base f) comps in
      expand_all k' (S i) mesgnum fs acc
    end
  end.

(* ---------------------------------------------------------------- the decoder's clock *)
(* a compressed header: timestamp += (offset - lastTimeOffset) & 0x1F in byte arithmetic; lastTimeOffset = offset *)
Definition clock_compressed (ts lto header : N) : N * N :=
  let off := N.land header CompressedTimeMask in
  (wrap 32 (ts + N.land (wrap 8 (off + 256 - lto)) CompressedTimeMask), off).
(* a uint32 timestamp field: timestamp = t; lastTimeOffset = t & 0x1F *)
Definition clock_full (t : N) : N * N := (t, N.land t CompressedTimeMask).

(* ---------------------------------------------------------------- fields *)
Definition bt_size_div (size base : N) : outcome bool :=     (* fieldDef.Size % baseType.Size() == 0, a real division *)
  if bt_size base =? 0 then Panic P_DivZero else Ok (size mod bt_size base =? 0).

Fixpoint decode_fields (c : dcfg) (s : dstate) (arch mesgnum : N) (fds : list fdef) (fs : list field) : outcome (list field * dstate) :=
  match fds with
  | [] => Ok (fs, s)
  | fd :: rest =>
    let f0 := create_field mesgnum (fd_num fd) in
    do r <- (if f_known f0 then Ok (f0, false) else
               let base := fd_base fd in
               do dv <- (if bt_size base <? fd_size fd then bt_size_div (fd_size fd) base else Ok false);
               Ok (set_fb f0 (with_type (f_fb f0) base (N.land base BaseTypeNumMask) dv), base =? bt_string));
    let '(f, ovr) := r in
    let base := f_base f in
    if fd_size fd =? 0 then decode_fields c s arch mesgnum rest fs else
    let '(rb, rp, ra) := if fd_size fd <? bt_size base then (bt_uint8, pt_Uint8, true) else (base, fb_ptype (f_fb f), fb_array (f_fb f)) in
    do r <- read_value c s (fd_size fd) arch rb rp ra ovr;
    let '(v, s) := r in
    let v := if negb (rb =? base) then convert_bytes_to_value (slice_u8 v) arch base else v in
    let s := match v with
             | VNum TU32 t => if f_num f =? FieldNumTimestamp then upd_time s (fst (clock_full t)) (snd (clock_full t)) else s
             | _ => s end in
    let s := if fb_accum (f_fb f) && c_expand c then upd_acc s (collect_accumulable (s_acc s) mesgnum (f_num f) v) else s in
    decode_fields c s arch mesgnum rest (fs ++ [set_value f v])
  end.

(* ---------------------------------------------------------------- developer fields *)
Definition u8_of (v : value) : N := match v with VNum TU8 x => x | _ => 255 end.
Definition i8_of (v : value) : N := match v with VNum TI8 x => x | _ => 127 end.
Definition u16_of (v : value) : N := match v with VNum TU16 x => x | _ => 65535 end.
Definition field_value_by_num (fs : list field) (num : N) : value :=
  match field_by_num fs num with Some f => f_value f | None => VInvalid end.
(* mesgdef.NewFieldDescription: vals[Num] = Value for known fields with Num <= 15, the last occurrence wins *)
Definition last_known_value (fs : list field) (num : N) : value :=
  fold_left (fun acc f => if f_known f && (f_num f =? num) then f_value f else acc) fs VInvalid.
Definition new_field_description (fs : list field) : fdesc :=
  mkfdesc (u8_of (last_known_value fs fn_FieldDescription_DeveloperDataIndex))
          (u8_of (last_known_value fs fn_FieldDescription_FieldDefinitionNumber))
          (u8_of (last_known_value fs fn_FieldDescription_FitBaseTypeId))
          (u8_of (last_known_value fs fn_FieldDescription_Scale))
          (i8_of (last_known_value fs fn_FieldDescription_Offset))
          (u16_of (last_known_value fs fn_FieldDescription_NativeMesgNum))
          (u8_of (last_known_value fs fn_FieldDescription_NativeFieldNum)).
Fixpoint find_fdesc (l : list fdesc) (idx num : N) : option fdesc :=
  match l with [] => None | d :: r => if (fdx_idx d =? idx) && (fdx_num d =? num) then Some d else find_fdesc r idx num end.

Fixpoint decode_dev_fields (c : dcfg) (s : dstate) (arch : N) (dds : list ddef) (out : list devfield) : outcome (list devfield * dstate) :=
  match dds with
  | [] => Ok (out, s)
  | dd :: rest =>
    match find_fdesc (s_fdescs s) (dd_idx dd) (dd_num dd) with
    | None =>
        do r <- read_n c s (dd_size dd);
        let '(_, s) := r in decode_dev_fields c s arch rest out
    | Some fdsc =>
        let base0 := fdx_base fdsc in
        if negb (bt_valid base0) then Err E_InvalidBaseType else
        do dv <- (if bt_size base0 <? dd_size dd then bt_size_div (dd_size dd) base0 else Ok false);
        if dd_size dd =? 0 then decode_dev_fields c s arch rest out else
        let '(rb, rp, ra) := if dd_size dd <? bt_size base0 then (bt_uint8, pt_Uint8, true)
                             else (base0, N.land base0 BaseTypeNumMask, dv) in
        do r <- read_value c s (dd_size dd) arch rb rp ra (base0 =? bt_string);
        let '(v, s) := r in
        let v := if negb (rb =? base0) then convert_bytes_to_value (slice_u8 v) arch base0 else v in
        decode_dev_fields c s arch rest (out ++ [mkdev (dd_num dd) (dd_idx dd) v])
    end
  end.

(* ---------------------------------------------------------------- message data *)
(* the part of decodeMessageData after the compressed-timestamp field has been prepared *)
Definition decode_data_body (c : dcfg) (s : dstate) (header : N) (d : mdef) (fs0 : list field) : outcome dstate :=
  do r <- decode_fields c s (md_arch d) (md_num d) (md_fields d) fs0;
  let fs := fst r in
  let s := snd r in
  let r2 := if c_expand c then
              let r' := expand_all (length fs) 0 (md_num d) fs (s_acc s) in (fst r', upd_acc s (snd r'))
            else (fs, s) in
  let fs := fst r2 in
  let s := snd r2 in
  let s := match s_fileid s with
           | None => if md_num d =? mesgnum_FileId then upd_fileid s (Some (mkmsg header (md_num d) fs [])) else s
           | Some _ => s end in
  let s := if md_num d =? mesgnum_DeveloperDataId then
             upd_dev s (s_devidx s ++ [u8_of (field_value_by_num fs fn_DeveloperDataId_DeveloperDataIndex)]) (s_fdescs s)
           else if md_num d =? mesgnum_FieldDescription then upd_dev s (s_devidx s) (s_fdescs s ++ [new_field_description fs])
           else s in
  do r3 <- (match md_devs d with
            | [] => Ok ([], s)
            | dds => decode_dev_fields c s (md_arch d) dds []
            end);
  Ok (push_msg (snd r3) (mkmsg header (md_num d) fs (fst r3))).

Definition decode_data (c : dcfg) (s : dstate) (header : N) : outcome dstate :=
  let compressed := has header MesgCompressedHeaderMask in
  let local := if compressed then N.shiftr (N.land header CompressedLocalMesgNumMask) CompressedBitShift else header in
  match nth (N.to_nat (N.land local LocalMesgNumMask)) (s_defs s) None with
  | None => Err E_MesgDefMissing
  | Some d =>
    if compressed then
      let ck := clock_compressed (s_ts s) (s_lto s) header in
      let ts := fst ck in
      let s := upd_time s ts (snd ck) in
      let tf := create_field (md_num d) FieldNumTimestamp in
      let tf := if f_known tf then tf else set_fb tf (with_type (f_fb tf) bt_uint32 pt_DateTime (fb_array (f_fb tf))) in
      decode_data_body c s header d [set_value tf (VNum TU32 ts)]
    else decode_data_body c s header d []
  end.

Definition decode_message (c : dcfg) (s : dstate) : outcome dstate :=
  do r <- read_n c s 1;
  let '(b, s) := r in
  do header <- byte_at b 0;
  if N.land header (N.lor MesgCompressedHeaderMask MesgDefinitionMask) =? MesgDefinitionMask
  then decode_definition c s header else decode_data c s header.

Fixpoint decode_messages (fuel : nat) (c : dcfg) (s : dstate) : outcome dstate :=
  if h_datasize (s_header s) <=? s_cur s then Ok s else
  match fuel with
  | O => OutOfFuel
  | S f => do s <- decode_message c s; decode_messages f c s
  end.

Definition decode_crc (c : dcfg) (s : dstate) : outcome (N * dstate) :=
  do r <- read_raw c s 2;
  let '(b, s) := r in
  let crc := le_word b in
  if c_checksum c && negb (s_crc s =? crc) then Err E_CRC else Ok (crc, push_event (upd_crc s 0) (EvCrc crc)).

(* d.reset(): what Decode does after a successful sequence (definitions etc. are released by releaseTemporaryObjects) *)
Definition reset_seq (s : dstate) : dstate :=
  mkst (s_rest s) (s_buf s) (s_n s) 0 0 0 0 no_defs [] [] [] None zero_header [] (s_events s).

(* Decode(): one sequence *)
Definition decode_one (c : dcfg) (s : dstate) : outcome (fit * dstate) :=
  do s <- decode_file_header c s;
  do s <- decode_messages (S (length (s_rest s))) c s;
  do r <- decode_crc c s;
  let '(crc, s) := r in
  Ok (mkfit (s_header s) (rev (s_msgs s)) crc, reset_seq s).

(* decode every sequence of a chained stream (as a caller does with Next/Decode) *)
Fixpoint decode_all (fuel : nat) (c : dcfg) (s : dstate) (out : list fit) : outcome (list fit) * list event :=
  match fuel with
  | O => (OutOfFuel, rev (s_events s))
  | S f =>
    match s_rest s, out with
    | [], _ :: _ => (Ok (rev out), rev (s_events s))
    | _, _ =>
      match decode_one c s with
      | Ok (ft, s') => decode_all f c s' (ft :: out)
      | Err e =>
          (* Next() is false as soon as the next header cannot be read; a caller looping `for dec.Next() { dec.Decode() }` then
             gets io.EOF from one more Decode -- the usual end of stream.  That is also what a cut-off header that already sat
             in the read buffer yields (known finding eof_kind_depends_on_chunking): after at least one sequence it ends the
             stream without an error. *)
          match out, decode_file_header c s with
          | _ :: _, Err e' => if e' =? E_EOF then (Ok (rev out), rev (s_events s)) else (Err e, rev (s_events s))
          | _, _ => (Err e, rev (s_events s))
          end
      | Panic p => (Panic p, rev (s_events s))
      | OutOfFuel => (OutOfFuel, rev (s_events s))
      end
    end
  end.
Definition decode_stream (c : dcfg) (bs : bytes) : outcome (list fit) :=
  fst (decode_all (S (length bs)) c (init_state bs) []).
