(* Model/Routes.v -- the conversion mode of every route as the source stands now (gen/ConvMode.v is derived from
   the source on every run by translator part convmode).  Definitions only. *)
From Coq Require Import ZArith NArith.
From Fit Require Import Model.Float Model.Scale gen.ConvMode.

Definition route_mode (r : route) : conv_mode :=
  match r with
  | RValue | RValidator => mode_discard_value
  | RAny => mode_discard_any
  | RSliceValue | RSliceAny | RSliceGeneric => mode_discard_slice
  | RAccessor => mode_setter_template
  | RCsv => mode_csv
  end.
(* a route's raw -> scaled -> raw on a scaled triple *)
Definition roundtrip (r : route) (bt : N) (s o : PrimFloat.float) (x : Z) : Z :=
  rt_kind (route_kind r) mode_discard_slice_unscaled (route_mode r) bt s o x.
Definition any_truncating : bool :=
  List.existsb (fun r => conv_mode_eqb (route_mode r) Trunc) all_routes || conv_mode_eqb mode_expand Trunc.
