(* Model/Scale.v -- the scaled <-> raw conversion routes of the SDK (property C12; reused by C05/C19).
   Hand-written from kit/scaleoffset/scaleoffset.go, encoder/validator.go, the XxxScaled/SetXxxScaled template,
   cmd/fitconv/fitcsv (parseValue), kit/datetime, kit/semicircles; tied to the code by harness/c12.go + Run/RunC12.v.
   The integer-conversion mode of every route is a parameter; its value comes from gen/ConvMode.v.  No proofs here. *)
From Coq Require Import ZArith NArith Bool Floats List String.
Import ListNotations.
From Fit Require Import Model.Float Model.Profile.

(* ------------------------------------------------------------------ base types (profile/basetype) *)
(* integer base types: (signed, bits); None for string/float types *)
Definition int_kind (bt : N) : option (bool * Z) :=
  match bt with
  | 0%N | 2%N | 10%N | 13%N => Some (false, 8%Z)      (* enum uint8 uint8z byte *)
  | 1%N => Some (true, 8%Z)
  | 131%N => Some (true, 16%Z)
  | 132%N | 139%N => Some (false, 16%Z)
  | 133%N => Some (true, 32%Z)
  | 134%N | 140%N => Some (false, 32%Z)
  | 142%N => Some (true, 64%Z)
  | 143%N | 144%N => Some (false, 64%Z)
  | _ => None
  end.
Definition bt_bits (bt : N) : Z := match int_kind bt with Some (_, b) => b | None => 0%Z end.
Definition bt_signed (bt : N) : bool := match int_kind bt with Some (s, _) => s | None => false end.
(* invalid sentinel: max of the type; 0 for the z types *)
Definition bt_invalid (bt : N) : Z :=
  match bt with
  | 10%N | 139%N | 140%N | 144%N => 0%Z
  | _ => match int_kind bt with
         | Some (true, b) => (2 ^ (b - 1) - 1)%Z
         | Some (false, b) => (2 ^ b - 1)%Z
         | None => 0%Z
         end
  end.
Definition in_range (bt : N) (x : Z) : Prop := in_int_range (bt_signed bt) (bt_bits bt) x.
Definition in_range_b (bt : N) (x : Z) : bool := in_int_range_b (bt_signed bt) (bt_bits bt) x.
Definition to_int (bt : N) (m : conv_mode) (f : float) : Z := wrap_int (bt_signed bt) (bt_bits bt) (to_Z m f).

(* ------------------------------------------------------------------ scaleoffset helpers *)
(* DiscardValue / DiscardAny on a float64: Discard, then the base type's conversion *)
Definition discard_value (m : conv_mode) (bt : N) (v s o : float) : Z := to_int bt m (discard v s o).
(* DiscardSlice, per element: its own unscaled branch, no call of Discard *)
Definition discard_slice (m_unscaled m : conv_mode) (bt : N) (v s o : float) : Z :=
  if is_unscaled s o then to_int bt m_unscaled v else to_int bt m (discard_scaled v s o).

(* raw -> scaled -> raw through the helpers *)
Definition rt_helper (m : conv_mode) (bt : N) (s o : float) (x : Z) : Z := discard_value m bt (apply x s o) s o.
Definition rt_slice (mu m : conv_mode) (bt : N) (s o : float) (x : Z) : Z := discard_slice mu m bt (apply x s o) s o.

(* ------------------------------------------------------------------ generated accessors *)
Inductive acc_kind := AScalar | ASlice | AFixed (n : N).
Record accessor := mkacc {
  a_mesg : string; a_field : string; a_mesgnum : N; a_fieldnum : N; a_kind : acc_kind; a_base : N;
  a_gscale : N; a_goffset : N;      (* getter: float64(m.X)/gscale - goffset *)
  a_soffset : N; a_sscale : N;      (* setter: (v + soffset) * sscale *)
  a_mode : conv_mode }.

(* XxxScaled, per element: invalid raw value -> the invalid float64 (a NaN) *)
Definition getter (bt : N) (gs go : float) (x : Z) : float :=
  if (x =? bt_invalid bt)%Z then nan else (of_Z x / gs - go)%float.
Definition getter_bits (bt : N) (gs go : float) (x : Z) : N :=
  if (x =? bt_invalid bt)%Z then f64_invalid_bits else bits_of_f64 (of_Z x / gs - go)%float.
(* SetXxxScaled, per element *)
Definition setter_guard (bt : N) (u : float) : bool := is_nan u || is_inf u || (of_Z (bt_invalid bt) <? u)%float.
Definition setter (m : conv_mode) (bt : N) (so ss : float) (v : float) : Z :=
  let u := ((v + so) * ss)%float in
  if setter_guard bt u then bt_invalid bt else to_int bt m u.
Definition rt_accessor (m : conv_mode) (bt : N) (gs go so ss : float) (x : Z) : Z :=
  setter m bt so ss (getter bt gs go x).
(* with the same literals in getter and setter *)
Definition rt_setter (m : conv_mode) (bt : N) (s o : float) (x : Z) : Z := rt_accessor m bt s o o s x.

(* ------------------------------------------------------------------ validator, CSV *)
(* encoder validator: restoration of a Float64 value on a field: only when the field is scaled *)
Definition validator_restore (m : conv_mode) (bt : N) (v s o : float) : option Z :=
  if is_unscaled s o then None (* value left as it is *) else Some (discard_value m bt v s o).
(* fitcsv.parseValue, numeric text containing a '.': ParseFloat, Discard, the base type's conversion *)
Definition csv_parse_scaled (m : conv_mode) (bt : N) (v s o : float) : Z := to_int bt m (discard v s o).

(* ------------------------------------------------------------------ routes *)
Inductive route := RValue | RAny | RSliceValue | RSliceAny | RSliceGeneric | RValidator | RAccessor | RCsv.
Definition route_eqb (a b : route) : bool :=
  match a, b with
  | RValue, RValue | RAny, RAny | RSliceValue, RSliceValue | RSliceAny, RSliceAny | RSliceGeneric, RSliceGeneric
  | RValidator, RValidator | RAccessor, RAccessor | RCsv, RCsv => true
  | _, _ => false
  end.
Definition all_routes : list route := [RValue; RAny; RSliceValue; RSliceAny; RSliceGeneric; RValidator; RAccessor; RCsv].

(* the three shapes a route's round trip can have *)
Inductive rkind := KHelper | KSlice | KSetter.
Definition route_kind (r : route) : rkind :=
  match r with
  | RSliceValue | RSliceAny | RSliceGeneric => KSlice
  | RAccessor => KSetter
  | _ => KHelper
  end.
Definition rt_kind (k : rkind) (mu m : conv_mode) (bt : N) (s o : float) (x : Z) : Z :=
  match k with KHelper => rt_helper m bt s o x | KSlice => rt_slice mu m bt s o x | KSetter => rt_setter m bt s o x end.

(* ------------------------------------------------------------------ datetime (kit/datetime) *)
(* a time instant is nanoseconds relative to the FIT epoch 1989-12-31T00:00:00Z (= Unix 631065600 s) *)
Definition fit_epoch_unix : Z := 631065600%Z.
Definition zero_time_ns : Z := ((-62135596800 - 631065600) * 1000000000)%Z.   (* time.Time{} = 0001-01-01T00:00:00Z *)
Definition uint32_invalid : Z := 4294967295%Z.
Definition to_time (v : Z) : Z := if (v =? uint32_invalid)%Z then zero_time_ns else (v * 1000000000)%Z.
(* time.Time.Sub saturates at the int64 nanosecond range *)
Definition sat_int64 (z : Z) : Z := Z.max (- 2 ^ 63) (Z.min (2 ^ 63 - 1) z).
(* time.Duration.Seconds: float64(d / 1e9) + float64(d % 1e9)/1e9 (Go's truncated division) *)
Definition duration_seconds (d : Z) : float := (of_Z (Z.quot d 1000000000) + of_Z (Z.rem d 1000000000) / 1000000000)%float.
Definition to_uint32 (t : Z) : Z :=
  if (t <? 0)%Z then uint32_invalid else wrap_int false 32 (trunc_to_Z (duration_seconds (sat_int64 t))).

(* ------------------------------------------------------------------ semicircles (kit/semicircles) *)
Definition semi_cf : float := 0x1.68p-24%float.          (* 180 / 2^31 *)
Definition sint32_invalid : Z := 2147483647%Z.
Definition to_degrees (x : Z) : float := if (x =? sint32_invalid)%Z then nan else (of_Z x * semi_cf)%float.
Definition to_degrees_bits (x : Z) : N := if (x =? sint32_invalid)%Z then f64_invalid_bits else bits_of_f64 (of_Z x * semi_cf)%float.
Definition to_semicircles (d : float) : Z :=
  if is_nan d || is_inf d then sint32_invalid else wrap_int true 32 (trunc_to_Z (d / semi_cf)%float).

(* ------------------------------------------------------------------ the (base type, scale, offset) triples of a factory table *)
Definition triple := (N * N * N)%type.     (* base type, scale bits, offset bits *)
Definition triple_eqb (a b : triple) : bool :=
  let '(a1, a2, a3) := a in let '(b1, b2, b3) := b in N.eqb a1 b1 && N.eqb a2 b2 && N.eqb a3 b3.
Definition triple_mem (t : triple) (l : list triple) : bool := existsb (triple_eqb t) l.
Fixpoint dedup (l : list triple) (acc : list triple) : list triple :=
  match l with [] => rev acc | t :: r => if triple_mem t acc then dedup r acc else dedup r (t :: acc) end.
Definition scaled_bits (s o : N) : bool := negb (N.eqb s one_bits && (N.eqb o 0 || N.eqb o 9223372036854775808)).
(* a component carries `bits` raw bits; it is restored into an unsigned container of the next width *)
Definition comp_base (bits : N) : N := if (bits <=? 8)%N then 2%N else if (bits <=? 16)%N then 132%N else 134%N.
Definition field_triples (f : fieldbase) : list triple :=
  (fb_base f, fb_scale f, fb_offset f)
  :: map (fun c => (comp_base (c_bits c), c_scale c, c_offset c)) (fb_comps f)
  ++ flat_map (fun s => (fb_base f, s_scale s, s_offset s)
                        :: map (fun c => (comp_base (c_bits c), c_scale c, c_offset c)) (s_comps s)) (fb_subs f).
Definition all_triples (t : mesgtable) : list triple :=
  dedup (filter (fun '(bt, s, o) => scaled_bits s o) (flat_map (fun '(_, fs) => flat_map field_triples fs) t)) [].
Definition triples_of_width (t : mesgtable) (lo hi : Z) : list triple :=
  filter (fun '(bt, _, _) => (lo <=? bt_bits bt)%Z && (bt_bits bt <=? hi)%Z) (all_triples t).
