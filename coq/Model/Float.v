(* Model/Float.v -- Go float64 arithmetic as used by the scale/offset conversions (shared by C12, C05, C19).

   Coq's primitive [float] is IEEE-754 binary64; [vm_compute] evaluates +,-,*,/ on the host FPU with
   round-to-nearest-even, which is the arithmetic Go uses for float64 on amd64 (no fused operations are
   introduced by the Go compiler on amd64, and every sub-expression in the modelled code is a separate
   float64 operation).  Only definitions here (no proofs), so the model still runs when a proof breaks;
   the facts about them are in Proofs/FloatProofs.v.

   Conventions
   * bit patterns are [N] as produced by math.Float64bits (gen/Factory.v carries scales/offsets this way);
   * NaN: Coq has one NaN.  [bits_of_f64 nan] is the canonical quiet NaN 0x7FF8000000000000; the harness maps
     every NaN it prints to that pattern, except where the code returns the FIT "invalid float64"
     0xFFFFFFFFFFFFFFFF explicitly -- the model returns that pattern explicitly too ([f64_invalid_bits]);
   * float -> integer: Go's conversion truncates toward zero when the value is in range of the target type
     and is implementation-defined otherwise.  [trunc_to_Z] is the mathematical truncation (Flocq's
     executable [Btrunc], so that [Btrunc_correct] applies in proofs); [wrap_int] then reduces into the
     target type the way amd64 does for values inside int64 (two's complement wrap).  Theorems always carry
     the in-range hypothesis; the wrap is there so that the model is total.  [trunc_to_Z] of NaN/infinity is 0. *)
From Coq Require Import ZArith NArith Bool Floats Uint63.
From Flocq Require Import IEEE754.BinarySingleNaN IEEE754.PrimFloat.
#[local] Existing Instance Hprec.
#[local] Existing Instance Hmax.

(* how the code turns the restored float into an integer: plain conversion (truncation) or math.Round first.
   The mode of each conversion route is derived from the source on every run (gen/ConvMode.v). *)
From Fit Require Export Model.ConvModeT.

Definition f64_invalid_bits : N := 18446744073709551615%N.   (* basetype.Float64Invalid *)
Definition f64_nan_bits : N := 9221120237041090560%N.        (* 0x7FF8000000000000 *)

(* math.Float64frombits *)
Definition f64_of_bits (b : N) : float :=
  let z := Z.of_N b in
  let sign := Z.odd (z / 2 ^ 63) in
  let e := ((z / 2 ^ 52) mod 2048)%Z in
  let m := (z mod 2 ^ 52)%Z in
  let mag :=
    if (e =? 2047)%Z then (if (m =? 0)%Z then infinity else nan)
    else if (e =? 0)%Z then Z.ldexp (of_uint63 (Uint63.of_Z m)) (-1074)
    else Z.ldexp (of_uint63 (Uint63.of_Z (m + 2 ^ 52))) (e - 1075) in
  if sign then PrimFloat.opp mag else mag.

(* math.Float64bits (NaN canonicalised, see above) *)
Definition bits_of_f64 (f : float) : N :=
  match Prim2SF f with
  | S754_zero s => if s then 9223372036854775808%N else 0%N
  | S754_infinity s => if s then 18442240474082181120%N else 9218868437227405312%N
  | S754_nan => f64_nan_bits
  | S754_finite s m e =>
      let sg := if s then 9223372036854775808%N else 0%N in
      let m' := Npos m in
      if (m' <? 4503599627370496)%N then (sg + m')%N      (* subnormal: e = -1074 *)
      else (sg + Z.to_N (e + 1075) * 4503599627370496 + (m' - 4503599627370496))%N
  end.

(* float64(x) for a Go integer x of any width up to 64 bits (correctly rounded; exact below 2^53).
   [of_uint63] covers magnitudes below 2^63; a uint64 (or -2^63) above that uses the round-to-odd halving
   that the amd64 code sequence uses, which yields the correctly rounded result. *)
Definition of_Zpos (z : Z) : float :=
  if (z <? 9223372036854775808)%Z (* 2^63 *) then of_uint63 (Uint63.of_Z z)
  else (of_uint63 (Uint63.of_Z (Z.lor (z / 2) (z mod 2))) * 2)%float.
Definition of_Z (z : Z) : float :=
  match z with
  | Z0 => zero
  | Zpos _ => of_Zpos z
  | Zneg p => PrimFloat.opp (of_Zpos (Zpos p))
  end.

(* in-range Go conversion intNN(f) / uintNN(f): truncation toward zero *)
Definition trunc_to_Z (f : float) : Z := Btrunc (Prim2B f).
(* math.Round: nearest integer, halves away from zero (as a float) *)
Definition round_half_away (f : float) : float := B2Prim (Bnearbyint mode_NA (Prim2B f)).
(* intNN(math.Round(f)) without going back through the primitive representation *)
Definition round_to_Z (f : float) : Z := Btrunc (Bnearbyint mode_NA (Prim2B f)).
Definition to_Z (m : conv_mode) (f : float) : Z :=
  match m with Trunc => trunc_to_Z f | Round => round_to_Z f end.

(* reduction into a w-bit integer type (amd64 behaviour for values inside int64) *)
Definition wrap_int (signed : bool) (bits : Z) (z : Z) : Z :=
  let p := Z.shiftl 1 bits in           (* 2^bits *)
  let r := (z mod p)%Z in
  if signed && (Z.shiftl 1 (bits - 1) <=? r)%Z then (r - p)%Z else r.
Definition in_int_range (signed : bool) (bits : Z) (z : Z) : Prop :=
  if signed then (- 2 ^ (bits - 1) <= z < 2 ^ (bits - 1))%Z else (0 <= z < 2 ^ bits)%Z.
Definition in_int_range_b (signed : bool) (bits : Z) (z : Z) : bool :=
  if signed then (- 2 ^ (bits - 1) <=? z)%Z && (z <? 2 ^ (bits - 1))%Z else (0 <=? z)%Z && (z <? 2 ^ bits)%Z.

(* scaleoffset.Apply: float64(value)/scale - offset *)
Definition apply (x : Z) (s o : float) : float := (of_Z x / s - o)%float.
(* the guard `scale == 1 && offset == 0` (Go ==: -0 equals 0) *)
Definition is_unscaled (s o : float) : bool := (s =? 1)%float && (o =? 0)%float.
(* scaleoffset.Discard *)
Definition discard_scaled (v s o : float) : float := ((v + o) * s)%float.
Definition discard (v s o : float) : float := if is_unscaled s o then v else discard_scaled v s o.

Definition is_inf (f : float) : bool := (f =? infinity)%float || (f =? neg_infinity)%float.
