(* C13 -- generic model of the generated typed messages (profile/mesgdef/*_gen.go).
   One interpreter for all of them: [reset] (NewXxx / Reset) and [to_mesg] (ToMesg) take the translated
   specification of a message ([mspec], gen/MesgdefSpec.v) and a factory.  Every Go array index is a checked
   operation that yields [Panic]; the unchecked twins ([reset_pure], [to_mesg_pure]) are what the theorems are
   about once the checks are shown to pass.  No proofs in this file. *)
From Coq Require Import NArith ZArith List Bool String.
Import ListNotations.
From Fit Require Import Model.Profile.
Open Scope N_scope.

(* ------------------------------------------------------------------ values (proto.Value) *)
Inductive ntype := TBool | TI8 | TU8 | TI16 | TU16 | TI32 | TU32 | TI64 | TU64 | TF32 | TF64.
Definition ntype_eqb (a b : ntype) : bool :=
  match a, b with
  | TBool, TBool | TI8, TI8 | TU8, TU8 | TI16, TI16 | TU16, TU16 | TI32, TI32 | TU32, TU32
  | TI64, TI64 | TU64, TU64 | TF32, TF32 | TF64, TF64 => true
  | _, _ => false
  end.
Definition str := list N.                      (* bytes of a Go string *)

(* numbers are the low bits (two's complement for signed, IEEE pattern for floats);
   [VArr t None] / [VStrs None] is a typed nil slice *)
Inductive value :=
| VInvalid
| VNum  (t : ntype) (bits : N)
| VArr  (t : ntype) (elts : option (list N))
| VStr  (s : str)
| VStrs (ss : option (list str)).

(* observable part of proto.Field: number, Name <> "unknown", FieldBase.BaseType, value, IsExpandedField *)
Record field := mkfield { f_num : N; f_known : bool; f_base : N; f_value : value; f_expanded : bool }.
Record devfield := mkdev { df_num : N; df_index : N; df_value : value }.
Record message := mkmesg { m_num : N; m_fields : list field; m_devs : list devfield }.

Record options := mkopt { include_expanded : bool }.

Inductive outcome (A : Type) := Ok (a : A) | Panic (what : N).
Arguments Ok {A} a. Arguments Panic {A} what.
Definition bind {A B} (x : outcome A) (f : A -> outcome B) : outcome B :=
  match x with Ok a => f a | Panic w => Panic w end.
(* what: 1 = vals[Num] store out of range, 2 = state[pos] out of range (Reset), 3 = vals[N] read out of range,
         4 = state[pos] out of range (IsExpandedField) *)

(* ------------------------------------------------------------------ translated specification *)
Inductive acc :=                                   (* Reset: how a struct field is read from vals[idx] *)
| ANum (t : ntype) (inv : N)                       (* vals[i].Uint16(), typedef.X(vals[i].Uint8()), vals[i].Bool(): [inv] on a type mismatch *)
| ATime (inv : N)                                  (* datetime.ToTime(vals[i].Uint32()) *)
| AArr (t : ntype)                                 (* vals[i].SliceUint8(), also re-typed as []typedef.X *)
| AFix (t : ntype) (len fill : N)                  (* [len]T filled with [fill], then copy *)
| AStr | AStrs | AFixStr (len : N).
Inductive guard :=                                 (* ToMesg: condition of the if-block *)
| GNeq (inv : N) | GLt (k : N) | GNotNil | GTime | GFixNeq (len fill : N) | GStrNeq | GFixStrNeq (len : N).
Inductive ctor := CNum (t : ntype) | CTime | CArr (t : ntype) | CStr | CStrs.

Record mfield := mkmf { mf_name : string; mf_idx : N (* vals[idx] in Reset *); mf_num : N (* CreateField(mesg.Num, num) *);
                        mf_acc : acc; mf_guard : guard; mf_ctor : ctor; mf_exp : option N (* m.IsExpandedField(n) *) }.
Record mspec := mkspec { ms_name : string; ms_file : string; ms_num : N;
                         ms_vals_len : N;          (* var vals [len]proto.Value *)
                         ms_bound : N;             (* Num > bound  -> unknown field *)
                         ms_state_len : N;         (* state [len]uint8, 0 = no state *)
                         ms_exp_bound : N;         (* Num < exp_bound && IsExpandedField -> mark *)
                         ms_isexp_bound : N;       (* IsExpandedField: fieldNum >= bound -> false *)
                         ms_mark_cases : list N;   (* MarkAsExpandedField case list *)
                         ms_has_devs : bool;       (* struct has DeveloperFields *)
                         ms_fields : list mfield;  (* ToMesg order *)
                         ms_scaled : list (N * (bool * N * N)) (* field, setter?, scale bits, offset bits: literals of XxxScaled/SetXxxScaled (C12) *) }.

(* ------------------------------------------------------------------ typed struct *)
(* time.Time at whole-second resolution: seconds relative to the FIT epoch; time.Time{} is [zero_time] *)
Definition zero_time : Z := (-62766662400)%Z.
Inductive sval :=
| SVNum (x : N) | SVTime (sec : Z) | SVArr (l : option (list N)) | SVFix (l : list N)
| SVStr (s : str) | SVStrs (l : option (list str)) | SVFixStr (l : list str).
(* state bitmap [len]uint8 as the number whose bit n is the mark of field number n *)
Record tstruct := mkts { t_slots : list sval; t_state : N; t_unknown : list field; t_devs : list devfield }.

(* ------------------------------------------------------------------ Reset *)
Definition goes_unknown (s : mspec) (f : field) : bool := (ms_bound s <? f_num f) || negb (f_known f).
Definition marks (s : mspec) (f : field) : bool := (f_num f <? ms_exp_bound s) && f_expanded f.

Record scan_state := mkscan { sc_vals : list field (* stored, most recent first *); sc_state : N; sc_unknown : list field }.

Definition scan_step (s : mspec) (a : scan_state) (f : field) : outcome scan_state :=
  if goes_unknown s f then Ok (mkscan (sc_vals a) (sc_state a) (sc_unknown a ++ [f]))
  else
    bind (if marks s f then (if f_num f / 8 <? ms_state_len s then Ok (N.setbit (sc_state a) (f_num f)) else Panic 2)
          else Ok (sc_state a))
      (fun st => if f_num f <? ms_vals_len s then Ok (mkscan (f :: sc_vals a) st (sc_unknown a)) else Panic 1).

Fixpoint scan (s : mspec) (fs : list field) (a : scan_state) : outcome scan_state :=
  match fs with
  | [] => Ok a
  | f :: r => bind (scan_step s a f) (scan s r)
  end.

Definition get (vals : list field) (k : N) : option value :=
  option_map f_value (find (fun f => f_num f =? k) vals).

Fixpoint fit_len {A} (n : nat) (fill : A) (l : list A) : list A :=      (* arr = {fill,...}; copy(arr[:], l) *)
  match n with
  | O => []
  | S n' => match l with [] => fill :: fit_len n' fill [] | x :: r => x :: fit_len n' fill r end
  end.

Definition read_slot (a : acc) (v : option value) : sval :=
  match a with
  | ANum t inv => match v with Some (VNum t' x) => if ntype_eqb t t' then SVNum x else SVNum inv | _ => SVNum inv end
  | ATime inv => match v with
                 | Some (VNum TU32 x) => if x =? inv then SVTime zero_time else SVTime (Z.of_N x)
                 | _ => SVTime zero_time end
  | AArr t => match v with Some (VArr t' l) => if ntype_eqb t t' then SVArr l else SVArr None | _ => SVArr None end
  | AFix t len fill => match v with
                       | Some (VArr t' (Some l)) => if ntype_eqb t t' then SVFix (fit_len (N.to_nat len) fill l)
                                                    else SVFix (fit_len (N.to_nat len) fill [])
                       | _ => SVFix (fit_len (N.to_nat len) fill []) end
  | AStr => match v with Some (VStr x) => SVStr x | _ => SVStr [] end
  | AStrs => match v with Some (VStrs l) => SVStrs l | _ => SVStrs None end
  | AFixStr len => match v with
                   | Some (VStrs (Some l)) => SVFixStr (fit_len (N.to_nat len) [] l)
                   | _ => SVFixStr (fit_len (N.to_nat len) [] []) end
  end.

Fixpoint read_all (s : mspec) (vals : list field) (mfs : list mfield) : outcome (list sval) :=
  match mfs with
  | [] => Ok []
  | mf :: r => if mf_idx mf <? ms_vals_len s
               then bind (read_all s vals r) (fun l => Ok (read_slot (mf_acc mf) (get vals (mf_idx mf)) :: l))
               else Panic 3
  end.

Definition reset (s : mspec) (m : message) : outcome tstruct :=
  bind (scan s (m_fields m) (mkscan [] 0 []))
    (fun a => bind (read_all s (sc_vals a) (ms_fields s))
      (fun slots => Ok (mkts slots (sc_state a) (sc_unknown a) (if ms_has_devs s then m_devs m else [])))).

(* the same without checks *)
Definition known_fields (s : mspec) (fs : list field) : list field := filter (fun f => negb (goes_unknown s f)) fs.
Definition last_value (s : mspec) (fs : list field) (k : N) : option value := get (rev (known_fields s fs)) k.
Definition state_of (s : mspec) (fs : list field) : N :=
  fold_left (fun st f => if negb (goes_unknown s f) && marks s f then N.setbit st (f_num f) else st) fs 0.
Definition reset_pure (s : mspec) (m : message) : tstruct :=
  mkts (map (fun mf => read_slot (mf_acc mf) (last_value s (m_fields m) (mf_idx mf))) (ms_fields s))
       (state_of s (m_fields m))
       (filter (goes_unknown s) (m_fields m))
       (if ms_has_devs s then m_devs m else []).

(* ------------------------------------------------------------------ ToMesg *)
Definition is_nil {A} (l : list A) : bool := match l with [] => true | _ => false end.
Fixpoint leqb {A} (eqb : A -> A -> bool) (a b : list A) : bool :=
  match a, b with
  | [], [] => true
  | x :: a', y :: b' => eqb x y && leqb eqb a' b'
  | _, _ => false
  end.
Definition is_some {A} (o : option A) : bool := match o with Some _ => true | None => false end.

Definition guard_pass (g : guard) (v : sval) : bool :=
  match g, v with
  | GNeq inv, SVNum x => negb (x =? inv)
  | GLt k, SVNum x => x <? k
  | GNotNil, SVArr l => is_some l
  | GNotNil, SVStrs l => is_some l
  | GTime, SVTime sec => (0 <=? sec)%Z
  | GFixNeq len fill, SVFix l => negb (leqb N.eqb l (fit_len (N.to_nat len) fill []))
  | GStrNeq, SVStr x => negb (is_nil x)
  | GFixStrNeq len, SVFixStr l => negb (leqb (leqb N.eqb) l (fit_len (N.to_nat len) [] []))
  | _, _ => false
  end.

Definition build (c : ctor) (v : sval) : option value :=
  match c, v with
  | CNum t, SVNum x => match t with TBool => Some (VNum TBool (if 1 <? x then 255 else x)) | _ => Some (VNum t x) end
  | CTime, SVTime sec => Some (VNum TU32 (Z.to_N sec))
  | CArr t, SVArr l => Some (VArr t l)
  | CArr t, SVFix l => Some (VArr t (Some l))
  | CStr, SVStr x => Some (VStr x)
  | CStrs, SVStrs l => Some (VStrs l)
  | CStrs, SVFixStr l => Some (VStrs (Some l))
  | _, _ => None
  end.

Section WithFactory.
Variable fac : N -> N -> option fieldbase.         (* options.Factory.CreateField, as a table *)

(* fac.CreateField(mesg.Num, n) with Value and IsExpandedField set *)
Definition created (s : mspec) (n : N) (v : value) (e : bool) : field :=
  match fac (ms_num s) n with
  | Some fb => mkfield (fb_num fb) true (fb_base fb) v e
  | None => mkfield n false 0 v e
  end.

Definition is_expanded (s : mspec) (st : N) (n : N) : outcome bool :=
  if ms_isexp_bound s <=? n then Ok false
  else if n / 8 <? ms_state_len s then Ok (N.testbit st n) else Panic 4.

Definition emit (s : mspec) (o : options) (st : N) (mf : mfield) (v : sval) : outcome (list field) :=
  if guard_pass (mf_guard mf) v then
    match build (mf_ctor mf) v with
    | None => Ok []
    | Some val =>
      match mf_exp mf with
      | None => Ok [created s (mf_num mf) val false]
      | Some n => bind (is_expanded s st n)
                    (fun e => if negb e || include_expanded o then Ok [created s (mf_num mf) val e] else Ok [])
      end
    end
  else Ok [].

Fixpoint emit_all (s : mspec) (o : options) (st : N) (mfs : list mfield) (vs : list sval) : outcome (list field) :=
  match mfs, vs with
  | mf :: mr, v :: vr => bind (emit s o st mf v) (fun a => bind (emit_all s o st mr vr) (fun b => Ok (a ++ b)))
  | _, _ => Ok []
  end.

Definition to_mesg (s : mspec) (o : options) (t : tstruct) : outcome message :=
  bind (emit_all s o (t_state t) (ms_fields s) (t_slots t))
    (fun fs => Ok (mkmesg (ms_num s) (fs ++ t_unknown t) (if ms_has_devs s then t_devs t else []))).

(* without checks *)
Definition emit_pure (s : mspec) (o : options) (st : N) (mf : mfield) (v : sval) : list field :=
  if guard_pass (mf_guard mf) v then
    match build (mf_ctor mf) v with
    | None => []
    | Some val =>
      match mf_exp mf with
      | None => [created s (mf_num mf) val false]
      | Some n => let e := (n <? ms_isexp_bound s) && N.testbit st n in
                  if negb e || include_expanded o then [created s (mf_num mf) val e] else []
      end
    end
  else [].
Fixpoint emit_all_pure (s : mspec) (o : options) (st : N) (mfs : list mfield) (vs : list sval) : list field :=
  match mfs, vs with
  | mf :: mr, v :: vr => emit_pure s o st mf v ++ emit_all_pure s o st mr vr
  | _, _ => []
  end.
Definition to_mesg_pure (s : mspec) (o : options) (t : tstruct) : message :=
  mkmesg (ms_num s) (emit_all_pure s o (t_state t) (ms_fields s) (t_slots t) ++ t_unknown t)
         (if ms_has_devs s then t_devs t else []).

(* ------------------------------------------------------------------ what message -> struct -> message must give *)
(* stated from the accessor type of the slot only (the part of the spec that [wf_mspec] ties to the profile):
   the value a well-typed valid field comes back with; None = read as invalid, not emitted *)
Definition all_fill {A} (eqb : A -> A -> bool) (fill : A) (l : list A) : bool := forallb (fun x => eqb x fill) l.
Definition norm_value (a : acc) (v : option value) : option value :=
  match a, v with
  | ANum TBool _, Some (VNum TBool x) => if x <? 2 then Some (VNum TBool x) else None
  | ANum t inv, Some (VNum t' x) => if ntype_eqb t t' && negb (x =? inv) then Some (VNum t x) else None
  | ATime inv, Some (VNum TU32 x) => if x =? inv then None else Some (VNum TU32 x)
  | AArr t, Some (VArr t' (Some l)) => if ntype_eqb t t' then Some (VArr t (Some l)) else None
  | AFix t len fill, Some (VArr t' (Some l)) =>
      if ntype_eqb t t' then
        let l' := fit_len (N.to_nat len) fill l in
        if all_fill N.eqb fill l' then None else Some (VArr t (Some l'))
      else None
  | AStr, Some (VStr x) => if is_nil x then None else Some (VStr x)
  | AStrs, Some (VStrs (Some l)) => Some (VStrs (Some l))
  | AFixStr len, Some (VStrs (Some l)) =>
      let l' := fit_len (N.to_nat len) [] l in
      if all_fill (leqb N.eqb) [] l' then None else Some (VStrs (Some l'))
  | _, _ => None
  end.

Definition expandable (s : mspec) (n : N) : bool := existsb (N.eqb n) (ms_mark_cases s).
Definition marked (s : mspec) (fs : list field) (n : N) : bool :=
  existsb (fun f => negb (goes_unknown s f) && (f_num f =? n) && f_expanded f) fs.

Definition norm_field (s : mspec) (o : options) (fs : list field) (mf : mfield) : list field :=
  match norm_value (mf_acc mf) (last_value s fs (mf_num mf)) with
  | None => []
  | Some v => let e := expandable s (mf_num mf) && marked s fs (mf_num mf) in
              if e && negb (include_expanded o) then [] else [created s (mf_num mf) v e]
  end.

Definition normalise (s : mspec) (o : options) (m : message) : message :=
  mkmesg (ms_num s)
         (flat_map (norm_field s o (m_fields m)) (ms_fields s) ++ filter (goes_unknown s) (m_fields m))
         (if ms_has_devs s then m_devs m else []).

(* ------------------------------------------------------------------ well-formedness needed by the round-trip theorems *)
Fixpoint nodup_b (l : list N) : bool :=
  match l with [] => true | x :: r => negb (existsb (N.eqb x) r) && nodup_b r end.

Definition acc_eqb_shape (a : acc) (g : guard) (c : ctor) : bool :=
  match a, g, c with
  | ANum TBool inv, GLt k, CNum TBool => (k =? 2) && (inv =? 255)
  | ANum t inv, GNeq inv', CNum t' => ntype_eqb t t' && (inv =? inv') && negb (ntype_eqb t TBool)
  | ATime inv, GTime, CTime => inv =? 4294967295
  | AArr t, GNotNil, CArr t' => ntype_eqb t t'
  | AFix t len fill, GFixNeq len' fill', CArr t' => ntype_eqb t t' && (len =? len') && (fill =? fill')
  | AStr, GStrNeq, CStr => true
  | AStrs, GNotNil, CStrs => true
  | AFixStr len, GFixStrNeq len', CStrs => len =? len'
  | _, _, _ => false
  end.

Definition wf_slot (s : mspec) (mf : mfield) : bool :=
  (mf_idx mf =? mf_num mf) && (mf_num mf <=? ms_bound s) && (mf_idx mf <? ms_vals_len s)
  && acc_eqb_shape (mf_acc mf) (mf_guard mf) (mf_ctor mf)
  && match fac (ms_num s) (mf_num mf) with Some fb => fb_num fb =? mf_num mf | None => false end
  && match mf_exp mf with
     | None => negb (expandable s (mf_num mf))
     | Some n => (n =? mf_num mf) && expandable s n && (n <? ms_exp_bound s) && (n <? ms_isexp_bound s)
     end.

Definition wf_core (s : mspec) : bool :=
  nodup_b (map mf_num (ms_fields s))
  && (ms_bound s <? ms_vals_len s)
  && (ms_exp_bound s <=? 8 * ms_state_len s) && (ms_isexp_bound s <=? 8 * ms_state_len s)
  && forallb (wf_slot s) (ms_fields s).

End WithFactory.

(* ------------------------------------------------------------------ agreement with the profile (gen/Factory.v) *)
Record profile_consts := mkpc { pc_basetypes : list (N * option ntype * N); pc_bool : N; pc_date_time : N; pc_local_date_time : N }.

Fixpoint bt_lookup (tbl : list (N * option ntype * N)) (code : N) : option (option ntype * N) :=
  match tbl with
  | [] => None
  | (c, t, inv) :: r => if c =? code then Some (t, inv) else bt_lookup r code
  end.

(* accessor of the slot against the factory entry: element type and invalid value of the base type,
   array flag, bool / date_time profile types *)
Definition acc_matches (pc : profile_consts) (fb : fieldbase) (a : acc) : bool :=
  match bt_lookup (pc_basetypes pc) (fb_base fb) with
  | None => false
  | Some (ot, inv) =>
    let is_time := (fb_ptype fb =? pc_date_time pc) || (fb_ptype fb =? pc_local_date_time pc) in
    let is_bool := fb_ptype fb =? pc_bool pc in
    match a, ot with
    | ANum TBool i, Some TU8 => is_bool && negb (fb_array fb) && (i =? inv)
    | ANum t i, Some t' => ntype_eqb t t' && (i =? inv) && negb (fb_array fb) && negb is_time && negb is_bool
    | ATime i, Some TU32 => is_time && (i =? inv) && negb (fb_array fb)
    | AArr TBool, Some TU8 => is_bool && fb_array fb
    | AArr t, Some t' => ntype_eqb t t' && fb_array fb && negb is_bool
    | AFix t len fill, Some t' => ntype_eqb t t' && fb_array fb && (fill =? inv)
    | AStr, None => negb (fb_array fb)
    | AStrs, None => fb_array fb
    | AFixStr _, None => fb_array fb
    | _, _ => false
    end
  end.

Definition comp_dests (fbs : list fieldbase) : list N :=
  flat_map (fun fb => map c_num (fb_comps fb) ++ flat_map (fun sf => map c_num (s_comps sf)) (fb_subs fb)) fbs.

Definition incl_b (a b : list N) : bool := forallb (fun x => existsb (N.eqb x) b) a.

Definition wf_profile (pc : profile_consts) (tbl : mesgtable) (s : mspec) : bool :=
  match find_mesg tbl (ms_num s) with
  | None => false
  | Some fbs =>
    (N.of_nat (List.length (ms_fields s)) =? N.of_nat (List.length fbs))
    && forallb (fun fb => existsb (fun mf => mf_num mf =? fb_num fb) (ms_fields s)) fbs
    && forallb (fun mf => match find_field fbs (mf_num mf) with Some fb => acc_matches pc fb (mf_acc mf) | None => false end) (ms_fields s)
    && incl_b (ms_mark_cases s) (comp_dests fbs) && incl_b (comp_dests fbs) (ms_mark_cases s)
    && nodup_b (ms_mark_cases s)
    && ((ms_state_len s =? 0) && is_nil (ms_mark_cases s) && (ms_exp_bound s =? 0)
        || negb (is_nil (ms_mark_cases s)) && forallb (fun n => n <? ms_exp_bound s) (ms_mark_cases s)
           && existsb (fun n => n + 1 =? ms_exp_bound s) (ms_mark_cases s) && (ms_exp_bound s =? ms_isexp_bound s))
  end.

Definition wf_mspec (pc : profile_consts) (tbl : mesgtable) (s : mspec) : bool :=
  wf_core (lookup tbl) s && wf_profile pc tbl s.

(* which slot of a spec fails (diagnosis for the check when the Inst obligation breaks) *)
Definition bad_slots (pc : profile_consts) (tbl : mesgtable) (s : mspec) : list (string * N) :=
  map (fun mf => (mf_name mf, mf_num mf))
      (filter (fun mf => negb (wf_slot (lookup tbl) s mf
                               && match lookup tbl (ms_num s) (mf_num mf) with Some fb => acc_matches pc fb (mf_acc mf) | None => false end))
              (ms_fields s)).

(* ------------------------------------------------------------------ canonical structs (struct -> message -> struct) *)
Definition slot_canonical (mf : mfield) (v : sval) : bool :=
  match mf_acc mf, v with
  | ANum TBool inv, SVNum x => (x <? 2) || (x =? inv)
  | ANum _ _, SVNum _ => true
  | ATime inv, SVTime sec => (sec =? zero_time)%Z || ((0 <=? sec)%Z && (sec <? Z.of_N inv)%Z)   (* whole seconds, representable *)
  | AArr _, SVArr _ => true
  | AFix _ len _, SVFix l => N.of_nat (List.length l) =? len
  | AStr, SVStr _ => true
  | AStrs, SVStrs _ => true
  | AFixStr len, SVFixStr l => N.of_nat (List.length l) =? len
  | _, _ => false
  end.
