(* C14 -- decidable checks tying the translated filedef tables to each other and to the profile (factory dump).  No proofs. *)
From Coq Require Import NArith List Bool String.
Import ListNotations.
From Fit Require Import Model.Filedef gen.FiledefSpec gen.FactoryNames.
Open Scope N_scope.

(* one file type per source file; the listener's default file sets reach every file type and nothing else *)
Definition filesets_ok : bool :=
  (N.of_nat (List.length fspecs) =? source_files) &&
  forallb (fun p => Nat.ltb (snd p) (List.length fspecs)) filesets &&
  forallb (fun i => existsb (fun p => Nat.eqb (snd p) i) filesets) (seq 0 (List.length fspecs)) &&
  nodupb (map fst filesets).

(* the comparator's field numbers against the profile: in every message the field named "timestamp" is the one compared,
   and each special entry names such a field *)
Definition name_of (m f : N) : option string :=
  match find (fun e => let '(m', f', _, _, _) := e in (m' =? m) && (f' =? f)) names with
  | Some (_, _, n, _, _) => Some n | None => None end.
Definition ts_names_ok : bool :=
  forallb (fun e => let '(m, f, n, _, _) := e in if String.eqb n "timestamp" then ts_field cmp m =? f else true) names &&
  forallb (fun p => match name_of (fst p) (snd p) with Some n => String.eqb n "timestamp" | None => false end) (cs_special cmp).
(* messages whose "timestamp" field is not the one the comparator reads *)
Definition ts_mismatches : list (N * N * N) :=
  flat_map (fun e => let '(m, f, n, _, _) := e in
            if String.eqb n "timestamp" && negb (ts_field cmp m =? f) then [(m, f, ts_field cmp m)] else []) names.
