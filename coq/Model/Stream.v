(* encoder/stream.go at message level: StreamEncoder.WriteMessage validates (protocol validator, message validator) and encodes
   one message at a time with the state the encoder keeps between calls -- the validator's developer-data declarations, the
   LRU of local message definitions, the timestamp reference, the running data size and CRC -- and SequenceCompleted hands the
   sequence's parts to the destination (Model/Writer.v: stream_one) and calls Encoder.reset.  What reset clears is read from
   the source (gen/DecoderReset.v: enc_reset_ flags), as is the fact that SequenceCompleted calls it.
   SequenceCompleted without any WriteMessage before it is the empty sequence: refused, like encode_fit refuses an empty message
   list (since fix 2690f88 the source does so: gen/DecoderReset.v stream_completed_rejects_empty is read from SequenceCompleted on
   every run and is a premise of the stream theorems, Proofs/StreamProofs.v reset_complete; the harness drives such calls
   before, between and after sequences and compares the answer and the destination).  Outside this model: going on after a failed WriteMessage. *)
From Coq Require Import NArith List Bool.
Import ListNotations.
From Fit Require Export Model.Encoder.
Open Scope N_scope.

Record sstate := mkss { ss_vs : vstate; ss_es : estate }.
Definition ss_init (c : ecfg) : sstate := mkss vs_init (es_init c).

(* Encoder.reset, field by field as the source has it *)
Definition enc_reset (c : ecfg) (s : sstate) : sstate :=
  let e := ss_es s in
  mkss (if enc_reset_validator then vs_init else ss_vs s)
       (mkes (if enc_reset_lru then es_lru (es_init c) else es_lru e)
             (if enc_reset_tsref then 0 else es_tsref e)
             (if enc_reset_lastts then 0 else es_lastts e)
             (if enc_reset_datasize then 0 else es_datasize e)
             (if enc_reset_crc then 0 else es_crc e)).

Definition stream_write_message (c : ecfg) (ver : N) (s : sstate) (m : message) : outcome (list bytes * sstate) :=
  do _ <- proto_validate ver m;
  do x <- validate (e_preserve c) (ss_vs s) m;
  do y <- encode_message_chunks c (ss_es s) (fst x);
  Ok (fst y, mkss (snd x) (snd y)).

Fixpoint stream_messages (c : ecfg) (ver : N) (s : sstate) (ms : list message) (acc : list bytes) : outcome (list bytes * sstate) :=
  match ms with
  | [] => Ok (acc, s)
  | m :: r => do x <- stream_write_message c ver s m; stream_messages c ver (snd x) r (acc ++ fst x)
  end.

(* one sequence: the messages, then SequenceCompleted; the stream encoder's own header is the zero header (default size 14,
   versions from the options and the SDK) *)
Definition stream_sequence (c : ecfg) (s : sstate) (ms : list message) : outcome (eparts * sstate) :=
  let ver := select_version c 0 in
  match ms with
  | [] => Err E_Empty
  | _ =>
    do x <- stream_messages c ver s ms [];
    let st := ss_es (snd x) in
    Ok (mkparts (header_bytes 14 ver profile_Version) (header_bytes 14 ver profile_Version (es_datasize st)) (fst x) (le_bytes 2 (es_crc st)) (es_datasize st),
        if stream_completed_resets then enc_reset c (snd x) else snd x)
  end.

Fixpoint stream_sequences (c : ecfg) (s : sstate) (fs : list (list message)) (acc : list eparts) : outcome (list eparts) :=
  match fs with
  | [] => Ok acc
  | ms :: r => do x <- stream_sequence c s ms; stream_sequences c (snd x) r (acc ++ [fst x])
  end.

(* final content of the destination for a chain written through the stream encoder (a destination that never fails) *)
Definition parts_bytes (p : eparts) : bytes := p_hfinal p ++ concat (p_chunks p) ++ p_crc p.
Definition stream_bytes (c : ecfg) (fs : list (list message)) : outcome bytes :=
  do ps <- stream_sequences c (ss_init c) fs []; Ok (concat (map parts_bytes ps)).
