(* encoder/writebuffer.go + the writing half of encoder.go / stream.go: destinations (plain writer, WriterAt, WriteSeeker,
   both), the bufio layer with the flush-before-seek / flush-before-write-at wrappers, the two strategies (direct update,
   early check), batch and stream encoding, and fault plans for the destination (operation k fails after accepting a bytes).
   What is written is the list of Write calls computed by Model/Encoder.v (encode_parts). *)
From Coq Require Import NArith ZArith List Bool.
Import ListNotations.
From Fit Require Export Model.Encoder.
Open Scope N_scope.

(* ---------------------------------------------------------------- destination *)
Inductive wkind := KPlain | KWriterAt | KSeeker | KBoth.
Definition can_seek (k : wkind) : bool := match k with KSeeker | KBoth => true | _ => false end.
Definition can_writeat (k : wkind) : bool := match k with KWriterAt | KBoth => true | _ => false end.

(* fault plan: the operation with index f_at (counting every Write / Seek / WriteAt the destination receives) fails; a
   failing Write / WriteAt first takes min(f_accept, len - 1) bytes *)
Record fault := mkfault { f_at : N; f_accept : N }.
Record dest := mkdest { d_bytes : bytes; d_cur : N; d_ops : N; d_fault : option fault }.
Definition dest_new (pre : bytes) (f : option fault) : dest := mkdest pre (len pre) 0 f.

Definition put_at (bs : bytes) (at_ : N) (p : bytes) : bytes := take at_ bs ++ p ++ drop (at_ + len p) bs.
Definition fails (d : dest) : option N := match d_fault d with Some f => if f_at f =? d_ops d then Some (f_accept f) else None | None => None end.

(* (bytes taken, failed, destination) *)
Definition u_write (d : dest) (p : bytes) : N * bool * dest :=
  match fails d with
  | Some a => let n := N.min a (len p - 1) in
              (n, true, mkdest (put_at (d_bytes d) (d_cur d) (take n p)) (d_cur d + n) (d_ops d + 1) (d_fault d))
  | None => (len p, false, mkdest (put_at (d_bytes d) (d_cur d) p) (d_cur d + len p) (d_ops d + 1) (d_fault d))
  end.
Definition u_seek (d : dest) (off : Z) : bool * dest :=
  match fails d with
  | Some _ => (true, mkdest (d_bytes d) (d_cur d) (d_ops d + 1) (d_fault d))
  | None => (false, mkdest (d_bytes d) (Z.to_N (Z.of_N (d_cur d) + off)) (d_ops d + 1) (d_fault d))
  end.
Definition u_writeat (d : dest) (p : bytes) (off : N) : bool * dest :=
  match fails d with
  | Some a => let n := N.min a (len p - 1) in (true, mkdest (put_at (d_bytes d) off (take n p)) (d_cur d) (d_ops d + 1) (d_fault d))
  | None => (false, mkdest (put_at (d_bytes d) off p) (d_cur d) (d_ops d + 1) (d_fault d))
  end.

(* ---------------------------------------------------------------- bufio.Writer + the wrappers of writebuffer.go *)
Record wst := mkwst {
  w_kind : wkind;
  w_size : N;           (* write buffer size; 0 = no bufio layer *)
  w_buf : bytes;        (* buffered, not yet handed to the destination *)
  w_err : bool;         (* bufio's sticky error *)
  w_dest : dest;
  w_n : N;              (* e.n *)
  w_hpos : N            (* e.lastFileHeaderPos *)
}.
Definition wst_new (k : wkind) (size : Z) (pre : bytes) (f : option fault) : wst :=
  mkwst k (if (size <=? 0)%Z then 0 else Z.to_N size) [] false (dest_new pre f) 0 0.
Definition set_dest (w : wst) (d : dest) : wst := mkwst (w_kind w) (w_size w) (w_buf w) (w_err w) d (w_n w) (w_hpos w).
Definition set_buf (w : wst) (b : bytes) (e : bool) (d : dest) : wst := mkwst (w_kind w) (w_size w) b e d (w_n w) (w_hpos w).
Definition set_n (w : wst) (n hpos : N) : wst := mkwst (w_kind w) (w_size w) (w_buf w) (w_err w) (w_dest w) n hpos.

(* the capabilities of e.w after newWriteBuffer: a buffered WriteSeeker is only a WriteSeeker, a buffered WriterAt only a WriterAt *)
Definition ew_seeker (w : wst) : bool := can_seek (w_kind w).
Definition ew_writerat (w : wst) : bool := if w_size w =? 0 then can_writeat (w_kind w) else can_writeat (w_kind w) && negb (can_seek (w_kind w)).

(* bufio.Writer.Flush: error? *)
Definition b_flush (w : wst) : bool * wst :=
  if w_err w then (true, w) else
  match w_buf w with
  | [] => (false, w)
  | buf => let '(n, f, d) := u_write (w_dest w) buf in
           if f then (true, set_buf w (drop n buf) true d) else (false, set_buf w [] false d)
  end.
(* bufio.Writer.Write: (bytes accepted, error?) *)
Fixpoint b_write_loop (fuel : nat) (w : wst) (p : bytes) (nn : N) : N * bool * wst :=
  let avail := w_size w - len (w_buf w) in
  if (avail <? len p) && negb (w_err w) then
    match fuel with
    | O => (nn, true, w)
    | S fuel' =>
      match w_buf w with
      | [] => let '(n, f, d) := u_write (w_dest w) p in b_write_loop fuel' (set_buf w [] f d) (drop n p) (nn + n)
      | buf => let w1 := set_buf w (buf ++ take avail p) (w_err w) (w_dest w) in
               let '(_, w2) := b_flush w1 in b_write_loop fuel' w2 (drop avail p) (nn + avail)
      end
    end
  else if w_err w then (nn, true, w)
  else (nn + len p, false, set_buf w (w_buf w ++ p) false (w_dest w)).
Definition b_write (w : wst) (p : bytes) : N * bool * wst := b_write_loop (2 * length p + 3) w p 0.

(* e.w.Write / Flush / Seek / WriteAt *)
Definition ew_write (w : wst) (p : bytes) : N * bool * wst :=
  if w_size w =? 0 then let '(n, f, d) := u_write (w_dest w) p in (n, f, set_dest w d) else b_write w p.
Definition ew_flush (w : wst) : bool * wst := if w_size w =? 0 then (false, w) else b_flush w.
Definition ew_seek (w : wst) (off : Z) : bool * wst :=
  let '(e, w) := ew_flush w in
  if e then (true, w) else let '(e, d) := u_seek (w_dest w) off in (e, set_dest w d).
Definition ew_writeat (w : wst) (p : bytes) (off : N) : bool * wst :=
  let '(e, w) := ew_flush w in
  if e then (true, w) else let '(e, d) := u_writeat (w_dest w) p off in (e, set_dest w d).

(* ---------------------------------------------------------------- encoder-level writes (e.n accounting) *)
(* write p through e.w, e.n += n; error? *)
Definition e_write (w : wst) (p : bytes) : bool * wst :=
  let '(n, f, w) := ew_write w p in (f, set_n w (w_n w + n) (w_hpos w)).
Fixpoint e_writes (w : wst) (ps : list bytes) : bool * wst :=
  match ps with [] => (false, w) | p :: r => let '(f, w) := e_write w p in if f then (true, w) else e_writes w r end.

(* updateFileHeader (called when the header's data size differs from the encoded one) *)
Definition update_header (w : wst) (hfinal : bytes) : bool * wst :=
  if ew_seeker w then
    let size := w_n w - w_hpos w in
    let '(e, w) := ew_seek w (- Z.of_N size) in
    if e then (true, w) else
    let '(n, f, w) := ew_write w hfinal in
    if f then (true, w) else
    ew_seek w (Z.of_N size - Z.of_N n)
  else if ew_writerat w then ew_writeat w hfinal (w_hpos w)
  else (true, w).

(* Encoder.Encode for one FIT whose parts are given; caller_ds = DataSize the caller's header carried.
   true = an error was returned *)
Definition encode_one (w : wst) (p : eparts) (caller_ds : N) : bool * wst :=
  let w := set_n w (w_n w) (w_n w) in                                       (* lastFileHeaderPos = e.n *)
  let direct := ew_seeker w || ew_writerat w in
  let '(f, w) :=
    if direct then
      let '(f, w) := e_writes w (p_hprov p caller_ds :: p_chunks p ++ [p_crc p]) in
      if f then (true, w) else
      if caller_ds =? p_datasize p then (false, w) else update_header w (p_hfinal p)
    else e_writes w (p_hfinal p :: p_chunks p ++ [p_crc p]) in
  if f then (true, w) else ew_flush w.

(* a chain of Encode calls on one encoder; stops at the first error.  Result: (errors? per call, final state) *)
Fixpoint encode_chain (w : wst) (ps : list (eparts * N)) (acc : list bool) : list bool * wst :=
  match ps with
  | [] => (rev acc, w)
  | (p, ds) :: r => let '(f, w) := encode_one w p ds in if f then (rev (true :: acc), w) else encode_chain w r (false :: acc)
  end.

(* StreamEncoder: WriteMessage per chunk group, then SequenceCompleted; the header's data size persists from the previous
   sequence of the same stream encoder.  Returns error? of the sequence (any call) *)
Definition stream_one (w : wst) (p : eparts) (prev_ds : N) : bool * wst :=
  let w := set_n w (w_n w) (w_n w) in
  let '(f, w) := e_writes w (p_hprov p prev_ds :: p_chunks p) in
  if f then (true, w) else
  let '(f, w) := e_write w (p_crc p) in
  if f then (true, w) else
  let '(f, w) := if prev_ds =? p_datasize p then (false, w) else update_header w (p_hfinal p) in
  if f then (true, w) else ew_flush w.
Fixpoint stream_chain (w : wst) (ps : list eparts) (prev_ds : N) (acc : list bool) : list bool * wst :=
  match ps with
  | [] => (rev acc, w)
  | p :: r => let '(f, w) := stream_one w p prev_ds in
              if f then (rev (true :: acc), w) else stream_chain w r (p_datasize p) (false :: acc)
  end.

(* what the destination holds *)
Definition final_bytes (w : wst) : bytes := d_bytes (w_dest w).
