(* C17 -- what Profile.xlsx prescribes, computed from the independent reading (gen/ProfileSpec.v), and the
   consistency predicates over the generated packages.  Executable definitions only, no proofs.

   The interpretation below follows the *documented* rules of the FIT profile plus the generator's deliberate rules,
   each marked RULE n (they are listed in the check's assumptions):
   RULE 1  a row with a type/message name in column A opens a type/message; following rows belong to it.
   RULE 2  a Messages row whose only non-empty cell is column D is a section title and is skipped.
   RULE 3  a Messages row without a field number is a sub-field of the preceding field.
   RULE 4  scale 1 / offset 0 / bits 0 / accumulate false when a list is shorter than the component index.
   RULE 5  a field with more than one component has scale 1 and offset 0 itself (the lists belong to the components).
   RULE 6  accumulate of a field that is the destination of a component is overwritten by that component's accumulate
           flag (factory builder, preproccessMessageField), in sheet order, reading the already updated flags.
   RULE 7  profile type numbers: the values of fit_base_type in sheet order, then bool, then every type of the sheet in order.
   RULE 8  base type of a field type: the sheet's base type column for a sheet type, itself for a base type, enum for bool.
   RULE 9  a message without fields has no factory entry; the factory is indexed by the mesg_num value of the message name.
   RULE 10 names are spell-corrected by the generator (client9/misspell): [name_fixes] lists the corrections that
           apply to the checked-in sheet (known finding spelling_corrected_names).
   RULE 11 typedef: among constants of one type sharing a value, those whose comment contains "deprecated" are dropped. *)
From Coq Require Import NArith ZArith String Ascii List Bool.
Import ListNotations.
From Fit Require Import Model.Profile Model.ProfileRows.
Open Scope N_scope.

(* ------------------------------------------------------------------ strings *)
Definition is_space (c : ascii) : bool :=
  let n := N_of_ascii c in (n =? 32) || (n =? 9) || (n =? 10) || (n =? 13) || (n =? 11) || (n =? 12).

Fixpoint ltrim (s : string) : string :=
  match s with String c r => if is_space c then ltrim r else s | EmptyString => EmptyString end.
Fixpoint rev_string_acc (s acc : string) : string :=
  match s with EmptyString => acc | String c r => rev_string_acc r (String c acc) end.
Definition rev_string (s : string) : string := rev_string_acc s EmptyString.
Definition trim (s : string) : string := rev_string (ltrim (rev_string (ltrim s))).

(* strings.Split(s, ",") for any s (one element for a string without comma) *)
Fixpoint split_acc (sep : ascii) (s : string) (cur : string) : list string :=
  match s with
  | EmptyString => [rev_string cur]
  | String c r => if Ascii.eqb c sep then rev_string cur :: split_acc sep r EmptyString else split_acc sep r (String c cur)
  end.
Definition comma : ascii := ascii_of_N 44.
(* splitStringOrNil: trimmed; empty -> no element *)
Definition split_names (s : string) : list string :=
  let t := trim s in match t with EmptyString => [] | _ => split_acc comma t EmptyString end.

Definition lower_ascii (c : ascii) : ascii :=
  let n := N_of_ascii c in if (65 <=? n) && (n <=? 90) then ascii_of_N (n + 32) else c.
Definition is_alnum (c : ascii) : bool :=
  let n := N_of_ascii c in ((48 <=? n) && (n <=? 57)) || ((65 <=? n) && (n <=? 90)) || ((97 <=? n) && (n <=? 122)).
Fixpoint lower (s : string) : string :=
  match s with EmptyString => EmptyString | String c r => String (lower_ascii c) (lower r) end.
(* identifier comparison modulo case and separators: snake_case sheet names against CamelCase Go constants *)
Fixpoint squash (s : string) : string :=
  match s with
  | EmptyString => EmptyString
  | String c r => if is_alnum c then String (lower_ascii c) (squash r) else squash r
  end.
Fixpoint prefixb (p s : string) : bool :=
  match p, s with
  | EmptyString, _ => true
  | String a p', String b s' => Ascii.eqb a b && prefixb p' s'
  | _, _ => false
  end.
Fixpoint containsb (p s : string) : bool :=
  prefixb p s || match s with EmptyString => false | String _ r => containsb p r end.

Fixpoint parse_dec_acc (s : string) (acc : N) : option N :=
  match s with
  | EmptyString => Some acc
  | String c r => let n := N_of_ascii c in
                  if (48 <=? n) && (n <=? 57) then parse_dec_acc r (acc * 10 + (n - 48)) else None
  end.
Definition parse_dec (s : string) : option N := match s with EmptyString => None | _ => parse_dec_acc s 0 end.

(* ------------------------------------------------------------------ small list helpers *)
Fixpoint assoc {B} (k : string) (l : list (string * B)) : option B :=
  match l with [] => None | (k', v) :: r => if String.eqb k k' then Some v else assoc k r end.
Fixpoint index_of (k : string) (l : list string) (i : N) : option N :=
  match l with [] => None | x :: r => if String.eqb k x then Some i else index_of k r (N.succ i) end.
(* existsb / forallb that stop at the first hit under call-by-value evaluation *)
Fixpoint mem_str (x : string) (l : list string) : bool :=
  match l with [] => false | y :: r => if String.eqb x y then true else mem_str x r end.
Fixpoint nodup_str (l : list string) : bool :=
  match l with [] => true | x :: r => if mem_str x r then false else nodup_str r end.
Fixpoint nodup_N (l : list N) : bool :=
  match l with [] => true | x :: r => negb (existsb (N.eqb x) r) && nodup_N r end.
Fixpoint subset_str (a b : list string) : bool :=
  match a with [] => true | x :: r => if mem_str x b then subset_str r b else false end.
Definition same_set_str (a b : list string) : bool := subset_str a b && subset_str b a.
Fixpoint list_eqb {A B} (eqb : A -> B -> bool) (a : list A) (b : list B) : bool :=
  match a, b with
  | [], [] => true
  | x :: a', y :: b' => eqb x y && list_eqb eqb a' b'
  | _, _ => false
  end.
Fixpoint all_some {A} (l : list (option A)) : option (list A) :=
  match l with
  | [] => Some []
  | Some x :: r => match all_some r with Some r' => Some (x :: r') | None => None end
  | None :: _ => None
  end.
Definition opt_N_eqb (a b : option N) : bool :=
  match a, b with Some x, Some y => x =? y | None, None => true | _, _ => false end.

(* stable insertion sort on an N key *)
Fixpoint insert_by {A} (key : A -> N) (x : A) (l : list A) : list A :=
  match l with
  | [] => [x]
  | y :: r => if key x <? key y then x :: l else y :: insert_by key x r
  end.
Definition sort_by {A} (key : A -> N) (l : list A) : list A := fold_left (fun acc x => insert_by key x acc) l [].

(* ------------------------------------------------------------------ RULE 10: spelling corrections *)
Open Scope string_scope.
Definition name_fixes : list (string * string) :=
  [ ("connect_iq_app_managment", "connect_iq_app_management");   (* Types row 1757, value name *)
    ("degrees_farenheit", "degrees_fahrenheit");                 (* Types row 2119, value name *)
    ("cadence_zone_high_bondary", "cadence_zone_high_boundary")  (* Messages row 197, field name *) ].
Definition fix_name (fixes : list (string * string)) (s : string) : string :=
  match assoc s fixes with Some t => t | None => s end.
Close Scope string_scope.

(* ------------------------------------------------------------------ Types sheet *)
Record ptype := mkptype { pt_row : N; pt_name : string; pt_base : string; pt_vals : list (string * option N * string) }.

(* RULE 1.  Built in reverse, then reversed. *)
Fixpoint group_types (fixes : list (string * string)) (rows : list trow) (cur : option ptype) (done : list ptype) : list ptype :=
  match rows with
  | [] => rev (match cur with Some t => t :: done | None => done end)
  | r :: rest =>
    match t_name r with
    | EmptyString =>
      match cur with
      | Some t => group_types fixes rest
                    (Some (mkptype (pt_row t) (pt_name t) (pt_base t) (pt_vals t ++ [(fix_name fixes (t_vname r), t_value r, t_comment r)]))) done
      | None => group_types fixes rest None done
      end
    | _ => group_types fixes rest (Some (mkptype (t_row r) (fix_name fixes (t_name r)) (t_base r) []))
             (match cur with Some t => t :: done | None => done end)
    end
  end.
Definition types_of (fixes : list (string * string)) (rows : list trow) : list ptype := group_types fixes rows None [].

Fixpoint find_type (ts : list ptype) (name : string) : option ptype :=
  match ts with [] => None | t :: r => if String.eqb (pt_name t) name then Some t else find_type r name end.
Fixpoint find_value (vs : list (string * option N * string)) (name : string) : option N :=
  match vs with [] => None | (n, v, _) :: r => if String.eqb n name then v else find_value r name end.
(* value of [vname] in type [tname]; the last row wins when a name repeats (the generator's map) *)
Definition type_value (ts : list ptype) (tname vname : string) : option N :=
  match find_type ts tname with Some t => find_value (rev (pt_vals t)) vname | None => None end.

Definition fit_base_type_name : string := "fit_base_type"%string.
Definition bool_name : string := "bool"%string.
Definition mesg_num_name : string := "mesg_num"%string.
Definition base_names (ts : list ptype) : list string :=
  match find_type ts fit_base_type_name with Some t => map (fun v => fst (fst v)) (pt_vals t) | None => [] end.
(* RULE 7 *)
Definition ptype_names (ts : list ptype) : list string := base_names ts ++ [bool_name] ++ map pt_name ts.
Definition ptype_index (ts : list ptype) (name : string) : option N := index_of name (ptype_names ts) 0.
Definition base_num (ts : list ptype) (bname : string) : option N := type_value ts fit_base_type_name bname.
(* RULE 8 *)
Definition base_of (ts : list ptype) (tname : string) : option N :=
  match find_type ts tname with
  | Some t => base_num ts (pt_base t)
  | None => if existsb (String.eqb tname) (base_names ts) then base_num ts tname
            else if String.eqb tname bool_name then base_num ts "enum"%string else None
  end.

(* the expected ProfileType table: (number, name, base type number) *)
Fixpoint enumerate_from {A} (i : N) (l : list A) : list (N * A) :=
  match l with [] => [] | x :: r => (i, x) :: enumerate_from (N.succ i) r end.
Definition expected_ptypes (ts : list ptype) : list (N * string * option N) :=
  map (fun p => (fst p, snd p, base_of ts (snd p))) (enumerate_from 0 (ptype_names ts)).

(* ------------------------------------------------------------------ Messages sheet *)
Record sfield := mksfield { sf_row : N; sf_name : string; sf_type : string; sf_comps : list string; sf_scales : list N;
                            sf_offsets : list N; sf_units : string; sf_bits : list N; sf_accums : list bool;
                            sf_refnames : list string; sf_refvals : list string }.
Record field := mkfield { f_row : N; f_num : N; f_name : string; f_type : string; f_array : string; f_comps : list string;
                          f_scales : list N; f_offsets : list N; f_units : string; f_bits : list N; f_accums : list bool;
                          f_subs : list sfield }.
Record mesg := mkmesg { m_row : N; m_name : string; m_fields : list field }.

Definition section_row (r : mrow) : bool := (r_ncells r =? 1) && negb (String.eqb (r_type r) EmptyString).   (* RULE 2 *)

Definition field_of_row (fixes : list (string * string)) (r : mrow) (num : N) : field :=
  mkfield (r_row r) num (fix_name fixes (r_name r)) (r_type r) (r_array r) (split_names (r_comps r)) (r_scales r) (r_offsets r)
          (r_units r) (r_bits r) (r_accums r) [].
Definition sfield_of_row (fixes : list (string * string)) (r : mrow) : sfield :=
  mksfield (r_row r) (fix_name fixes (r_name r)) (r_type r) (split_names (r_comps r)) (r_scales r) (r_offsets r) (r_units r)
           (r_bits r) (r_accums r) (split_names (r_refnames r)) (split_names (r_refvals r)).

Definition add_sub (f : field) (s : sfield) : field :=
  mkfield (f_row f) (f_num f) (f_name f) (f_type f) (f_array f) (f_comps f) (f_scales f) (f_offsets f) (f_units f) (f_bits f)
          (f_accums f) (f_subs f ++ [s]).
(* fields of the current message are kept in reverse order while grouping *)
Definition close_mesg (m : mesg) : mesg := mkmesg (m_row m) (m_name m) (rev (m_fields m)).
Fixpoint group_mesgs (fixes : list (string * string)) (rows : list mrow) (cur : option mesg) (done : list mesg) : list mesg :=
  match rows with
  | [] => rev (match cur with Some m => close_mesg m :: done | None => done end)
  | r :: rest =>
    match r_mesg r with
    | EmptyString =>
      if section_row r then group_mesgs fixes rest cur done else
      match cur with
      | None => group_mesgs fixes rest cur done
      | Some m =>
        match r_num r with
        | Some num => group_mesgs fixes rest (Some (mkmesg (m_row m) (m_name m) (field_of_row fixes r num :: m_fields m))) done
        | None =>                                                                                          (* RULE 3 *)
          match m_fields m with
          | f :: fr => group_mesgs fixes rest (Some (mkmesg (m_row m) (m_name m) (add_sub f (sfield_of_row fixes r) :: fr))) done
          | [] => group_mesgs fixes rest cur done
          end
        end
      end
    | _ => group_mesgs fixes rest (Some (mkmesg (r_row r) (fix_name fixes (r_mesg r)) []))
             (match cur with Some m => close_mesg m :: done | None => done end)
    end
  end.
Definition mesgs_of (fixes : list (string * string)) (rows : list mrow) : list mesg := group_mesgs fixes rows None [].

(* RULE 4 *)
Definition scale_at (l : list N) (i : nat) : N := nth i l one_bits.
Definition neg_zero_bits : N := 9223372036854775808.
Definition offset_at (l : list N) (i : nat) : N := let o := nth i l 0 in if o =? neg_zero_bits then 0 else o.
Definition bits_at (l : list N) (i : nat) : N := nth i l 0.
Definition accum_at (l : list bool) (i : nat) : bool := nth i l false.

Fixpoint field_by_name (fs : list field) (name : string) : option field :=
  match fs with [] => None | f :: r => if String.eqb (f_name f) name then Some f else field_by_name r name end.
(* index of the LAST field with that name, 0 when there is none (Go map lookup of the builder) *)
Fixpoint last_index (fs : list field) (name : string) (i : nat) (found : nat) : nat :=
  match fs with [] => found | f :: r => last_index r name (S i) (if String.eqb (f_name f) name then i else found) end.

Definition set_accums (f : field) (a : list bool) : field :=
  mkfield (f_row f) (f_num f) (f_name f) (f_type f) (f_array f) (f_comps f) (f_scales f) (f_offsets f) (f_units f) (f_bits f) a (f_subs f).
Fixpoint update_nth {A} (i : nat) (g : A -> A) (l : list A) : list A :=
  match l, i with
  | [], _ => []
  | x :: r, O => g x :: r
  | x :: r, S j => x :: update_nth j g r
  end.
(* RULE 6: for field k (as it is now) and each of its components i, destination.accumulate := [accumulate_i of field k] *)
Fixpoint accum_comps (names : list field) (src_accums : list bool) (comps : list string) (i : nat) (fs : list field) : list field :=
  match comps with
  | [] => fs
  | c :: r => accum_comps names src_accums r (S i)
                (update_nth (last_index names c 0 0) (fun d => set_accums d [accum_at src_accums i]) fs)
  end.
Fixpoint accum_pass (k : nat) (n : nat) (fs : list field) : list field :=
  match n with
  | O => fs
  | S n' => match nth_error fs k with
            | Some f => accum_pass (S k) n' (accum_comps fs (f_accums f) (f_comps f) 0 fs)
            | None => fs
            end
  end.
Definition preprocess (m : mesg) : mesg := mkmesg (m_row m) (m_name m) (accum_pass 0 (List.length (m_fields m)) (m_fields m)).

(* components: destination resolved by name inside the same message (255 when the name is unknown, as the generator) *)
Fixpoint comps_of (fs : list field) (comps : list string) (scales offsets bits : list N) (accums : list bool) (i : nat) : list comp :=
  match comps with
  | [] => []
  | c :: r => mkc (match field_by_name fs c with Some d => f_num d | None => 255 end) (accum_at accums i) (bits_at bits i)
                  (scale_at scales i) (offset_at offsets i) :: comps_of fs r scales offsets bits accums (S i)
  end.
Fixpoint comps_resolve (fs : list field) (comps : list string) : bool :=
  match comps with [] => true | c :: r => match field_by_name fs c with Some _ => comps_resolve fs r | None => false end end.

(* sub-field maps: reference field by name in the same message, reference value through the type of that field *)
Fixpoint maps_of (ts : list ptype) (fs : list field) (refnames refvals : list string) (i : nat) : option (list (N * Z)) :=
  match refnames with
  | [] => Some []
  | rn :: r =>
    match field_by_name fs rn, maps_of ts fs r refvals (S i) with
    | Some d, Some rest =>
      match nth_error refvals i with
      | Some vn => match type_value ts (f_type d) vn with Some v => Some ((f_num d, Z.of_N v) :: rest) | None => None end
      | None => None
      end
    | _, _ => None
    end
  end.

Definition expected_sub (ts : list ptype) (fs : list field) (s : sfield) : option subf :=
  match ptype_index ts (sf_type s), maps_of ts fs (sf_refnames s) (sf_refvals s) 0 with
  | Some pt, Some maps =>
    if comps_resolve fs (sf_comps s)
    then Some (mksub pt (scale_at (sf_scales s) 0) (offset_at (sf_offsets s) 0) maps
                     (comps_of fs (sf_comps s) (sf_scales s) (sf_offsets s) (sf_bits s) (sf_accums s) 0))
    else None
  | _, _ => None
  end.

Definition many_comps (f : field) : bool := match f_comps f with _ :: _ :: _ => true | _ => false end.

(* [fs]: the fields of the message after RULE 6 *)
Definition expected_field (ts : list ptype) (fs : list field) (f : field) : option fieldbase :=
  match ptype_index ts (f_type f), base_of ts (f_type f), all_some (map (expected_sub ts fs) (f_subs f)) with
  | Some pt, Some bt, Some subs =>
    if comps_resolve fs (f_comps f)
    then Some (mkf (f_num f) pt bt (negb (String.eqb (f_array f) EmptyString)) (accum_at (f_accums f) 0)
                   (if many_comps f then one_bits else scale_at (f_scales f) 0)                         (* RULE 5 *)
                   (if many_comps f then 0 else offset_at (f_offsets f) 0)
                   (comps_of fs (f_comps f) (f_scales f) (f_offsets f) (f_bits f) (f_accums f) 0) subs)
    else None
  | _, _, _ => None
  end.

(* per message: (sheet row, mesg number, fields sorted by number); RULE 9 *)
Definition expected_mesg (ts : list ptype) (m : mesg) : N * option N * list (N * option fieldbase) :=
  let m' := preprocess m in
  (m_row m, type_value ts mesg_num_name (m_name m),
   sort_by (fun p => match snd p with Some fb => fb_num fb | None => 256 end)
           (map (fun f => (f_row f, expected_field ts (m_fields m') f)) (m_fields m'))).

Definition has_fields (m : mesg) : bool := match m_fields m with [] => false | _ => true end.

Definition expected_rows (ts : list ptype) (ms : list mesg) : list (N * option N * list (N * option fieldbase)) :=
  sort_by (fun e => match snd (fst e) with Some n => n | None => 65536 end) (map (expected_mesg ts) (filter has_fields ms)).

Definition expected_table_of (ts : list ptype) (ms : list mesg) : option mesgtable :=
  all_some (map (fun e => match snd (fst e), all_some (map snd (snd e)) with
                          | Some n, Some fs => Some (n, fs)
                          | _, _ => None
                          end) (expected_rows ts ms)).

(* THE expected factory table of a reading of the spreadsheet *)
Definition expected_table (fixes : list (string * string)) (trows : list trow) (mrows : list mrow) : option mesgtable :=
  expected_table_of (types_of fixes trows) (mesgs_of fixes mrows).

(* names and units: (mesg, field, name, units, [(sub-field name, units)]) *)
Definition nameentry := (N * N * string * string * list (string * string))%type.
Definition expected_names_of (ts : list ptype) (ms : list mesg) : list (N * list nameentry) :=
  sort_by fst
    (map (fun m => let n := match type_value ts mesg_num_name (m_name m) with Some n => n | None => 65536 end in
                   (n, sort_by (fun e : nameentry => snd (fst (fst (fst e))))
                         (map (fun f => (n, f_num f, f_name f, f_units f, map (fun s => (sf_name s, sf_units s)) (f_subs f)))
                              (m_fields m))))
         (filter has_fields ms)).
Definition expected_names (fixes : list (string * string)) (trows : list trow) (mrows : list mrow) : list nameentry :=
  concat (map snd (expected_names_of (types_of fixes trows) (mesgs_of fixes mrows))).

(* every component name of every field resolves, so that RULE 6 never falls back to index 0 *)
Definition accum_rule_total (ms : list mesg) : bool :=
  forallb (fun m => forallb (fun f => comps_resolve (m_fields m) (f_comps f)) (m_fields m)) ms.
Definition mesg_names_unique (ms : list mesg) : bool := nodup_str (map m_name ms).
Definition field_names_unique (ms : list mesg) : bool := forallb (fun m => nodup_str (map f_name (m_fields m))) ms.
Definition type_names_unique (ts : list ptype) : bool := nodup_str (ptype_names ts).

(* ------------------------------------------------------------------ equality tests and first differences *)
Definition comp_eqb (a b : comp) : bool :=
  (c_num a =? c_num b) && Bool.eqb (c_accum a) (c_accum b) && (c_bits a =? c_bits b) && (c_scale a =? c_scale b) && (c_offset a =? c_offset b).
Definition map_eqb (a b : N * Z) : bool := (fst a =? fst b) && Z.eqb (snd a) (snd b).
Definition subf_eqb (a b : subf) : bool :=
  (s_ptype a =? s_ptype b) && (s_scale a =? s_scale b) && (s_offset a =? s_offset b) && list_eqb map_eqb (s_maps a) (s_maps b)
  && list_eqb comp_eqb (s_comps a) (s_comps b).
Definition fieldbase_eqb (a b : fieldbase) : bool :=
  (fb_num a =? fb_num b) && (fb_ptype a =? fb_ptype b) && (fb_base a =? fb_base b) && Bool.eqb (fb_array a) (fb_array b)
  && Bool.eqb (fb_accum a) (fb_accum b) && (fb_scale a =? fb_scale b) && (fb_offset a =? fb_offset b)
  && list_eqb comp_eqb (fb_comps a) (fb_comps b) && list_eqb subf_eqb (fb_subs a) (fb_subs b).

(* a difference between the sheet and the factory: sheet row (0 = no row), message, field, expected, actual *)
Record tdiff := mkdiff { d_row : N; d_mesg : option N; d_field : option N; d_expected : option fieldbase; d_got : option fieldbase }.

Fixpoint first_field_diff (mnum : N) (exp : list (N * option fieldbase)) (got : list fieldbase) : option tdiff :=
  match exp, got with
  | [], [] => None
  | (row, e) :: er, g :: gr =>
    match e with
    | Some fb => if fieldbase_eqb fb g then first_field_diff mnum er gr
                 else Some (mkdiff row (Some mnum) (Some (fb_num fb)) e
                                   (if fb_num fb =? fb_num g then Some g else find_field (g :: gr) (fb_num fb)))
    | None => Some (mkdiff row (Some mnum) None None (Some g))
    end
  | (row, e) :: _, [] => Some (mkdiff row (Some mnum) (match e with Some fb => Some (fb_num fb) | None => None end) e None)
  | [], g :: _ => Some (mkdiff 0 (Some mnum) (Some (fb_num g)) None (Some g))
  end.
Fixpoint first_table_diff (exp : list (N * option N * list (N * option fieldbase))) (got : mesgtable) : option tdiff :=
  match exp, got with
  | [], [] => None
  | (row, mn, fs) :: er, (gn, gfs) :: gr =>
    match mn with
    | Some n => if n =? gn then match first_field_diff n fs gfs with Some d => Some d | None => first_table_diff er gr end
                else if n <? gn then Some (mkdiff row (Some n) None None None)       (* message of the sheet missing in the factory *)
                else Some (mkdiff 0 (Some gn) None None None)                         (* message of the factory not in the sheet *)
    | None => Some (mkdiff row None None None None)                                   (* message name without mesg_num value *)
    end
  | (row, mn, _) :: _, [] => Some (mkdiff row mn None None None)
  | [], (gn, _) :: _ => Some (mkdiff 0 (Some gn) None None None)
  end.
Definition first_diff (fixes : list (string * string)) (trows : list trow) (mrows : list mrow) (got : mesgtable) : option tdiff :=
  first_table_diff (expected_rows (types_of fixes trows) (mesgs_of fixes mrows)) got.

Definition str_pair_eqb (a b : string * string) : bool := String.eqb (fst a) (fst b) && String.eqb (snd a) (snd b).
Definition nameentry_eqb (a b : nameentry) : bool :=
  match a, b with
  | (m, f, n, u, s), (m', f', n', u', s') => (m =? m') && (f =? f') && String.eqb n n' && String.eqb u u' && list_eqb str_pair_eqb s s'
  end.
Fixpoint first_list_diff {A} (eqb : A -> A -> bool) (a b : list A) : option (option A * option A) :=
  match a, b with
  | [], [] => None
  | x :: a', y :: b' => if eqb x y then first_list_diff eqb a' b' else Some (Some x, Some y)
  | x :: _, [] => Some (Some x, None)
  | [], y :: _ => Some (None, Some y)
  end.

(* ------------------------------------------------------------------ (b) references resolve, (c) bit widths fit *)
Definition resolves (fs : list fieldbase) (num : N) : bool := match find_field fs num with Some _ => true | None => false end.
Definition field_refs_ok (fs : list fieldbase) (fb : fieldbase) : bool :=
  forallb (fun c => resolves fs (c_num c)) (fb_comps fb)
  && forallb (fun s => forallb (fun mp => resolves fs (fst mp)) (s_maps s) && forallb (fun c => resolves fs (c_num c)) (s_comps s)) (fb_subs fb).
Definition refs_resolve_b (t : mesgtable) : bool := forallb (fun e => forallb (field_refs_ok (snd e)) (snd e)) t.

Definition sum_bits (cs : list comp) : N := fold_right (fun c acc => c_bits c + acc) 0 cs.
Fixpoint size_of_base (sizes : list (string * N * N)) (b : N) : option N :=
  match sizes with [] => None | (_, n, sz) :: r => if n =? b then Some sz else size_of_base r b end.
(* capacity in bits of the container: 8 * size of the base type for a scalar, 255 bytes (the FIT field size limit) for an array *)
Definition capacity (sizes : list (string * N * N)) (fb : fieldbase) : option N :=
  if fb_array fb then Some 2040 else match size_of_base sizes (fb_base fb) with Some sz => Some (8 * sz) | None => None end.
Definition comps_fit (cap : N) (cs : list comp) : bool := forallb (fun c => c_bits c <=? 32) cs && (sum_bits cs <=? cap).
Definition field_bits_ok (sizes : list (string * N * N)) (fb : fieldbase) : bool :=
  match capacity sizes fb with
  | Some cap => comps_fit cap (fb_comps fb) && forallb (fun s => comps_fit cap (s_comps s)) (fb_subs fb)
  | None => false
  end.
Definition bits_fit_b (sizes : list (string * N * N)) (t : mesgtable) : bool := forallb (fun e => forallb (field_bits_ok sizes) (snd e)) t.

(* the table is a function of (message, field): keys strictly increasing *)
Fixpoint increasing (l : list N) : bool :=
  match l with x :: ((y :: _) as r) => (x <? y) && increasing r | _ => true end.
Definition table_sorted_b (t : mesgtable) : bool :=
  increasing (map fst t) && forallb (fun e => increasing (map fb_num (snd e))) t.

(* ------------------------------------------------------------------ (a) typedef constants *)
Definition const_value (td : typedef) (c : string) : option N := assoc c (td_consts td).
(* the cases of String() and XFromString with their constants resolved to values *)
Definition str_values (td : typedef) : list (option N * string) := map (fun cs => (const_value td (fst cs), snd cs)) (td_str td).
Definition from_values (td : typedef) : list (string * option N) := map (fun sc => (fst sc, const_value td (snd sc))) (td_from td).
Fixpoint to_string_in (cases : list (option N * string)) (v : N) : option string :=
  match cases with
  | [] => None
  | (c, s) :: r => if opt_N_eqb c (Some v) then Some s else to_string_in r v
  end.
(* String() on a value that has a case (None: the default branch, the "XInvalid(n)" form) *)
Definition to_string (td : typedef) (v : N) : option string := to_string_in (str_values td) v.
(* XFromString *)
Definition from_string_in (cases : list (string * option N)) (dflt : option N) (s : string) : option N :=
  match assoc s cases with Some v => v | None => dflt end.
Definition from_string (td : typedef) (s : string) : option N :=
  from_string_in (from_values td) (const_value td (td_from_default td)) s.

Definition roundtrip_in (sv : list (option N * string)) (fv : list (string * option N)) (dflt : option N) (c : option N) : bool :=
  match c with
  | Some v => match to_string_in sv v with Some s => opt_N_eqb (from_string_in fv dflt s) (Some v) | None => false end
  | None => false
  end.
Definition roundtrip_const (td : typedef) (c : string) : bool :=
  roundtrip_in (str_values td) (from_values td) (const_value td (td_from_default td)) (const_value td c).
(* the same for every listed constant, the case tables resolved once *)
Definition roundtrip_all (td : typedef) : bool :=
  let sv := str_values td in let fv := from_values td in let d := const_value td (td_from_default td) in
  forallb (fun c => roundtrip_in sv fv d (const_value td c)) (td_list td).
Definition invalid_const (td : typedef) : option (string * N) := nth_error (td_consts td) (List.length (td_consts td) - 1).
Definition listed_values (td : typedef) : list (option N) := map (const_value td) (td_list td).
Definition typedef_ok (td : typedef) : bool :=
  roundtrip_all td                                                           (* from_string (to_string c) = c *)
  && nodup_str (map snd (td_str td)) && nodup_str (map fst (td_from td))      (* names unique *)
  && nodup_str (td_list td)
  && match all_some (listed_values td) with Some vs => nodup_N vs | None => false end   (* values unique *)
  && same_set_str (td_list td) (map fst (td_str td))                          (* listed = named *)
  && subset_str (map snd (td_from td)) (td_list td)
  && nodup_str (map fst (td_consts td))
  && match invalid_const td with                                              (* default of FromString is the Invalid constant, not listed *)
     | Some (c, _) => String.eqb c (td_from_default td) && negb (existsb (String.eqb c) (td_list td))
     | None => false
     end.
Definition typedefs_ok_b (tds : list typedef) : bool := forallb typedef_ok tds && nodup_str (map td_name tds).
Definition first_bad_typedef (tds : list typedef) : option (string * string * list string) :=
  match filter (fun td => negb (typedef_ok td)) tds with
  | td :: _ => Some (td_file td, td_name td, filter (fun c => negb (roundtrip_const td c)) (td_list td))
  | [] => if nodup_str (map td_name tds) then None else Some (EmptyString, "duplicate type name"%string, [])
  end.

(* typedef against the Types sheet: (string, value) of the String cases in order = the rows of the type (RULE 11) *)
Definition deprecated_word : string := "deprecated"%string.
Definition count_value (vs : list (string * option N * string)) (v : option N) : nat :=
  List.length (filter (fun x => opt_N_eqb (snd (fst x)) v) vs).
Definition kept_values (t : ptype) : list (string * option N) :=
  map fst (filter (fun x => negb (Nat.ltb 1 (count_value (pt_vals t) (snd (fst x))) && containsb deprecated_word (lower (snd x)))) (pt_vals t)).
Definition typedef_values (td : typedef) : list (string * option N) := map (fun cs => (snd cs, const_value td (fst cs))) (td_str td).
Definition sv_eqb (a b : string * option N) : bool := String.eqb (fst a) (fst b) && opt_N_eqb (snd a) (snd b).
Fixpoint find_typedef (tds : list typedef) (sq : string) : option typedef :=
  match tds with [] => None | td :: r => if String.eqb (squash (td_name td)) sq then Some td else find_typedef r sq end.
(* FIT invalid value of a base type (all ones; zero for the z types) *)
Definition invalid_of_base (b : string) : option N :=
  match index_of b ["enum"; "uint8"; "uint16"; "uint32"; "uint8z"; "uint16z"; "uint32z"; "byte"]%string 0 with
  | Some 0 => Some 255 | Some 1 => Some 255 | Some 2 => Some 65535 | Some 3 => Some 4294967295
  | Some 4 => Some 0 | Some 5 => Some 0 | Some 6 => Some 0 | Some 7 => Some 255 | _ => None
  end.
Definition type_matches_typedef (tds : list typedef) (t : ptype) : bool :=
  match find_typedef tds (squash (pt_name t)) with
  | Some td => list_eqb sv_eqb (kept_values t) (typedef_values td)
               && match invalid_const td, invalid_of_base (pt_base t) with Some (_, v), Some w => v =? w | _, _ => false end
  | None => false
  end.
Definition generated_types (ts : list ptype) : list ptype := filter (fun t => negb (String.eqb (pt_name t) fit_base_type_name)) ts.
Definition typedefs_match_sheet_b (ts : list ptype) (tds : list typedef) : bool :=
  forallb (type_matches_typedef tds) (generated_types ts) && Nat.eqb (List.length (generated_types ts)) (List.length tds)
  && nodup_str (map (fun t => squash (pt_name t)) ts).
Definition first_type_mismatch (ts : list ptype) (tds : list typedef)
  : option (N * string * option (option (string * option N) * option (string * option N))) :=
  match filter (fun t => negb (type_matches_typedef tds t)) (generated_types ts) with
  | t :: _ => Some (pt_row t, pt_name t,
                    match find_typedef tds (squash (pt_name t)) with
                    | Some td => first_list_diff sv_eqb (kept_values t) (typedef_values td)
                    | None => None
                    end)
  | [] => None
  end.

(* ------------------------------------------------------------------ (d) mesgnum / fieldnum constants *)
Definition sn_eqb (a b : string * N) : bool := String.eqb (fst a) (fst b) && (snd a =? snd b).
Definition subset_sn (a b : list (string * N)) : bool := forallb (fun x => existsb (sn_eqb x) b) a.
Definition same_consts (expected consts : list (string * N)) : bool :=
  let sq := map (fun c => (squash (fst c), snd c)) consts in
  subset_sn expected sq && subset_sn sq expected && nodup_str (map fst sq) && Nat.eqb (List.length expected) (List.length consts).
Definition missing_consts (expected consts : list (string * N)) : list (string * N) * list (string * N) :=
  let sq := map (fun c => (squash (fst c), snd c)) consts in
  (filter (fun x => negb (existsb (sn_eqb x) sq)) expected, filter (fun x => negb (existsb (sn_eqb x) expected)) sq).

Definition expected_mesgnums (ts : list ptype) : option (list (string * N)) :=
  match find_type ts mesg_num_name with
  | Some t => match all_some (map (fun v => match snd (fst v) with Some n => Some (squash (fst (fst v)), n) | None => None end) (pt_vals t)),
                    invalid_of_base (pt_base t) with
              | Some l, Some inv => Some (l ++ [("invalid"%string, inv)])
              | _, _ => None
              end
  | None => None
  end.
Definition expected_fieldnums (ms : list mesg) : list (string * N) :=
  concat (map (fun m => map (fun f => (squash (m_name m ++ f_name f), f_num f)) (m_fields m)) ms) ++ [("invalid"%string, 255)].

(* constants against the factory as served: every (mesg, field, name) has its two constants *)
Fixpoint const_of_value (consts : list (string * N)) (v : N) : option string :=
  match consts with [] => None | (c, n) :: r => if n =? v then Some c else const_of_value r v end.
Definition nums_cover_factory_b (mesgnums fieldnums : list (string * N)) (names : list nameentry) : bool :=
  let fsq := map (fun c => (squash (fst c), snd c)) fieldnums in
  forallb (fun e : nameentry => match e with
                    | (m, f, n, _, _) => match const_of_value mesgnums m with
                                         | Some mc => existsb (sn_eqb ((squash mc ++ squash n)%string, f)) fsq
                                         | None => false
                                         end
                    end) names.

(* ------------------------------------------------------------------ (e) ProfileType / base types, (f) version *)
Definition pt_eqb (a : N * string * option N) (b : N * string * N) : bool :=
  (fst (fst a) =? fst (fst b)) && String.eqb (snd (fst a)) (snd (fst b)) && opt_N_eqb (snd a) (Some (snd b)).
Definition ptypes_match_b (ts : list ptype) (dump : list (N * string * N)) : bool := list_eqb pt_eqb (expected_ptypes ts) dump.
(* basetype.List() of the implementation = the fit_base_type rows of the sheet (name, number), size = low 5 bits rule not assumed *)
Definition basetypes_match_b (ts : list ptype) (dump : list (string * N * N)) : bool :=
  match find_type ts fit_base_type_name with
  | Some t => list_eqb sv_eqb (map fst (pt_vals t)) (map (fun b => (fst (fst b), Some (snd (fst b)))) dump)
  | None => false
  end.
Definition version_ok_b (major minor : string) (const running : N) : bool :=
  opt_N_eqb (parse_dec (major ++ minor)) (Some const) && (const =? running) && (const <? 65536)
  && match parse_dec major, parse_dec minor with Some _, Some _ => true | _, _ => false end.

(* ------------------------------------------------------------------ diagnostics for a broken obligation *)
Fixpoint first_bad_field (ok : list fieldbase -> fieldbase -> bool) (t : mesgtable) : option (N * fieldbase) :=
  match t with
  | [] => None
  | (m, fs) :: r => match filter (fun fb => negb (ok fs fb)) fs with fb :: _ => Some (m, fb) | [] => first_bad_field ok r end
  end.
Definition first_unresolved (t : mesgtable) : option (N * fieldbase) := first_bad_field field_refs_ok t.
Definition first_bits_misfit (sizes : list (string * N * N)) (t : mesgtable) : option (N * fieldbase) :=
  first_bad_field (fun _ => field_bits_ok sizes) t.
Definition first_ptype_diff (ts : list ptype) (dump : list (N * string * N)) :=
  first_list_diff (fun a b : N * string * option N => (fst (fst a) =? fst (fst b)) && String.eqb (snd (fst a)) (snd (fst b)) && opt_N_eqb (snd a) (snd b))
    (expected_ptypes ts) (map (fun p => (fst (fst p), snd (fst p), Some (snd p))) dump).

(* boolean equality of whole tables (the Inst obligations are stated with these so that a failing one fails fast) *)
Definition mesg_entry_eqb (a b : N * list fieldbase) : bool := (fst a =? fst b) && list_eqb fieldbase_eqb (snd a) (snd b).
Definition opt_table_eqb (a : option mesgtable) (b : mesgtable) : bool :=
  match a with Some t => list_eqb mesg_entry_eqb t b | None => false end.
Definition names_eqb (a b : list nameentry) : bool := list_eqb nameentry_eqb a b.

(* ------------------------------------------------------------------ the translated typedef tables against the running code
   gen/TypedefRun.v: for every generated type, for every element c of ListX(): (value of c, c.String(), XFromString(c.String())) *)
Definition expected_run (td : typedef) : list (option N * option string * option N) :=
  let sv := str_values td in let fv := from_values td in let d := const_value td (td_from_default td) in
  map (fun c => match const_value td c with
                | Some v => let s := to_string_in sv v in
                            (Some v, s, match s with Some s' => from_string_in fv d s' | None => None end)
                | None => (None, None, None)
                end) (td_list td).
Definition run_eqb (a : option N * option string * option N) (b : N * string * N) : bool :=
  opt_N_eqb (fst (fst a)) (Some (fst (fst b)))
  && match snd (fst a) with Some s => String.eqb s (snd (fst b)) | None => false end
  && opt_N_eqb (snd a) (Some (snd b)).
Definition typedef_run_entry_ok (td : typedef) (r : string * list (N * string * N)) : bool :=
  String.eqb (td_name td) (fst r) && list_eqb run_eqb (expected_run td) (snd r).
Definition typedef_run_agrees_b (tds : list typedef) (run : list (string * list (N * string * N))) : bool :=
  list_eqb typedef_run_entry_ok tds run.
Fixpoint first_run_mismatch (tds : list typedef) (run : list (string * list (N * string * N)))
  : option (string * string * option (option (option N * option string * option N) * option (option N * option string * option N))) :=
  match tds, run with
  | [], [] => None
  | td :: tr, r :: rr => if typedef_run_entry_ok td r then first_run_mismatch tr rr
                         else Some (td_name td, fst r,
                                    first_list_diff (fun a b => match a, b with
                                                                | (Some v, Some s, Some w), (Some v', Some s', Some w') => (v =? v') && String.eqb s s' && (w =? w')
                                                                | _, _ => false end)
                                      (expected_run td) (map (fun x => (Some (fst (fst x)), Some (snd (fst x)), Some (snd x))) (snd r)))
  | td :: _, [] => Some (td_name td, EmptyString, None)
  | [], r :: _ => Some (EmptyString, fst r, None)
  end.
