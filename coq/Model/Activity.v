(* C20 -- cmd/fitactivity: concealer, remover, reducer, combiner (+ accumulator, aggregator) as executable Gallina.
   No proofs here (Proofs/ActivityProofs.v).  Message and field numbers, invalid sentinels and the list of profile
   message numbers come from gen/ActivityNums.v (harness dump-activitynums: the implementation's own constants).

   A message is (num, fields in order, developer-field digests); a field is (num, base type, accumulate flag, value).
   Values: the kinds the tools compute with (uint8/16/32, sint32, uint8/uint32 slices); every other value is an opaque
   digest [Oth] (the harness hashes type and content), enough to state "unchanged". *)
From Coq Require Import NArith ZArith List Bool.
Import ListNotations.
From Fit Require Export gen.ActivityNums.
Open Scope N_scope.

Inductive value :=
| U8 (n : N) | U16 (n : N) | U32 (n : N) | S32 (z : Z)
| U8s (l : list N) | U32s (l : list N)
| Oth (digest : N).
Record field := F { fnum : N; fbase : N; facc : bool; fval : value }.
Record mesg := M { mnum : N; mfields : list field; mdev : list N }.

Definition W32 : N := 4294967296.
Definition add32 (a b : N) : N := (a + b) mod W32.
Definition sub32 (a b : N) : N := (a + W32 - b mod W32) mod W32.     (* uint32 a - b *)

(* ---------------------------------------------------------------- proto.Message helpers *)
Fixpoint find_field (k : N) (fs : list field) : option field :=                 (* FieldByNum: first match *)
  match fs with [] => None | f :: r => if fnum f =? k then Some f else find_field k r end.
Definition get_u32 (k : N) (m : mesg) : N :=                                    (* FieldValueByNum(k).Uint32() *)
  match find_field k (mfields m) with Some (F _ _ _ (U32 n)) => n | _ => U32INV end.
Definition get_s32 (k : N) (m : mesg) : Z :=                                    (* FieldValueByNum(k).Int32() *)
  match find_field k (mfields m) with Some (F _ _ _ (S32 z)) => z | _ => S32INV end.
Definition get_u8 (k : N) (m : mesg) : N :=
  match find_field k (mfields m) with Some (F _ _ _ (U8 n)) => n | _ => U8INV end.
Definition get_u16 (k : N) (m : mesg) : N :=
  match find_field k (mfields m) with Some (F _ _ _ (U16 n)) => n | _ => U16INV end.
Fixpoint remove_first (k : N) (fs : list field) : list field :=                 (* RemoveFieldByNum: first match *)
  match fs with [] => [] | f :: r => if fnum f =? k then r else f :: remove_first k r end.
Definition remove_field (k : N) (m : mesg) : mesg := M (mnum m) (remove_first k (mfields m)) (mdev m).
Fixpoint set_first (k : N) (v : value) (fs : list field) : list field :=        (* if f := FieldByNum(k); f != nil { f.Value = v } *)
  match fs with [] => [] | f :: r => if fnum f =? k then F (fnum f) (fbase f) (facc f) v :: r else f :: set_first k v r end.
Definition set_field (k : N) (v : value) (m : mesg) : mesg := M (mnum m) (set_first k v (mfields m)) (mdev m).
Definition has_field (k : N) (m : mesg) : bool := match find_field k (mfields m) with Some _ => true | None => false end.
Definition empty_mesg : mesg := M 0 [] [].                                      (* var rec proto.Message *)

(* ================================================================ generic in-place loop
   for i := range xs { if stop(s) {break}; switch decide(s, xs[i]) { drop: continue; keep y: xs[i] = y;
   if i != valid { xs[i], xs[valid] = xs[valid], xs[i] }; valid++ } };  result append(xs[:valid], xs[i:]...)
   (without break i = len(xs), the result is xs[:valid]).  Used by remover (3 loops), reducer (2 loops + defragment),
   combiner (per-file loop).  ActivityProofs.compact_is_sfm: it equals the obvious stateful filter-map [sfm]. *)
Section Compact.
Context {A St : Type} (d : A).
Variable stop : St -> bool.
Variable decide : St -> A -> option A * St.

Fixpoint set_nth (l : list A) (k : nat) (v : A) : list A :=
  match l, k with
  | [], _ => []
  | _ :: r, O => v :: r
  | y :: r, S k' => y :: set_nth r k' v
  end.
Definition swap (l : list A) (i j : nat) : list A :=
  let xi := nth i l d in let xj := nth j l d in set_nth (set_nth l i xj) j xi.

Record loopst := LS { ls_arr : list A; ls_valid : nat; ls_st : St; ls_halt : option nat }.
Definition step (l : loopst) (i : nat) : loopst :=
  match ls_halt l with
  | Some _ => l
  | None =>
    if stop (ls_st l) then LS (ls_arr l) (ls_valid l) (ls_st l) (Some i)
    else match decide (ls_st l) (nth i (ls_arr l) d) with
         | (None, s') => LS (ls_arr l) (ls_valid l) s' None
         | (Some y, s') =>
             let a1 := set_nth (ls_arr l) i y in
             let a2 := if Nat.eqb i (ls_valid l) then a1 else swap a1 i (ls_valid l) in
             LS a2 (S (ls_valid l)) s' None
         end
  end.
Definition compact_loop (s0 : St) (xs : list A) : loopst := fold_left step (seq 0 (length xs)) (LS xs 0 s0 None).
Definition compact (s0 : St) (xs : list A) : list A * St :=
  let l := compact_loop s0 xs in
  let i := match ls_halt l with Some i => i | None => length xs end in
  (firstn (ls_valid l) (ls_arr l) ++ skipn i (ls_arr l), ls_st l).

(* the specification: a stateful filter-map that stops filtering once [stop] holds *)
Fixpoint sfm (s : St) (xs : list A) : list A * St :=
  match xs with
  | [] => ([], s)
  | x :: r => if stop s then (x :: r, s) else
      match decide s x with
      | (Some y, s') => let (r', s'') := sfm s' r in (y :: r', s'')
      | (None, s') => sfm s' r
      end
  end.
End Compact.

Definition nostop {St : Type} (_ : St) : bool := false.
Definition pure_keep {A : Type} (keep : A -> bool) (_ : unit) (x : A) : option A * unit := (if keep x then Some x else None, tt).
Definition compact_keep (keep : mesg -> bool) (ms : list mesg) : list mesg :=
  fst (compact empty_mesg nostop (pure_keep keep) tt ms).

(* ================================================================ concealer *)
Record placeholder := PH { ph_num : N; ph_start_time : N; ph_ttt : N; ph_slat : N; ph_slong : N; ph_elat : N; ph_elong : N }.
Definition lap_ph := PH LAP LAP_START_TIME LAP_TOTAL_TIMER_TIME LAP_START_LAT LAP_START_LONG LAP_END_LAT LAP_END_LONG.
Definition session_ph := PH SESSION SES_START_TIME SES_TOTAL_TIMER_TIME SES_START_LAT SES_START_LONG SES_END_LAT SES_END_LONG.

Definition is_rec (m : mesg) : bool := mnum m =? RECORD.
Definition strip_rec (m : mesg) : mesg := remove_field REC_LONG (remove_field REC_LAT m).
Definition strip4 (ph : placeholder) (m : mesg) : mesg :=
  remove_field (ph_elong ph) (remove_field (ph_elat ph) (remove_field (ph_slong ph) (remove_field (ph_slat ph) m))).
(* if v == Sint32Invalid { Remove(k) } else if f := FieldByNum(k); f != nil { f.Value = Int32(v) } *)
Definition set_or_remove (k : N) (v : Z) (m : mesg) : mesg :=
  if Z.eqb v S32INV then remove_field k m else set_field k (S32 v) m.

(* concealStartPosition, the loop: index of the first record at or beyond the threshold (-1: none) *)
Fixpoint scan_start (thr : N) (i : nat) (ms : list mesg) : list mesg * Z :=
  match ms with
  | [] => ([], (-1)%Z)
  | m :: r =>
      if is_rec m then
        if get_u32 REC_DIST m <? thr
        then let (r', j) := scan_start thr (S i) r in (strip_rec m :: r', j)
        else (m :: r, Z.of_nat i)
      else let (r', j) := scan_start thr (S i) r in (m :: r', j)
  end.
Definition rec_at (idx : Z) (ms : list mesg) : mesg :=
  if (idx <? 0)%Z then empty_mesg else nth (Z.to_nat idx) ms empty_mesg.

(* updateStartPosition: the code's own "lap ends before the first revealed record" test; uint32 addition of the raw
   total_timer_time (milliseconds) to start_time (seconds), as written *)
Definition lap_before (ph : placeholder) (recTs : N) (m : mesg) : bool :=
  let st := get_u32 (ph_start_time ph) m in let tt := get_u32 (ph_ttt ph) m in
  (st =? U32INV) || (tt =? U32INV) || (add32 st tt <? recTs).
Fixpoint update_start (ph : placeholder) (recTs : N) (recLat recLong : Z) (ms : list mesg) : list mesg :=
  match ms with
  | [] => []
  | m :: r =>
      if mnum m =? ph_num ph then
        if lap_before ph recTs m then strip4 ph m :: update_start ph recTs recLat recLong r       (* continue *)
        else set_or_remove (ph_slong ph) recLong (set_or_remove (ph_slat ph) recLat m) :: r        (* break *)
      else m :: update_start ph recTs recLat recLong r
  end.
Definition update_start_at (ph : placeholder) (idx : Z) (ms : list mesg) : list mesg :=
  let rc := rec_at idx ms in
  update_start ph (get_u32 REC_TIMESTAMP rc) (get_s32 REC_LAT rc) (get_s32 REC_LONG rc) ms.
Definition conceal_start (thr : N) (ms : list mesg) : list mesg * Z :=
  if thr =? 0 then (ms, 0%Z) else
  let (ms1, idx) := scan_start thr 0 ms in
  (update_start_at session_ph idx (update_start_at lap_ph idx ms1), idx).

(* concealEndPosition, the loop from the last message backwards *)
Inductive escan := EScanning (lastRecDist : N) | EDone (after : nat).   (* after: messages behind the found record *)
Fixpoint scan_end (thr : N) (ms : list mesg) : list mesg * escan :=
  match ms with
  | [] => ([], EScanning U32INV)
  | m :: r =>
      let (r', s) := scan_end thr r in
      match s with
      | EDone k => (m :: r', EDone k)
      | EScanning lrd =>
          if is_rec m then
            let dd := get_u32 REC_DIST m in
            let lrd' := if lrd =? U32INV then dd else lrd in
            if sub32 lrd' dd <? thr then (strip_rec m :: r', EScanning lrd') else (m :: r', EDone (length r))
          else (m :: r', EScanning lrd)
      end
  end.
Definition lap_after (ph : placeholder) (recTs : N) (m : mesg) : bool :=
  let st := get_u32 (ph_start_time ph) m in (st =? U32INV) || (recTs <? st).
Fixpoint update_end (ph : placeholder) (overlap : bool) (recTs : N) (recLat recLong : Z) (ms : list mesg) : list mesg * bool :=
  match ms with
  | [] => ([], false)
  | m :: r =>
      let (r', done) := update_end ph overlap recTs recLat recLong r in
      if done then (m :: r', true)
      else if mnum m =? ph_num ph then
        if lap_after ph recTs m then (strip4 ph m :: r', false)
        else let m1 := if overlap then remove_field (ph_slong ph) (remove_field (ph_slat ph) m) else m in
             (set_or_remove (ph_elong ph) recLong (set_or_remove (ph_elat ph) recLat m1) :: r', true)
      else (m :: r', false)
  end.
Definition update_end_at (ph : placeholder) (startIdx idx : Z) (ms : list mesg) : list mesg :=
  let rc := rec_at idx ms in
  fst (update_end ph (idx <? startIdx)%Z (get_u32 REC_TIMESTAMP rc) (get_s32 REC_LAT rc) (get_s32 REC_LONG rc) ms).
Definition end_index (n : nat) (s : escan) : Z :=
  match s with EDone k => (Z.of_nat n - 1 - Z.of_nat k)%Z | EScanning _ => (-1)%Z end.
Definition conceal_end (thr : N) (startIdx : Z) (ms : list mesg) : list mesg :=
  if thr =? 0 then ms else
  let (ms1, s) := scan_end thr ms in
  let idx := end_index (length ms) s in
  update_end_at session_ph startIdx idx (update_end_at lap_ph startIdx idx ms1).

Definition conceal (first last : N) (ms : list mesg) : list mesg :=
  let (ms1, idx) := conceal_start first ms in conceal_end last idx ms1.

(* ================================================================ remover *)
Definition memN (x : N) (l : list N) : bool := existsb (N.eqb x) l.
(* once.Do: ListMesgNum without MfgRangeMin / MfgRangeMax *)
Definition known_nums : list N := filter (fun n => negb (n =? MFG_RANGE_MIN) && negb (n =? MFG_RANGE_MAX)) list_mesg_num.
Definition remove_unknown (ms : list mesg) : list mesg := compact_keep (fun m => memN (mnum m) known_nums) ms.
Definition remove_nums (nums : list N) (ms : list mesg) : list mesg := compact_keep (fun m => negb (memN (mnum m) nums)) ms.
Definition devdata_decide (_ : unit) (m : mesg) : option mesg * unit :=
  if (mnum m =? DEVELOPER_DATA_ID) || (mnum m =? FIELD_DESCRIPTION) then (None, tt)
  else (Some (M (mnum m) (mfields m) []), tt).                                   (* DeveloperFields = nil *)
Definition remove_devdata (ms : list mesg) : list mesg := fst (compact empty_mesg nostop devdata_decide tt ms).
Definition remove (unknown : bool) (nums : list N) (dev : bool) (ms : list mesg) : list mesg :=
  let ms1 := if unknown then remove_unknown ms else ms in
  let ms2 := match nums with [] => ms1 | _ => remove_nums nums ms1 end in      (* len(o.removeNums) != 0 *)
  if dev then remove_devdata ms2 else ms2.

(* ================================================================ reducer *)
(* reduceByDistanceInterval / reduceByTimeInterval: state = (last, firstRecordReached); [key] is the field read *)
Definition interval_decide (key thr : N) (s : N * bool) (m : mesg) : option mesg * (N * bool) :=
  let (last, reached) := s in
  if is_rec m then
    let v := get_u32 key m in
    if negb reached then (Some m, (if v =? U32INV then last else v, true))      (* valid++ ; continue *)
    else if v =? U32INV then (None, s)
    else if sub32 v last <? thr then (None, s)
    else (Some m, (v, true))
  else (Some m, s).
Definition reduce_interval (key thr : N) (ms : list mesg) : list mesg :=
  fst (compact empty_mesg nostop (interval_decide key thr) (0, false) ms).
(* Reduce: interval 0 is rejected (bad argument) *)
Definition reduce_distance (interval : N) (ms : list mesg) : option (list mesg) :=
  if interval =? 0 then None else Some (reduce_interval REC_DIST interval ms).
Definition reduce_time (interval : N) (ms : list mesg) : option (list mesg) :=
  if interval =? 0 then None else Some (reduce_interval REC_TIMESTAMP interval ms).

(* reduceByRDP.  rdp.Simplify (github.com/muktihari/carto) is outside the model: [simplify] maps the message indices of
   the candidate points to the indices it keeps. *)
Fixpoint indices_from (p : mesg -> bool) (i : nat) (ms : list mesg) : list nat :=
  match ms with [] => [] | m :: r => if p m then i :: indices_from p (S i) r else indices_from p (S i) r end.
Definition has_point (m : mesg) : bool :=                                      (* neither coordinate converts to NaN *)
  is_rec m && negb (Z.eqb (get_s32 REC_LAT m) S32INV) && negb (Z.eqb (get_s32 REC_LONG m) S32INV).
Fixpoint find_fragments (ris : list nat) : list nat -> list nat :=
  fix go (pts : list nat) : list nat :=
    match ris, pts with
    | [], _ => []
    | _, [] => ris                                                               (* append(fragments, recordIndexes[i:]...) *)
    | r :: ris', p :: pts' =>
        if Nat.ltb r p then r :: find_fragments ris' pts
        else if Nat.eqb r p then find_fragments ris' pts'
        else go pts'
    end.
(* defragment: state = (i, fragments[cur:]) *)
Definition defrag_stop (s : nat * list nat) : bool := match snd s with [] => true | _ => false end.
Definition defrag_decide (s : nat * list nat) (m : mesg) : option mesg * (nat * list nat) :=
  let (i, frs) := s in
  match frs with
  | f :: r => if Nat.eqb i f then (None, (S i, r)) else (Some m, (S i, frs))
  | [] => (Some m, (S i, frs))
  end.
Definition defragment (ms : list mesg) (fragments : list nat) : list mesg :=
  fst (compact empty_mesg defrag_stop defrag_decide (O, fragments) ms).
Section Rdp.
Variable simplify : list nat -> list nat.
Definition reduce_rdp (ms : list mesg) : option (list mesg) :=
  let recordIndexes := indices_from is_rec 0 ms in
  let points := indices_from has_point 0 ms in
  match points with
  | [] => None                                                                   (* zero valid points *)
  | _ => Some (defragment ms (find_fragments recordIndexes (simplify points)))
  end.
(* Reduce: epsilon 0 is rejected (bad argument) before anything is looked at *)
Definition reduce_rdp_checked (epsilon_is_zero : bool) (ms : list mesg) : option (list mesg) :=
  if epsilon_is_zero then None else reduce_rdp ms.
End Rdp.

(* ================================================================ combiner: accumulator.go *)
Definition as_u8 (v : value) : N := match v with U8 n => n | _ => U8INV end.
Definition as_u16 (v : value) : N := match v with U16 n => n | _ => U16INV end.
Definition as_u32 (v : value) : N := match v with U32 n => n | _ => U32INV end.
Definition as_s32 (v : value) : Z := match v with S32 z => z | _ => S32INV end.
Definition as_u8s (v : value) : list N := match v with U8s l => l | _ => [] end.
Definition as_u32s (v : value) : list N := match v with U32s l => l | _ => [] end.
Definition wrap_s32 (z : Z) : Z := ((z + 2147483648) mod 4294967296 - 2147483648)%Z.
Fixpoint sumslice (w : N) (v1 v2 : list N) : list N :=
  match v1, v2 with
  | [], _ => v2
  | _, [] => v1
  | a :: r1, b :: r2 => (a + b) mod w :: sumslice w r1 r2
  end.
Definition vsum (v1 v2 : value) : value :=                                       (* sum(v1, v2): switch v1.Type() *)
  match v1 with
  | U8 a => U8 ((a + as_u8 v2) mod 256)
  | U16 a => U16 ((a + as_u16 v2) mod 65536)
  | U32 a => U32 (add32 a (as_u32 v2))
  | S32 a => S32 (wrap_s32 (a + as_s32 v2))
  | U8s a => U8s (sumslice 256 a (as_u8s v2))
  | U32s a => U32s (sumslice W32 a (as_u32s v2))
  | Oth _ => v1
  end.
(* Value.Valid(baseType) on the modelled kinds *)
Definition vvalid (bt : N) (v : value) : bool :=
  match v with
  | U8 n => if bt =? BT_UINT8Z then negb (n =? 0)
            else if (bt =? BT_ENUM) || (bt =? BT_BYTE) || (bt =? BT_UINT8) then negb (n =? U8INV) else false
  | U16 n => if bt =? BT_UINT16Z then negb (n =? 0) else negb (n =? U16INV)
  | U32 n => if bt =? BT_UINT32Z then negb (n =? 0) else negb (n =? U32INV)
  | S32 z => negb (Z.eqb z S32INV)
  | U8s l => if bt =? BT_UINT8Z then existsb (fun x => negb (x =? 0)) l else existsb (fun x => negb (x =? U8INV)) l
  | U32s l => if bt =? BT_UINT32Z then existsb (fun x => negb (x =? 0)) l else existsb (fun x => negb (x =? U32INV)) l
  | Oth _ => false
  end.

Record accval := AV { av_mesg : N; av_field : N; av_value : value; av_last : value }.
Definition accumulator := list accval.
Definition av_is (mn fn : N) (v : accval) : bool := (av_mesg v =? mn) && (av_field v =? fn).
Fixpoint acc_collect (mn fn : N) (val : value) (a : accumulator) : accumulator :=
  match a with
  | [] => [AV mn fn val val]
  | v :: r => if av_is mn fn v then AV mn fn val val :: r else v :: acc_collect mn fn val r
  end.
Fixpoint acc_accumulate (mn fn : N) (val : value) (a : accumulator) : accumulator * value :=
  match a with
  | [] => ([AV mn fn val val], val)
  | v :: r => if av_is mn fn v then let l := vsum val (av_value v) in (AV mn fn (av_value v) l :: r, l)
              else let (r', x) := acc_accumulate mn fn val r in (v :: r', x)
  end.
Definition acc_sequence_completed (a : accumulator) : accumulator :=
  map (fun v => AV (av_mesg v) (av_field v) (av_last v) (av_last v)) a.

Definition accumulable (f : field) : bool := facc f && vvalid (fbase f) (fval f).
Fixpoint collect_fields (mn : N) (fs : list field) (a : accumulator) : accumulator :=
  match fs with [] => a | f :: r => collect_fields mn r (if accumulable f then acc_collect mn (fnum f) (fval f) a else a) end.
Fixpoint collect_mesgs (ms : list mesg) (a : accumulator) : accumulator :=
  match ms with [] => a | m :: r => collect_mesgs r (collect_fields (mnum m) (mfields m) a) end.
Fixpoint accumulate_fields (mn : N) (fs : list field) (a : accumulator) : list field * accumulator :=
  match fs with
  | [] => ([], a)
  | f :: r =>
      if accumulable f then
        let (a', v) := acc_accumulate mn (fnum f) (fval f) a in
        let (r', a'') := accumulate_fields mn r a' in (F (fnum f) (fbase f) (facc f) v :: r', a'')
      else let (r', a') := accumulate_fields mn r a in (f :: r', a')
  end.
(* the loop over fits[i].Messages, i >= 1: file_id and file_creator are skipped, everything else is accumulated and appended *)
Fixpoint accumulate_mesgs (ms : list mesg) (a : accumulator) : list mesg * accumulator :=
  match ms with
  | [] => ([], a)
  | m :: r =>
      if (mnum m =? FILE_ID) || (mnum m =? FILE_CREATOR) then accumulate_mesgs r a
      else let (fs, a') := accumulate_fields (mnum m) (mfields m) a in
           let (r', a'') := accumulate_mesgs r a' in (M (mnum m) fs (mdev m) :: r', a'')
  end.

(* ---------------------------------------------------------------- aggregator.go on the session fields the model carries *)
Definition agg_sum (w inv a b : N) : N := if negb (a =? inv) && negb (b =? inv) then (a + b) mod w else if negb (b =? inv) then b else a.
Definition agg_max (inv a b : N) : N := if negb (a =? inv) && negb (b =? inv) then (if a <? b then b else a) else if negb (b =? inv) then b else a.
Definition agg_min (inv a b : N) : N := if negb (a =? inv) && negb (b =? inv) then (if b <? a then b else a) else if negb (b =? inv) then b else a.
Definition agg_avg (inv a b : N) : N := if negb (a =? inv) && negb (b =? inv) then (a + b) / 2 else if negb (b =? inv) then b else a.
Definition agg_fill (inv a b : N) : N := if a =? inv then b else a.

(* mesgdef.Session restricted to: timestamp, start_time, sport, sub_sport, total_elapsed_time, total_timer_time,
   total_distance, total_cycles, avg/max/min heart_rate, num_laps (one field of every aggregation class) *)
Record session := SES { s_timestamp : N; s_start_time : N; s_sport : N; s_sub_sport : N; s_elapsed : N; s_timer : N;
                        s_distance : N; s_cycles : N; s_avg_hr : N; s_max_hr : N; s_min_hr : N; s_num_laps : N }.
Definition new_session (m : mesg) : session :=
  SES (get_u32 SES_TIMESTAMP m) (get_u32 SES_START_TIME m) (get_u8 SES_SPORT m) (get_u8 SES_SUB_SPORT m)
      (get_u32 SES_TOTAL_ELAPSED_TIME m) (get_u32 SES_TOTAL_TIMER_TIME m) (get_u32 SES_TOTAL_DISTANCE m)
      (get_u32 SES_TOTAL_CYCLES m) (get_u8 SES_AVG_HEART_RATE m) (get_u8 SES_MAX_HEART_RATE m)
      (get_u8 SES_MIN_HEART_RATE m) (get_u16 SES_NUM_LAPS m).
Definition aggregate_session (d s : session) : session :=
  SES (agg_fill U32INV (s_timestamp d) (s_timestamp s)) (agg_fill U32INV (s_start_time d) (s_start_time s))
      (agg_fill U8INV (s_sport d) (s_sport s)) (agg_fill U8INV (s_sub_sport d) (s_sub_sport s))
      (agg_sum W32 U32INV (s_elapsed d) (s_elapsed s)) (agg_sum W32 U32INV (s_timer d) (s_timer s))
      (agg_sum W32 U32INV (s_distance d) (s_distance s)) (agg_sum W32 U32INV (s_cycles d) (s_cycles s))
      (agg_avg U8INV (s_avg_hr d) (s_avg_hr s)) (agg_max U8INV (s_max_hr d) (s_max_hr s))
      (agg_min U8INV (s_min_hr d) (s_min_hr s)) (agg_sum 65536 U16INV (s_num_laps d) (s_num_laps s)).
(* Add time gap: endTime := start + elapsed/1000 s; gap := uint32((next.start - endTime) * 1000); both start times valid
   (the generator keeps them valid; time.Time arithmetic with the zero time is outside the model) *)
Definition add_gap (ses next : session) : session :=
  let endt := (Z.of_N (s_start_time ses) + Z.of_N (s_elapsed ses / 1000))%Z in
  let gap := Z.to_N (((Z.of_N (s_start_time next) - endt) * 1000) mod 4294967296)%Z in
  SES (s_timestamp ses) (s_start_time ses) (s_sport ses) (s_sub_sport ses) (add32 (s_elapsed ses) gap) (add32 (s_timer ses) gap)
      (s_distance ses) (s_cycles ses) (s_avg_hr ses) (s_max_hr ses) (s_min_hr ses) (s_num_laps ses).

(* ---------------------------------------------------------------- combiner.go *)
Definition time_created (f : list mesg) : N := match f with m :: _ => get_u32 FILE_ID_TIME_CREATED m | [] => U32INV end.
(* slices.SortStableFunc, modelled as stable insertion sort on the key ([f] precedes the files behind it in the input, so it
   is put in front of equal keys) *)
Fixpoint insert_fit (f : list mesg) (l : list (list mesg)) : list (list mesg) :=
  match l with
  | [] => [f]
  | g :: r => if time_created g <? time_created f then g :: insert_fit f r else f :: g :: r
  end.
Fixpoint sort_fits (l : list (list mesg)) : list (list mesg) :=
  match l with [] => [] | f :: r => insert_fit f (sort_fits r) end.

Record collected := COL { c_sessions : list session; c_splits : list N; c_activities : nat; c_sports : list N }.
Definition is_summary (n : N) : bool := (n =? SESSION) || (n =? SPLIT_SUMMARY) || (n =? ACTIVITY) || (n =? SPORT).
(* the per-file loop: sessions, split summaries (by split type), activities and sports (by sport) are taken out *)
Definition split_decide (c : collected) (m : mesg) : option mesg * collected :=
  if mnum m =? SESSION then (None, COL (c_sessions c ++ [new_session m]) (c_splits c) (c_activities c) (c_sports c))
  else if mnum m =? SPLIT_SUMMARY then
    let t := get_u8 SPLIT_SUMMARY_SPLIT_TYPE m in
    (None, COL (c_sessions c) (if memN t (c_splits c) then c_splits c else c_splits c ++ [t]) (c_activities c) (c_sports c))
  else if mnum m =? ACTIVITY then (None, COL (c_sessions c) (c_splits c) (S (c_activities c)) (c_sports c))
  else if mnum m =? SPORT then
    let t := get_u8 SPORT_SPORT m in
    (None, COL (c_sessions c) (c_splits c) (c_activities c) (if memN t (c_sports c) then c_sports c else c_sports c ++ [t]))
  else (Some m, c).
(* returns per file (remaining messages, its sessions); None when a file has no session *)
Fixpoint split_files (fits : list (list mesg)) (splits : list N) (acts : nat) (sports : list N)
  : option (list (list mesg * list session) * list N * nat * list N) :=
  match fits with
  | [] => Some ([], splits, acts, sports)
  | f :: r =>
      let (ms, c) := compact empty_mesg nostop split_decide (COL [] splits acts sports) f in
      match c_sessions c with
      | [] => None
      | _ => match split_files r (c_splits c) (c_activities c) (c_sports c) with
             | Some (rest, sp, ac, so) => Some ((ms, c_sessions c) :: rest, sp, ac, so)
             | None => None
             end
      end
  end.

Fixpoint last_session (l : list session) (d : session) : session := match l with [] => d | [x] => x | _ :: r => last_session r d end.
Definition set_last_session (l : list session) (x : session) : list session := removelast l ++ [x].
(* the loop i = 1 .. over the remaining files: messages appended with accumulation, sessions merged *)
Fixpoint merge_files (rest : list (list mesg * list session)) (body : list mesg) (a : accumulator) (sessions : list session)
  : list mesg * list session :=
  match rest with
  | [] => (body, sessions)
  | (ms, nexts) :: r =>
      let (ms', a') := accumulate_mesgs ms a in
      let a'' := acc_sequence_completed a' in
      let dflt := SES U32INV U32INV U8INV U8INV U32INV U32INV U32INV U32INV U8INV U8INV U8INV U16INV in
      let ses := last_session sessions dflt in
      let next := hd dflt nexts in
      let sessions' :=
        if negb (s_sport ses =? s_sport next) then sessions ++ [next]
        else set_last_session sessions (aggregate_session (add_gap ses next) next) ++ tl nexts in
      merge_files r (body ++ ms') a'' sessions'
  end.

Fixpoint first_timestamp (ms : list mesg) : N :=
  match ms with [] => U32INV | m :: r => let t := get_u32 TIMESTAMP m in if t =? U32INV then first_timestamp r else t end.
Definition last_timestamp (ms : list mesg) : N := first_timestamp (rev ms).

(* what the model says about the summary tail *)
Record summary := SUM { sm_sports : nat; sm_splits : nat; sm_sessions : list session;
                        sm_act_timestamp : N; sm_act_timer : N; sm_act_num_sessions : N }.
Definition add_session_sports (sessions : list session) (sports : list N) : list N :=
  fold_left (fun sp s => if memN (s_sport s) sp then sp else sp ++ [s_sport s]) sessions sports.

Inductive combined := CombErr | CombOk (body : list mesg) (tail : summary).
Definition combine (fits : list (list mesg)) : combined :=
  let fits1 := filter (fun f => match f with [] => false | _ => true end) fits in
  match split_files (sort_fits fits1) [] O [] with
  | None => CombErr
  | Some ([], _, _, _) => CombErr                     (* fits[0] on an empty list panics; the harness gives >= 1 non-empty file *)
  | Some ((ms0, ses0) :: rest, splits, acts, sports) =>
      let a := collect_mesgs ms0 [] in
      let (body, sessions) := merge_files rest ms0 a ses0 in
      let sports' := add_session_sports sessions sports in
      let firstT := first_timestamp body in
      let lastT := last_timestamp body in
      CombOk body (SUM (length sports') (length splits)
                       (map (fun s => SES lastT (s_start_time s) (s_sport s) (s_sub_sport s) (s_elapsed s) (s_timer s)
                                           (s_distance s) (s_cycles s) (s_avg_hr s) (s_max_hr s) (s_min_hr s) (s_num_laps s)) sessions)
                       lastT ((sub32 lastT firstT * 1000) mod W32) (N.of_nat (length sessions) mod 65536))
  end.

(* ================================================================ findings: classifiers (same predicates in harness/c20.go) *)
(* lap_inside_concealed_zone: some lap/session has valid start_time and total_timer_time and the code's test
   start_time + total_timer_time(raw ms) < T differs from the time-based start_time + total_timer_time/1000 < T, T the
   timestamp of the first revealed record of the start scan *)
Definition first_revealed_ts (first : N) (ms : list mesg) : N :=
  let (ms1, idx) := scan_start first 0 ms in get_u32 REC_TIMESTAMP (rec_at idx ms1).
Definition lap_unit_differs (ph : placeholder) (recTs : N) (m : mesg) : bool :=
  let st := get_u32 (ph_start_time ph) m in let tt := get_u32 (ph_ttt ph) m in
  (mnum m =? ph_num ph) && negb (st =? U32INV) && negb (tt =? U32INV) &&
  negb (Bool.eqb (add32 st tt <? recTs) (st + tt / 1000 <? recTs)).
Definition cls_lap_inside_concealed_zone (first : N) (ms : list mesg) : bool :=
  negb (first =? 0) &&
  let t := first_revealed_ts first ms in
  existsb (fun m => lap_unit_differs lap_ph t m || lap_unit_differs session_ph t m) ms.
(* conceal_end_zone_covers_activity: the backward scan reveals no record (classifier also stated in Proofs as
   cls_end_zone_covers_activity over scan_end) *)
(* reduce_record_without_key: some record lacks a valid value of the reduced quantity *)
Definition cls_reduce_record_without_key (key : N) (ms : list mesg) : bool :=
  existsb (fun m => is_rec m && (get_u32 key m =? U32INV)) ms.
(* combine_first_seen_in_later_file: a valid accumulable (mesg num, field num) occurs in a later file (creation-time order,
   summary messages and later file_id / file_creator aside) and in no earlier one *)
Definition acc_keys (ms : list mesg) : list (N * N) :=
  flat_map (fun m => map (fun f => (mnum m, fnum f)) (filter accumulable (mfields m))) ms.
Definition key_in (k : N * N) (l : list (N * N)) : bool := existsb (fun x => (fst x =? fst k) && (snd x =? snd k)) l.
Fixpoint first_seen_later (seen : list (N * N)) (files : list (list mesg)) : bool :=
  match files with
  | [] => false
  | f :: r =>
      let ks := acc_keys (filter (fun m => negb ((mnum m =? FILE_ID) || (mnum m =? FILE_CREATOR))) f) in
      existsb (fun k => negb (key_in k seen)) ks || first_seen_later (seen ++ ks) r
  end.
Definition cls_first_seen_in_later_file (fits : list (list mesg)) : bool :=
  match map (filter (fun m => negb (is_summary (mnum m)))) (sort_fits (filter (fun f => match f with [] => false | _ => true end) fits)) with
  | [] => false
  | f0 :: rest => first_seen_later (acc_keys f0) rest
  end.
