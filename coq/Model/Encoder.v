(* encoder/encoder.go, encoder/validator.go, encoder/lru.go, proto/validator.go, proto/proto_marshal.go:
   message validation, protocol validation, definition building, the LRU of local message definitions,
   timestamp compression, marshalling, file header and CRC.  [encode_fits] yields the final content of the
   destination for a list of sequences (what every writer strategy must leave there: C09 / Model/Writer.v). *)
From Coq Require Import NArith ZArith List Bool Floats.
Import ListNotations.
From Fit Require Export Model.Decoder gen.DecoderReset.
Open Scope N_scope.

(* encoder-side error classes *)
Definition E_Empty : N := 20.
Definition E_NoFields : N := 21.
Definition E_TypeMismatch : N := 22.
Definition E_InvalidUTF8 : N := 23.
Definition E_Exceed : N := 24.
Definition E_MissingDevId : N := 25.
Definition E_MissingFieldDesc : N := 26.
Definition E_Protocol : N := 27.
Definition E_Marshal : N := 28.
Definition E_Write : N := 29.

Record ecfg := mkecfg { e_big : bool; e_compressed : bool; e_local : N; e_protover : N; e_preserve : bool }.

(* ---------------------------------------------------------------- scaleoffset.DiscardValue *)
(* Go float64 -> intN conversion on amd64: CVTTSD2SQ (int64, 0x8000000000000000 when out of range / NaN), then the low bits *)
Definition f64_to_i64_bits_m (m : conv_mode) (f : float) : N :=
  match f64_to_Z m f with
  | Some z => if ((- 9223372036854775808 <=? z) && (z <? 9223372036854775808))%Z then Z.to_N (z mod 18446744073709551616)%Z else two63
  | None => two63
  end.
(* uint64(f): values >= 2^63 go through f - 2^63 *)
Definition f64_to_u64_bits_m (m : conv_mode) (f : float) : N :=
  match f64_to_Z m f with
  | Some z => if ((0 <=? z) && (z <? 18446744073709551616))%Z then Z.to_N z
              else if ((- 9223372036854775808 <=? z) && (z <? 0))%Z then Z.to_N (z mod 18446744073709551616)%Z else two63
  | None => two63
  end.
Definition discard_elt (m : conv_mode) (base : N) (x : N) (scale offset : float) : option (ntype * N) :=
  let f64_to_i64_bits := f64_to_i64_bits_m m in
  let f64_to_u64_bits := f64_to_u64_bits_m m in
  let dv := so_discard (f64_of_bits x) scale offset in
  match bt_ntype base with
  | Some TU8 => if base =? bt_enum then None else Some (TU8, wrap 8 (f64_to_i64_bits dv))
  | Some TI8 => Some (TI8, wrap 8 (f64_to_i64_bits dv))
  | Some TI16 => Some (TI16, wrap 16 (f64_to_i64_bits dv))
  | Some TU16 => Some (TU16, wrap 16 (f64_to_i64_bits dv))
  | Some TI32 => Some (TI32, wrap 32 (f64_to_i64_bits dv))
  | Some TU32 => Some (TU32, wrap 32 (f64_to_i64_bits dv))
  | Some TI64 => Some (TI64, f64_to_i64_bits dv)
  | Some TU64 => Some (TU64, f64_to_u64_bits dv)
  | _ => None
  end.
(* DiscardValue changes Float64 / SliceFloat64 values only; float32/float64 targets are outside the model (no profile field has them scaled) *)
Definition discard_value (v : value) (base : N) (scale offset : float) : value :=
  match v with
  | VNum TF64 x =>
      match bt_ntype base with
      | Some TF64 => VNum TF64 (if f64_is_nan_bits x then N.lor x 2251799813685248
                                else if is_one scale && is_zero offset then x else f64_bits (so_discard (f64_of_bits x) scale offset))
      | Some TF32 | Some TBool | None => v
      | _ => match discard_elt mode_discard_value base x scale offset with Some (t, y) => VNum t y | None => v end
      end
  | VArr TF64 l =>
      match bt_ntype base with
      | Some TF64 => VArr TF64 (map (fun x => if f64_is_nan_bits x then N.lor x 2251799813685248
                                else if is_one scale && is_zero offset then x else f64_bits (so_discard (f64_of_bits x) scale offset)) l)
      | Some TF32 | Some TBool | None => v
      | Some t => if base =? bt_enum then v else
                  VArr t (map (fun x => match discard_elt (if is_one scale && is_zero offset then mode_discard_slice_unscaled else mode_discard_slice) base x scale offset with Some (_, y) => y | None => 0 end) l)
      end
  | _ => v
  end.

(* ---------------------------------------------------------------- validator *)
Record vstate := mkvs { v_devidx : list N; v_fdescs : list fdesc }.
Definition vs_init := mkvs [] [].

Definition str_integrity (s : bytes) : bool := utf8_valid s.
Definition value_integrity (v : value) (base : N) : outcome unit :=
  if negb (align v base) then Err E_TypeMismatch else
  if negb (match v with VStr s => utf8_valid s | VStrs ss => forallb utf8_valid ss | _ => true end) then Err E_InvalidUTF8 else
  if 255 <? size v then Err E_Exceed else Ok tt.

Definition scaled (fb : fieldbase) : bool := negb (is_one (f64_of_bits (fb_scale fb)) && is_zero (f64_of_bits (fb_offset fb))).
Definition restore_field (f : field) : field :=
  if scaled (f_fb f) then set_value f (discard_value (f_value f) (f_base f) (f64_of_bits (fb_scale (f_fb f))) (f64_of_bits (fb_offset (f_fb f)))) else f.

Fixpoint validate_fields (preserve : bool) (fs : list field) (kept : list field) : outcome (list field) :=
  match fs with
  | [] => Ok kept
  | f :: r =>
    if f_expanded f then validate_fields preserve r kept else
    let f := restore_field f in
    if negb preserve && negb (valid (f_value f) (f_base f)) then validate_fields preserve r kept else
    do _ <- value_integrity (f_value f) (f_base f);
    if len kept =? 255 then Err E_Exceed else validate_fields preserve r (kept ++ [f])
  end.

(* int8 reading of the field description offset *)
Definition i8_to_float (x : N) : float := if 127 <? x then PrimFloat.opp (f64_of_N (256 - x)) else f64_of_N x.

Definition restore_dev (d : devfield) (fd : fdesc) : devfield :=
  if negb (fdx_nmesg fd =? MesgNumInvalid) && negb (fdx_nfield fd =? 255) then
    match factory (fdx_nmesg fd) (fdx_nfield fd) with
    | Some fb => if scaled fb then mkdev (df_num d) (df_idx d) (discard_value (df_value d) (fb_base fb) (f64_of_bits (fb_scale fb)) (f64_of_bits (fb_offset fb))) else d
    | None => d
    end
  else if negb (fdx_scale fd =? 255) && negb (fdx_offset fd =? 127) then
    mkdev (df_num d) (df_idx d) (discard_value (df_value d) (fdx_base fd) (f64_of_N (fdx_scale fd)) (i8_to_float (fdx_offset fd)))
  else d.

Fixpoint validate_devs (preserve : bool) (vs : vstate) (ds : list devfield) (kept : list devfield) : outcome (list devfield) :=
  match ds with
  | [] => Ok kept
  | d :: r =>
    if negb (existsb (N.eqb (df_idx d)) (v_devidx vs)) then Err E_MissingDevId else
    match find_fdesc (v_fdescs vs) (df_idx d) (df_num d) with
    | None => Err E_MissingFieldDesc
    | Some fd =>
      let d := restore_dev d fd in
      if negb preserve && negb (valid (df_value d) (fdx_base fd)) then validate_devs preserve vs r kept else
      do _ <- value_integrity (df_value d) (fdx_base fd);
      if len kept =? 255 then Err E_Exceed else validate_devs preserve vs r (kept ++ [d])
    end
  end.

Definition validate (preserve : bool) (vs : vstate) (m : message) : outcome (message * vstate) :=
  do fs <- validate_fields preserve (m_fields m) [];
  match fs, m_devs m with
  | [], [] => Err E_NoFields
  | _, _ =>
    let vs := if m_num m =? mesgnum_DeveloperDataId then
                mkvs (v_devidx vs ++ [u8_of (field_value_by_num fs fn_DeveloperDataId_DeveloperDataIndex)]) (v_fdescs vs)
              else if m_num m =? mesgnum_FieldDescription then mkvs (v_devidx vs) (v_fdescs vs ++ [new_field_description fs])
              else vs in
    match m_devs m with
    | [] => Ok (mkmsg (m_header m) (m_num m) fs [], vs)
    | ds => do ds' <- validate_devs preserve vs ds [];
            match fs, ds' with
            | [], [] => if validator_rechecks_empty then Err E_NoFields else Ok (mkmsg (m_header m) (m_num m) fs ds', vs)
            | _, _ => Ok (mkmsg (m_header m) (m_num m) fs ds', vs)
            end
    end
  end.

(* proto.Validator.ValidateMessage *)
Definition proto_validate (ver : N) (m : message) : outcome unit :=
  if ver =? proto_V1 then
    match m_devs m with
    | _ :: _ => Err E_Protocol
    | [] => if existsb (fun f => N.land bt_byte BaseTypeNumMask <? N.land (f_base f) BaseTypeNumMask) (m_fields m) then Err E_Protocol else Ok tt
    end
  else Ok tt.

(* ---------------------------------------------------------------- LRU of local message definitions *)
Record lru := mklru { l_items : list bytes; l_bucket : list N }.     (* items: one slot per local number (empty = nil) *)
Definition lru_init (size : N) : lru := mklru (repeat [] (N.to_nat size)) [].
(* bucketIndex: search from the most recent *)
Fixpoint bucket_find (items : list bytes) (bucket : list N) (item : bytes) (i : nat) (found : option nat) : option nat :=
  match bucket with
  | [] => found
  | c :: r => bucket_find items r item (S i) (if list_N_eqb (nth (N.to_nat c) items []) item then Some i else found)
  end.
Fixpoint remove_nth {A} (l : list A) (i : nat) : list A :=
  match l, i with [], _ => [] | _ :: r, O => r | x :: r, S i' => x :: remove_nth r i' end.
Definition lru_put (l : lru) (item : bytes) : N * bool * lru :=
  match bucket_find (l_items l) (l_bucket l) item 0 None with
  | Some bi =>
      let idx := nth bi (l_bucket l) 0 in
      (idx, false, mklru (l_items l) (remove_nth (l_bucket l) bi ++ [idx]))
  | None =>
      if negb (length (l_bucket l) =? length (l_items l))%nat then
        let idx := len (l_bucket l) in
        (idx, true, mklru (replace_nth (l_items l) (N.to_nat idx) item) (l_bucket l ++ [idx]))
      else
        match l_bucket l with
        | [] => (0, true, l)        (* size 0 cannot occur: ResetWithNewSize(localMessageType + 1) *)
        | idx :: r => (idx, true, mklru (replace_nth (l_items l) (N.to_nat idx) item) (r ++ [idx]))
        end
  end.

(* ---------------------------------------------------------------- marshalling *)
Definition marshal_def (d : mdef) : bytes :=
  [md_header d; md_reserved d; md_arch d] ++ enc (negb (md_arch d =? LittleEndian)) 2 (md_num d)
  ++ [wrap 8 (len (md_fields d))] ++ flat_map (fun f => [fd_num f; fd_size f; fd_base f]) (md_fields d)
  ++ (if has (md_header d) DevDataMask
      then [wrap 8 (len (md_devs d))] ++ flat_map (fun f => [dd_num f; dd_size f; dd_idx f]) (md_devs d) else []).

Fixpoint marshal_values (big : bool) (vs : list value) : option bytes :=
  match vs with
  | [] => Some []
  | v :: r => match marshal big v, marshal_values big r with Some a, Some b => Some (a ++ b) | _, _ => None end
  end.
Definition marshal_message (big : bool) (m : message) : option bytes :=
  match marshal_values big (map f_value (m_fields m) ++ map df_value (m_devs m)) with
  | Some b => Some (m_header m :: b) | None => None end.

Definition new_definition (big : bool) (m : message) : mdef :=
  mkmd (match m_devs m with [] => MesgDefinitionMask | _ => N.lor MesgDefinitionMask DevDataMask end) 0 (if big then BigEndian else LittleEndian) (m_num m)
       (map (fun f => mkfd (f_num f) (wrap 8 (size (f_value f))) (f_base f)) (m_fields m))
       (map (fun d => mkdd (df_num d) (wrap 8 (size (df_value d))) (df_idx d)) (m_devs m)).

(* ---------------------------------------------------------------- one message *)
Record estate := mkes { es_lru : lru; es_tsref : N; es_lastts : N; es_datasize : N; es_crc : N }.
(* WithHeaderOption clamps the local message type to 15 (normal header) / 3 (compressed timestamp header) *)
Definition local_types (c : ecfg) : N := N.min (e_local c) (if e_compressed c then 3 else 15).
Definition es_init (c : ecfg) : estate := mkes (lru_init (local_types c + 1)) 0 0 0 0.

Fixpoint remove_first_num (fs : list field) (num : N) : list field :=
  match fs with [] => [] | f :: r => if f_num f =? num then r else f :: remove_first_num r num end.
Definition u32_of (v : value) : N := match v with VNum TU32 x => x | _ => 4294967295 end.

(* compressTimestampIntoHeader: (header, fields) when compressed, new reference, new "last written timestamp".
   When the source tracks the last written timestamp (gen/DecoderReset.v: encoder_tracks_last_timestamp) a message whose
   timestamp field is missing or not a uint32 leaves it unchanged and a timestamp is compressed only within the 32 s
   after it. *)
Definition ts_field_u32 (m : message) : option N :=
  match field_by_num (m_fields m) FieldNumTimestamp with
  | Some f => match f_value f with VNum TU32 x => Some x | _ => None end
  | None => None
  end.
Definition compress_timestamp (tsref lastts : N) (m : message) : option (N * list field) * N * N :=
  if encoder_tracks_last_timestamp then
    match ts_field_u32 m with
    | None => (None, tsref, lastts)
    | Some ts =>
      if ts =? 4294967295 then (None, tsref, ts) else
      if ts <? DateTimeMin then (None, tsref, ts) else
      if CompressedTimeMask <? wrap 32 (ts + 4294967296 - tsref) then (None, ts, ts) else
      if CompressedTimeMask <? wrap 32 (ts + 4294967296 - lastts) then (None, tsref, ts) else
      (Some (N.lor MesgCompressedHeaderMask (N.land ts CompressedTimeMask), remove_first_num (m_fields m) FieldNumTimestamp), tsref, ts)
    end
  else
    let ts := u32_of (field_value_by_num (m_fields m) FieldNumTimestamp) in
    if ts =? 4294967295 then (None, tsref, lastts) else
    if ts <? DateTimeMin then (None, tsref, lastts) else
    if CompressedTimeMask <? wrap 32 (ts + 4294967296 - tsref) then (None, ts, lastts) else
    (Some (N.lor MesgCompressedHeaderMask (N.land ts CompressedTimeMask), remove_first_num (m_fields m) FieldNumTimestamp), tsref, lastts).

(* encodeMessage: the Write calls it issues (the definition if new, then the message) *)
Definition encode_message_chunks (c : ecfg) (st : estate) (m : message) : outcome (list bytes * estate) :=
  let '(cmp, tsref, lastts) := if e_compressed c then compress_timestamp (es_tsref st) (es_lastts st) m else (None, es_tsref st, es_lastts st) in
  let '(hdr, fs, compressed) := match cmp with Some (h, fs) => (h, fs, true) | None => (MesgNormalHeaderMask, m_fields m, false) end in
  let m := mkmsg hdr (m_num m) fs (m_devs m) in
  let d := new_definition (e_big c) m in
  let b := marshal_def d in
  let '(local, isnew, lru') := lru_put (es_lru st) b in
  let b := match b with h :: r => N.lor h local :: r | [] => [] end in
  let m := mkmsg (N.lor hdr (if compressed then wrap 8 (N.shiftl local CompressedBitShift) else local)) (m_num m) fs (m_devs m) in
  let defchunk := if isnew then [b] else [] in
  match marshal_message (e_big c) m with
  | None => Err E_Marshal
  | Some mb =>
      let out := concat defchunk ++ mb in
      Ok (defchunk ++ [mb], mkes lru' tsref lastts (wrap 32 (es_datasize st + len out)) (write (es_crc st) out))
  end.
Definition encode_message (c : ecfg) (st : estate) (m : message) : outcome (bytes * estate) :=
  do x <- encode_message_chunks c st m; Ok (concat (fst x), snd x).

Fixpoint encode_chunks (c : ecfg) (st : estate) (ms : list message) (acc : list bytes) : outcome (list bytes * estate) :=
  match ms with
  | [] => Ok (acc, st)
  | m :: r => do x <- encode_message_chunks c st m; encode_chunks c (snd x) r (acc ++ fst x)
  end.

Fixpoint encode_messages (c : ecfg) (st : estate) (ms : list message) (acc : bytes) : outcome (bytes * estate) :=
  match ms with
  | [] => Ok (acc, st)
  | m :: r => do x <- encode_message c st m; let '(b, st) := x in encode_messages c st r (acc ++ b)
  end.

(* ---------------------------------------------------------------- a whole sequence *)
Fixpoint validate_all (preserve : bool) (vs : vstate) (ms : list message) (acc : list message) : outcome (list message) :=
  match ms with
  | [] => Ok acc
  | m :: r => do x <- validate preserve vs m; let '(m', vs) := x in validate_all preserve vs r (acc ++ [m'])
  end.
Fixpoint proto_validate_all (ver : N) (ms : list message) : outcome unit :=
  match ms with [] => Ok tt | m :: r => do _ <- proto_validate ver m; proto_validate_all ver r end.

Definition select_version (c : ecfg) (hproto : N) : N :=
  if negb (e_protover c =? 0) then e_protover c else if hproto =? 0 then proto_V1 else hproto.

Definition marshal_header (size ver profilever datasize crc : N) : bytes :=
  [size; ver] ++ le_bytes 2 profilever ++ le_bytes 4 datasize ++ DataTypeFIT ++ (if 14 <=? size then le_bytes 2 crc else []).

(* input file: requested header size, protocol version, profile version of the caller's FileHeader, and the messages *)
Record efile := mkefile { ef_hsize : N; ef_proto : N; ef_profile : N; ef_msgs : list message }.
(* the Write calls of one sequence: header as first written (with the data size the caller's header carried), the final header,
   one chunk per Write of the record region, the two CRC bytes *)
Record eparts := mkparts { p_hprov : N -> bytes (* provisional header for a given caller data size *); p_hfinal : bytes; p_chunks : list bytes; p_crc : bytes; p_datasize : N }.

(* result: final bytes of the sequence, the header (size, proto, profile, datasize, crc) and file CRC written back, validated messages *)
Record eresult := mkeres { er_bytes : bytes; er_header : N * N * N * N * N; er_crc : N; er_msgs : list message }.

Definition encode_fit (c : ecfg) (f : efile) : outcome eresult :=
  let ver := select_version c (ef_proto f) in
  match ef_msgs f with
  | [] => Err E_Empty
  | ms =>
    do _ <- proto_validate_all ver ms;
    do vms <- validate_all (e_preserve c) vs_init ms [];
    do x <- encode_messages c (es_init c) vms [];
    let '(records, st) := x in
    let hsize := if ef_hsize f =? 12 then 12 else 14 in
    let pv := if ef_profile f =? 0 then profile_Version else ef_profile f in
    let h12 := marshal_header 12 ver pv (es_datasize st) 0 in
    let h12 := match h12 with _ :: r => hsize :: r | [] => [] end in
    let hcrc := if hsize =? 14 then write 0 h12 else 0 in
    let hb := if hsize =? 14 then h12 ++ le_bytes 2 hcrc else h12 in
    let fcrc := es_crc st in
    Ok (mkeres (hb ++ records ++ le_bytes 2 fcrc) (hsize, ver, pv, es_datasize st, hcrc) fcrc vms)
  end.

Fixpoint encode_fits (c : ecfg) (fs : list efile) (acc : bytes) : outcome bytes :=
  match fs with
  | [] => Ok acc
  | f :: r => do x <- encode_fit c f; encode_fits c r (acc ++ er_bytes x)
  end.

Definition header_bytes (hsize ver pv ds : N) : bytes :=
  let h12 := match marshal_header 12 ver pv ds 0 with _ :: r => hsize :: r | [] => [] end in
  if hsize =? 14 then h12 ++ le_bytes 2 (write 0 h12) else h12.

Definition encode_parts (c : ecfg) (f : efile) : outcome eparts :=
  let ver := select_version c (ef_proto f) in
  match ef_msgs f with
  | [] => Err E_Empty
  | ms =>
    do _ <- proto_validate_all ver ms;
    do vms <- validate_all (e_preserve c) vs_init ms [];
    do x <- encode_chunks c (es_init c) vms [];
    let '(chunks, st) := x in
    let hsize := if ef_hsize f =? 12 then 12 else 14 in
    let pv := if ef_profile f =? 0 then profile_Version else ef_profile f in
    Ok (mkparts (header_bytes hsize ver pv) (header_bytes hsize ver pv (es_datasize st)) chunks (le_bytes 2 (es_crc st)) (es_datasize st))
  end.
