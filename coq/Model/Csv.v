(* C19 -- model of cmd/fitconv/fitcsv at the level of ROWS OF CELLS.

   fit_to_rows : fit_to_csv.go (writeMesgDef, writeMesg, printHeader, copy = padding) + formatter.go
   rows_to_fit : csv_to_fit.go (convert, createMesg, createField, createDeveloperField, revertSubFieldSubtitution,
                 removeExpandedComponents, parseValue, packValues)

   Not modelled (named assumptions, validated by the correspondence run): the text of a CSV line (quoting, encoding/csv),
   the decimal text of a float (strconv.FormatFloat / ParseFloat: Section variables fmtf / parse64 / parse32),
   unicode.IsPrint / unicode.IsDigit beyond ASCII.  Floats are carried as IEEE-754 binary64 bit patterns (N); a float32
   value is carried as the pattern of its widening.  Arithmetic on them (scale/offset, degrees, float -> integer) is
   evaluated with Coq's primitive floats.  No proofs in this file. *)
From Coq Require Import NArith ZArith List Bool String Ascii Floats.
Import ListNotations.
From Fit Require Import Model.Profile gen.Factory gen.FactoryNames gen.CsvLookup gen.CsvNames gen.CsvConvMode.
Open Scope N_scope.
Open Scope list_scope.

(* ------------------------------------------------------------------------------------------------ strings *)
Definition ascii_N (c : ascii) : N := N_of_ascii c.
Definition chr (n : N) : ascii := ascii_of_N n.
Fixpoint sb (l : list N) : string := match l with [] => EmptyString | b :: r => String (chr b) (sb r) end.
Fixpoint bytes_of (s : string) : list N := match s with EmptyString => [] | String c r => ascii_N c :: bytes_of r end.

Fixpoint join (sep : string) (l : list string) : string :=
  match l with [] => EmptyString | [x] => x | x :: r => append x (append sep (join sep r)) end.

Fixpoint contains_char (c : N) (s : string) : bool :=
  match s with EmptyString => false | String a r => N.eqb (ascii_N a) c || contains_char c r end.

(* strings.Split(s, sep) for a one-character separator: always at least one element *)
Fixpoint split_on (c : N) (s : string) : list string :=
  match s with
  | EmptyString => [EmptyString]
  | String a r => if N.eqb (ascii_N a) c then EmptyString :: split_on c r
                  else match split_on c r with x :: t => String a x :: t | [] => [String a EmptyString] end
  end.

(* formatter.go: strings.Map dropping !unicode.IsPrint(r) and the double quote.  ASCII part exact; bytes >= 0x80 are kept
   (assumption: multi-byte runes in scope are printable; the harness runs the others as text-layer remarks). *)
Definition keep_byte (b : N) : bool := (32 <=? b) && negb (b =? 127) && negb (b =? 34).
Fixpoint sanitize (s : string) : string :=
  match s with EmptyString => EmptyString | String a r => if keep_byte (ascii_N a) then String a (sanitize r) else sanitize r end.

(* strings.Map keeping unicode.IsDigit runes (ASCII digits here) *)
Definition is_digit (b : N) : bool := (48 <=? b) && (b <=? 57).
Fixpoint digits_of (s : string) : string :=
  match s with EmptyString => EmptyString | String a r => if is_digit (ascii_N a) then String a (digits_of r) else digits_of r end.

(* ------------------------------------------------------------------------------------------------ decimal codec *)
Definition digit_char (d : N) : ascii := chr (48 + d).
Fixpoint print_fuel (f : nat) (n : N) : string :=
  match f with
  | O => EmptyString
  | S f' => if n <? 10 then String (digit_char n) EmptyString
            else append (print_fuel f' (n / 10)) (String (digit_char (n mod 10)) EmptyString)
  end.
Definition print_N (n : N) : string := print_fuel (S (N.to_nat (N.size n))) n.
Definition print_Z (z : Z) : string :=
  if (z <? 0)%Z then String "-"%char (print_N (Z.abs_N z)) else print_N (Z.to_N z).

Fixpoint parse_digits (s : string) (acc : N) : option N :=
  match s with
  | EmptyString => Some acc
  | String c r => let b := ascii_N c in if is_digit b then parse_digits r (acc * 10 + (b - 48)) else None
  end.
(* strconv.ParseUint(s, 0, bits) on plain decimal text (outside the image of the printer Go also accepts 0x.., 0o.., 0b.., _ ) *)
Definition parse_N (s : string) : option N :=
  match s with EmptyString => None | _ => parse_digits s 0 end.
Definition parse_Z (s : string) : option Z :=
  match s with
  | String "-"%char r => match parse_N r with Some n => Some (- Z.of_N n)%Z | None => None end
  | String "+"%char r => match parse_N r with Some n => Some (Z.of_N n) | None => None end
  | _ => match parse_N s with Some n => Some (Z.of_N n) | None => None end
  end.
Definition parse_uint (bits : N) (s : string) : option Z :=
  match parse_N s with Some n => if n <? 2 ^ bits then Some (Z.of_N n) else None | None => None end.
Definition parse_int (bits : N) (s : string) : option Z :=
  match parse_Z s with
  | Some z => if ((- 2 ^ (Z.of_N bits - 1) <=? z) && (z <? 2 ^ (Z.of_N bits - 1)))%Z then Some z else None
  | None => None
  end.

(* ------------------------------------------------------------------------------------------------ floats as bit patterns *)
Definition prec := 53%Z.
Definition emax := 1024%Z.
Definition nan_bits : N := 0x7FF8000000000001.          (* math.NaN(), what strconv.ParseFloat("NaN") returns *)
Definition all_ones64 : N := 0xFFFFFFFFFFFFFFFF.          (* basetype.Float64Invalid *)

Definition sf_of_bits (b : N) : spec_float :=
  let s := N.testbit b 63 in
  let e := (b / 2 ^ 52) mod 2048 in
  let m := b mod 2 ^ 52 in
  if e =? 2047 then (if m =? 0 then S754_infinity s else S754_nan)
  else if e =? 0 then match m with N0 => S754_zero s | Npos p => S754_finite s p (-1074) end
  else match m + 2 ^ 52 with N0 => S754_zero s | Npos p => S754_finite s p (Z.of_N e - 1075) end.
Definition float_of_bits (b : N) : float := SF2Prim (sf_of_bits b).

Definition bits_of_sf (x : spec_float) : N :=
  let sb := fun (s : bool) => if s then 2 ^ 63 else 0 in
  match x with
  | S754_zero s => sb s
  | S754_infinity s => sb s + 2047 * 2 ^ 52
  | S754_nan => nan_bits
  | S754_finite s m e =>
      (* normalised by Prim2SF: either 53 significant bits, or e = -1074 (subnormal) *)
      let mn := Npos m in
      if mn <? 2 ^ 52 then sb s + mn
      else sb s + Z.to_N (e + 1075) * 2 ^ 52 + (mn - 2 ^ 52)
  end.
Definition bits_of_float (f : float) : N := bits_of_sf (Prim2SF f).
Definition is_nan_bits (b : N) : bool := ((b / 2 ^ 52) mod 2048 =? 2047) && negb (b mod 2 ^ 52 =? 0).
Definition is_inf_bits (b : N) : bool := ((b / 2 ^ 52) mod 2048 =? 2047) && (b mod 2 ^ 52 =? 0).

(* float64(x) for an integer x: round to nearest even *)
Definition float_of_Z (z : Z) : float := SF2Prim (binary_normalize prec emax z 0 false).

(* Go float -> integer conversion on amd64 (CVTTSD2SQ): truncation toward zero; NaN / out of int64 range give the
   "integer indefinite" value -2^63; the narrower integer types keep the low bits.  In range this is the language semantics;
   out of range Go leaves it implementation-defined (the theorems exclude it by hypothesis). *)
Definition trunc_Z (f : float) : Z :=
  match Prim2SF f with
  | S754_finite s m e =>
      let mag := if (0 <=? e)%Z then (Zpos m * 2 ^ e)%Z else (Zpos m / 2 ^ (- e))%Z in
      if (mag <? 2 ^ 63)%Z then (if s then (- mag)%Z else mag) else (- 2 ^ 63)%Z
  | S754_zero _ => 0%Z
  | _ => (- 2 ^ 63)%Z
  end.
(* math.Round: half away from zero (used only if gen/CsvConvMode says the source rounds) *)
Definition round_Z (f : float) : Z :=
  match Prim2SF f with
  | S754_finite s m e =>
      let mag := if (0 <=? e)%Z then (Zpos m * 2 ^ e)%Z else ((Zpos m * 2 + 2 ^ (- e)) / 2 ^ (- e + 1))%Z in
      if (mag <? 2 ^ 63)%Z then (if s then (- mag)%Z else mag) else (- 2 ^ 63)%Z
  | S754_zero _ => 0%Z
  | _ => (- 2 ^ 63)%Z
  end.
Definition to_int_Z (f : float) : Z := match parse_conv_mode with ConvTruncate => trunc_Z f | ConvRound => round_Z f end.

Definition wrap_u (bits : N) (z : Z) : Z := (z mod 2 ^ Z.of_N bits)%Z.
Definition wrap_s (bits : N) (z : Z) : Z :=
  let m := (z mod 2 ^ Z.of_N bits)%Z in if (m <? 2 ^ (Z.of_N bits - 1))%Z then m else (m - 2 ^ Z.of_N bits)%Z.

(* float32(x): round a binary64 value to binary32 (nearest even), result carried as binary64 *)
Definition to32 (b : N) : N :=
  match sf_of_bits b with
  | S754_finite s m e => bits_of_float (SF2Prim (binary_round 24 128 s m e))
  | S754_nan => 0x7FF8000000000000   (* float64(float32(NaN)): the payload bit 0 is shifted out *)
  | _ => b
  end.

(* scaleoffset.Apply / Discard *)
Definition is_unit_scale (s o : N) : bool := (s =? one_bits) && ((o =? 0) || (o =? 2 ^ 63)).
Definition apply_f (x : float) (s o : N) : float := (x / float_of_bits s - float_of_bits o)%float.
Definition discard_f (v : float) (s o : N) : float :=
  if is_unit_scale s o then v else ((v + float_of_bits o) * float_of_bits s)%float.

(* semicircles *)
Definition conv_factor : float := (180 / 2147483648)%float.
Definition to_degrees_bits (z : Z) : N :=
  if (z =? 0x7FFFFFFF)%Z then all_ones64 else bits_of_float (float_of_Z z * conv_factor)%float.
Definition to_semicircles (b : N) : Z :=
  if (b =? all_ones64) || is_nan_bits b || is_inf_bits b then 0x7FFFFFFF%Z
  else wrap_s 32 (trunc_Z (float_of_bits b / conv_factor)%float).

(* ------------------------------------------------------------------------------------------------ values, messages *)
Inductive vkind := KBool | KInt8 | KUint8 | KInt16 | KUint16 | KInt32 | KUint32 | KInt64 | KUint64 | KFloat32 | KFloat64 | KString.
Inductive scalar := SZ (z : Z) | SF (bits : N) | SS (s : string).
Inductive value := VInvalid | VOne (k : vkind) (x : scalar) | VMany (k : vkind) (xs : list scalar).
Record field := mkfield { f_num : N; f_base : N; f_val : value }.
Record devfield := mkdev { d_num : N; d_idx : N; d_val : value }.
Record mesg := mkmesg { m_local : N; m_num : N; m_fields : list field; m_devs : list devfield }.
Inductive event :=
| EDef (local num : N) (fdefs : list (N * N * N)) (ddefs : list (N * N * N))   (* (num, size, base type) / (num, size, developer data index) *)
| EMesg (m : mesg).
Record opts := mkopts { o_raw : bool; o_verbose : bool; o_degrees : bool; o_trim : bool }.

Definition vkind_eqb (a b : vkind) : bool :=
  match a, b with
  | KBool, KBool | KInt8, KInt8 | KUint8, KUint8 | KInt16, KInt16 | KUint16, KUint16 | KInt32, KInt32 | KUint32, KUint32
  | KInt64, KInt64 | KUint64, KUint64 | KFloat32, KFloat32 | KFloat64, KFloat64 | KString, KString => true
  | _, _ => false
  end.
Definition scalar_eqb (a b : scalar) : bool :=
  match a, b with SZ x, SZ y => Z.eqb x y | SF x, SF y => N.eqb x y | SS x, SS y => String.eqb x y | _, _ => false end.
Fixpoint scalars_eqb (a b : list scalar) : bool :=
  match a, b with [], [] => true | x :: a', y :: b' => scalar_eqb x y && scalars_eqb a' b' | _, _ => false end.
Definition value_eqb (a b : value) : bool :=
  match a, b with
  | VInvalid, VInvalid => true
  | VOne k x, VOne k' y => vkind_eqb k k' && scalar_eqb x y
  | VMany k x, VMany k' y => vkind_eqb k k' && scalars_eqb x y
  | _, _ => false
  end.

(* ------------------------------------------------------------------------------------------------ profile access *)
Fixpoint find_names (l : list (N * N * string * string * list (string * string))) (m f : N) : option (string * string * list (string * string)) :=
  match l with
  | [] => None
  | (m', f', n, u, subs) :: r => if (m' =? m) && (f' =? f) then Some (n, u, subs) else find_names r m f
  end.
Definition names_of (m f : N) := find_names FactoryNames.names m f.

Record finfo := mkfinfo { fi_known : bool; fi_name : string; fi_units : string; fi_ptype : N; fi_base : N; fi_array : bool;
                          fi_scale : N; fi_offset : N; fi_comps : list comp; fi_subs : list (subf * string * string) }.
(* factory.CreateField: the profile entry, or createUnknownField (name "unknown", base type 0, scale 1, offset 0) *)
Definition unknown_info : finfo := mkfinfo false name_unknown EmptyString 0 0 false one_bits 0 [] [].
Definition field_info (m f : N) : finfo :=
  match factory m f, names_of m f with
  | Some fb, Some (n, u, subnames) =>
      mkfinfo true n u (fb_ptype fb) (fb_base fb) (fb_array fb) (fb_scale fb) (fb_offset fb) (fb_comps fb)
              (map (fun p => (fst p, fst (snd p), snd (snd p))) (combine (fb_subs fb) subnames))
  | _, _ => unknown_info
  end.

Fixpoint assoc_N {A} (l : list (N * A)) (k : N) : option A :=
  match l with [] => None | (k', v) :: r => if k' =? k then Some v else assoc_N r k end.
Fixpoint assoc_s {A} (l : list (string * A)) (k : string) : option A :=
  match l with [] => None | (k', v) :: r => if String.eqb k' k then Some v else assoc_s r k end.

(* typedef.MesgNum.String *)
Definition mesg_name (v : bool) (num : N) : string :=
  match (if mfg_range_is_unknown && (0xFF00 <=? num) then None else assoc_N mesg_names num) with
  | Some s => s
  | None => if v then append name_unknown (append "(" (append (print_N num) ")")) else name_unknown
  end.
Definition unknown_n (n : N) : string := append name_unknown (append "(" (append (print_N n) ")")).

Definition base_name (b : N) : string :=
  match find (fun t => match t with (n, _, _, _, _) => n =? b end) base_types with
  | Some (_, s, _, _, _) => s
  | None => append "invalid(" (append (print_N b) ")")
  end.
Definition base_size (b : N) : N :=
  match find (fun t => match t with (n, _, _, _, _) => n =? b end) base_types with Some (_, _, sz, _, _) => sz | None => 0 end.
Definition base_from_string (s : string) : N :=
  match find (fun t => match t with (_, n, _, _, _) => String.eqb n s end) base_types with
  | Some (_, _, _, b, _) => b
  | None => base_type_from_unknown_string
  end.
Definition ptype_of_base (b : N) : N :=
  match find (fun t => match t with (n, _, _, _, _) => n =? b end) base_types with Some (_, _, _, _, p) => p | None => 255 end.

(* ------------------------------------------------------------------------------------------------ field descriptions *)
Record fdesc := mkfdesc { fd_idx : N; fd_num : N; fd_base : N; fd_name : list string; fd_scale : N; fd_offset : Z; fd_units : list string }.

Definition fval (m : mesg) (n : N) : value :=        (* vals[n] of mesgdef.NewFieldDescription: the last field with that number *)
  fold_left (fun acc f => if f_num f =? n then f_val f else acc) (m_fields m) VInvalid.
Definition as_uint8 (v : value) : N := match v with VOne KUint8 (SZ z) => Z.to_N z | _ => 255 end.
Definition as_int8 (v : value) : Z := match v with VOne KInt8 (SZ z) => z | _ => 127%Z end.
Definition as_strings (v : value) : list string :=
  match v with VMany KString xs => map (fun x => match x with SS s => s | _ => EmptyString end) xs | _ => [] end.
(* the converter formats (and thereby sanitizes in place) the strings of the message it builds the description from *)
Definition new_fdesc (san : bool) (m : mesg) : fdesc :=
  let ss := fun v => if san then map sanitize (as_strings v) else as_strings v in
  mkfdesc (as_uint8 (fval m 0)) (as_uint8 (fval m 1)) (as_uint8 (fval m 2)) (ss (fval m 3)) (as_uint8 (fval m 6)) (as_int8 (fval m 7)) (ss (fval m 8)).
Definition find_fdesc (ds : list fdesc) (idx num : N) : option fdesc := find (fun d => (fd_idx d =? idx) && (fd_num d =? num)) ds.
Definition sep_w : string := String (chr sep_write) EmptyString.

(* ------------------------------------------------------------------------------------------------ FIT -> rows *)
Section WithFloatText.
(* strconv, trusted: text of a float cell.  fk: false = the float64 rule, true = the float32 rule of formatter.go *)
Variable fmtf : bool -> N -> string.
Variable parse64 : string -> option N.      (* strconv.ParseFloat(s, 64) *)
Variable parse32 : string -> option N.      (* float64(float32(strconv.ParseFloat(s, 32))) *)

Definition is_int_kind (k : vkind) : bool :=
  match k with KInt8 | KUint8 | KInt16 | KUint16 | KInt32 | KUint32 | KInt64 | KUint64 => true | _ => false end.

(* proto.convertToInt64: scalar integer kinds only; int64(val.num) *)
Definition as_int64 (v : value) : option Z :=
  match v with VOne k (SZ z) => if is_int_kind k then Some (wrap_s 64 z) else None | _ => None end.

Definition field_by_num (fs : list field) (n : N) : option field := find (fun f => f_num f =? n) fs.

(* proto.Field.SubFieldSubtitution *)
Fixpoint sub_match (fs : list field) (maps : list (N * Z)) : bool :=
  match maps with
  | [] => false
  | (rn, rv) :: r =>
      match field_by_num fs rn with
      | Some rf => match as_int64 (f_val rf) with Some z => if (z =? rv)%Z then true else sub_match fs r | None => sub_match fs r end
      | None => sub_match fs r
      end
  end.
Fixpoint sub_subst (fs : list field) (subs : list (subf * string * string)) : option (subf * string * string) :=
  match subs with [] => None | s :: r => if sub_match fs (s_maps (fst (fst s))) then Some s else sub_subst fs r end.

(* format: one element *)
Definition fmt_scalar (k : vkind) (many : bool) (x : scalar) : string :=
  match x with
  | SZ z => match k with
            | KInt64 => if int64_scalar_via_uint64 && negb many then print_Z (-1) else print_Z z
            | _ => print_Z z
            end
  | SF b => fmtf (match k with KFloat32 => true | _ => false end) b
  | SS s => sanitize s
  end.
Definition format_value (v : value) : string :=
  match v with
  | VInvalid => EmptyString
  | VOne k x => fmt_scalar k false x
  | VMany k xs => join sep_w (map (fmt_scalar k true) xs)
  end.

(* scaleoffset.ApplyValue *)
Definition apply_scalar (s o : N) (x : scalar) : scalar :=
  match x with
  | SZ z => SF (bits_of_float (apply_f (float_of_Z z) s o))
  | SF b => SF (bits_of_float (apply_f (float_of_bits b) s o))
  | SS _ => x
  end.
Definition apply_value (v : value) (s o : N) : value :=
  if is_unit_scale s o then v
  else match v with
       | VOne k x => if is_int_kind k || vkind_eqb k KFloat32 || vkind_eqb k KFloat64 then VOne KFloat64 (apply_scalar s o x) else v
       | VMany k xs => if is_int_kind k || vkind_eqb k KFloat32 || vkind_eqb k KFloat64 then VMany KFloat64 (map (apply_scalar s o) xs) else v
       | VInvalid => v
       end.

(* one field of writeMesg: (name, value text, units) *)
Definition field_cells (o : opts) (mnum : N) (fs : list field) (f : field) : list string :=
  let fi := field_info mnum (f_num f) in
  let name0 := if o_verbose o && negb (fi_known fi) then unknown_n (f_num f) else fi_name fi in
  let units0 := if o_verbose o && negb (fi_known fi) then base_name (f_base f) else fi_units fi in
  let '(name, units1) := match sub_subst fs (fi_subs fi) with Some (_, sn, su) => (sn, su) | None => (name0, units0) end in
  let v1 := if o_raw o then f_val f else apply_value (f_val f) (fi_scale fi) (fi_offset fi) in
  let deg := o_degrees o && String.eqb (fi_units fi) units_semicircles in
  let v2 := if deg then VOne KFloat64 (SF (to_degrees_bits (match v1 with VOne KInt32 (SZ z) => z | _ => 0x7FFFFFFF%Z end))) else v1 in
  let units := if deg then units_degrees_written else units1 in
  [name; format_value v2; units].

Definition dev_cells (o : opts) (ds : list fdesc) (d : devfield) : list string :=
  match find_fdesc ds (d_idx d) (d_num d) with
  | Some fd => [join sep_w (fd_name fd); format_value (d_val d); join sep_w (fd_units fd)]
  | None => [if o_verbose o then unknown_n (d_num d) else name_unknown; format_value (d_val d); EmptyString]
  end.

Definition data_row (o : opts) (ds : list fdesc) (m : mesg) : list string :=
  ["Data"%string; print_N (m_local m); mesg_name (o_verbose o) (m_num m)]
    ++ flat_map (field_cells o (m_num m) (m_fields m)) (m_fields m) ++ flat_map (dev_cells o ds) (m_devs m).

Definition def_row (o : opts) (ds : list fdesc) (local num : N) (fdefs ddefs : list (N * N * N)) : list string :=
  ["Definition"%string; print_N local; mesg_name (o_verbose o) num]
    ++ flat_map (fun d => match d with (fnum, size, bt) =>
         let fi := field_info num fnum in
         [if o_verbose o && negb (fi_known fi) then unknown_n fnum else fi_name fi; print_N (size / base_size bt); EmptyString] end) fdefs
    ++ flat_map (fun d => match d with (dnum, size, didx) =>
         [match find_fdesc ds didx dnum with Some fd => join sep_w (fd_name fd) | None => if o_verbose o then unknown_n dnum else name_unknown end;
          print_N size; EmptyString] end) ddefs.

Definition field_description_num : N := 206.
Definition file_id_num : N := 0.

(* the state of FITToCSVConv: field descriptions seen so far, rows written (reversed), maxFields *)
Record wstate := mkw { w_descs : list fdesc; w_rows : list (list string); w_max : N }.
Definition row_fields (r : list string) : N := (N.of_nat (List.length r) - 3) / 3.
Definition step_event (o : opts) (st : wstate) (e : event) : wstate :=
  match e with
  | EDef local num fdefs ddefs =>
      let r := def_row o (w_descs st) local num fdefs ddefs in
      mkw (w_descs st) (r :: w_rows st) (N.max (w_max st) (N.of_nat (List.length fdefs + List.length ddefs)))
  | EMesg m =>
      let ds := if m_num m =? field_description_num then w_descs st ++ [new_fdesc true m] else w_descs st in
      let r := data_row o ds m in
      mkw ds (r :: w_rows st) (N.max (w_max st) (N.of_nat (List.length (m_fields m) + List.length (m_devs m))))
  end.
Definition run_events (o : opts) (evs : list event) : wstate := fold_left (step_event o) evs (mkw [] [] 0).

Fixpoint header_cells (k : nat) (i : N) : list string :=
  match k with
  | O => []
  | S k' => [append "Field " (print_N i); append "Value " (print_N i); append "Units " (print_N i)] ++ header_cells k' (i + 1)
  end.
Definition header_row (maxf : N) : list string := ["Type"%string; "Local Number"%string; "Message"%string] ++ header_cells (N.to_nat maxf) 1.
(* FITToCSVConv.copy: fill every line up to 2 + 3*maxFields commas (unless trimming is requested) *)
Definition pad_row (cols : nat) (r : list string) : list string := r ++ repeat EmptyString (cols - List.length r).
Definition fit_to_rows (o : opts) (evs : list event) : list (list string) :=
  let st := run_events o evs in
  let cols := (3 + 3 * N.to_nat (w_max st))%nat in
  header_row (w_max st) :: (if o_trim o then rev (w_rows st) else map (pad_row cols) (rev (w_rows st))).

(* ------------------------------------------------------------------------------------------------ rows -> FIT *)
Definition has_dot (s : string) : bool := contains_char 46 s.

Definition int_result (k : vkind) (z : Z) : value := VOne k (SZ z).
(* parseValue *)
Definition parse_value (str : string) (bt ptype : N) (s o : N) (units : string) : option value :=
  if String.eqb units units_degrees_parsed && (bt =? 133) then
    match parse64 str with Some b => Some (VOne KInt32 (SZ (to_semicircles b))) | None => None end
  else if ptype =? profile_bool then
    match parse_uint 8 str with Some z => Some (VOne KBool (SZ z)) | None => None end
  else
    let scaled := negb (bt =? 7) && has_dot str in
    match (if scaled then match parse64 str with Some b => Some (discard_f (float_of_bits b) s o) | None => None end
           else Some (float_of_bits 0)) with
    | None => None
    | Some sv =>
        let uint := fun (k : vkind) (bits : N) =>
          if scaled then Some (VOne k (SZ (wrap_u bits (to_int_Z sv))))
          else match parse_uint bits str with Some z => Some (VOne k (SZ z)) | None => None end in
        let sint := fun (k : vkind) (bits : N) =>
          if scaled then Some (VOne k (SZ (wrap_s bits (to_int_Z sv))))
          else match parse_int bits str with Some z => Some (VOne k (SZ z)) | None => None end in
        if (bt =? 0) || (bt =? 13) || (bt =? 2) || (bt =? 10) then uint KUint8 8
        else if bt =? 1 then sint KInt8 8
        else if bt =? 131 then sint KInt16 16
        else if (bt =? 132) || (bt =? 139) then uint KUint16 16
        else if bt =? 133 then sint KInt32 32
        else if (bt =? 134) || (bt =? 140) then uint KUint32 32
        else if bt =? 7 then Some (VOne KString (SS str))
        else if bt =? 136 then
          if scaled then Some (VOne KFloat32 (SF (to32 (bits_of_float sv))))
          else match parse32 str with
               | Some b => Some (VOne KFloat32 (SF (if nan_to_invalid && is_nan_bits b then 0xFFFFFFFFE0000000 else b)))
               | None => None end
        else if bt =? 137 then
          if scaled then Some (VOne KFloat64 (SF (bits_of_float sv)))
          else match parse64 str with
               | Some b => Some (VOne KFloat64 (SF (if nan_to_invalid && is_nan_bits b then all_ones64 else b)))
               | None => None end
        else if bt =? 142 then sint KInt64 64
        else if (bt =? 143) || (bt =? 144) then uint KUint64 64
        else Some VInvalid
    end.

(* packValues: a slice of the kind of the first element *)
Definition pack_values (vs : list value) : value :=
  match vs with
  | VOne k _ :: _ => VMany k (map (fun v => match v with VOne _ x => x | _ => SZ 0 end) vs)
  | _ => VInvalid
  end.
Fixpoint parse_all (strs : list string) (bt ptype s o : N) (units : string) : option (list value) :=
  match strs with
  | [] => Some []
  | x :: r => match parse_value x bt ptype s o units, parse_all r bt ptype s o units with
              | Some v, Some vs => Some (v :: vs) | _, _ => None end
  end.
Definition parse_cell (str : string) (array : bool) (bt ptype s o : N) (units : string) : option value :=
  let parts := split_on sep_parse str in
  match parts with
  | [_] => if array then match parse_all parts bt ptype s o units with Some vs => Some (pack_values vs) | None => None end
           else parse_value str bt ptype s o units
  | _ => match parse_all parts bt ptype s o units with Some vs => Some (pack_values vs) | None => None end
  end.

(* createField *)
Definition create_field (mnum fnum : N) (str units : string) (recover : bool) : option field :=
  let fi := field_info mnum fnum in
  let bt := if recover then base_from_string units else fi_base fi in
  let pt := if recover then ptype_of_base bt else fi_ptype fi in
  match parse_cell str (fi_array fi) bt pt (fi_scale fi) (fi_offset fi) units with
  | Some v => Some (mkfield fnum bt v)
  | None => None
  end.

(* createDeveloperField: Some None = no description of that name *)
Definition scale_bits_of_u8 (n : N) : N := bits_of_float (float_of_Z (Z.of_N n)).
Definition create_dev (ds : list fdesc) (name str units : string) : option (option devfield) :=
  match find (fun d => String.eqb (join sep_w (fd_name d)) name) ds with
  | None => Some None
  | Some d =>
      let s := if negb dev_scale_used || (fd_scale d =? 255) then one_bits else scale_bits_of_u8 (fd_scale d) in
      let o := if negb dev_scale_used || (fd_offset d =? 127)%Z then 0 else bits_of_float (float_of_Z (fd_offset d)) in
      match parse_cell str false (fd_base d) (ptype_of_base (fd_base d)) s o units with
      | Some v => Some (Some (mkdev (fd_num d) (fd_idx d) v))
      | None => None
      end
  end.

(* entries of a message being built: a field, a developer field, or the placeholder of a dynamic (sub-field) name *)
Inductive entry := EField (f : field) | EPlace (name value : string).

Definition lookup_field_num (mnum : N) (name : string) : option N :=
  if mnum <? field_num_lookup_len then
    match assoc_N field_num_lookup mnum with Some m => assoc_s m name | None => None end
  else None.

Definition prefix_unknown (s : string) : bool := prefix name_unknown s.

(* the loop of createMesg over the triplets of one record *)
Fixpoint create_entries (ds : list fdesc) (mnum : N) (cells : list string) (acc : list entry) (devs : list devfield)
  : option (list entry * list devfield) :=
  match cells with
  | name :: str :: units :: rest =>
      if String.eqb name EmptyString then create_entries ds mnum rest acc devs
      else
        let known := lookup_field_num mnum name in
        let numrec := match known with
                      | Some n => Some (Some (n, false))
                      | None => if prefix_unknown name then
                                  match digits_of name with
                                  | EmptyString => Some None                     (* unknownField++ ; continue *)
                                  | dg => match parse_uint 8 dg with Some z => Some (Some (Z.to_N z, true)) | None => None end
                                  end
                                else Some (Some (256, false))                    (* 256: not a field name *)
                      end in
        match numrec with
        | None => None
        | Some None => create_entries ds mnum rest acc devs
        | Some (Some (n, recover)) =>
            if n <? 256 then
              match create_field mnum n str units recover with
              | Some f => create_entries ds mnum rest (acc ++ [EField f]) devs
              | None => None
              end
            else
              match create_dev ds name str units with
              | None => None
              | Some (Some d) => match d_val d with
                                 | VInvalid => create_entries ds mnum rest (acc ++ [EPlace name str]) devs
                                 | _ => create_entries ds mnum rest acc (devs ++ [d])
                                 end
              | Some None => create_entries ds mnum rest (acc ++ [EPlace name str]) devs
              end
        end
  | _ => Some (acc, devs)
  end.

Definition entry_val (es : list entry) (n : N) : value :=         (* Message.FieldValueByNum on the message under construction *)
  match find (fun e => match e with EField f => f_num f =? n | EPlace _ _ => n =? 255 end) es with
  | Some (EField f) => f_val f
  | _ => VInvalid
  end.

(* revertSubFieldSubtitution: the profile fields of the message in table order; first sub-field of that name with a matching map *)
Fixpoint map_matches (es : list entry) (maps : list (N * Z)) : bool :=
  match maps with
  | [] => false
  | (rn, rv) :: r => match as_int64 (entry_val es rn) with
                     | Some z => if (z =? rv)%Z then true else map_matches es r
                     | None => map_matches es r
                     end
  end.
Definition mesg_field_nums (mnum : N) : list N := match find_mesg Factory.mesgs mnum with Some fs => map fb_num fs | None => [] end.
Fixpoint revert_search (es : list entry) (mnum : N) (name str : string) (fnums : list N) : option (option field) :=
  match fnums with
  | [] => Some None
  | fnum :: r =>
      let fi := field_info mnum fnum in
      match find (fun s => String.eqb (snd (fst s)) name && map_matches es (s_maps (fst (fst s)))) (fi_subs fi) with
      | Some _ => match parse_value str (fi_base fi) (fi_ptype fi) (fi_scale fi) (fi_offset fi) (fi_units fi) with
                  | Some v => Some (Some (mkfield fnum (fi_base fi) v))
                  | None => None
                  end
      | None => revert_search es mnum name str r
      end
  end.
(* the dynamic references are resolved in order, each seeing the replacements made before it *)
Fixpoint revert_all (fuel : nat) (mnum : N) (pre post : list entry) : option (list entry) :=
  match fuel with
  | O => Some (pre ++ post)
  | S fuel' =>
      match post with
      | [] => Some pre
      | EField f :: r => revert_all fuel' mnum (pre ++ [EField f]) r
      | EPlace name str :: r =>
          match revert_search (pre ++ post) mnum name str (mesg_field_nums mnum) with
          | None => None
          | Some (Some f) => revert_all fuel' mnum (pre ++ [EField f]) r
          | Some None => revert_all fuel' mnum (pre ++ [EPlace name str]) r
          end
      end
  end.
(* the swap-and-truncate loop that drops the remaining placeholders is a stable filter (notes/feasibility/SwapCompaction.v) *)
Definition drop_places (es : list entry) : list field :=
  flat_map (fun e => match e with EField f => [f] | EPlace _ _ => [] end) es.

(* removeExpandedComponents *)
Definition targets_of (mnum : N) (f : field) : list N :=
  let fi := field_info mnum (f_num f) in
  map c_num (fi_comps fi) ++ flat_map (fun s => map c_num (s_comps (fst (fst s)))) (fi_subs fi).
Fixpoint remove_first (n : N) (fs : list field) : list field :=
  match fs with [] => [] | f :: r => if f_num f =? n then r else f :: remove_first n r end.
Definition remove_expanded (mnum : N) (fs : list field) : list field :=
  let present := map f_num fs in
  let cands := nodup N.eq_dec (filter (fun t => existsb (N.eqb t) present) (flat_map (targets_of mnum) fs)) in
  fold_left (fun acc t => remove_first t acc) cands fs.

(* createMesg: Some None = nothing to write *)
Definition create_mesg (ds : list fdesc) (mnum : N) (record : list string) : option mesg :=
  if (List.length record <? 6)%nat then Some (mkmesg 0 mnum [] [])
  else
    match create_entries ds mnum (skipn 3 record) [] [] with
    | None => None
    | Some (es, devs) =>
        match revert_all (List.length es) mnum [] es with
        | None => None
        | Some es' => Some (mkmesg 0 mnum (remove_expanded mnum (drop_places es')) devs)
        end
    end.

(* convert: state = (descriptions, finished sequences, current sequence, seq counter) *)
Record rstate := mkr { r_descs : list fdesc; r_done : list (list mesg); r_cur : list mesg; r_seq : N }.
Definition resolve_mesg_num (name : string) : option (option N) :=      (* None = error, Some None = skipped *)
  match assoc_s mesg_num_lookup name with
  | Some n => Some (Some n)
  | None => match digits_of name with
            | EmptyString => Some None
            | dg => match parse_uint 16 dg with Some z => Some (Some (Z.to_N z)) | None => None end
            end
  end.
Definition step_row (st : rstate) (record : list string) : option rstate :=
  match record with
  | header :: _ :: name :: _ =>
      if String.eqb header "Data" then
        match resolve_mesg_num name with
        | None => None
        | Some None => Some st
        | Some (Some mnum) =>
            let st1 := if mnum =? file_id_num
                       then (if r_seq st =? 0 then mkr (r_descs st) (r_done st) (r_cur st) 1
                             else mkr (r_descs st) (r_done st ++ [r_cur st]) [] (r_seq st + 1))
                       else st in
            match create_mesg (r_descs st1) mnum record with
            | None => None
            | Some m =>
                match m_fields m, m_devs m with
                | [], [] => Some st1
                | _, _ =>
                    let ds := if mnum =? field_description_num then r_descs st1 ++ [new_fdesc false m] else r_descs st1 in
                    Some (mkr ds (r_done st1) (r_cur st1 ++ [m]) (r_seq st1))
                end
            end
        end
      else Some st
  | _ => Some st
  end.
Fixpoint run_rows (st : rstate) (rows : list (list string)) : option rstate :=
  match rows with [] => Some st | r :: rest => match step_row st r with Some st' => run_rows st' rest | None => None end end.
Definition rows_to_fit (rows : list (list string)) : option (list (list mesg)) :=
  match run_rows (mkr [] [] [] 0) rows with
  | Some st => Some (r_done st ++ [r_cur st])
  | None => None
  end.

End WithFloatText.
