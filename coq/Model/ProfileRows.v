(* Row types of the independent reading of Profile.xlsx (gen/ProfileSpec.v is written by translator/xlsx2coq.py).
   A row is what the sheet says, cell by cell; nothing is interpreted here. *)
From Coq Require Import NArith ZArith List String Bool.
Import ListNotations.
Open Scope N_scope.

(* sheet "Types": row index, A type name, B base type, C value name, D value, E comment *)
Record trow := mktrow { t_row : N; t_name : string; t_base : string; t_vname : string; t_value : option N; t_comment : string }.

(* sheet "Messages": row index, number of non-empty cells, A message name, B field number, C field name, D field type,
   E array, F components (raw, comma separated names), G scales (binary64 bit patterns), H offsets (bit patterns), I units,
   J bits, K accumulate, L reference field names (raw), M reference field values (raw) *)
Record mrow := mkmrow { r_row : N; r_ncells : N; r_mesg : string; r_num : option N; r_name : string; r_type : string;
                        r_array : string; r_comps : string; r_scales : list N; r_offsets : list N; r_units : string;
                        r_bits : list N; r_accums : list bool; r_refnames : string; r_refvals : string }.

(* one profile/typedef/*_gen.go file as the translator (part typedef) reads it:
   declared constants (name, value; the last one is the Invalid constant), the cases of String() (constant, text),
   the cases of XFromString (text, constant) and its default, the elements of ListX(). *)
Record typedef := mktd { td_file : string; td_name : string; td_base : string; td_register : bool;
                         td_consts : list (string * N); td_str : list (string * string); td_from : list (string * string);
                         td_from_default : string; td_list : list string }.
