(* Types of the profile tables (the factory); gen/Factory.v is an instance regenerated from the running
   implementation's table (harness dump-factory: factory.CreateField for every message 0..65535 x field 0..255). *)
From Coq Require Import NArith ZArith List Bool.
Import ListNotations.
Open Scope N_scope.

(* scale/offset are IEEE-754 binary64 bit patterns (as math.Float64bits) *)
Record comp := mkc { c_num : N; c_accum : bool; c_bits : N; c_scale : N; c_offset : N }.
Record subf := mksub { s_ptype : N; s_scale : N; s_offset : N; s_maps : list (N * Z); s_comps : list comp }.
Record fieldbase := mkf { fb_num : N; fb_ptype : N; fb_base : N; fb_array : bool; fb_accum : bool;
                          fb_scale : N; fb_offset : N; fb_comps : list comp; fb_subs : list subf }.
Definition mesgtable := list (N * list fieldbase).

Definition one_bits : N := 4607182418800017408.     (* float64 1.0 *)

Fixpoint find_field (fs : list fieldbase) (num : N) : option fieldbase :=
  match fs with [] => None | f :: r => if N.eqb (fb_num f) num then Some f else find_field r num end.
Fixpoint find_mesg (t : mesgtable) (m : N) : option (list fieldbase) :=
  match t with [] => None | (n, fs) :: r => if N.eqb n m then Some fs else find_mesg r m end.
Definition lookup (t : mesgtable) (m f : N) : option fieldbase :=
  match find_mesg t m with Some fs => find_field fs f | None => None end.
