(* kit/hash/crc16: executable model.  [table] and [compute] come from gen/CrcTable.v, which fit2coq
   regenerates from crc16.go on every run; everything else here is the Go control structure
   (Write = fold over bytes, Reset = 0, Sum = big-endian pair) and the mathematical reference. *)
From Coq Require Import NArith List Bool.
Import ListNotations.
From Fit Require Export gen.CrcTable.
Open Scope N_scope.

(* ---- crc16.go *)
Definition update (crc b : N) : N := compute crc b.
Definition write (crc : N) (bs : list N) : N := fold_left update bs crc.
Definition sum16 (bs : list N) := write 0 bs.
Definition sum_bytes (crc : N) : list N := [N.shiftr crc 8 mod 256; crc mod 256].   (* Sum(b) appends hi, lo *)

(* the structure the proofs use; [compute_is_nibbles] in Proofs/CrcProofs.v ties it to the translated body *)
Definition nib (crc n : N) : N :=
  N.lxor (N.lxor (N.land (N.shiftr crc 4) 0x0FFF) (tab (N.land crc 0xF))) (tab n).

(* ---- operations of the hash object, for the correspondence scripts *)
Inductive crc_op := OpWrite (bs : list N) | OpSum16 | OpSum | OpReset.
Inductive crc_out := OutNone | OutSum16 (s : N) | OutSum (bs : list N).
Definition crc_step (st : N) (o : crc_op) : N * crc_out :=
  match o with
  | OpWrite bs => (write st bs, OutNone)
  | OpSum16 => (st, OutSum16 st)
  | OpSum => (st, OutSum (sum_bytes st))
  | OpReset => (0, OutNone)
  end.
Fixpoint crc_run (st : N) (ops : list crc_op) : list crc_out :=
  match ops with
  | [] => []
  | o :: r => let '(st', out) := crc_step st o in out :: crc_run st' r
  end.

(* ---- the mathematical definition: one LFSR step per message bit, least significant bit first
        (CRC-16/ARC: reflected polynomial 0xA001, init 0, no final xor) -- written from the definition *)
Definition bitstep (crc bit : N) : N :=
  let s := N.shiftr crc 1 in
  if N.eqb (N.lxor (N.land crc 1) bit) 1 then N.lxor s 0xA001 else s.
Definition bit (b i : N) := N.land (N.shiftr b i) 1.
Definition bits_of (width : nat) (b : N) : list N := map (fun i => bit b (N.of_nat i)) (seq 0 width).
Definition crc_bits (crc : N) (bits : list N) := fold_left bitstep bits crc.
Definition crc16_arc (bs : list N) : N := crc_bits 0 (concat (map (bits_of 8) bs)).

(* ---- ranges for finite sweeps *)
Fixpoint range (k : nat) (start : N) : list N :=
  match k with O => [] | S k' => start :: range k' (N.succ start) end.
Definition Nrange (n : N) := range (N.to_nat n) 0.
Definition bytes_ok (bs : list N) := Forall (fun b => b < 256) bs.
Definition bytes_okb (bs : list N) := forallb (fun b => b <? 256) bs.

(* search helper used when the proof breaks: first (state, byte) on which compute leaves the definition *)
Definition update_ok (s b : N) := N.eqb (update s b) (crc_bits s (bits_of 8 b)).
