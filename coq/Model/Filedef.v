(* C14 -- profile/filedef file types: generic Add / ToFIT interpreting a translated [fspec]
   (coq/gen/FiledefSpec.v).  No proofs here.

   Abstract message: number, identity tag, and the candidate timestamp fields (field number, uint32 reading) --
   once as given ([m_ts]) and once as they are after the typed-message round trip mesgdef.NewX(&m).ToMesg()
   ([m_nts]; what "normalisation" does to the rest of the message is property C13's subject, here it is an
   input).  slices.SortStableFunc is modelled as a stable insertion sort (trusted, DESIGN.md section 7). *)
From Coq Require Import NArith ZArith List Bool String.
Import ListNotations.
Open Scope N_scope.

Record msg := mkmsg { m_num : N; m_id : N; m_ts : list (N * N); m_nts : list (N * N);
                      m_aux : N (* file_id.type for a file_id message (read by the listener), else 0 *) }.
Definition norm (m : msg) : msg := mkmsg (m_num m) (m_id m) (m_nts m) (m_nts m) (m_aux m).
Definition retag (n : N) (m : msg) : msg := mkmsg n (m_id m) (m_ts m) (m_nts m) (m_aux m).
Definition zero_msg (n : N) : msg := mkmsg n 0 [] [] 0.

(* ---- SortMessagesByTimestamp *)
Record cmpspec := { cs_special : list (N * N);     (* message number -> number of its timestamp field *)
                    cs_default : N;
                    cs_nn : Z; cs_n1 : Z; cs_n2 : Z; (* comparator result: both missing / first missing / second missing *)
                    cs_lt : Z; cs_gt : Z; cs_eq : Z;
                    cs_stable : bool }.             (* slices.SortStableFunc (true) or slices.SortFunc *)

Definition ts_field (c : cmpspec) (num : N) : N :=
  match find (fun p => fst p =? num) (cs_special c) with Some p => snd p | None => cs_default c end.
Definition field_by_num (fs : list (N * N)) (n : N) : option N :=
  match find (fun p => fst p =? n) fs with Some p => Some (snd p) | None => None end.
Definition key (c : cmpspec) (m : msg) : option N := field_by_num (m_ts m) (ts_field c (m_num m)).
Definition compare (c : cmpspec) (a b : msg) : Z :=
  match key c a, key c b with
  | None, None => cs_nn c
  | None, Some _ => cs_n1 c
  | Some _, None => cs_n2 c
  | Some x, Some y => if x <? y then cs_lt c else if y <? x then cs_gt c else cs_eq c
  end.
Definition cle (c : cmpspec) (a b : msg) : bool := (compare c a b <=? 0)%Z.

Section Sort.
  Context {A : Type} (le : A -> A -> bool).
  Fixpoint insert (x : A) (l : list A) : list A :=      (* before the first element that is >= x: stable *)
    match l with
    | [] => [x]
    | y :: r => if le x y then x :: y :: r else y :: insert x r
    end.
  Definition isort (l : list A) : list A := fold_right insert [] l.
End Sort.
Definition sort_by (c : cmpspec) (l : list msg) : list msg := isort (cle c) l.

(* the order the property asks for: missing timestamp first, then by timestamp *)
Definition kle (k : msg -> option N) (a b : msg) : bool :=
  match k a, k b with
  | None, _ => true
  | Some _, None => false
  | Some x, Some y => x <=? y
  end.
Definition same_key (kf : msg -> option N) (k : option N) (a : msg) : bool :=
  match k, kf a with None, None => true | Some x, Some y => x =? y | _, _ => false end.
Fixpoint sorted_b (le : msg -> msg -> bool) (l : list msg) : bool :=
  match l with
  | [] => true
  | x :: r => forallb (le x) r && sorted_b le r
  end.

(* ---- file type specification *)
Inductive fkind := ByValue | Single | Many | Unrelated.
Record ffield := mkfield { ff_slot : N; ff_kind : fkind; ff_num : N }.
Inductive akind := AssignDeref | AssignPtr | Append.
Record acase := mkcase { ac_num : N; ac_slot : N; ac_ctor : N; ac_kind : akind }.
Inductive ekind := EValue | EIfNotNil | ERange | ESpread.
Inductive top := TEmit (s : N) (k : ekind) | TSortTail | TSortSlot (s : N).
Record fspec := { fs_name : string; fs_file : string;
                  fs_fields : list ffield;
                  fs_add : list acase;
                  fs_default : option (N * bool);          (* slot receiving every other message; fields cloned? *)
                  fs_tofit : list top;
                  fs_sort_start : option (N * list N);     (* sortStartPos = constant + lengths of these slots *)
                  fs_new_folds_add : bool }.

Definition state := N -> list msg.
Definition upd (st : state) (k : N) (v : list msg) : state := fun k' => if k' =? k then v else st k'.

Definition find_field (sp : fspec) (s : N) : option ffield := find (fun f => ff_slot f =? s) (fs_fields sp).
Definition init (sp : fspec) : state := fun s =>
  match find_field sp s with
  | Some f => match ff_kind f with ByValue => [zero_msg (ff_num f)] | _ => [] end
  | None => []
  end.

Definition dispatch (sp : fspec) (n : N) : option acase := find (fun c => ac_num c =? n) (fs_add sp).
Definition is_append (k : akind) : bool := match k with Append => true | _ => false end.
(* where Add puts a message: slot and "append" (true) or "replace" (false) *)
Definition target (sp : fspec) (m : msg) : option (N * bool) :=
  match dispatch sp (m_num m) with
  | Some c => Some (ac_slot c, is_append (ac_kind c))
  | None => match fs_default sp with Some (u, _) => Some (u, true) | None => None end
  end.
(* what is kept of it: typed slots keep the typed struct (read back by ToMesg of the constructor's type) *)
Definition stored (sp : fspec) (m : msg) : msg :=
  match dispatch sp (m_num m) with
  | Some c => retag (ac_ctor c) (norm m)
  | None => m
  end.
Definition add (sp : fspec) (st : state) (m : msg) : state :=
  match target sp m with
  | Some (s, true) => upd st s (st s ++ [stored sp m])
  | Some (s, false) => upd st s [stored sp m]
  | None => st
  end.
Definition build (sp : fspec) (ms : list msg) : state := fold_left (add sp) ms (init sp).

Fixpoint run_ops (c : cmpspec) (ops : list top) (start : nat) (st : state) (out : list msg) : list msg :=
  match ops with
  | [] => out
  | TEmit s _ :: r => run_ops c r start st (out ++ st s)
  | TSortTail :: r => run_ops c r start st (firstn start out ++ sort_by c (skipn start out))
  | TSortSlot s :: r => run_ops c r start (upd st s (sort_by c (st s))) out
  end.
Definition sort_start (sp : fspec) (st : state) : nat :=
  match fs_sort_start sp with
  | Some (k, slots) => N.to_nat k + list_sum (map (fun s => List.length (st s)) slots)
  | None => 0
  end.
Definition to_fit (c : cmpspec) (sp : fspec) (st : state) : list msg :=
  run_ops c (fs_tofit sp) (sort_start sp st) st [].
Definition file_of (c : cmpspec) (sp : fspec) (ms : list msg) : list msg := to_fit c sp (build sp ms).

(* ---- shape of ToFIT: leading emissions, then one of three endings *)
Inductive sort_mode := SortAll | SortUnrelated | SortNone.
Fixpoint split_ops (ops : list top) : list N * list top :=
  match ops with
  | TEmit s _ :: r => let (e, t) := split_ops r in (s :: e, t)
  | _ => ([], ops)
  end.
Definition classify (sp : fspec) : option sort_mode :=
  match snd (split_ops (fs_tofit sp)) with
  | [] => Some SortNone
  | [TSortTail] => Some SortAll
  | [TSortSlot u; TEmit u' ESpread] => if u =? u' then Some SortUnrelated else None
  | _ => None
  end.
Definition is_all (sp : fspec) : bool := match classify sp with Some SortAll => true | _ => false end.
(* all emitted slots, in ToFIT order *)
Definition emit_order (sp : fspec) : list N :=
  flat_map (fun o => match o with TEmit s _ => [s] | _ => [] end) (fs_tofit sp).

(* the slots emitted after the prefix (file_id, developer data ids, field descriptions), in ToFIT order *)
Definition body_slots (sp : fspec) : list N := skipn 3 (emit_order sp).

(* ---- the property's vocabulary *)
Definition typed (sp : fspec) (n : N) : bool := match dispatch sp n with Some _ => true | None => false end.
Definition singleton (sp : fspec) (n : N) : bool :=
  match dispatch sp n with Some c => negb (is_append (ac_kind c)) | None => false end.
Definition normalise (sp : fspec) (m : msg) : msg := if typed sp (m_num m) then norm m else m.
(* a message survives unless it is of a singleton kind and a later message has the same number *)
Fixpoint survivors (sp : fspec) (ms : list msg) : list msg :=
  match ms with
  | [] => []
  | m :: r => if singleton sp (m_num m) && existsb (fun m' => m_num m' =? m_num m) r then survivors sp r
              else m :: survivors sp r
  end.
Definition has_file_id (ms : list msg) : bool := existsb (fun m => m_num m =? 0) ms.
Definition num_file_id : N := 0.
Definition num_developer_data_id : N := 207.
Definition num_field_description : N := 206.
Definition with_num (n : N) (ms : list msg) : list msg := filter (fun m => m_num m =? n) ms.
(* the last message with a given number *)
Fixpoint last_num (n : N) (ms : list msg) : option msg :=
  match ms with
  | [] => None
  | m :: r => match last_num n r with Some x => Some x | None => if m_num m =? n then Some m else None end
  end.
Definition prefix_len (ms : list msg) : nat :=
  1 + List.length (with_num num_developer_data_id ms) + List.length (with_num num_field_description ms).

(* ---- well-formedness of a translated specification (decidable; Inst proves it for every file type) *)
Fixpoint nodupb (l : list N) : bool :=
  match l with [] => true | x :: r => negb (existsb (N.eqb x) r) && nodupb r end.
Definition memb (x : N) (l : list N) : bool := existsb (N.eqb x) l.
Definition fkind_eqb (a b : fkind) : bool :=
  match a, b with ByValue, ByValue | Single, Single | Many, Many | Unrelated, Unrelated => true | _, _ => false end.
Definition akind_fits (f : fkind) (a : akind) : bool :=
  match f, a with ByValue, AssignDeref | Single, AssignPtr | Many, Append => true | _, _ => false end.
Definition ekind_fits (f : fkind) (e : ekind) : bool :=
  match f, e with ByValue, EValue | Single, EIfNotNil | Many, ERange | Unrelated, ESpread => true | _, _ => false end.

Definition case_ok (sp : fspec) (c : acase) : bool :=
  match find_field sp (ac_slot c) with
  | Some f => akind_fits (ff_kind f) (ac_kind c) && (ff_num f =? ac_num c) && (ac_ctor c =? ac_num c)
  | None => false
  end.
Definition emit_ok (sp : fspec) (o : top) : bool :=
  match o with
  | TEmit s k => match find_field sp s with Some f => ekind_fits (ff_kind f) k | None => false end
  | TSortTail => true
  | TSortSlot s => match find_field sp s with Some f => fkind_eqb (ff_kind f) Unrelated | None => false end
  end.
Definition prefix_ok (sp : fspec) : bool :=
  match emit_order sp with
  | s0 :: s1 :: s2 :: _ =>
      match find_field sp s0, find_field sp s1, find_field sp s2 with
      | Some f0, Some f1, Some f2 =>
          fkind_eqb (ff_kind f0) ByValue && (ff_num f0 =? num_file_id) &&
          fkind_eqb (ff_kind f1) Many && (ff_num f1 =? num_developer_data_id) &&
          fkind_eqb (ff_kind f2) Many && (ff_num f2 =? num_field_description) &&
          (* no other by-value field: nothing else can be fabricated *)
          forallb (fun f => negb (fkind_eqb (ff_kind f) ByValue) || (ff_slot f =? s0)) (fs_fields sp) &&
          (* sortStartPos, when used, is exactly the prefix length *)
          match classify sp with
          | Some SortAll => match fs_sort_start sp with
                            | Some (k, [a; b]) => (k =? 1) && (a =? s1) && (b =? s2)
                            | _ => false
                            end
          | Some _ => match fs_sort_start sp with None => true | Some _ => false end
          | None => false
          end
      | _, _, _ => false
      end
  | _ => false
  end.
Definition wf_fspec (sp : fspec) : bool :=
  let slots := map ff_slot (fs_fields sp) in
  let e := emit_order sp in
  nodupb slots &&
  (* every field is emitted exactly once, nothing else is *)
  nodupb e && forallb (fun s => memb s e) slots && forallb (fun s => memb s slots) e &&
  forallb (emit_ok sp) (fs_tofit sp) &&
  (* Add: one case per message number and per slot, constructor and slot agree with the number *)
  nodupb (map ac_num (fs_add sp)) && nodupb (map ac_slot (fs_add sp)) &&
  forallb (case_ok sp) (fs_add sp) &&
  (* every typed field is filled by some case *)
  forallb (fun f => fkind_eqb (ff_kind f) Unrelated || memb (ff_slot f) (map ac_slot (fs_add sp))) (fs_fields sp) &&
  (* every other message goes, cloned, to the one unrelated field, which is emitted last *)
  match fs_default sp with
  | Some (u, cloned) =>
      cloned && negb (memb u (map ac_slot (fs_add sp))) &&
      match find_field sp u with Some f => fkind_eqb (ff_kind f) Unrelated | None => false end &&
      forallb (fun f => negb (fkind_eqb (ff_kind f) Unrelated) || (ff_slot f =? u)) (fs_fields sp) &&
      match rev e with l :: _ => l =? u | [] => false end
  | None => false
  end &&
  prefix_ok sp && fs_new_folds_add sp.

(* the comparator is the order the property states *)
Definition wf_cmp (c : cmpspec) : bool :=
  cs_stable c && (cs_nn c =? 0)%Z && (cs_n1 c <? 0)%Z && (0 <? cs_n2 c)%Z &&
  (cs_lt c <? 0)%Z && (0 <? cs_gt c)%Z && (cs_eq c =? 0)%Z.

(* ---- witness that a file type which does not sort everything violates the ordering clause *)
Definition fresh_num (sp : fspec) : N := 1 + fold_right N.max 0 (map ac_num (fs_add sp)).
Definition first_body_case (sp : fspec) : option acase :=
  match skipn 3 (emit_order sp) with
  | s :: _ => find (fun c => ac_slot c =? s) (fs_add sp)
  | [] => None
  end.
Definition order_witness (c : cmpspec) (sp : fspec) : list msg :=
  let u := fresh_num sp in
  let tsf n v := [(ts_field c n, v)] in
  mkmsg num_file_id 1 [] [] 0 ::
  match first_body_case sp with Some k => [mkmsg (ac_num k) 2 (tsf (ac_num k) 1000000005) (tsf (ac_num k) 1000000005) 0] | None => [] end ++
  [mkmsg u 3 (tsf u 1000000002) (tsf u 1000000002) 0; mkmsg u 4 (tsf u 1000000001) (tsf u 1000000001) 0; mkmsg u 5 [] [] 0].
Definition order_violated (c : cmpspec) (sp : fspec) (ms : list msg) : bool :=
  negb (sorted_b (kle (key c)) (skipn (prefix_len ms) (file_of c sp ms))).
