(*    decoder/readbuffer.go: ReadN over an arbitrary chunking reader refines "take n bytes of the stream".
   The buffer is modelled as the actual byte array with cur/last, copy = memmove, and
   io.ReadAtLeast as the loop it is; every slice expression is bounds-checked (Panic). *)
From Coq Require Import NArith ZArith List Lia Arith Bool.
Import ListNotations.

From Fit Require Import gen.DecConst.
Definition RESERVED := reservedbuf.

Inductive err := EOF | UnexpectedEOF | ShortBuffer.
Inductive outcome (A : Type) := Ok (a : A) | Err (e : err) | Panic.
Arguments Ok {A}. Arguments Err {A}. Arguments Panic {A}.

(* --- a chunking io.Reader: delivers the bytes of [rest] in pieces given by [plan] (default 1),
       optionally reporting EOF together with the last bytes. *)
Record reader := { rest : list N; plan : list nat; eof_with_data : bool }.

Definition rd_read (cap : nat) (r : reader) : list N * option err * reader :=
  match rest r with
  | [] => ([], Some EOF, r)
  | _ =>
    let want := match plan r with [] => 1 | k :: _ => Nat.max 1 k end in
    let k := Nat.min cap (Nat.min want (length (rest r))) in
    let r' := {| rest := skipn k (rest r); plan := tl (plan r); eof_with_data := eof_with_data r |} in
    let e := if eof_with_data r then match rest r' with [] => Some EOF | _ => None end else None in
    (firstn k (rest r), e, r')
  end.

(* io.ReadAtLeast(r, buf, min) with len(buf) = cap *)
Fixpoint ral_loop (fuel : nat) (cap min : nat) (acc : list N) (r : reader) : list N * option err * reader :=
  if min <=? length acc then (acc, None, r)           (* n >= min: err = nil *)
  else match fuel with
  | O => (acc, None, r) (* unreachable, see ral_spec *)
  | S fuel' =>
    let '(bs, e, r') := rd_read (cap - length acc) r in
    let acc' := acc ++ bs in
    match e with
    | None => ral_loop fuel' cap min acc' r'
    | Some e =>
      if min <=? length acc' then (acc', None, r')
      else if (0 <? length acc') then (acc', Some (match e with EOF => UnexpectedEOF | x => x end), r')
      else (acc', Some e, r')
    end
  end.

Definition read_at_least (cap min : nat) (r : reader) : list N * option err * reader :=
  if cap <? min then ([], Some ShortBuffer, r) else ral_loop (S min) cap min [] r.

(* --- the buffer *)
Record rbuf := { buf : list N; cur : nat; last : nat }.

Definition memmove (dst src : nat) (b : list N) : list N :=
  let k := Nat.min (length b - dst) (length b - src) in
  firstn dst b ++ firstn k (skipn src b) ++ skipn (dst + k) b.

Definition overwrite (at_ : nat) (bs : list N) (b : list N) : list N :=
  firstn at_ b ++ bs ++ skipn (at_ + length bs) b.

Definition read_n (b : rbuf) (r : reader) (n : nat) : outcome (list N) * rbuf * reader :=
  let remaining := last b - cur b in
  if remaining <? n then
    if RESERVED <? remaining then (Panic, b, r)                     (* buf[cur:] with negative cur *)
    else
    let cur' := if remaining =? 0 then RESERVED else RESERVED - remaining in
    let buf1 := if remaining =? 0 then buf b else memmove cur' (last b - remaining) (buf b) in
    if length buf1 <? RESERVED then (Panic, b, r) else
    let '(bs, e, r') := read_at_least (length buf1 - RESERVED) (n - remaining) r in
    let buf2 := overwrite RESERVED bs buf1 in
    match e with
    | Some e => (Err e, {| buf := buf2; cur := cur b; last := last b |}, r')
    | None =>
      let b' := {| buf := buf2; cur := cur'; last := RESERVED + length bs |} in
      if length buf2 <? cur' + n then (Panic, b', r')
      else (Ok (firstn n (skipn cur' buf2)), {| buf := buf2; cur := cur' + n; last := RESERVED + length bs |}, r')
    end
  else
    if length (buf b) <? cur b + n then (Panic, b, r)
    else (Ok (firstn n (skipn (cur b) (buf b))), {| buf := buf b; cur := cur b + n; last := last b |}, r).


(* --- specification vocabulary (used by the proofs and by the correspondence runner) *)
Definition pending (b : rbuf) := firstn (last b - cur b) (skipn (cur b) (buf b)).
Definition inv (b : rbuf) := cur b <= last b /\ last b <= length (buf b) /\ 2 * RESERVED <= length (buf b).
Definition stream (b : rbuf) (r : reader) := pending b ++ rest r.

(* readBuffer.Reset: size clamped to [RESERVED, 2^32-1]; the array has RESERVED + size bytes *)
Definition clamp_size (size : nat) : nat := Nat.max RESERVED size.
Definition rb_new (size : nat) : rbuf := {| buf := repeat 0%N (RESERVED + clamp_size size); cur := 0; last := 0 |}.

(* a script of ReadN requests *)
Fixpoint run_script (b : rbuf) (r : reader) (ns : list nat) : list (outcome (list N)) :=
  match ns with
  | [] => []
  | n :: ns' => let '(o, b', r') := read_n b r n in o :: match o with Ok _ => run_script b' r' ns' | _ => [] end
  end.

(* --- a reused buffer (Decoder.Reset): the Go slice b.buf is a window of a backing array; Reset keeps the array when
       cap(b.buf) - reservedbuf >= size and re-slices it to reservedbuf + size (a slice expression: bounds-checked against
       the capacity), else allocates.  State: the window [buf] and the part of the array behind it. *)
Definition rstate := (rbuf * list N)%type.
Definition rb_cap (s : rstate) : nat := length (buf (fst s)) + length (snd s).
Definition rb_reset (s : rstate) (size : nat) : outcome rstate :=
  let arr := buf (fst s) ++ snd s in
  let size := clamp_size size in
  let oldsize := Z.sub (Z.of_nat (length arr)) (Z.of_nat RESERVED) in       (* Go int arithmetic: negative for a zero buffer *)
  let arr' := if Z.ltb oldsize (Z.of_nat size) then repeat 0%N (RESERVED + size) else arr in
  if length arr' <? RESERVED + size then Panic                                 (* b.buf[:reservedbuf+size] beyond the capacity *)
  else Ok ({| buf := firstn (RESERVED + size) arr'; cur := 0; last := 0 |}, skipn (RESERVED + size) arr').
Definition rb_zero : rstate := ({| buf := []; cur := 0; last := 0 |}, []).

(* operations on a long-lived buffer: Reset(reader, size) / ReadN(n); the observation of a Reset is len(buf) *)
Inductive rop := OReset (size : nat) (r : reader) | ORead (n : nat).
Inductive robs := RLen (n : nat) | ROut (o : outcome (list N)) | RPanic.
Fixpoint skip_reads (ops : list rop) : list rop :=
  match ops with ORead _ :: ops' => skip_reads ops' | _ => ops end.
(* after a failed ReadN the harness goes on with the next Reset (the decoder never reads on after an error) *)
Fixpoint run_ops (fuel : nat) (s : rstate) (r : reader) (ops : list rop) : list robs :=
  match fuel with O => [] | S fuel' =>
  match ops with
  | [] => []
  | OReset size r' :: ops' =>
    match rb_reset s size with
    | Ok s' => RLen (length (buf (fst s'))) :: run_ops fuel' s' r' ops'
    | _ => [RPanic]
    end
  | ORead n :: ops' =>
    let '(o, b', r') := read_n (fst s) r n in
    ROut o :: match o with
              | Ok _ => run_ops fuel' (b', snd s) r' ops'
              | Err _ => run_ops fuel' (b', snd s) r' (skip_reads ops')
              | Panic => []
              end
  end end.
