(* C15 -- independent objects used concurrently.  Model: operations as sequences of accesses to SHARED locations;
   threads interleave arbitrarily over one shared store (sequentially consistent small steps), each thread has a private
   store; the three synchronised idioms of the library are primitive: sync.Once initialisation, sync.Pool Get/Put.
   This file has definitions only (semantics + the executable side condition over extracted footprints).
   What is NOT modelled: the Go memory model (weak orderings), the scheduler, the real reuse policy of sync.Pool
   (here: Get returns any pooled object or a fresh one), aliasing the extractor cannot see. *)
From Coq Require Import NArith List String Bool.
Import ListNotations.
From Fit Require Import Model.FootprintTypes.

Open Scope list_scope.
Definition val := N.

(* what an instruction does to shared state, without the thread-private computations attached to it *)
Inductive shape :=
| SRead (l : location)                 (* plain load of a shared location *)
| SWrite (l : location)                (* plain (unsynchronised) store to a shared location *)
| SOnce (o : location)                 (* once.Do(init): the initialisation of the locations owned by o, at most once, synchronised *)
| SGet (p : location)                  (* pool.Get *)
| SPut (p : location) (reset : bool)   (* pool.Put of an object that was (not) reset *)
| SLocal.                              (* touches nothing shared *)

Section Sem.
Context {priv : Type}.                                   (* the private store of a thread; its final value is the operation's result *)
Variable inits : list (location * location * val).       (* (once, location, value): what each package-level Once initialises *)
Variable mem0 : location -> val.                         (* the shared store after package initialisation *)

Inductive instr :=
| IRead (l : location) (k : val -> priv -> priv)         (* private := k (shared l) private *)
| IWrite (l : location) (f : priv -> val)                (* shared l := f private, unsynchronised *)
| IOnce (o : location)
| IGet (p : location) (k : val -> priv -> priv)          (* private := k (content of the object obtained) private *)
| IPut (p : location) (reset : bool) (f : priv -> val)   (* puts an object whose content is 0 when reset, f private otherwise *)
| ILocal (f : priv -> priv).

Definition shape_of (i : instr) : shape :=
  match i with
  | IRead l _ => SRead l | IWrite l _ => SWrite l | IOnce o => SOnce o
  | IGet p _ => SGet p | IPut p r _ => SPut p r | ILocal _ => SLocal
  end.

(* the Once that initialises l, and the value it stores (first entry of the table wins) *)
Definition owner (l : location) : option (location * val) :=
  match find (fun t => location_eqb (snd (fst t)) l) inits with
  | Some (o, _, v) => Some (o, v)
  | None => None
  end.

Record shared := mkS { mem : location -> val; done : location -> bool; pool : location -> list val }.
Record thread := mkT { orig : list instr; pv0 : priv; prog : list instr; pv : priv }.   (* orig, pv0: ghost copies of the start *)

Definition upd {A} (m : location -> A) (l : location) (v : A) : location -> A :=
  fun x => if location_eqb x l then v else m x.

Definition run_init (o : location) (m : location -> val) : location -> val :=
  fun l => match owner l with
           | Some (o', v) => if location_eqb o' o then v else m l
           | None => m l
           end.

Definition next (t : thread) (r : list instr) (x : priv) : thread := mkT (orig t) (pv0 t) r x.

Inductive tstep : shared -> thread -> shared -> thread -> Prop :=
| st_read : forall s t l k r, prog t = IRead l k :: r -> tstep s t s (next t r (k (mem s l) (pv t)))
| st_write : forall s t l f r, prog t = IWrite l f :: r ->
    tstep s t (mkS (upd (mem s) l (f (pv t))) (done s) (pool s)) (next t r (pv t))
| st_once_first : forall s t o r, prog t = IOnce o :: r -> done s o = false ->
    tstep s t (mkS (run_init o (mem s)) (upd (done s) o true) (pool s)) (next t r (pv t))
| st_once_done : forall s t o r, prog t = IOnce o :: r -> done s o = true -> tstep s t s (next t r (pv t))
| st_get_fresh : forall s t p k r, prog t = IGet p k :: r -> tstep s t s (next t r (k 0%N (pv t)))
| st_get_pooled : forall s t p k r a v b, prog t = IGet p k :: r -> pool s p = a ++ v :: b ->
    tstep s t (mkS (mem s) (done s) (upd (pool s) p (a ++ b))) (next t r (k v (pv t)))
| st_put : forall s t p reset f r, prog t = IPut p reset f :: r ->
    tstep s t (mkS (mem s) (done s) (upd (pool s) p ((if reset then 0%N else f (pv t)) :: pool s p))) (next t r (pv t))
| st_local : forall s t f r, prog t = ILocal f :: r -> tstep s t s (next t r (f (pv t))).

Definition config := (shared * list thread)%type.

(* any thread that is not finished may take the next step: every interleaving *)
Inductive step : config -> config -> Prop :=
| step_at : forall s s' a t t' b, tstep s t s' t' -> step (s, a ++ t :: b) (s', a ++ t' :: b).

Inductive steps : config -> config -> Prop :=
| steps_refl : forall c, steps c c
| steps_cons : forall c1 c2 c3, step c1 c2 -> steps c2 c3 -> steps c1 c3.

(* plain (unsynchronised) accesses the next instruction performs.  The body of a Once that has not run yet stores to the
   locations it owns; a Once that has run, and the pool operations, only synchronise. *)
Inductive touches (s : shared) : instr -> location -> bool -> Prop :=
| t_read : forall l k, touches s (IRead l k) l false
| t_write : forall l f, touches s (IWrite l f) l true
| t_once : forall o l v, done s o = false -> owner l = Some (o, v) -> touches s (IOnce o) l true.

Definition is_once (i : instr) : bool := match i with IOnce _ => true | _ => false end.

(* a data race: two different threads are both about to access the same location, at least one of them storing, and
   nothing orders them (two callers of the same Once are ordered by the Once itself) *)
Definition racy (c : config) : Prop :=
  exists a t1 b t2 d i1 r1 i2 r2 l w1 w2,
    snd c = a ++ t1 :: b ++ t2 :: d /\ prog t1 = i1 :: r1 /\ prog t2 = i2 :: r2 /\
    touches (fst c) i1 l w1 /\ touches (fst c) i2 l w2 /\ (w1 || w2 = true) /\ (is_once i1 && is_once i2 = false).

(* the side condition, on shapes: no plain store; a load of a Once-initialised location only after this thread called that
   Once; pooled objects reset before Put *)
Fixpoint safe_from (called : list location) (p : list shape) : bool :=
  match p with
  | [] => true
  | SRead l :: r => (match owner l with Some (o, _) => existsb (location_eqb o) called | None => true end) && safe_from called r
  | SWrite _ :: _ => false
  | SOnce o :: r => safe_from (o :: called) r
  | SGet _ :: r => safe_from called r
  | SPut _ reset :: r => reset && safe_from called r
  | SLocal :: r => safe_from called r
  end.

Definition safe (p : list instr) : bool := safe_from [] (map shape_of p).

(* the result of an operation run alone: every load of a Once-initialised location sees the initialised value, every other
   load the value after package initialisation, every pooled object is blank *)
Definition canon_val (l : location) : val := match owner l with Some (_, v) => v | None => mem0 l end.

Definition cstep (x : priv) (i : instr) : priv :=
  match i with
  | IRead l k => k (canon_val l) x
  | IGet _ k => k 0%N x
  | ILocal f => f x
  | _ => x
  end.

Definition canon (p : list instr) (x : priv) : priv := fold_left cstep p x.

(* well-formed shared state: what package initialisation establishes, and what every step of safe threads preserves *)
Definition inv (s : shared) : Prop :=
  (forall l o v, owner l = Some (o, v) -> done s o = true -> mem s l = v) /\
  (forall l, owner l = None -> mem s l = mem0 l) /\
  (forall p v, In v (pool s p) -> v = 0%N).

Definition start (p : list instr) (x : priv) : thread := mkT p x p x.

End Sem.

Arguments instr : clear implicits.
Arguments thread : clear implicits.

(* ------------------------------------------------------------------------------------------------------------------ *)
(* The side condition evaluated on an extracted footprint (a list of access records in source order).                  *)

Definition string_pair_eqb (a b : string * string) : bool := String.eqb (fst a) (fst b) && String.eqb (snd a) (snd b).

Definition key (a : access) : string * string := (a_pkg a, a_fn a).

(* what an access record contributes to the shape of its function *)
Definition shapes_of_access (a : access) : list shape :=
  match a_guard a with
  | GInit => []                                  (* package initialisation: part of the initial state *)
  | _ =>
    match a_kind a with
    | KDo => [SOnce (a_loc a)]
    | _ =>
      match a_guard a with
      | GOnce _ _ => []                          (* inside the body of a Once: represented by its SOnce *)
      | g =>
        match a_kind a, a_loc a with
        | KDo, l => [SOnce l]
        | KR, LOwned _ _ => [SLocal]
        | KR, l => [SRead l]
        | KW, LOwned _ _ => [SLocal]             (* the caller's own object: private by the hypothesis "distinct objects" *)
        | KW, l => match g with GFresh => [SLocal] | _ => [SWrite l] end
        | KGet, l => [SGet l]
        | KPut, l => match g with GResetBeforePut | GResetAfterGet => [SPut l true] | _ => [SPut l false] end
        end
      end
    end
  end.

(* the table of Once-initialised locations: every store recorded inside the body of a package-level Once *)
Definition inits_of (vals : location -> val) (accs : list access) : list (location * location * val) :=
  flat_map (fun a => match a_kind a, a_guard a with
                     | KW, GOnce p n => [(LGlobal p n, a_loc a, vals (a_loc a))]
                     | _, _ => []
                     end) accs.

Fixpoint keys_of (accs : list access) (seen : list (string * string)) : list (string * string) :=
  match accs with
  | [] => []
  | a :: r => if existsb (string_pair_eqb (key a)) seen then keys_of r seen else key a :: keys_of r (key a :: seen)
  end.

Definition fn_accesses (accs : list access) (k : string * string) : list access :=
  filter (fun a => string_pair_eqb (key a) k) accs.

Definition fn_shapes (accs : list access) (k : string * string) : list shape :=
  flat_map shapes_of_access (fn_accesses accs k).

Definition called_after (called : list location) (shs : list shape) : list location :=
  fold_left (fun c sh => match sh with SOnce o => o :: c | _ => c end) shs called.

(* the access records of one function that break the side condition *)
Fixpoint fn_offenders (inits : list (location * location * val)) (called : list location) (l : list access) : list access :=
  match l with
  | [] => []
  | a :: r =>
    let shs := shapes_of_access a in
    (if safe_from inits called shs then [] else [a]) ++ fn_offenders inits (called_after called shs) r
  end.

(* the body of a Once must compute the same thing whoever runs it: it may load only locations that nothing stores to
   after package initialisation (except that body itself) *)
Definition stored_only_by_init_or (p n : string) (accs : list access) (l : location) : bool :=
  forallb (fun b => match a_kind b with
                    | KW => negb (location_eqb (a_loc b) l) ||
                            match a_guard b with GInit => true | GOnce p' n' => String.eqb p p' && String.eqb n n' | _ => false end
                    | _ => true
                    end) accs.

Definition once_body_offenders (accs : list access) : list access :=
  filter (fun a => match a_kind a, a_guard a with
                   | KR, GOnce p n => negb (stored_only_by_init_or p n accs (a_loc a))
                   | (KGet | KPut), GOnce _ _ => true
                   | _, _ => false
                   end) accs.

Definition offenders (accs : list access) : list access :=
  let inits := inits_of (fun _ => 0%N) accs in
  flat_map (fun k => fn_offenders inits [] (fn_accesses accs k)) (keys_of accs []) ++ once_body_offenders accs.

(* functions of the footprint that satisfy the side condition on their own: the operations the theorem speaks about *)
Definition fn_ok (accs : list access) (k : string * string) : bool :=
  match fn_offenders (inits_of (fun _ => 0%N) accs) [] (fn_accesses accs k) with [] => true | _ => false end.

Definition once_bodies_ok (accs : list access) : bool := match once_body_offenders accs with [] => true | _ => false end.

Definition footprint_ok (accs : list access) : bool := match offenders accs with [] => true | _ => false end.

(* the known finding: every generated ToMesg stores options.Factory through the caller's options pointer *)
Fixpoint ends_with (suffix s : string) : bool :=
  if String.eqb s suffix then true
  else match s with EmptyString => false | String _ r => ends_with suffix r end.

Definition is_options_factory_write (a : access) : bool :=
  match a_kind a, a_loc a with
  | KW, LOption t f => String.eqb t "mesgdef.Options" && String.eqb f "Factory" && ends_with ").ToMesg" (a_fn a)
                       && String.eqb (a_pkg a) "profile/mesgdef"
  | _, _ => false
  end.

(* set-up operations: documented as "intended to be used on instantiation" (no synchronisation on purpose); they are not
   among the operations of the property and are excluded from the operation set, which is said in the claim *)
Definition setup_ops : list (string * string) :=
  [("profile/factory", "RegisterMesg"); ("profile/typedef", "FileRegister"); ("profile/typedef", "MesgNumRegister")]%string.

Definition is_setup (a : access) : bool := existsb (string_pair_eqb (key a)) setup_ops.

Definition unexplained (accs : list access) : list access :=
  filter (fun a => negb (is_setup a) && negb (is_options_factory_write a)) (offenders accs).

Definition known_hits (accs : list access) : list access := filter is_options_factory_write (offenders accs).

Definition options_witness (accs : list access) : option access := find is_options_factory_write (offenders accs).

(* projections used by the check to print offending records *)
Definition show (a : access) : string * string * string * N := (a_pkg a, a_fn a, a_file a, a_line a).

(* one evaluation for the check: (unexplained offenders, number of known hits, first known hit, set-up offenders, number of records) *)
Definition summary (accs : list access) :=
  let offs := offenders accs in
  (map show (filter (fun a => negb (is_setup a) && negb (is_options_factory_write a)) offs),
   N.of_nat (List.length (filter is_options_factory_write offs)),
   option_map show (find is_options_factory_write offs),
   map show (filter is_setup offs),
   N.of_nat (List.length accs)).
