(* IEEE-754 binary64 arithmetic as Go's float64 on amd64: Coq primitive floats (hardware under vm_compute).
   Only what the decoder's component expansion and the byte->float fallbacks need. *)
From Coq Require Import NArith ZArith List Bool Floats Uint63.
From Fit Require Export Model.ConvModeT.
Import ListNotations.
Open Scope N_scope.

Definition two63 : N := 9223372036854775808.
Definition two64 : N := 18446744073709551616.

(* uint63 from N (< 2^63) *)
Definition u63 (x : N) : Uint63.int := Uint63.of_Z (Z.of_N x).

(* math.Float64frombits *)
Definition f64_of_bits (b : N) : float :=
  let s := b / two63 in
  let e := (b / 4503599627370496) mod 2048 in
  let m := b mod 4503599627370496 in
  let mag :=
    if e =? 2047 then (if m =? 0 then PrimFloat.infinity else PrimFloat.nan)
    else if e =? 0 then Z.ldexp (PrimFloat.of_uint63 (u63 m)) (-1074)%Z
    else Z.ldexp (PrimFloat.of_uint63 (u63 (4503599627370496 + m))) (Z.of_N e - 1075)%Z in
  if s =? 1 then PrimFloat.opp mag else mag.

(* float64(x) for an unsigned integer below 2^63 *)
Definition f64_of_N (x : N) : float := PrimFloat.of_uint63 (u63 x).

(* truncation toward zero of a finite float; None for NaN / infinities *)
Definition f64_trunc (f : float) : option Z :=
  match Prim2SF f with
  | S754_zero _ => Some 0%Z
  | S754_finite s m e =>
      let mag := if (0 <=? e)%Z then (Z.pos m * 2 ^ e)%Z else (Z.pos m / 2 ^ (- e))%Z in
      Some (if s then (- mag)%Z else mag)
  | _ => None
  end.

(* Go on amd64: uint32(f) = low 32 bits of the int64 truncation (CVTTSD2SQ); out of int64 range / NaN gives 0x8000000000000000 *)
Definition f64_to_u32 (f : float) : N :=
  match f64_trunc f with
  | Some z => if ((- 9223372036854775808 <=? z) && (z <? 9223372036854775808))%Z then Z.to_N (z mod 4294967296)%Z else 0
  | None => 0
  end.

(* scaleoffset.Apply / Discard *)
Definition so_apply (x : N) (scale offset : float) : float := PrimFloat.sub (PrimFloat.div (f64_of_N x) scale) offset.
Definition is_one (f : float) : bool := PrimFloat.eqb f 1%float.
Definition is_zero (f : float) : bool := PrimFloat.eqb f 0%float.
Definition so_discard (v scale offset : float) : float :=
  if is_one scale && is_zero offset then v else PrimFloat.mul (PrimFloat.add v offset) scale.

(* unsigned integer -> IEEE bit pattern with round-to-nearest-even (float32(x) / float64(x) of an integer),
   mant = explicit mantissa bits (23 / 52), bias = 127 / 1023 *)
Definition int_to_float_bits (mant bias : N) (x : N) : N :=
  if x =? 0 then 0 else
  let e := N.log2 x in
  if e <=? mant then (e + bias) * 2 ^ mant + (x * 2 ^ (mant - e) - 2 ^ mant)
  else
    let sh := e - mant in
    let q := x / 2 ^ sh in
    let r := x mod 2 ^ sh in
    let half := 2 ^ (sh - 1) in
    let q' := if (half <? r) || ((r =? half) && N.odd q) then q + 1 else q in
    (* q' may be 2^(mant+1): the formula below then carries into the exponent correctly *)
    (e + bias) * 2 ^ mant + (q' - 2 ^ mant).
Definition f32_bits_of_N := int_to_float_bits 23 127.
Definition f64_bits_of_N := int_to_float_bits 52 1023.

(* math.Float64bits of a computed float (NaN payloads are not observable on primitive floats: callers handle NaN inputs on the bit level) *)
Definition f64_bits (f : float) : N :=
  match Prim2SF f with
  | S754_zero s => if s then two63 else 0
  | S754_infinity s => (if s then two63 else 0) + 9218868437227405312
  | S754_nan => 9221120237041090561
  | S754_finite s m e =>
      let m := Npos m in
      (if s then two63 else 0) +
      (if 4503599627370496 <=? m then Z.to_N (e + 1075)%Z * 4503599627370496 + (m - 4503599627370496) else m)
  end.
Definition f64_is_nan_bits (b : N) : bool := ((b / 4503599627370496) mod 2048 =? 2047) && negb (b mod 4503599627370496 =? 0).

(* math.Round (half away from zero) followed by the integer reading, exact on the float's value *)
Definition f64_round (f : float) : option Z :=
  match Prim2SF f with
  | S754_zero _ => Some 0%Z
  | S754_finite s m e =>
      let mag := if (0 <=? e)%Z then (Z.pos m * 2 ^ e)%Z
                 else let d := (2 ^ (- e))%Z in
                      let q := (Z.pos m / d)%Z in
                      if (d <=? 2 * (Z.pos m mod d))%Z then (q + 1)%Z else q in
      Some (if s then (- mag)%Z else mag)
  | _ => None
  end.
Definition f64_to_Z (m : conv_mode) (f : float) : option Z := match m with Trunc => f64_trunc f | Round => f64_round f end.
Definition f64_to_u32_mode (m : conv_mode) (f : float) : N :=
  match f64_to_Z m f with
  | Some z => if ((- 9223372036854775808 <=? z) && (z <? 9223372036854775808))%Z then Z.to_N (z mod 4294967296)%Z else 0
  | None => 0
  end.
