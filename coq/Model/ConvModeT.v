(* how a conversion site turns the restored float into an integer: plain Go conversion (truncation) or math.Round first.
   The mode of each site is derived from the source on every run (gen/ConvMode.v).  Kept in a file of its own so that the
   byte-level models can follow the modes without depending on Flocq. *)
Inductive conv_mode := Trunc | Round.
Definition conv_mode_eqb (a b : conv_mode) : bool :=
  match a, b with Trunc, Trunc | Round, Round => true | _, _ => false end.
