(* proto.Value: value.go (Type, Size, Align, Valid, constructors), value_marshal.go, value_unmarshal.go.
   The 24 Go value types + invalid are (constructor, element type) pairs; numbers are kept as their unsigned
   bit patterns (two's complement for signed types, IEEE bit patterns for floats). *)
From Coq Require Import NArith ZArith List Bool.
Import ListNotations.
From Fit Require Export Model.Base gen.Consts.
Open Scope N_scope.

Inductive ntype := TBool | TI8 | TU8 | TI16 | TU16 | TI32 | TU32 | TI64 | TU64 | TF32 | TF64.
Definition width (t : ntype) : nat :=
  match t with TBool | TI8 | TU8 => 1 | TI16 | TU16 => 2 | TI32 | TU32 | TF32 => 4 | _ => 8 end.
Definition ntype_eqb (a b : ntype) : bool :=
  match a, b with
  | TBool, TBool | TI8, TI8 | TU8, TU8 | TI16, TI16 | TU16, TU16 | TI32, TI32 | TU32, TU32
  | TI64, TI64 | TU64, TU64 | TF32, TF32 | TF64, TF64 => true
  | _, _ => false
  end.

Inductive value :=
| VInvalid
| VNum (t : ntype) (bits : N)
| VArr (t : ntype) (elts : list N)
| VStr (s : bytes)
| VStrs (ss : list bytes).

(* ---- Type() *)
Definition scalar_tag (t : ntype) : N :=
  match t with TBool => TypeBool | TI8 => TypeInt8 | TU8 => TypeUint8 | TI16 => TypeInt16 | TU16 => TypeUint16
  | TI32 => TypeInt32 | TU32 => TypeUint32 | TI64 => TypeInt64 | TU64 => TypeUint64 | TF32 => TypeFloat32 | TF64 => TypeFloat64 end.
Definition slice_tag (t : ntype) : N :=
  match t with TBool => TypeSliceBool | TI8 => TypeSliceInt8 | TU8 => TypeSliceUint8 | TI16 => TypeSliceInt16 | TU16 => TypeSliceUint16
  | TI32 => TypeSliceInt32 | TU32 => TypeSliceUint32 | TI64 => TypeSliceInt64 | TU64 => TypeSliceUint64
  | TF32 => TypeSliceFloat32 | TF64 => TypeSliceFloat64 end.
Definition type_tag (v : value) : N :=
  match v with VInvalid => TypeInvalid | VNum t _ => scalar_tag t | VArr t _ => slice_tag t | VStr _ => TypeString | VStrs _ => TypeSliceString end.

(* constructors that normalise: proto.Bool(v) stores 255 for v > 1 *)
Definition norm_bool (x : N) : N := if 1 <? x then 255 else x.
Definition mk_bool (x : N) : value := VNum TBool (norm_bool x).

Definition elt_ok (t : ntype) (x : N) : bool := x <? 256 ^ N.of_nat (width t).
Definition value_ok (v : value) : bool :=
  match v with
  | VInvalid => true
  | VNum TBool x => (x <? 2) || (x =? 255)
  | VNum t x => elt_ok t x
  | VArr t l => forallb (elt_ok t) l
  | VStr s => bytes_okb s
  | VStrs ss => forallb bytes_okb ss
  end.

(* ---- Size() *)
Definition str_size (s : bytes) : N :=
  match rev s with
  | [] => 1
  | last :: _ => if last =? 0 then len s else len s + 1
  end.
Definition size (v : value) : N :=
  match v with
  | VInvalid => 0
  | VNum t _ => N.of_nat (width t)
  | VArr t l => len l * N.of_nat (width t)
  | VStr s => str_size s
  | VStrs ss => let n := fold_left (fun acc s => acc + str_size s) ss 0 in if n =? 0 then 1 else n
  end.

(* ---- MarshalAppend; None = ErrTypeNotSupported *)
Definition str_bytes (s : bytes) : bytes :=
  match rev s with
  | [] => [0]
  | last :: _ => if last =? 0 then s else s ++ [0]
  end.
Definition marshal_elt (big : bool) (t : ntype) (x : N) : bytes :=
  match t with
  | TBool => [if 1 <? x then 255 else x]
  | _ => enc big (width t) x
  end.
Definition marshal (big : bool) (v : value) : option bytes :=
  match v with
  | VInvalid => None
  | VNum t x => Some (marshal_elt big t x)
  | VArr t l => Some (flat_map (marshal_elt big t) l)
  | VStr s => Some (str_bytes s)
  | VStrs ss => Some (match ss with [] => [0] | _ => flat_map str_bytes ss end)
  end.

(* ---- utf8.DecodeRune (first / acceptRanges tables) and proto.utf8String *)
Definition between (lo hi x : N) : bool := (lo <=? x) && (x <=? hi).
Definition cont (x : N) := between 0x80 0xBF x.
Definition seq_len (b : bytes) : option nat :=
  match b with
  | [] => None
  | p0 :: r =>
    if p0 <=? 0x7F then Some 1%nat
    else if between 0xC2 0xDF p0 then
      match r with b1 :: _ => if cont b1 then Some 2%nat else None | _ => None end
    else if between 0xE0 0xEF p0 then
      match r with
      | b1 :: b2 :: _ =>
        let lo := if p0 =? 0xE0 then 0xA0 else 0x80 in
        let hi := if p0 =? 0xED then 0x9F else 0xBF in
        if between lo hi b1 && cont b2 then Some 3%nat else None
      | _ => None
      end
    else if between 0xF0 0xF4 p0 then
      match r with
      | b1 :: b2 :: b3 :: _ =>
        let lo := if p0 =? 0xF0 then 0x90 else 0x80 in
        let hi := if p0 =? 0xF4 then 0x8F else 0xBF in
        if between lo hi b1 && cont b2 && cont b3 then Some 4%nat else None
      | _ => None
      end
    else None
  end.
Definition is_fffd (s : bytes) : bool := match s with [0xEF; 0xBF; 0xBD] => true | _ => false end.
(* for len(b) > 0 { r, size := DecodeRune(b); if r == 0 {break}; if r != RuneError {append}; b = b[size:] }
   (a validly encoded U+FFFD equals RuneError and is dropped as well) *)
Fixpoint utf8_string_fuel (fuel : nat) (b : bytes) : bytes :=
  match fuel with
  | O => []
  | S f =>
    match b with
    | [] => []
    | 0 :: _ => []
    | _ :: tl =>
      match seq_len b with
      | Some n => (if is_fffd (firstn n b) then [] else firstn n b) ++ utf8_string_fuel f (skipn n b)
      | None => utf8_string_fuel f tl
      end
    end
  end.
Definition utf8_string (b : bytes) : bytes := utf8_string_fuel (S (length b)) b.
(* utf8.ValidString *)
Fixpoint utf8_valid_fuel (fuel : nat) (b : bytes) : bool :=
  match fuel with
  | O => false
  | S f => match b with [] => true | _ => match seq_len b with Some n => utf8_valid_fuel f (skipn n b) | None => false end end
  end.
Definition utf8_valid (b : bytes) : bool := utf8_valid_fuel (S (length b)) b.

(* string arrays: split at NUL; an unterminated tail is not a string; empty segments and segments that
   normalise to "" are dropped *)
Fixpoint split_nul (cur : bytes) (b : bytes) : list bytes :=
  match b with
  | [] => []
  | 0 :: r => rev cur :: split_nul [] r
  | x :: r => split_nul (x :: cur) r
  end.
Definition nonempty {A} (l : list A) : bool := match l with [] => false | _ => true end.
Definition unmarshal_strings (b : bytes) : list bytes :=
  filter nonempty (map utf8_string (filter nonempty (split_nul [] b))).
Definition strcount (b : bytes) : N := len (filter nonempty (split_nul [] b)) mod 256.

(* ---- base types *)
Definition bt_ntype (bt : N) : option ntype :=
  if bt =? bt_sint8 then Some TI8
  else if (bt =? bt_enum) || (bt =? bt_byte) || (bt =? bt_uint8) || (bt =? bt_uint8z) then Some TU8
  else if bt =? bt_sint16 then Some TI16
  else if (bt =? bt_uint16) || (bt =? bt_uint16z) then Some TU16
  else if bt =? bt_sint32 then Some TI32
  else if (bt =? bt_uint32) || (bt =? bt_uint32z) then Some TU32
  else if bt =? bt_sint64 then Some TI64
  else if (bt =? bt_uint64) || (bt =? bt_uint64z) then Some TU64
  else if bt =? bt_float32 then Some TF32
  else if bt =? bt_float64 then Some TF64
  else None.

(* for ; len(b) >= n; b = b[n:] { vals = append(vals, word(b[:n])) } *)
Fixpoint chunks (fuel : nat) (big : bool) (n : nat) (b : bytes) : list N :=
  match fuel with
  | O => []
  | S fuel' => if Nat.leb n (length b) then dec big (firstn n b) :: chunks fuel' big n (skipn n b) else []
  end.

(* UnmarshalValue(b, arch, baseType, profileType, isArray) *)
Definition unmarshal (big : bool) (bt ptype : N) (is_array : bool) (b : bytes) : outcome value :=
  if bt =? bt_string then
    Ok (if is_array then VStrs (unmarshal_strings b) else VStr (utf8_string b))
  else
    match bt_ntype bt with
    | None => Err E_TypeNotSupported
    | Some t =>
      let t' := match t with TU8 => if ptype =? pt_Bool then TBool else TU8 | _ => t end in
      if is_array then Ok (VArr t' (chunks (length b) big (width t') b))
      else if Nat.ltb (length b) (width t') then Panic P_Index
      else let x := dec big (firstn (width t') b) in
           Ok (match t' with TBool => mk_bool x | _ => VNum t' x end)
    end.

(* ---- Align(basetype) *)
Definition vtype (v : value) : option ntype := match v with VNum t _ | VArr t _ => Some t | _ => None end.
Definition align (v : value) (bt : N) : bool :=
  match v with
  | VInvalid => false
  | VStr _ | VStrs _ => bt =? bt_string
  | VNum t _ | VArr t _ =>
    match t with
    | TBool => bt =? bt_enum
    | TI8 => bt =? bt_sint8
    | TU8 => (bt =? bt_enum) || (bt =? bt_byte) || (bt =? bt_uint8) || (bt =? bt_uint8z)
    | TI16 => bt =? bt_sint16
    | TU16 => (bt =? bt_uint16) || (bt =? bt_uint16z)
    | TI32 => bt =? bt_sint32
    | TU32 => (bt =? bt_uint32) || (bt =? bt_uint32z)
    | TI64 => bt =? bt_sint64
    | TU64 => (bt =? bt_uint64) || (bt =? bt_uint64z)
    | TF32 => bt =? bt_float32
    | TF64 => bt =? bt_float64
    end
  end.

(* ---- Valid(basetype) *)
Definition max_signed (t : ntype) : N := 2 ^ (8 * N.of_nat (width t) - 1) - 1.
Definition max_unsigned (t : ntype) : N := 2 ^ (8 * N.of_nat (width t)) - 1.
Definition scalar_valid (t : ntype) (x bt : N) : bool :=
  match t with
  | TBool => x <? 2
  | TI8 | TI16 | TI32 | TI64 => negb (x =? max_signed t)
  | TU8 => if (bt =? bt_enum) || (bt =? bt_byte) || (bt =? bt_uint8) then negb (x =? 255)
           else if bt =? bt_uint8z then negb (x =? 0) else false
  | TU16 => if bt =? bt_uint16z then negb (x =? 0) else negb (x =? max_unsigned t)
  | TU32 => if bt =? bt_uint32z then negb (x =? 0) else negb (x =? max_unsigned t)
  | TU64 => if bt =? bt_uint64z then negb (x =? 0) else negb (x =? max_unsigned t)
  | TF32 | TF64 => negb (x =? max_unsigned t)
  end.
Definition elt_valid (t : ntype) (x bt : N) : bool :=
  match t with
  | TBool => negb (x =? 255)
  | TI8 | TI16 | TI32 | TI64 => negb (x =? max_signed t)
  | TU8 => if bt =? bt_uint8z then negb (x =? 0) else negb (x =? 255)
  | TU16 => if bt =? bt_uint16z then negb (x =? 0) else negb (x =? max_unsigned t)
  | TU32 => if bt =? bt_uint32z then negb (x =? 0) else negb (x =? max_unsigned t)
  | TU64 => if bt =? bt_uint64z then negb (x =? 0) else negb (x =? max_unsigned t)
  | TF32 | TF64 => negb (x =? max_unsigned t)
  end.
Definition str_valid (s : bytes) : bool := match s with [] => false | [0] => false | _ => true end.
Definition valid (v : value) (bt : N) : bool :=
  match v with
  | VInvalid => false
  | VNum t x => scalar_valid t x bt
  | VArr t l => existsb (fun x => elt_valid t x bt) l
  | VStr s => str_valid s
  | VStrs ss => existsb str_valid ss
  end.

(* signed reading (two's complement), as the Go accessors Int8() .. Int64() return it *)
Definition to_Z (t : ntype) (x : N) : Z :=
  match t with
  | TI8 | TI16 | TI32 | TI64 => if max_signed t <? x then (Z.of_N x - Z.of_N (2 ^ (8 * N.of_nat (width t))))%Z else Z.of_N x
  | _ => Z.of_N x
  end.

(* ---- decidable equality (for the correspondence) *)
Fixpoint list_N_eqb (a b : list N) : bool :=
  match a, b with [], [] => true | x :: a', y :: b' => (x =? y) && list_N_eqb a' b' | _, _ => false end.
Fixpoint list_bytes_eqb (a b : list bytes) : bool :=
  match a, b with [], [] => true | x :: a', y :: b' => list_N_eqb x y && list_bytes_eqb a' b' | _, _ => false end.
Definition value_eqb (a b : value) : bool :=
  match a, b with
  | VInvalid, VInvalid => true
  | VNum t x, VNum u y => ntype_eqb t u && (x =? y)
  | VArr t x, VArr u y => ntype_eqb t u && list_N_eqb x y
  | VStr x, VStr y => list_N_eqb x y
  | VStrs x, VStrs y => list_bytes_eqb x y
  | _, _ => false
  end.
