(* The decoder object as a state machine over its exported entry points (decoder.go: Decode, DecodeWithContext with a
   live context, Next, PeekFileHeader, PeekFileId, Discard, CheckIntegrity, Reset) plus the environment action
   "seek the reader back to the start" that CheckIntegrity's documentation prescribes.
   Which per-sequence tables d.reset() clears and whether CheckIntegrity drops the read buffer are read from the source
   (gen/DecoderReset.v), so the model follows a repair of the stale-state findings. *)
From Coq Require Import NArith ZArith List Bool.
Import ListNotations.
From Fit Require Export Model.Decoder gen.DecoderReset.
Open Scope N_scope.

Record api := mkapi {
  a_s : dstate;
  a_err : option N;        (* d.err *)
  a_once : bool;           (* d.once already fired *)
  a_cfg : dcfg;
  a_all : bytes            (* everything the reader holds (for SeekStart) *)
}.
Definition api_new (c : dcfg) (bs : bytes) : api := mkapi (init_state bs) None false c bs.

Inductive aop := ADecode | ADecodeCancelled | ANext | APeekHeader | APeekFileId | ADiscard | ACheckIntegrity | AReset (bs : bytes) (c : dcfg) | ASeekStart.
Inductive ares :=
| RFit (f : fit) | RHeader (h : fheader) | RFileId (m : message) | RBool (b : bool)
| RIntegrity (n : N) (e : option N) | RErr (e : N) | RUnit | RPanic | RFuel.

(* d.reset(): accumulator, crc, once, cur, timestamp, lastTimeOffset, err, fileHeader, messages, crc, fileId
   (+ the tables when the source clears them there) *)
Definition reset_state (s : dstate) : dstate :=
  mkst (s_rest s) (s_buf s) (s_n s) 0 0 0 0
       (if reset_clears_definitions then no_defs else s_defs s)
       (if reset_clears_developer_tables then [] else s_devidx s)
       (if reset_clears_developer_tables then [] else s_fdescs s)
       [] None zero_header [] (s_events s).
(* releaseTemporaryObjects (deferred by Decode) *)
Definition release_state (s : dstate) : dstate :=
  mkst (s_rest s) (s_buf s) (s_n s) (s_cur s) (s_crc s) (s_ts s) (s_lto s) no_defs [] [] (s_acc s) None (s_header s) [] (s_events s).
Definition set_n (s : dstate) (n : N) : dstate := upd_read s (s_rest s) (s_buf s) n (s_cur s) (s_crc s).

Definition with_state (a : api) (s : dstate) : api := mkapi s (a_err a) (a_once a) (a_cfg a) (a_all a).
Definition fail (a : api) (e : N) : api := mkapi (a_s a) (Some e) (a_once a) (a_cfg a) (a_all a).
Definition fail_at (a : api) (s : dstate) (e : N) : api := mkapi s (Some e) true (a_cfg a) (a_all a).

Definition lift {A} (a : api) (r : outcome A) (k : A -> api * ares) : api * ares :=
  match r with
  | Ok x => k x
  | Err e => (fail a e, RErr e)
  | Panic _ => (a, RPanic)
  | OutOfFuel => (a, RFuel)
  end.

(* decodeFileHeaderOnce *)
Definition header_once (c : dcfg) (a : api) : outcome api :=
  if a_once a then (match a_err a with Some e => Err e | None => Ok a end)
  else match decode_file_header c (a_s a) with
       | Ok s => Ok (mkapi s None true (a_cfg a) (a_all a))
       | Err e => Err e
       | Panic p => Panic p
       | OutOfFuel => OutOfFuel
       end.
Definition once_failed (a : api) (e : N) : api := mkapi (a_s a) (Some e) true (a_cfg a) (a_all a).

(* discardMessages *)
Fixpoint discard_messages (fuel : nat) (c : dcfg) (s : dstate) : outcome dstate :=
  if h_datasize (s_header s) <=? s_cur s then Ok s else
  match fuel with
  | O => OutOfFuel
  | S f =>
    let size := N.min (h_datasize (s_header s) - s_cur s) 765 in
    do r <- read_n c s size; let '(_, s) := r in discard_messages f c s
  end.

(* PeekFileId: for d.fileId == nil { decodeMessage }; bounded by the data size when the source has that test (gen/DecoderReset.v) *)
Fixpoint until_file_id (fuel : nat) (c : dcfg) (s : dstate) : outcome dstate :=
  match s_fileid s with
  | Some _ => Ok s
  | None =>
    if peekfileid_bounded && (h_datasize (s_header s) <=? s_cur s) then Err E_NotFIT else
    match fuel with
    | O => OutOfFuel
    | S f => do s1 <- decode_message c s;
             (* a message that ran past the end of the sequence is reported (fix: 7fda71f; read from the source) *)
             if peekfileid_checks_overrun && (h_datasize (s_header s1) <? s_cur s1) then Err E_NotFIT else until_file_id f c s1
    end
  end.

(* CheckIntegrity: checksums forced on; counts complete sequences; a clean end is io.EOF exactly at a sequence boundary *)
Fixpoint integrity_loop (fuel : nat) (c : dcfg) (a : api) (seq : N) : api * N * option N * bool (* fuel ok *) :=
  match fuel with
  | O => (a, seq, None, false)
  | S f =>
    let pos := s_n (a_s a) in
    match header_once c a with
    | Err e =>
        let a' := once_failed a e in
        (a', seq, (if negb (pos =? 0) && (e =? E_EOF) && (len (s_rest (a_s a)) =? 0) then None else Some e), true)
    | Panic _ | OutOfFuel => (a, seq, Some 97, true)
    | Ok a1 =>
      match discard_messages (S (length (s_rest (a_s a1)))) c (a_s a1) with
      | Err e => (a1, seq, Some e, true)
      | Panic _ | OutOfFuel => (a1, seq, Some 97, true)
      | Ok s2 =>
        match decode_crc c s2 with
        | Err e => (with_state a1 s2, seq, Some e, true)
        | Panic _ | OutOfFuel => (a1, seq, Some 97, true)
        | Ok (_, s3) =>
            let s3 := upd_read s3 (s_rest s3) (s_buf s3) (s_n s3) 0 (s_crc s3) in
            integrity_loop f c (mkapi s3 None false (a_cfg a1) (a_all a1)) (seq + 1)
        end
      end
    end
  end.

Definition api_step (a : api) (o : aop) : api * ares :=
  let c := a_cfg a in
  match o with
  | AReset bs c' => (mkapi (let s := reset_state (a_s a) in mkst bs 0 (if public_reset_clears_n then 0 else s_n s) (s_cur s) (s_crc s) (s_ts s) (s_lto s) (s_defs s) (s_devidx s) (s_fdescs s)
                                                       (s_acc s) (s_fileid s) (s_header s) (s_msgs s) []) None false c' bs, RUnit)
  | ASeekStart =>
      (* the reader is rewound; whatever the read buffer still holds stays in front of it *)
      let s := a_s a in
      (with_state a (upd_read s (take (s_buf s) (s_rest s) ++ a_all a) (s_buf s) (s_n s) (s_cur s) (s_crc s)), RUnit)
  | _ =>
    match a_err a, o with
    | Some e, ANext => (a, RBool false)
    | Some e, ACheckIntegrity => (a, RIntegrity 0 (Some e))
    | Some e, _ => (a, RErr e)
    | None, ADecodeCancelled =>
        (* DecodeWithContext under a context that is already done: the context's error is returned and kept (d.err) *)
        (fail a E_Context, RErr E_Context)
    | None, ADecode =>
        match header_once c a with Err e => (once_failed a e, RErr e) | Panic _ | OutOfFuel => (a, RPanic) | Ok a1 => (fun a1 =>
          match decode_messages (S (length (s_rest (a_s a1)))) c (a_s a1) with
          | Err e => (fail_at a1 (release_state (a_s a1)) e, RErr e)
          | Panic _ => (a1, RPanic) | OutOfFuel => (a1, RFuel)
          | Ok s2 =>
            match decode_crc c s2 with
            | Err e => (fail_at a1 (release_state s2) e, RErr e)
            | Panic _ => (a1, RPanic) | OutOfFuel => (a1, RFuel)
            | Ok (crc, s3) =>
                (mkapi (reset_state (release_state s3)) None false (a_cfg a1) (a_all a1), RFit (mkfit (s_header s3) (rev (s_msgs s3)) crc))
            end
          end) a1 end
    | None, ANext =>
        if s_n (a_s a) =? 0 then (a, RBool true) else
        match header_once c a with
        | Ok a1 => (a1, RBool true)
        | Err e => (once_failed a e, RBool false)
        | _ => (a, RPanic)
        end
    | None, APeekHeader =>
        match header_once c a with
        | Ok a1 => (a1, RHeader (s_header (a_s a1)))
        | Err e => (once_failed a e, RErr e)
        | _ => (a, RPanic)
        end
    | None, APeekFileId =>
        match header_once c a with
        | Err e => (once_failed a e, RErr e)
        | Panic _ | OutOfFuel => (a, RPanic)
        | Ok a1 =>
          match until_file_id (S (length (s_rest (a_s a1)))) c (a_s a1) with
          | Ok s2 => (with_state a1 s2, match s_fileid s2 with Some m => RFileId m | None => RPanic end)
          | Err e => (fail a1 e, RErr e)
          | Panic _ => (a1, RPanic) | OutOfFuel => (a1, RFuel)
          end
        end
    | None, ADiscard =>
        let c0 := mkcfg false (c_expand c) (c_bufsize c) in
        match header_once c0 a with
        | Err e => (once_failed a e, RErr e)
        | Panic _ | OutOfFuel => (a, RPanic)
        | Ok a1 =>
          match discard_messages (S (length (s_rest (a_s a1)))) c0 (a_s a1) with
          | Err e => (fail a1 e, RErr e)
          | Panic _ => (a1, RPanic) | OutOfFuel => (a1, RFuel)
          | Ok s2 =>
            match read_n c0 s2 2 with
            | Err e => (fail (with_state a1 s2) e, RErr e)
            | Panic _ => (a1, RPanic) | OutOfFuel => (a1, RFuel)
            | Ok (_, s3) => (mkapi (reset_state s3) None false (a_cfg a1) (a_all a1), RUnit)
            end
          end
        end
    | None, ACheckIntegrity =>
        let c1 := mkcfg true (c_expand c) (c_bufsize c) in
        let '(a1, seq, err, fuel_ok) := integrity_loop (S (length (s_rest (a_s a)))) c1 a 0 in
        if negb fuel_ok then (a, RFuel) else
        let s := reset_state (a_s a1) in
        let s := set_n s 0 in
        let s := if integrity_drops_buffer then upd_read s (drop (s_buf s) (s_rest s)) 0 (s_n s) (s_cur s) (s_crc s) else s in
        (mkapi s None false (a_cfg a) (a_all a), RIntegrity seq err)
    | None, _ => (a, RUnit)
    end
  end.

Fixpoint api_run (a : api) (ops : list aop) : list ares :=
  match ops with [] => [] | o :: r => let '(a', res) := api_step a o in res :: api_run a' r end.
