(* C14 -- profile/filedef/listener.go as a two-thread protocol over the channels poolc (capacity P, holds the
   reusable field slices), mesgc (capacity B) and done; K is the number of pool slots Close clears.
   P, B, K come from the translated structure of listener.go (coq/gen/ListenerSpec.v).  No proofs here.
   Channels are modelled as FIFO queues with capacity, blocking send/receive, close (trusted, DESIGN.md section 4). *)
From Coq Require Import List Arith Bool.
Import ListNotations.

(* ---- what the translator extracts from listener.go *)
Inductive cexpr := CBuf | CConst (n : nat) | CPlus (a b : cexpr).     (* expression over the channel-buffer option *)
Fixpoint ceval (e : cexpr) (buf : nat) : nat :=
  match e with CBuf => buf | CConst n => n | CPlus a b => ceval a buf + ceval b buf end.
Fixpoint cexpr_eqb (a b : cexpr) : bool :=
  match a, b with
  | CBuf, CBuf => true
  | CConst x, CConst y => Nat.eqb x y
  | CPlus a1 a2, CPlus b1 b2 => cexpr_eqb a1 b1 && cexpr_eqb a2 b2
  | _, _ => false
  end.
(* the expressions are sums of the option and constants: two of them denote the same capacity iff they agree at 0 and at 1 *)
Definition cexpr_same (a b : cexpr) : bool := Nat.eqb (ceval a 0) (ceval b 0) && Nat.eqb (ceval a 1) (ceval b 1).
Inductive guard := GChanged | GChangedOrNil.    (* when Reset rebuilds the pool: option changed / or pool still nil *)
Inductive lop :=
| OIfInactiveReset | OTakePoolCopyFields | OCloneDev | OSendMesg           (* OnMesg *)
| OProcess | OReturnPool | OCloseDone                                      (* loop *)
| OIfInactiveReturn | OCloseMesgc | OClearLoop (k : cexpr) | OWaitDone | OSetInactive   (* Close *)
| OCallClose | OReturnFile                                                 (* File *)
| OFileNil | ONewMesgc (cap : cexpr) | ONewDone | OSetActive | OSpawnLoop   (* reset *)
| OSavePrev | ODefaultOptions | OApplyOptions | ORebuildPool (g : guard) (cap fill : cexpr) | OCallReset   (* Reset *)
| ONewZero | OCallResetPub | OReturnSelf.                                  (* NewListener *)
Record lspec_t := { ls_onmesg : list lop; ls_loop_body : list lop; ls_loop_after : list lop; ls_close : list lop;
                    ls_file : list lop; ls_reset : list lop; ls_Reset : list lop; ls_new : list lop;
                    ls_process_std : bool; ls_default_buffer : nat }.

Definition lop_eqb (a b : lop) : bool :=
  match a, b with
  | OIfInactiveReset, OIfInactiveReset | OTakePoolCopyFields, OTakePoolCopyFields | OCloneDev, OCloneDev | OSendMesg, OSendMesg
  | OProcess, OProcess | OReturnPool, OReturnPool | OCloseDone, OCloseDone | OIfInactiveReturn, OIfInactiveReturn
  | OCloseMesgc, OCloseMesgc | OWaitDone, OWaitDone | OSetInactive, OSetInactive | OCallClose, OCallClose | OReturnFile, OReturnFile
  | OFileNil, OFileNil | ONewDone, ONewDone | OSetActive, OSetActive | OSpawnLoop, OSpawnLoop | OSavePrev, OSavePrev
  | ODefaultOptions, ODefaultOptions | OApplyOptions, OApplyOptions | OCallReset, OCallReset | ONewZero, ONewZero
  | OCallResetPub, OCallResetPub | OReturnSelf, OReturnSelf => true
  | OClearLoop _, OClearLoop _ | ONewMesgc _, ONewMesgc _ | ORebuildPool _ _ _, ORebuildPool _ _ _ => true   (* expressions are read separately *)
  | _, _ => false
  end.
Fixpoint lops_eqb (a b : list lop) : bool :=
  match a, b with [], [] => true | x :: a', y :: b' => lop_eqb x y && lops_eqb a' b' | _, _ => false end.

(* the same operations in any order (for statements that do not depend on each other) *)
Definition lops_count (x : lop) (l : list lop) : nat := length (filter (lop_eqb x) l).
Definition lops_perm_eqb (a b : list lop) : bool :=
  Nat.eqb (length a) (length b) && forallb (fun x => Nat.eqb (lops_count x a) (lops_count x b)) a.

Definition close_expr (ls : lspec_t) : cexpr :=
  match find (fun o => match o with OClearLoop _ => true | _ => false end) (ls_close ls) with Some (OClearLoop k) => k | _ => CConst 0 end.
Definition queue_expr (ls : lspec_t) : cexpr :=
  match find (fun o => match o with ONewMesgc _ => true | _ => false end) (ls_reset ls) with Some (ONewMesgc k) => k | _ => CConst 0 end.
Definition pool_rebuild (ls : lspec_t) : guard * cexpr * cexpr :=
  match find (fun o => match o with ORebuildPool _ _ _ => true | _ => false end) (ls_Reset ls) with
  | Some (ORebuildPool g c f) => (g, c, f) | _ => (GChanged, CConst 0, CConst 0) end.

(* the listener object between sequences: the channel-buffer option it was last configured with and the number of slices in its pool
   (a nil pool channel -- never created -- blocks like an empty one: 0) *)
Definition lobj := (nat * nat)%type.
Definition fresh_obj : lobj := (0, 0).
Definition configure (ls : lspec_t) (o : lobj) (buf : nat) : lobj :=
  let '(g, cap, _) := pool_rebuild ls in
  let rebuild := match g with
                 | GChanged => negb (Nat.eqb (fst o) buf)
                 | GChangedOrNil => negb (Nat.eqb (fst o) buf) || Nat.eqb (snd o) 0
                 end in
  (buf, if rebuild then ceval cap buf else snd o).
Definition pool_size (ls : lspec_t) (buf : nat) : nat := snd (configure ls fresh_obj buf).   (* NewListener(WithChannelBuffer(buf)) *)
Definition queue_size (ls : lspec_t) (buf : nat) : nat := ceval (queue_expr ls) buf.
Definition close_count (ls : lspec_t) (buf : nat) : nat := ceval (close_expr ls) buf.

(* the structure the protocol model below was written for *)
Definition wf_lspec (ls : lspec_t) : bool :=
  lops_eqb (ls_onmesg ls) [OIfInactiveReset; OTakePoolCopyFields; OCloneDev; OSendMesg] &&      (* slice taken before the send *)
  lops_eqb (ls_loop_body ls) [OProcess; OReturnPool] &&                                         (* worker returns it after processing *)
  lops_eqb (ls_loop_after ls) [OCloseDone] &&
  lops_eqb (ls_close ls) [OIfInactiveReturn; OCloseMesgc; OClearLoop CBuf; OWaitDone; OSetInactive] &&
  lops_eqb (ls_file ls) [OCallClose; OReturnFile] &&
  (* a new sequence starts from no file, with fresh channels, marked active -- in any order -- and only then is the worker spawned *)
  match rev (ls_reset ls) with
  | OSpawnLoop :: r => lops_perm_eqb r [OFileNil; ONewMesgc CBuf; ONewDone; OSetActive]
  | _ => false
  end &&
  lops_eqb (ls_Reset ls) [OCallClose; OSavePrev; ODefaultOptions; OApplyOptions; ORebuildPool GChanged CBuf CBuf; OCallReset] &&
  lops_eqb (ls_new ls) [ONewZero; OCallResetPub; OReturnSelf] &&
  ls_process_std ls &&
  (let '(_, cap, fill) := pool_rebuild ls in cexpr_same cap fill).                                (* the pool is created full *)

(* ---- the protocol *)
Section Listener.
Context {M : Type}.
Variables (P B K : nat).

Inductive cpc :=
| CIdle (todo : list M)                 (* between OnMesg calls; [] = about to Close *)
| CHave (m : M) (todo : list M)         (* took a slice from poolc, about to send on mesgc *)
| CClosing (k : nat) (have : bool)      (* mesgc closed; k pool slots still to clear *)
| CWaitDone
| CDone.
Inductive wpc := WRecv | WHave (m : M) | WExit.

Record st := { c : cpc; w : wpc; pool : nat; q : list M; closed : bool; done : bool; processed : list M }.

Definition set_c s x := {| c := x; w := w s; pool := pool s; q := q s; closed := closed s; done := done s; processed := processed s |}.

(* successor states (one per enabled atomic action) *)
Definition caller_steps (s : st) : list st :=
  match c s with
  | CIdle (m :: r) => if 0 <? pool s then [{| c := CHave m r; w := w s; pool := pool s - 1; q := q s; closed := closed s; done := done s; processed := processed s |}] else []
  | CIdle [] => [{| c := CClosing K false; w := w s; pool := pool s; q := q s; closed := true; done := done s; processed := processed s |}]
  | CHave m r =>
      if length (q s) <? B then [{| c := CIdle r; w := w s; pool := pool s; q := q s ++ [m]; closed := closed s; done := done s; processed := processed s |}]
      else if (B =? 0) && (match w s with WRecv => true | _ => false end) && (match q s with [] => true | _ => false end)
           then [{| c := CIdle r; w := WHave m; pool := pool s; q := q s; closed := closed s; done := done s; processed := processed s |}]  (* rendezvous *)
           else []
  | CClosing (S k) false => if 0 <? pool s then [{| c := CClosing (S k) true; w := w s; pool := pool s - 1; q := q s; closed := closed s; done := done s; processed := processed s |}] else []
  | CClosing (S k) true => if pool s <? P then [{| c := CClosing k false; w := w s; pool := pool s + 1; q := q s; closed := closed s; done := done s; processed := processed s |}] else []
  | CClosing O false => [set_c s CWaitDone]
  | CClosing O true => if pool s <? P then [{| c := CWaitDone; w := w s; pool := pool s + 1; q := q s; closed := closed s; done := done s; processed := processed s |}] else []
  | CWaitDone => if done s then [set_c s CDone] else []
  | CDone => []
  end.

Definition worker_steps (s : st) : list st :=
  match w s with
  | WRecv =>
      match q s with
      | m :: r => [{| c := c s; w := WHave m; pool := pool s; q := r; closed := closed s; done := done s; processed := processed s |}]
      | [] => if closed s then [{| c := c s; w := WExit; pool := pool s; q := []; closed := closed s; done := true; processed := processed s |}] else []
      end
  | WHave m => if pool s <? P then [{| c := c s; w := WRecv; pool := pool s + 1; q := q s; closed := closed s; done := done s; processed := processed s ++ [m] |}] else []
  | WExit => []
  end.

Definition steps s := caller_steps s ++ worker_steps s.
Definition final s := match c s, w s with CDone, WExit => True | _, _ => False end.
Definition final_b s := match c s, w s with CDone, WExit => true | _, _ => false end.
Definition init (ms : list M) : st := {| c := CIdle ms; w := WRecv; pool := P; q := []; closed := false; done := false; processed := [] |}.
(* OnMesg after File(): reset() makes new mesgc/done, a new worker, and clears the file; the pool persists *)
Definition next_sequence (s : st) (ms : list M) : st :=
  {| c := CIdle ms; w := WRecv; pool := pool s; q := []; closed := false; done := false; processed := [] |}.

Inductive reach (s0 : st) : st -> Prop :=
| reach_refl : reach s0 s0
| reach_step s s' : reach s0 s -> In s' (steps s) -> reach s0 s'.
(* a maximal execution: nothing is enabled any more *)
Definition maximal (s0 s : st) : Prop := reach s0 s /\ steps s = [].

(* one deterministic schedule (caller first), used to run the model *)
Fixpoint run (fuel : nat) (s : st) : st :=
  match fuel with
  | O => s
  | S f => match steps s with [] => s | s' :: _ => run f s' end
  end.
End Listener.
