(* Model/Sweep.v -- complete enumeration of a small base type for one (base type, scale, offset) triple:
   one pass computes, for every raw value, the scaled float, the restored float, the restored integer under
   both conversion modes (helper route) and the setter's guard (accessor route).  Definitions only. *)
From Coq Require Import ZArith NArith Bool Floats List Uint63.
Import ListNotations.
From Fit Require Import Model.Float Model.Profile Model.Scale.

(* every value of an 8- or 16-bit integer type, ascending *)
Fixpoint zrange (k : nat) (start : Z) : list Z :=
  match k with O => [] | S k' => start :: zrange k' (start + 1)%Z end.
Definition raw_range (bt : N) : list Z :=
  let b := bt_bits bt in
  if (b <=? 16)%Z then zrange (Z.to_nat (2 ^ b)) (if bt_signed bt then - 2 ^ (b - 1) else 0)%Z else [].

Record pt := mkpt {
  p_apply : N;          (* bits of Apply(x) *)
  p_disc : N;           (* bits of Discard(Apply(x)) *)
  p_ht : Z; p_hr : Z;   (* helper route restored integer: truncating / rounding *)
  p_guard : bool        (* the generated setter's NaN / Inf / > invalid guard on the restored float *)
}.

Definition point (bt : N) (s o : float) (x : Z) : pt :=
  let v := apply x s o in
  let u := discard v s o in
  mkpt (bits_of_f64 v) (bits_of_f64 u) (to_int bt Trunc u) (to_int bt Round u) (setter_guard bt u).

Definition devs_of (proj : pt -> Z) (pts : list (Z * pt)) : list (Z * Z) :=
  flat_map (fun xp => if (proj (snd xp) =? fst xp)%Z then [] else [(fst xp, proj (snd xp))]) pts.
(* valid raw values on which the setter's guard fires (the invalid value itself goes through the NaN path) *)
Definition guarded_of (inv : Z) (pts : list (Z * pt)) : list Z :=
  flat_map (fun xp => if p_guard (snd xp) && negb (fst xp =? inv)%Z then [fst xp] else []) pts.

(* digest of a sequence of 64-bit patterns, in 63-bit machine arithmetic (the harness computes the same) *)
Definition hash_step (h : int) (b : N) : int :=
  (h * 1000003 + Uint63.of_Z (Z.of_N b) + (if (b <? 9223372036854775808)%N then 0 else 1))%uint63.
Definition hash_of (proj : pt -> N) (pts : list (Z * pt)) : N :=
  Z.to_N (Uint63.to_Z (fold_left (fun h xp => hash_step h (proj (snd xp))) pts 0%uint63)).

Record sweep := mksweep {
  sw_scaled : bool;                 (* the triple is not (scale 1, offset 0) *)
  sw_inv_ok : bool;                 (* accessor route: invalid raw -> invalid float -> invalid raw, both modes *)
  sw_hash_apply : N; sw_hash_disc : N;
  sw_ht : list (Z * Z); sw_hr : list (Z * Z);   (* helper route: (x, result) wherever result <> x *)
  sw_guarded : list Z }.            (* raw values on which the setter's guard fires *)

Definition points (bt : N) (s o : float) : list (Z * pt) := map (fun x => (x, point bt s o x)) (raw_range bt).
Definition sweep_of (t : triple) : sweep :=
  let '(bt, sb, ob) := t in
  let s := f64_of_bits sb in let o := f64_of_bits ob in
  let pts := points bt s o in
  mksweep (negb (is_unscaled s o))
          ((rt_setter Trunc bt s o (bt_invalid bt) =? bt_invalid bt)%Z && (rt_setter Round bt s o (bt_invalid bt) =? bt_invalid bt)%Z)
          (hash_of p_apply pts) (hash_of p_disc pts) (devs_of p_ht pts) (devs_of p_hr pts) (guarded_of (bt_invalid bt) pts).

(* a deviation that a truncating conversion explains: one unit toward zero *)
Definition unit_toward_zero (d : Z * Z) : bool :=
  let '(x, r) := d in if (0 <=? x)%Z then (r =? x - 1)%Z else (r =? x + 1)%Z.

Definition znull {A} (l : list A) : bool := match l with [] => true | _ => false end.
(* what a sweep must look like: rounding loses nothing; truncation loses at most one unit toward zero;
   the setter's guard never fires on a restored valid value *)
Definition sweep_good (sw : sweep) : bool :=
  sw_scaled sw && sw_inv_ok sw && znull (sw_hr sw) && znull (sw_guarded sw) && forallb unit_toward_zero (sw_ht sw).
(* accessor-route deviations, given that the guard never fires: the helper's, except at the invalid value *)
Definition setter_devs (bt : N) (d : list (Z * Z)) : list (Z * Z) := filter (fun xr => negb (fst xr =? bt_invalid bt)%Z) d.
Definition sweep_devs (m : conv_mode) (k : rkind) (bt : N) (sw : sweep) : list (Z * Z) :=
  let d := match m with Trunc => sw_ht sw | Round => sw_hr sw end in
  match k with KSetter => setter_devs bt d | _ => d end.

(* sharding of the triple list over the Inst files: shard i of k takes positions i, i+k, i+2k, ... *)
Fixpoint pick_from {A} (i k pos : nat) (l : list A) : list A :=
  match l with
  | [] => []
  | x :: r => if Nat.eqb (Nat.modulo pos k) i then x :: pick_from i k (S pos) r else pick_from i k (S pos) r
  end.
Definition pick {A} (i k : nat) (l : list A) : list A := pick_from i k 0 l.
Definition sweep_shard (i k : nat) (l : list triple) : list (triple * sweep) := map (fun t => (t, sweep_of t)) (pick i k l).

Fixpoint lookup_sweep (t : triple) (tab : list (triple * sweep)) : option sweep :=
  match tab with [] => None | (t', sw) :: r => if triple_eqb t t' then Some sw else lookup_sweep t r end.
