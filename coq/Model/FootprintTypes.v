(* C15 -- types of the extracted footprint (coq/gen/Footprint.v is a list of [access] records written by
   translator/footprint.go).  No proofs here. *)
From Coq Require Import NArith List String Bool.
Import ListNotations.
Open Scope string_scope.

(* classes of locations that operations on DISTINCT objects can have in common *)
Inductive location :=
| LGlobal (pkg name : string)        (* a package-level variable and what is reachable from it *)
| LOption (type field : string)      (* a field of a caller-supplied exported ...Options struct (an option value) *)
| LOwned (type field : string)       (* written through a pointer parameter into an object the caller owns (message, header, its own option block) *)
| LFieldBase (field unused : string) (* a field of a proto.FieldBase reached through a pointer: the factory's table unless freshly allocated *)
| LPool (pkg name : string).         (* a sync.Pool *)

Inductive akind := KR | KW | KGet | KPut | KDo.

Inductive guard :=
| GNone
| GInit                         (* package initialisation: before any goroutine of the program *)
| GOnce (pkg name : string)     (* inside the function given to Do of this package-level sync.Once *)
| GMutex (pkg name : string)    (* between Lock and Unlock of this package-level mutex *)
| GFresh                        (* FieldBase known to be freshly allocated: inside [if x.Name == "unknown"] *)
| GResetBeforePut               (* the pooled object is cleared in the statements before the Put *)
| GResetAfterGet.               (* deferred Put; the object is re-initialised (Reset) right after the Get *)

Record access := mkacc {
  a_pkg : string; a_fn : string; a_loc : location; a_kind : akind; a_guard : guard; a_file : string; a_line : N }.

Definition location_eqb (a b : location) : bool :=
  match a, b with
  | LGlobal p n, LGlobal p' n' => String.eqb p p' && String.eqb n n'
  | LOption p n, LOption p' n' => String.eqb p p' && String.eqb n n'
  | LOwned p n, LOwned p' n' => String.eqb p p' && String.eqb n n'
  | LFieldBase p n, LFieldBase p' n' => String.eqb p p' && String.eqb n n'
  | LPool p n, LPool p' n' => String.eqb p p' && String.eqb n n'
  | _, _ => false
  end.
