(* Outcomes and byte codecs shared by all models.  Every Go index / slice / binary.*.UintNN that can panic is a
   checked operation returning [Panic]; loops on fuel return [OutOfFuel] when exhausted. *)
From Coq Require Import NArith List Bool.
Import ListNotations.
Open Scope N_scope.

Definition bytes := list N.

Inductive outcome (A : Type) : Type :=
| Ok (a : A) | Err (e : N) | Panic (p : N) | OutOfFuel.
Arguments Ok {A} a. Arguments Err {A} e. Arguments Panic {A} p. Arguments OutOfFuel {A}.

Definition bind {A B} (x : outcome A) (f : A -> outcome B) : outcome B :=
  match x with Ok a => f a | Err e => Err e | Panic p => Panic p | OutOfFuel => OutOfFuel end.
Notation "'do' x <- a ; b" := (bind a (fun x => b)) (at level 200, x pattern, a at level 100, b at level 200).

(* error classes (the projection of Go error values the checks compare) *)
Definition E_EOF : N := 1.
Definition E_UnexpectedEOF : N := 2.
Definition E_NotFIT : N := 3.
Definition E_CRC : N := 4.
Definition E_MesgDefMissing : N := 5.
Definition E_InvalidBaseType : N := 6.
Definition E_TypeNotSupported : N := 7.
Definition E_Reader : N := 8.          (* an error injected by the reader *)
Definition E_Context : N := 9.

(* panic classes *)
Definition P_Index : N := 1.
Definition P_Slice : N := 2.
Definition P_DivZero : N := 3.

(* ---- little/big endian words *)
Fixpoint le_bytes (w : nat) (x : N) : bytes :=
  match w with O => [] | S w' => (x mod 256) :: le_bytes w' (x / 256) end.
Fixpoint le_word (bs : bytes) : N :=
  match bs with [] => 0 | b :: r => b + 256 * le_word r end.
Definition enc (big : bool) (w : nat) (x : N) : bytes := if big then rev (le_bytes w x) else le_bytes w x.
Definition dec (big : bool) (bs : bytes) : N := if big then le_word (rev bs) else le_word bs.

Definition bytes_okb (bs : bytes) : bool := forallb (fun b => b <? 256) bs.

Definition len {A} (l : list A) : N := N.of_nat (length l).
Fixpoint nth_opt {A} (l : list A) (i : nat) : option A :=
  match l, i with [], _ => None | x :: _, O => Some x | _ :: r, S i' => nth_opt r i' end.
Definition take {A} (n : N) (l : list A) := firstn (N.to_nat n) l.
Definition drop {A} (n : N) (l : list A) := skipn (N.to_nat n) l.
Fixpoint replace_nth {A} (l : list A) (i : nat) (x : A) : list A :=
  match l, i with [], _ => [] | _ :: r, O => x :: r | y :: r, S i' => y :: replace_nth r i' x end.
Definition pow2 (k : N) : N := 2 ^ k.
Definition wrap (w x : N) : N := x mod (2 ^ w).
