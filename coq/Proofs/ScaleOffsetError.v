(* Proofs/ScaleOffsetError.v (moved from notes/feasibility).
   Real-number core of C12_32bit / C05_value_32: four correctly rounded binary64 operations
   x/s - o + o then * s stay within 1/4 of x, so a ROUNDING conversion returns x.
   (eps_i, eta_i as delivered by Flocq.Prop.Relative.error_N_FLT for prec = 53, emin = -1074.) *)
From Coq Require Import Reals Lra.
From Interval Require Import Tactic.
Open Scope R_scope.

Lemma scaled_roundtrip_error x s o e1 e2 e3 e4 h1 h2 h3 h4 :
  Rabs x <= 4294967296 -> 1/2 <= s <= 131072 -> Rabs o <= 1024 ->
  Rabs e1 <= 1/9007199254740992 -> Rabs e2 <= 1/9007199254740992 ->
  Rabs e3 <= 1/9007199254740992 -> Rabs e4 <= 1/9007199254740992 ->
  Rabs h1 <= 1/1000000000000 -> Rabs h2 <= 1/1000000000000 ->
  Rabs h3 <= 1/1000000000000 -> Rabs h4 <= 1/1000000000000 ->
  let a := (x / s) * (1 + e1) + h1 in
  let b := (a - o) * (1 + e2) + h2 in
  let c := (b + o) * (1 + e3) + h3 in
  let d := (c * s) * (1 + e4) + h4 in
  Rabs (d - x) <= 1/4.
Proof.
  intros Hx Hs Ho H1 H2 H3 H4 G1 G2 G3 G4 a b c d.
  assert (Hs0 : s <> 0) by lra.
  replace (d - x) with
    (x * ((1+e1)*(1+e2)*(1+e3)*(1+e4) - 1)
     + s * (1+e4) * ((1+e3) * (h1*(1+e2) + h2 - o*e2) + h3) + h4)
    by (unfold d, c, b, a; field; exact Hs0).
  interval with (i_prec 90).
Qed.
