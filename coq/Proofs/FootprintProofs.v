(* C15 -- proofs about Model/Footprint.v: an invariant of the interleaving semantics gives race freedom and
   "same result as alone" for threads whose programs satisfy the side condition; the side condition computed on an
   extracted footprint implies the one on programs. *)
From Coq Require Import NArith List String Bool Lia.
Import ListNotations.
From Fit Require Import Model.FootprintTypes Model.Footprint.
Open Scope list_scope.

Lemma location_eqb_eq : forall a b, location_eqb a b = true <-> a = b.
Proof.
  intros a b; split.
  - destruct a, b; cbn; try discriminate; intros H; apply andb_true_iff in H; destruct H as [H1 H2];
      apply String.eqb_eq in H1; apply String.eqb_eq in H2; subst; reflexivity.
  - intros <-; destruct a; cbn; rewrite !String.eqb_refl; reflexivity.
Qed.

Lemma location_eqb_refl : forall a, location_eqb a a = true.
Proof. intros a; apply location_eqb_eq; reflexivity. Qed.

Lemma existsb_loc_in : forall o c, existsb (location_eqb o) c = true -> In o c.
Proof.
  intros o c H; apply existsb_exists in H; destruct H as [x [Hin Heq]].
  apply location_eqb_eq in Heq; subst; exact Hin.
Qed.

Lemma in_existsb_loc : forall o c, In o c -> existsb (location_eqb o) c = true.
Proof. intros o c H; apply existsb_exists; exists o; split; [exact H | apply location_eqb_refl]. Qed.

Section Proofs.
Context {priv : Type}.
Variable inits : list (location * location * val).
Variable mem0 : location -> val.

Local Notation instr := (instr priv).
Local Notation thread := (thread priv).
Local Notation owner := (owner inits).
Local Notation safe_from := (safe_from inits).
Local Notation safe := (@safe priv inits).
Local Notation tstep := (@tstep priv inits).
Local Notation step := (@step priv inits).
Local Notation steps := (@steps priv inits).
Local Notation racy := (@racy priv inits).
Local Notation touches := (@touches priv inits).
Local Notation canon := (@canon priv inits mem0).
Local Notation cstep := (@cstep priv inits mem0).
Local Notation canon_val := (canon_val inits mem0).
Local Notation inv := (inv inits mem0).

(* ---------------------------------------------------------------- the side condition on shapes *)

Definition head_ok (c : list location) (ex : list shape) (sh : shape) : Prop :=
  match sh with
  | SWrite _ => False
  | SPut _ b => b = true
  | SRead l => forall o v, owner l = Some (o, v) -> In o c \/ In (SOnce o) ex
  | _ => True
  end.

Lemma safe_from_split : forall ex c sh r, safe_from c (ex ++ sh :: r) = true -> head_ok c ex sh.
Proof.
  induction ex as [|a ex IH]; intros c sh r H.
  - cbn [app] in H. destruct sh; cbn in *; try exact I.
    + intros o v Ho. rewrite Ho in H. apply andb_true_iff in H. destruct H as [H _].
      left. apply existsb_loc_in. exact H.
    + discriminate.
    + apply andb_true_iff in H. destruct H as [H _]. exact H.
  - cbn [app] in H.
    assert (Hw : forall c', head_ok c' ex sh -> (forall o, In o c' -> In o c \/ a = SOnce o) -> head_ok c (a :: ex) sh).
    { intros c' Hh Hc. destruct sh; cbn in *; try exact Hh.
      intros o v Ho. destruct (Hh o v Ho) as [Hin|Hin].
      - destruct (Hc o Hin) as [H1|H1]; [left; exact H1 | right; left; exact H1].
      - right; right; exact Hin. }
    destruct a; cbn in H.
    + apply andb_true_iff in H. destruct H as [_ H]. apply (Hw c (IH _ _ _ H)). intros o Ho; left; exact Ho.
    + discriminate.
    + apply (Hw (o :: c) (IH _ _ _ H)). intros o' [Ho'|Ho']; [right; subst; reflexivity | left; exact Ho'].
    + apply (Hw c (IH _ _ _ H)). intros o Ho; left; exact Ho.
    + apply andb_true_iff in H. destruct H as [_ H]. apply (Hw c (IH _ _ _ H)). intros o Ho; left; exact Ho.
    + apply (Hw c (IH _ _ _ H)). intros o Ho; left; exact Ho.
Qed.

Lemma safe_from_mono : forall p c c', (forall o, In o c -> In o c') -> safe_from c p = true -> safe_from c' p = true.
Proof.
  induction p as [|sh p IH]; intros c c' Hc H; [reflexivity|].
  destruct sh; cbn in *.
  - apply andb_true_iff in H. destruct H as [H1 H2]. apply andb_true_iff. split; [|eapply IH; eauto].
    destruct (owner l) as [[o v]|]; [|reflexivity].
    apply in_existsb_loc. apply Hc. apply existsb_loc_in. exact H1.
  - discriminate.
  - eapply IH; [|exact H]. intros o' [Ho'|Ho']; [left; exact Ho' | right; apply Hc; exact Ho'].
  - eapply IH; eauto.
  - apply andb_true_iff in H. destruct H as [H1 H2]. apply andb_true_iff. split; [exact H1 | eapply IH; eauto].
  - eapply IH; eauto.
Qed.

Lemma called_after_incl : forall p c o, In o c -> In o (called_after c p).
Proof.
  induction p as [|sh p IH]; intros c o H; [exact H|].
  unfold called_after in *. cbn [fold_left]. apply IH. destruct sh; try exact H. right; exact H.
Qed.

Lemma safe_from_app : forall p q c, safe_from c p = true -> safe_from (called_after c p) q = true -> safe_from c (p ++ q) = true.
Proof.
  induction p as [|sh p IH]; intros q c Hp Hq; [exact Hq|].
  destruct sh; cbn in *; try discriminate.
  - apply andb_true_iff in Hp. destruct Hp as [H1 H2]. apply andb_true_iff. split; [exact H1 | apply IH; assumption].
  - apply IH; assumption.
  - apply IH; assumption.
  - apply andb_true_iff in Hp. destruct Hp as [H1 H2]. apply andb_true_iff. split; [exact H1 | apply IH; assumption].
  - apply IH; assumption.
Qed.

(* operations that are safe on their own compose: in sequence ... *)
Lemma safe_from_concat : forall ps c, Forall (fun p => safe_from [] p = true) ps -> safe_from c (List.concat ps) = true.
Proof.
  induction ps as [|p ps IH]; intros c H; [reflexivity|].
  inversion H as [|? ? Hp Hps]; subst. cbn [List.concat]. apply safe_from_app.
  - eapply safe_from_mono; [|exact Hp]. intros o [].
  - apply IH. exact Hps.
Qed.

(* ... and nested (a callee's accesses in the middle of the caller's) *)
Lemma safe_from_insert : forall p1 p2 q c, safe_from c (p1 ++ p2) = true -> safe_from [] q = true -> safe_from c (p1 ++ q ++ p2) = true.
Proof.
  induction p1 as [|sh p1 IH]; intros p2 q c H Hq.
  - cbn [app] in *. apply safe_from_app.
    + eapply safe_from_mono; [|exact Hq]. intros o [].
    + eapply safe_from_mono; [|exact H]. intros o Ho. apply called_after_incl. exact Ho.
  - destruct sh; cbn in *; try discriminate.
    + apply andb_true_iff in H. destruct H as [H1 H2]. apply andb_true_iff. split; [exact H1 | apply IH; assumption].
    + apply IH; assumption.
    + apply IH; assumption.
    + apply andb_true_iff in H. destruct H as [H1 H2]. apply andb_true_iff. split; [exact H1 | apply IH; assumption].
    + apply IH; assumption.
Qed.

(* ---------------------------------------------------------------- invariant of the interleaving semantics *)

Definition tinv (s : shared) (t : thread) : Prop :=
  exists ex, orig t = ex ++ prog t /\ pv t = canon ex (pv0 t) /\ safe (orig t) = true /\
             (forall o, In (IOnce o) ex -> done s o = true).

Lemma in_sonce_map : forall (ex : list instr) o, In (SOnce o) (map shape_of ex) -> In (IOnce o) ex.
Proof.
  intros ex o H. apply in_map_iff in H. destruct H as [i [Hi Hin]].
  destruct i; cbn in Hi; try discriminate. injection Hi as ->. exact Hin.
Qed.

Lemma tinv_head : forall s t i r, tinv s t -> prog t = i :: r ->
  match i with
  | IWrite _ _ => False
  | IPut _ b _ => b = true
  | IRead l _ => forall o v, owner l = Some (o, v) -> done s o = true
  | _ => True
  end.
Proof.
  intros s t i r [ex [Ho [_ [Hs Hd]]]] Hp.
  unfold Footprint.safe in Hs. rewrite Ho, Hp, map_app in Hs. cbn [map] in Hs.
  apply safe_from_split in Hs. destruct i; cbn in Hs; try exact I; try exact Hs.
  intros o v Hov. destruct (Hs o v Hov) as [[]|Hin]. apply Hd. apply in_sonce_map. exact Hin.
Qed.

Lemma canon_snoc : forall ex i x, canon (ex ++ [i]) x = cstep (canon ex x) i.
Proof. intros ex i x. unfold Footprint.canon. rewrite fold_left_app. reflexivity. Qed.

Lemma done_mono : forall s t s' t', tstep s t s' t' -> forall o, done s o = true -> done s' o = true.
Proof.
  intros s t s' t' H o Ho. inversion H; subst; cbn; try exact Ho.
  unfold upd. destruct (location_eqb o o0); [reflexivity | exact Ho].
Qed.

Lemma owner_run_init_same : forall o m l v, owner l = Some (o, v) -> run_init inits o m l = v.
Proof. intros o m l v H. unfold run_init. rewrite H, location_eqb_refl. reflexivity. Qed.

Lemma inv_step : forall s t s' t', tstep s t s' t' -> inv s -> tinv s t -> inv s'.
Proof.
  intros s t s' t' H [I1 [I2 I3]] Ht.
  inversion H; subst; try (split; [exact I1 | split; [exact I2 | exact I3]]).
  - exfalso. exact (tinv_head _ _ _ _ Ht H0).
  - (* first call of a Once *)
    split; [|split]; cbn.
    + intros l o' v Ho' Hd. unfold run_init. rewrite Ho'.
      destruct (location_eqb o' o) eqn:E; [reflexivity|].
      apply (I1 l o' v Ho'). unfold upd in Hd. rewrite E in Hd. exact Hd.
    + intros l Hl. unfold run_init. rewrite Hl. apply I2. exact Hl.
    + exact I3.
  - (* Get of a pooled object *)
    split; [exact I1 | split; [exact I2|]]. cbn. intros p' v' Hin. unfold upd in Hin.
    destruct (location_eqb p' p) eqn:E.
    + apply location_eqb_eq in E. subst p'. apply (I3 p). rewrite H1. apply in_app_iff. apply in_app_iff in Hin.
      destruct Hin as [Hin|Hin]; [left; exact Hin | right; right; exact Hin].
    + apply (I3 p'). exact Hin.
  - (* Put *)
    pose proof (tinv_head _ _ _ _ Ht H0) as Hr. cbn in Hr. subst reset.
    split; [exact I1 | split; [exact I2|]]. cbn. intros p' v' Hin. unfold upd in Hin.
    destruct (location_eqb p' p) eqn:E.
    + destruct Hin as [<-|Hin]; [reflexivity|]. apply location_eqb_eq in E. subst p'. apply (I3 p). exact Hin.
    + apply (I3 p'). exact Hin.
Qed.

Lemma tinv_other : forall s t s' t' u, tstep s t s' t' -> tinv s u -> tinv s' u.
Proof.
  intros s t s' t' u H [ex [Ho [Hp [Hs Hd]]]]. exists ex. repeat split; try assumption.
  intros o Hin. eapply done_mono; [exact H | apply Hd; exact Hin].
Qed.

Lemma tinv_step : forall s t s' t', tstep s t s' t' -> inv s -> tinv s t -> tinv s' t'.
Proof.
  intros s t s' t' H [I1 [I2 I3]] Ht.
  pose proof Ht as [ex [Ho [Hp [Hs Hd]]]].
  assert (Hex : forall i r x, prog t = i :: r -> x = cstep (pv t) i ->
                  (forall o, i = IOnce o -> done s' o = true) ->
                  tinv s' (next t r x)).
  { intros i r x Hpr Hx Hon. exists (ex ++ [i]). cbn. repeat split.
    - rewrite Ho, Hpr, <- app_assoc. reflexivity.
    - rewrite canon_snoc, <- Hp. exact Hx.
    - exact Hs.
    - intros o Hin. apply in_app_iff in Hin. destruct Hin as [Hin|[Hin|[]]].
      + eapply done_mono; [exact H | apply Hd; exact Hin].
      + apply Hon. exact Hin. }
  inversion H; subst.
  - (* read *) eapply Hex; [exact H0 | | intros; discriminate]. cbn.
    pose proof (tinv_head _ _ _ _ Ht H0) as Hr. cbn in Hr.
    unfold Footprint.canon_val. destruct (owner l) as [[o v]|] eqn:E.
    + rewrite (I1 l o v E (Hr o v eq_refl)). reflexivity.
    + rewrite (I2 l E). reflexivity.
  - exfalso. exact (tinv_head _ _ _ _ Ht H0).
  - eapply Hex; [exact H0 | reflexivity |]. intros o' Heq. injection Heq as <-. cbn. unfold upd. rewrite location_eqb_refl. reflexivity.
  - eapply Hex; [exact H0 | reflexivity |]. intros o' Heq. injection Heq as <-. exact H1.
  - eapply Hex; [exact H0 | reflexivity | intros; discriminate].
  - eapply Hex; [exact H0 | | intros; discriminate]. cbn.
    rewrite (I3 p v); [reflexivity|]. rewrite H1. apply in_app_iff. right; left; reflexivity.
  - eapply Hex; [exact H0 | reflexivity | intros; discriminate].
  - eapply Hex; [exact H0 | reflexivity | intros; discriminate].
Qed.

Definition ginv (c : config) : Prop := inv (fst c) /\ Forall (tinv (fst c)) (snd c).

Lemma ginv_step : forall c c', step c c' -> ginv c -> ginv c'.
Proof.
  intros c c' H [Hi Hf]. inversion H as [s s' a t t' b Ht]; subst. cbn in *.
  apply Forall_app in Hf. destruct Hf as [Ha Hb]. inversion Hb as [|? ? Htt Hb']; subst.
  split; cbn.
  - eapply inv_step; eauto.
  - apply Forall_app. split.
    + eapply Forall_impl; [|exact Ha]. intros u Hu. eapply tinv_other; eauto.
    + constructor; [eapply tinv_step; eauto|].
      eapply Forall_impl; [|exact Hb']. intros u Hu. eapply tinv_other; eauto.
Qed.

Lemma ginv_steps : forall c c', steps c c' -> ginv c -> ginv c'.
Proof. intros c c' H. induction H as [|c1 c2 c3 H1 _ IH]; intros G; [exact G | apply IH; eapply ginv_step; eauto]. Qed.

Definition ready (t : thread) : Prop := prog t = orig t /\ pv t = pv0 t /\ safe (orig t) = true.

Lemma ginv_start : forall s0 ts, inv s0 -> Forall ready ts -> ginv (s0, ts).
Proof.
  intros s0 ts Hi Hr. split; [exact Hi|]. cbn. eapply Forall_impl; [|exact Hr].
  intros t [H1 [H2 H3]]. exists []. cbn. split; [symmetry; exact H1 | split; [exact H2 | split; [exact H3 | intros o []]]].
Qed.

Lemma ginv_not_racy : forall c, ginv c -> ~ racy c.
Proof.
  intros [s ts] [Hi Hf] (a & t1 & b & t2 & d & i1 & r1 & i2 & r2 & l & w1 & w2 & Hts & Hp1 & Hp2 & Ht1 & Ht2 & Hw & Hon).
  cbn in *. subst ts.
  apply Forall_app in Hf. destruct Hf as [_ Hf]. inversion Hf as [|? ? Hi1 Hf']; subst.
  apply Forall_app in Hf'. destruct Hf' as [_ Hf']. inversion Hf' as [|? ? Hi2 _]; subst.
  pose proof (tinv_head _ _ _ _ Hi1 Hp1) as Hh1. pose proof (tinv_head _ _ _ _ Hi2 Hp2) as Hh2.
  inversion Ht1; subst; inversion Ht2; subst; cbn in *; try discriminate; try contradiction.
  - (* read / first Once *) rewrite (Hh1 _ _ H0) in H. discriminate.
  - (* first Once / read *) rewrite (Hh2 _ _ H0) in H. discriminate.
Qed.

Lemma steps_ghost : forall c c', steps c c' -> map (@orig priv) (snd c') = map (@orig priv) (snd c) /\ map (@pv0 priv) (snd c') = map (@pv0 priv) (snd c).
Proof.
  intros c c' H. induction H as [c|c1 c2 c3 H1 _ [IH1 IH2]]; [split; reflexivity|].
  rewrite IH1, IH2. inversion H1 as [s s' a t t' b Ht]; subst. cbn.
  rewrite !map_app. cbn [map]. inversion Ht; subst; cbn; split; reflexivity.
Qed.

(* ---------------------------------------------------------------- the theorems *)

Theorem noninterference : forall s0 ts, inv s0 -> Forall ready ts ->
  forall s ts', steps (s0, ts) (s, ts') ->
    ~ racy (s, ts') /\
    Forall (fun t' => prog t' = [] -> pv t' = canon (orig t') (pv0 t')) ts' /\
    map (@orig priv) ts' = map (@orig priv) ts /\ map (@pv0 priv) ts' = map (@pv0 priv) ts.
Proof.
  intros s0 ts Hi Hr s ts' Hs.
  pose proof (ginv_steps _ _ Hs (ginv_start _ _ Hi Hr)) as G.
  split; [apply ginv_not_racy; exact G|]. split.
  - destruct G as [_ Hf]. cbn in Hf. eapply Forall_impl; [|exact Hf].
    intros t' [ex [Ho [Hp _]]] Hfin. rewrite Hfin, app_nil_r in Ho. subst ex. exact Hp.
  - apply (steps_ghost _ _ Hs).
Qed.

Lemma nth_error_map_eq : forall A B (f : A -> B) l l' i x x', map f l' = map f l -> nth_error l i = Some x -> nth_error l' i = Some x' -> f x' = f x.
Proof.
  intros A B f l l' i x x' Hm H1 H2.
  apply (map_nth_error f) in H1. apply (map_nth_error f) in H2. rewrite Hm in H2. congruence.
Qed.

(* thread i of the concurrent run ends with the private store it ends with when it runs alone from the same state *)
Theorem same_as_alone : forall s0 ts, inv s0 -> Forall ready ts ->
  forall s ts' i t t', steps (s0, ts) (s, ts') -> nth_error ts i = Some t -> nth_error ts' i = Some t' -> prog t' = [] ->
  forall s1 t1, steps (s0, [t]) (s1, [t1]) -> prog t1 = [] -> pv t' = pv t1.
Proof.
  intros s0 ts Hi Hr s ts' i t t' Hs Hn Hn' Hfin s1 t1 Hs1 Hfin1.
  destruct (noninterference s0 ts Hi Hr s ts' Hs) as [_ [Hc [Ho Hv]]].
  assert (Hrt : ready t). { eapply Forall_forall; [exact Hr|]. eapply nth_error_In; eauto. }
  destruct (noninterference s0 [t] Hi (Forall_cons _ Hrt (Forall_nil _)) s1 [t1] Hs1) as [_ [Hc1 [Ho1 Hv1]]].
  rewrite Forall_forall in Hc. rewrite (Hc t' (nth_error_In _ _ Hn') Hfin).
  inversion Hc1 as [|? ? Hc1' _]; subst. rewrite (Hc1' Hfin1).
  cbn in Ho1, Hv1. injection Ho1 as Ho1. injection Hv1 as Hv1.
  rewrite (nth_error_map_eq _ _ (@orig priv) _ _ _ _ _ Ho Hn Hn'), (nth_error_map_eq _ _ (@pv0 priv) _ _ _ _ _ Hv Hn Hn').
  rewrite Ho1, Hv1. reflexivity.
Qed.

(* every thread can always take its next step (no instruction blocks): used for the refutation witness *)
Lemma run_prefix : forall ex (t : thread) s a b r, prog t = ex ++ r ->
  exists s' t', steps (s, a ++ t :: b) (s', a ++ t' :: b) /\ prog t' = r /\ orig t' = orig t /\ pv0 t' = pv0 t.
Proof.
  induction ex as [|i ex IH]; intros t s a b r Hp.
  - exists s, t. split; [apply steps_refl | repeat split; exact Hp || reflexivity].
  - cbn [app] in Hp.
    assert (Hone : exists s1 x, tstep s t s1 (next t (ex ++ r) x)).
    { destruct i.
      - eexists; eexists; eapply st_read; exact Hp.
      - eexists; eexists; eapply st_write; exact Hp.
      - destruct (done s o) eqn:E; eexists; eexists; [eapply st_once_done | eapply st_once_first]; eauto.
      - eexists; eexists; eapply st_get_fresh; exact Hp.
      - eexists; eexists; eapply st_put; exact Hp.
      - eexists; eexists; eapply st_local; exact Hp. }
    destruct Hone as [s1 [x H1]].
    destruct (IH (next t (ex ++ r) x) s1 a b r eq_refl) as [s' [t' [Hs [Hr [Ho Hv]]]]].
    exists s', t'. split; [|repeat split; assumption].
    eapply steps_cons; [apply step_at; exact H1 | exact Hs].
Qed.

(* a plain store in the program of an operation: two threads running that operation reach a racy configuration *)
Theorem unguarded_write_races : forall (p : list instr) l x1 x2 s0,
  In (SWrite l) (map shape_of p) ->
  exists s ts, steps (s0, [start p x1; start p x2]) (s, ts) /\ racy (s, ts).
Proof.
  intros p l x1 x2 s0 Hin.
  apply in_map_iff in Hin. destruct Hin as [i [Hsh Hin]].
  destruct i; cbn in Hsh; try discriminate. injection Hsh as ->.
  apply in_split in Hin. destruct Hin as [ex [r Hp]].
  destruct (run_prefix ex (start p x1) s0 [] [start p x2] (IWrite l f :: r) Hp) as [s1 [t1 [Hs1 [Hp1 _]]]].
  destruct (run_prefix ex (start p x2) s1 [t1] [] (IWrite l f :: r) Hp) as [s2 [t2 [Hs2 [Hp2 _]]]].
  cbn [app] in *. exists s2, [t1; t2]. split.
  - clear - Hs1 Hs2. induction Hs1; [exact Hs2 | eapply steps_cons; eauto].
  - exists [], t1, [], t2, [], (IWrite l f), r, (IWrite l f), r, l, true, true. cbn.
    repeat split; try assumption; constructor.
Qed.

End Proofs.

(* ---------------------------------------------------------------- from the extracted footprint to programs *)

Lemma called_after_app : forall p q c, called_after c (p ++ q) = called_after (called_after c p) q.
Proof. intros p q c. unfold called_after. apply fold_left_app. Qed.

Lemma fn_offenders_nil_safe : forall inits l c, fn_offenders inits c l = [] -> safe_from inits c (flat_map shapes_of_access l) = true.
Proof.
  intros inits. induction l as [|a l IH]; intros c H; [reflexivity|].
  cbn [fn_offenders] in H. cbn [flat_map].
  destruct (safe_from inits c (shapes_of_access a)) eqn:E; [|discriminate].
  cbn [app] in H. apply safe_from_app; [exact E | apply IH; exact H].
Qed.

Lemma fn_ok_safe : forall accs k, fn_ok accs k = true -> safe_from (inits_of (fun _ => 0%N) accs) [] (fn_shapes accs k) = true.
Proof.
  intros accs k H. unfold fn_ok in H. unfold fn_shapes. apply fn_offenders_nil_safe.
  destruct (fn_offenders _ _ _); [reflexivity | discriminate].
Qed.

(* the side condition does not depend on the values the Once stores, only on which locations it owns *)
Lemma owner_vals : forall vals accs l,
  match owner (inits_of vals accs) l, owner (inits_of (fun _ => 0%N) accs) l with
  | Some (o, _), Some (o', _) => o = o'
  | None, None => True
  | _, _ => False
  end.
Proof.
  intros vals accs l. unfold owner, inits_of.
  induction accs as [|a accs IH]; [exact I|].
  cbn [flat_map]. destruct (a_kind a); try exact IH. destruct (a_guard a); try exact IH.
  cbn [app find fst snd]. destruct (location_eqb (a_loc a) l); [reflexivity | exact IH].
Qed.

Lemma safe_from_vals : forall vals accs p c,
  safe_from (inits_of (fun _ => 0%N) accs) c p = true -> safe_from (inits_of vals accs) c p = true.
Proof.
  intros vals accs. induction p as [|sh p IH]; intros c H; [reflexivity|].
  destruct sh; cbn in *; try discriminate; try (apply IH; exact H).
  - apply andb_true_iff in H. destruct H as [H1 H2]. apply andb_true_iff. split; [|apply IH; exact H2].
    pose proof (owner_vals vals accs l) as Ho.
    destruct (owner (inits_of vals accs) l) as [[o v]|], (owner (inits_of (fun _ => 0%N) accs) l) as [[o' v']|]; try contradiction.
    + subst; exact H1.
    + reflexivity.
  - apply andb_true_iff in H. destruct H as [H1 H2]. apply andb_true_iff. split; [exact H1 | apply IH; exact H2].
Qed.

(* a thread whose program is a sequence of admitted operations of the footprint satisfies the side condition *)
Lemma admitted_safe : forall priv vals accs (p : list (instr priv)) ops,
  Forall (fun k => fn_ok accs k = true) ops ->
  map shape_of p = List.concat (map (fn_shapes accs) ops) ->
  safe (inits_of vals accs) p = true.
Proof.
  intros priv vals accs p ops Hops Hp. unfold safe. rewrite Hp.
  apply safe_from_vals. apply safe_from_concat.
  apply Forall_map. eapply Forall_impl; [|exact Hops]. intros k Hk. apply fn_ok_safe. exact Hk.
Qed.

Lemma find_some_offender : forall accs a, options_witness accs = Some a ->
  In a (offenders accs) /\ is_options_factory_write a = true.
Proof. intros accs a H. unfold options_witness in H. apply find_some in H. exact H. Qed.

Lemma options_write_shape : forall a, is_options_factory_write a = true -> a_guard a = GNone ->
  shapes_of_access a = [SWrite (LOption "mesgdef.Options" "Factory")].
Proof.
  intros a H Hg. unfold is_options_factory_write in H. unfold shapes_of_access. rewrite Hg.
  destruct (a_kind a); try discriminate. destruct (a_loc a); try discriminate.
  apply andb_true_iff in H. destruct H as [H _]. apply andb_true_iff in H. destruct H as [H _].
  apply andb_true_iff in H. destruct H as [H1 H2]. apply String.eqb_eq in H1. apply String.eqb_eq in H2. subst. reflexivity.
Qed.

(* a thread that runs a sequence of admitted operations of a footprint *)
Definition runs_admitted {priv} (accs : list access) (t : thread priv) : Prop :=
  prog t = orig t /\ pv t = pv0 t /\
  exists ops, Forall (fun k => fn_ok accs k = true) ops /\ map shape_of (orig t) = List.concat (map (fn_shapes accs) ops).

Theorem noninterference_extracted :
  forall (accs : list access) (priv : Type) (vals : location -> val) (mem0 : location -> val) (s0 : shared) (ts : list (thread priv)),
    inv (inits_of vals accs) mem0 s0 ->
    Forall (runs_admitted accs) ts ->
    forall s ts', steps (inits_of vals accs) (s0, ts) (s, ts') ->
      ~ racy (inits_of vals accs) (s, ts') /\
      forall i t t', nth_error ts i = Some t -> nth_error ts' i = Some t' -> prog t' = [] ->
        forall s1 t1, steps (inits_of vals accs) (s0, [t]) (s1, [t1]) -> prog t1 = [] -> pv t' = pv t1.
Proof.
  intros accs priv vals mem0 s0 ts Hi Hts s ts' Hs.
  assert (Hr : Forall (ready (inits_of vals accs)) ts).
  { eapply Forall_impl; [|exact Hts]. intros t [H1 [H2 [ops [Hops Hsh]]]].
    split; [exact H1 | split; [exact H2 | eapply admitted_safe; eauto]]. }
  split.
  - apply (noninterference _ mem0 s0 ts Hi Hr s ts' Hs).
  - intros i t t' Hn Hn' Hf s1 t1 Hs1 Hf1. eapply same_as_alone; eauto.
Qed.

Lemma in_swrite_by_search : forall l shs, existsb (fun sh => match sh with SWrite l' => location_eqb l' l | _ => false end) shs = true -> In (SWrite l) shs.
Proof.
  intros l shs H. apply existsb_exists in H. destruct H as [sh [Hin Hs]].
  destruct sh; try discriminate. apply location_eqb_eq in Hs. subst. exact Hin.
Qed.
