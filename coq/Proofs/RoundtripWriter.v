(* C01 x C09: the round trip through every destination kind.  Whatever the writer kind (plain, WriterAt, WriteSeeker, both), the
   write-buffer size and the data sizes the caller preset in the headers, the destination ends up holding the bytes of
   encode_fits (C09), and decoding the destination content yields the messages (C01). *)
From Coq Require Import NArith ZArith List Lia Bool.
Import ListNotations.
From Fit Require Import Model.Encoder Model.Writer Proofs.WriterProofs Proofs.RoundtripSeq Proofs.RoundtripDev Proofs.RoundtripChain Proofs.RoundtripCk.
Open Scope N_scope.

Lemma parts_results c : forall fs (ps : list (eparts * N)), Forall2 (fun f x => encode_parts c f = Ok (fst x)) fs ps ->
  exists rs, Forall2 (fun f r => encode_fit c f = Ok r) fs rs /\ map (fun x => sequence_bytes (fst x)) ps = map er_bytes rs.
Proof.
  induction 1 as [|f x fs ps Hfx HF (rs & IH1 & IH2)]; [exists []; split; [constructor|reflexivity]|].
  pose proof (parts_are_fit c f) as Hp. rewrite Hfx in Hp. destruct (encode_fit c f) as [r| | |] eqn:E; try contradiction.
  exists (r :: rs). split; [constructor; [exact E|exact IH1]|]. cbn [map]. rewrite Hp, IH2. reflexivity.
Qed.

Lemma fits_of_results c : forall fs rs acc, Forall2 (fun f r => encode_fit c f = Ok r) fs rs -> encode_fits c fs acc = Ok (acc ++ concat (map er_bytes rs)).
Proof.
  intros fs rs acc H. revert acc. induction H as [|f r fs rs Hfr HF IH]; intros acc; cbn [encode_fits map concat]; [rewrite app_nil_r; reflexivity|].
  rewrite Hfr. cbn [bind]. rewrite IH, app_assoc. reflexivity.
Qed.

Theorem roundtrip_any_writer c dc k size fs (ps : list (eparts * N)) : e_compressed c = false -> c_expand dc = false -> 765 <= c_bufsize dc ->
  fs <> [] -> Forall2 (fun f x => encode_parts c f = Ok (fst x)) fs ps ->
  exists w' rs, encode_chain (wst_new k size [] None) ps [] = (repeat false (length ps), w')
    /\ Forall2 (fun f r => encode_fit c f = Ok r) fs rs /\ final_bytes w' = concat (map er_bytes rs)
    /\ (Forall (fun r => msgs_rtd (e_big c) [] (er_msgs r) /\ len (er_bytes r) < 4294967296 /\ bytes_ok (er_bytes r)) rs ->
        exists fts, decode_stream dc (final_bytes w') = Ok fts /\ Forall2 (fun ft r => map content (fit_msgs ft) = map content (er_msgs r)) fts rs).
Proof.
  intros Hcomp Hex Hbuf Hne HF.
  assert (Hok : Forall (fun x => parts_ok (fst x)) ps).
  { clear Hne. induction HF as [|f x fs ps Hfx HF IH]; constructor; [eapply encode_parts_ok; exact Hfx|exact IH]. }
  destruct (writer_kind_independent k size ps Hok) as (w' & Hw & Hb).
  destruct (parts_results c fs ps HF) as (rs & Hrs & Hmap).
  exists w', rs. split; [exact Hw|]. split; [exact Hrs|]. rewrite Hb, Hmap. split; [reflexivity|].
  intros Hgood. pose proof (fits_of_results c fs rs [] Hrs) as Hfits. cbn [app] in Hfits.
  destruct (roundtrip_any c dc fs _ Hcomp Hex Hbuf Hne Hfits) as (rs' & Hrs' & Hout & Hdec).
  assert (Heq : rs' = rs).
  { clear - Hrs Hrs'. revert rs' Hrs'. induction Hrs as [|f r fs rs Hfr HF IH]; intros rs' H'; inversion H'; subst; [reflexivity|]. f_equal; [congruence|apply IH; assumption]. }
  subst rs'. apply Hdec. exact Hgood.
Qed.

(* the same through the stream encoder (WriteMessage per message, SequenceCompleted per sequence) *)
Theorem roundtrip_stream_writer c dc k size fs (ps : list eparts) : e_compressed c = false -> c_expand dc = false -> 765 <= c_bufsize dc ->
  fs <> [] -> Forall2 (fun f p => encode_parts c f = Ok p) fs ps -> (can_seek k || can_writeat k = true)%bool ->
  exists w' rs, stream_chain (wst_new k size [] None) ps 0 [] = (repeat false (length ps), w')
    /\ Forall2 (fun f r => encode_fit c f = Ok r) fs rs /\ final_bytes w' = concat (map er_bytes rs)
    /\ (Forall (fun r => msgs_rtd (e_big c) [] (er_msgs r) /\ len (er_bytes r) < 4294967296 /\ bytes_ok (er_bytes r)) rs ->
        exists fts, decode_stream dc (final_bytes w') = Ok fts /\ Forall2 (fun ft r => map content (fit_msgs ft) = map content (er_msgs r)) fts rs).
Proof.
  intros Hcomp Hex Hbuf Hne HF Hk.
  assert (Hok : Forall parts_ok ps).
  { clear Hne. induction HF as [|f x fs ps Hfx HF IH]; constructor; [eapply encode_parts_ok; exact Hfx|exact IH]. }
  destruct (stream_equals_batch k size ps Hok Hk) as (w' & Hw & Hb).
  assert (HF2 : Forall2 (fun f (x : eparts * N) => encode_parts c f = Ok (fst x)) fs (map (fun p => (p, 0)) ps)).
  { clear - HF. induction HF; cbn [map]; constructor; auto. }
  destruct (parts_results c fs _ HF2) as (rs & Hrs & Hmap). rewrite map_map in Hmap. cbn [fst] in Hmap. change (map (fun x : eparts => sequence_bytes x) ps) with (map sequence_bytes ps) in Hmap.
  exists w', rs. split; [exact Hw|]. split; [exact Hrs|]. rewrite Hb, Hmap. split; [reflexivity|].
  intros Hgood. pose proof (fits_of_results c fs rs [] Hrs) as Hfits. cbn [app] in Hfits.
  destruct (roundtrip_any c dc fs _ Hcomp Hex Hbuf Hne Hfits) as (rs' & Hrs' & Hout & Hdec).
  assert (Heq : rs' = rs).
  { clear - Hrs Hrs'. revert rs' Hrs'. induction Hrs as [|f r fs rs Hfr HF IH]; intros rs' H'; inversion H'; subst; [reflexivity|]. f_equal; [congruence|apply IH; assumption]. }
  subst rs'. apply Hdec. exact Hgood.
Qed.
