(* C20 -- proofs about Model/Activity.v.
   Part 1: the in-place swap-compaction loop (with in-place replacement, state and early exit) is the stateful filter-map.
   Part 2: remover / reducer specifications.  Part 3: concealer.  Part 4: combiner. *)
From Coq Require Import NArith ZArith List Bool Lia Arith Permutation Sorted.
Import ListNotations.
From Fit Require Import Model.Activity.
Open Scope N_scope.

(* ================================================================ Part 1: compact = sfm *)
Section CompactProofs.
Context {A St : Type} (d : A) (stop : St -> bool) (decide : St -> A -> option A * St).
Local Notation set_nth := (@set_nth A).
Local Notation swap := (@swap A d).
Local Notation step := (@step A St d stop decide).
Local Notation sfm := (@sfm A St stop decide).

(* what the loop has kept / its state after a prefix on which it did not stop *)
Fixpoint kept (s : St) (xs : list A) : list A :=
  match xs with
  | [] => []
  | x :: r => match decide s x with (Some y, s') => y :: kept s' r | (None, s') => kept s' r end
  end.
Fixpoint stafter (s : St) (xs : list A) : St :=
  match xs with [] => s | x :: r => stafter (snd (decide s x)) r end.
Fixpoint nostops (s : St) (xs : list A) : bool :=
  match xs with [] => true | x :: r => negb (stop s) && nostops (snd (decide s x)) r end.

Lemma kept_app s a b : kept s (a ++ b) = kept s a ++ kept (stafter s a) b.
Proof.
  revert s. induction a as [|x a IH]; intros s; cbn [kept stafter app]; [reflexivity|].
  destruct (decide s x) as [[y|] s']; cbn [snd]; rewrite IH; reflexivity.
Qed.
Lemma stafter_app s a b : stafter s (a ++ b) = stafter (stafter s a) b.
Proof. revert s. induction a as [|x a IH]; intros s; cbn [stafter app]; [reflexivity|apply IH]. Qed.
Lemma nostops_app s a b : nostops s (a ++ b) = nostops s a && nostops (stafter s a) b.
Proof.
  revert s. induction a as [|x a IH]; intros s; cbn [nostops stafter app]; [reflexivity|].
  rewrite IH, andb_assoc. reflexivity.
Qed.
Lemma sfm_stopped s b : stop s = true -> sfm s b = (b, s).
Proof. intros H. destruct b as [|x r]; cbn [Activity.sfm]; [reflexivity|rewrite H; reflexivity]. Qed.
Lemma sfm_app s a b : nostops s a = true ->
  sfm s (a ++ b) = (kept s a ++ fst (sfm (stafter s a) b), snd (sfm (stafter s a) b)).
Proof.
  revert s. induction a as [|x a IH]; intros s H; cbn [nostops] in H; cbn [kept stafter app].
  - destruct (sfm s b); reflexivity.
  - apply andb_prop in H. destruct H as [H1 H2]. apply negb_true_iff in H1.
    cbn [Activity.sfm]. rewrite H1. destruct (decide s x) as [[y|] s'] eqn:E; cbn [snd] in *.
    + rewrite (IH s' H2). reflexivity.
    + rewrite (IH s' H2). reflexivity.
Qed.
Lemma sfm_nostops s a : nostops s a = true -> sfm s a = (kept s a, stafter s a).
Proof. intros H. rewrite <- (app_nil_r a) at 1. rewrite (sfm_app s a [] H). cbn. rewrite app_nil_r. reflexivity. Qed.

Lemma set_nth_app_r (a b : list A) k v : set_nth (a ++ b) (length a + k) v = a ++ set_nth b k v.
Proof. induction a as [|y a IH]; cbn; [reflexivity|]. f_equal. exact IH. Qed.
Lemma nth_app_r (a b : list A) k : nth (length a + k) (a ++ b) d = nth k b d.
Proof. induction a as [|y a IH]; cbn; [reflexivity|exact IH]. Qed.

Lemma set_nth_mid (K J rest : list A) x y i : i = (length K + length J)%nat ->
  set_nth (K ++ J ++ x :: rest) i y = K ++ J ++ y :: rest.
Proof.
  intros ->. rewrite set_nth_app_r. f_equal. replace (length J) with (length J + 0)%nat by lia.
  rewrite set_nth_app_r. reflexivity.
Qed.
Lemma nth_mid (K J rest : list A) x i : i = (length K + length J)%nat -> nth i (K ++ J ++ x :: rest) d = x.
Proof.
  intros ->. rewrite nth_app_r. replace (length J) with (length J + 0)%nat by lia. rewrite nth_app_r. reflexivity.
Qed.

Lemma swap_shape (K js rest : list A) j0 x :
  swap (K ++ (j0 :: js) ++ (x :: rest)) (length K + S (length js)) (length K)
  = K ++ (x :: js) ++ (j0 :: rest).
Proof.
  unfold Activity.swap. set (l := K ++ (j0 :: js) ++ x :: rest).
  assert (Hi : nth (length K + S (length js)) l d = x).
  { unfold l. rewrite nth_app_r. cbn [app nth]. replace (length js) with (length js + 0)%nat by lia. rewrite nth_app_r. reflexivity. }
  assert (Hj : nth (length K) l d = j0).
  { unfold l. replace (length K) with (length K + 0)%nat at 1 by lia. rewrite nth_app_r. reflexivity. }
  rewrite Hi, Hj. unfold l.
  rewrite set_nth_app_r. cbn [app Activity.set_nth].
  replace (set_nth (js ++ x :: rest) (length js) j0) with (js ++ j0 :: rest).
  2:{ replace (length js) with (length js + 0)%nat by lia. rewrite set_nth_app_r. reflexivity. }
  replace (length K) with (length K + 0)%nat at 1 by lia. rewrite set_nth_app_r. reflexivity.
Qed.
Lemma swap_shape' (K js rest : list A) j0 x i : i = (length K + S (length js))%nat ->
  swap (K ++ (j0 :: js) ++ (x :: rest)) i (length K) = K ++ (x :: js) ++ (j0 :: rest).
Proof. intros ->. apply swap_shape. Qed.

Lemma firstn_S_snoc (xs : list A) i : (i < length xs)%nat -> firstn (S i) xs = firstn i xs ++ [nth i xs d].
Proof. revert i. induction xs as [|y r IH]; intros i H; cbn in H; [lia|]. destruct i; cbn; [reflexivity|]. f_equal. apply IH. lia. Qed.
Lemma skipn_cons_nth (xs : list A) i : (i < length xs)%nat -> skipn i xs = nth i xs d :: skipn (S i) xs.
Proof. revert i. induction xs as [|y r IH]; intros i H; cbn in H; [lia|]. destruct i; cbn; [reflexivity|]. apply IH. lia. Qed.

Section Inv.
Variables (s0 : St) (xs : list A).
(* the array after the loop has looked at the first h elements without stopping *)
Definition P (h : nat) (l : loopst) : Prop :=
  nostops s0 (firstn h xs) = true /\ ls_st l = stafter s0 (firstn h xs) /\
  exists J, ls_arr l = kept s0 (firstn h xs) ++ J ++ skipn h xs /\
            ls_valid l = length (kept s0 (firstn h xs)) /\
            (length (kept s0 (firstn h xs)) + length J = h)%nat.
Definition Inv (i : nat) (l : loopst) : Prop :=
  match ls_halt l with
  | None => P i l
  | Some h => (h <= i)%nat /\ stop (stafter s0 (firstn h xs)) = true /\ P h l
  end.

Lemma step_inv i l : (i < length xs)%nat -> Inv i l -> Inv (S i) (step l i).
Proof.
  intros Hi HI. unfold Inv in HI. unfold Activity.step.
  destruct (ls_halt l) as [h|] eqn:Eh.
  - unfold Inv. rewrite Eh. destruct HI as (H1 & H2 & H3). split; [lia|]. split; assumption.
  - destruct HI as (Hns & Hst & J & Ha & Hv & Hlen).
    destruct (stop (ls_st l)) eqn:Estop.
    + unfold Inv. cbn [ls_halt]. split; [lia|]. split; [rewrite <- Hst; exact Estop|].
      unfold P. cbn [ls_st ls_arr ls_valid]. split; [exact Hns|]. split; [exact Hst|]. exists J. auto.
    + set (K := kept s0 (firstn i xs)) in *. set (x := nth i xs d).
      assert (Hsk : skipn i xs = x :: skipn (S i) xs) by (apply skipn_cons_nth; exact Hi).
      assert (Hx : nth i (ls_arr l) d = x).
      { rewrite Ha, Hsk. apply nth_mid. lia. }
      rewrite Hx.
      assert (Hf : firstn (S i) xs = firstn i xs ++ [x]) by (apply firstn_S_snoc; exact Hi).
      assert (Hns' : nostops s0 (firstn (S i) xs) = true).
      { rewrite Hf, nostops_app, Hns. cbn [nostops andb]. rewrite <- Hst, Estop. reflexivity. }
      assert (Hst' : stafter s0 (firstn (S i) xs) = snd (decide (ls_st l) x)).
      { rewrite Hf, stafter_app. cbn [stafter]. rewrite Hst. reflexivity. }
      assert (Hk' : kept s0 (firstn (S i) xs) = K ++ match fst (decide (ls_st l) x) with Some y => [y] | None => [] end).
      { rewrite Hf, kept_app. fold K. cbn [kept]. rewrite <- Hst. destruct (decide (ls_st l) x) as [[y|] s']; reflexivity. }
      destruct (decide (ls_st l) x) as [[y|] s'] eqn:Ed; cbn [fst snd] in *.
      * (* kept, possibly replaced *)
        assert (Ha1 : set_nth (ls_arr l) i y = K ++ J ++ y :: skipn (S i) xs).
        { rewrite Ha, Hsk. apply set_nth_mid. lia. }
        unfold Inv. cbn [ls_halt]. unfold P. cbn [ls_st ls_arr ls_valid].
        split; [exact Hns'|]. split; [symmetry; exact Hst'|]. rewrite Hk'.
        destruct J as [|j0 js].
        -- replace (Nat.eqb i (ls_valid l)) with true by (symmetry; apply Nat.eqb_eq; cbn in Hlen; lia).
           exists []. rewrite Ha1. cbn [app]. rewrite <- app_assoc. cbn [app].
           split; [reflexivity|]. split; [rewrite app_length; cbn; lia|]. rewrite app_length. cbn in *. lia.
        -- replace (Nat.eqb i (ls_valid l)) with false by (symmetry; apply Nat.eqb_neq; cbn in Hlen; lia).
           exists (js ++ [j0]). rewrite Ha1, Hv.
           rewrite (swap_shape' K js (skipn (S i) xs) j0 y i) by (cbn in Hlen; lia).
           split; [rewrite <- !app_assoc; reflexivity|].
           split; [rewrite app_length; cbn; lia|]. rewrite !app_length. cbn in *. lia.
      * (* dropped *)
        unfold Inv. cbn [ls_halt]. unfold P. cbn [ls_st ls_arr ls_valid].
        split; [exact Hns'|]. split; [symmetry; exact Hst'|]. rewrite Hk', app_nil_r.
        exists (J ++ [x]). rewrite Ha, Hsk. split; [rewrite <- !app_assoc; reflexivity|].
        split; [exact Hv|]. rewrite app_length. cbn. lia.
Qed.

Lemma loop_inv : forall n, (n <= length xs)%nat -> Inv n (fold_left step (seq 0 n) (LS xs 0 s0 None)).
Proof.
  induction n as [|n IH]; intros Hn.
  - unfold Inv, P. cbn. split; [reflexivity|]. split; [reflexivity|]. exists []. cbn. auto.
  - rewrite seq_S, fold_left_app. cbn [fold_left Nat.add]. apply step_inv; [lia|apply IH; lia].
Qed.
End Inv.

(* the loop, with replacement in place, state and early exit, is the stateful filter-map *)
Theorem compact_is_sfm (s0 : St) (xs : list A) : compact d stop decide s0 xs = sfm s0 xs.
Proof.
  unfold compact, compact_loop. pose proof (loop_inv s0 xs (length xs) (le_n _)) as HI. unfold Inv in HI.
  destruct (fold_left step (seq 0 (length xs)) (LS xs 0 s0 None)) as [a v st hl]. cbn [ls_halt ls_arr ls_valid ls_st] in *.
  destruct hl as [h|].
  - destruct HI as (Hh & Hstop & Hns & Hst & J & Ha & Hv & Hlen). cbn [ls_st ls_arr ls_valid] in *.
    replace (sfm s0 xs) with (sfm s0 (firstn h xs ++ skipn h xs)) by (rewrite firstn_skipn; reflexivity).
    rewrite (sfm_app s0 _ _ Hns), (sfm_stopped _ _ Hstop). cbn [fst snd].
    subst a v st. f_equal.
    rewrite firstn_app, Nat.sub_diag, firstn_all. cbn [firstn]. rewrite app_nil_r. f_equal.
    rewrite app_assoc. rewrite skipn_app. rewrite app_length. replace (h - (length (kept s0 (firstn h xs)) + length J))%nat with O by lia.
    rewrite skipn_all2 by (rewrite app_length; lia). reflexivity.
  - destruct HI as (Hns & Hst & J & Ha & Hv & Hlen). cbn [ls_st ls_arr ls_valid] in *.
    rewrite firstn_all in *. rewrite skipn_all, app_nil_r in Ha. rewrite (sfm_nostops s0 xs Hns).
    subst a v st. f_equal. rewrite firstn_app, Nat.sub_diag, firstn_all. cbn [firstn]. rewrite app_nil_r.
    rewrite skipn_all2 by (rewrite app_length; lia). apply app_nil_r.
Qed.
End CompactProofs.

(* the stateless instance: the swap loop is a stable [filter] *)
Lemma sfm_pure_keep (keep : mesg -> bool) ms : fst (sfm nostop (pure_keep keep) tt ms) = filter keep ms.
Proof.
  induction ms as [|m r IH]; cbn [sfm filter]; [reflexivity|]. unfold nostop at 1, pure_keep at 1.
  destruct (keep m); [|exact IH]. destruct (sfm nostop (pure_keep keep) tt r) eqn:E. cbn [fst] in *. f_equal. exact IH.
Qed.
Theorem swap_compact_is_filter (keep : mesg -> bool) ms : compact_keep keep ms = filter keep ms.
Proof. unfold compact_keep. rewrite compact_is_sfm. apply sfm_pure_keep. Qed.

(* ================================================================ Part 2: remover, reducer *)
Lemma filter_filter {A} (p q : A -> bool) l : filter p (filter q l) = filter (fun x => q x && p x) l.
Proof.
  induction l as [|x r IH]; cbn [filter]; [reflexivity|]. destruct (q x); cbn [filter andb]; [|exact IH].
  destruct (p x); [f_equal|]; exact IH.
Qed.
Lemma filter_true {A} (l : list A) : filter (fun _ => true) l = l.
Proof. induction l as [|x r IH]; cbn; [reflexivity|f_equal; exact IH]. Qed.

Definition is_devdata (m : mesg) : bool := (mnum m =? DEVELOPER_DATA_ID) || (mnum m =? FIELD_DESCRIPTION).
Definition clear_dev (m : mesg) : mesg := M (mnum m) (mfields m) [].
Lemma sfm_devdata ms : fst (sfm nostop devdata_decide tt ms) = map clear_dev (filter (fun m => negb (is_devdata m)) ms).
Proof.
  induction ms as [|m r IH]; cbn [sfm filter map]; [reflexivity|]. unfold nostop at 1, devdata_decide at 1, is_devdata at 1.
  destruct ((mnum m =? DEVELOPER_DATA_ID) || (mnum m =? FIELD_DESCRIPTION)); cbn [negb]; [exact IH|].
  destruct (sfm nostop devdata_decide tt r) eqn:E. cbn [fst map] in *. unfold clear_dev at 1. f_equal. exact IH.
Qed.

(* the messages Remove selects for deletion, spelled out *)
Definition remove_selected (unknown : bool) (nums : list N) (dev : bool) (m : mesg) : bool :=
  (unknown && negb (memN (mnum m) known_nums)) || memN (mnum m) nums || (dev && is_devdata m).
(* Remove deletes exactly the selected messages and keeps all others in order and content (developer fields emptied on request) *)
Theorem remove_spec unknown nums dev ms :
  remove unknown nums dev ms =
  map (fun m => if dev then clear_dev m else m) (filter (fun m => negb (remove_selected unknown nums dev m)) ms).
Proof.
  unfold remove, remove_unknown, remove_nums, remove_devdata.
  set (ms1 := if unknown then compact_keep (fun m => memN (mnum m) known_nums) ms else ms).
  assert (H1 : ms1 = filter (fun m => negb (unknown && negb (memN (mnum m) known_nums))) ms).
  { unfold ms1. destruct unknown; cbn [andb negb].
    - rewrite swap_compact_is_filter. apply filter_ext. intros m. rewrite negb_involutive. reflexivity.
    - symmetry. apply filter_true. }
  set (ms2 := match nums with [] => ms1 | _ :: _ => compact_keep (fun m => negb (memN (mnum m) nums)) ms1 end).
  assert (H2 : ms2 = filter (fun m => negb (memN (mnum m) nums)) ms1).
  { unfold ms2. destruct nums as [|n nums']; [cbn; symmetry; apply filter_true|]. apply swap_compact_is_filter. }
  rewrite H2, H1, filter_filter. unfold remove_selected. destruct dev; cbn [andb orb].
  - rewrite compact_is_sfm, sfm_devdata, filter_filter. f_equal. apply filter_ext. intros m.
    destruct unknown, (memN (mnum m) known_nums), (memN (mnum m) nums), (is_devdata m); reflexivity.
  - rewrite map_id. apply filter_ext. intros m.
    destruct unknown, (memN (mnum m) known_nums), (memN (mnum m) nums); reflexivity.
Qed.
(* order: the result is the input with messages struck out, never reordered *)
Corollary remove_no_dev_is_filter unknown nums ms :
  remove unknown nums false ms = filter (fun m => negb (remove_selected unknown nums false m)) ms.
Proof. rewrite remove_spec. apply map_id. Qed.

(* ---------------------------------------------------------------- reduce by distance / time *)
(* the statement's selection: the first record is always kept; a later record is dropped exactly when it lies closer than the
   interval to the previously KEPT record; everything that is not a record stays *)
Fixpoint reduce_select (key thr : N) (prev : option mesg) (ms : list mesg) : list mesg :=
  match ms with
  | [] => []
  | m :: r =>
      if is_rec m then
        match prev with
        | None => m :: reduce_select key thr (Some m) r
        | Some p => if sub32 (get_u32 key m) (get_u32 key p) <? thr then reduce_select key thr prev r
                    else m :: reduce_select key thr (Some m) r
        end
      else m :: reduce_select key thr prev r
  end.
Definition has_key (key : N) (m : mesg) : Prop := is_rec m = true -> get_u32 key m <> U32INV.

Lemma reduce_interval_gen key thr : forall ms last reached prev,
  Forall (has_key key) ms ->
  (reached = false -> prev = None) ->
  (reached = true -> exists p, prev = Some p /\ get_u32 key p = last) ->
  fst (sfm nostop (interval_decide key thr) (last, reached) ms) = reduce_select key thr prev ms.
Proof.
  induction ms as [|m r IH]; intros last reached prev HF H0 H1; cbn [sfm reduce_select]; [reflexivity|].
  unfold nostop at 1. pose proof (Forall_inv HF) as Hm. pose proof (Forall_inv_tail HF) as Hr. unfold has_key in Hm.
  unfold interval_decide at 1. destruct (is_rec m) eqn:Erec.
  - specialize (Hm eq_refl). apply N.eqb_neq in Hm. destruct reached; cbn [negb].
    + destruct (H1 eq_refl) as (p & -> & Hp). rewrite Hm. rewrite Hp.
      destruct (sub32 (get_u32 key m) last <? thr).
      * apply (IH last true (Some p) Hr); [discriminate|intros _; eauto].
      * destruct (sfm nostop (interval_decide key thr) (get_u32 key m, true) r) eqn:E. cbn [fst]. f_equal.
        change l with (fst (l, p0)). rewrite <- E. apply (IH _ true (Some m) Hr); [discriminate|intros _; eauto].
    + rewrite (H0 eq_refl). rewrite Hm.
      destruct (sfm nostop (interval_decide key thr) (get_u32 key m, true) r) eqn:E. cbn [fst]. f_equal.
      change l with (fst (l, p)). rewrite <- E. apply (IH _ true (Some m) Hr); [discriminate|intros _; eauto].
  - destruct (sfm nostop (interval_decide key thr) (last, reached) r) eqn:E. cbn [fst]. f_equal.
    change l with (fst (l, p)). rewrite <- E. apply (IH last reached prev Hr H0 H1).
Qed.
(* reduce = the statement's selection, on inputs whose records all carry the reduced quantity (outside finding reduce_record_without_key) *)
Theorem reduce_interval_spec key thr ms : Forall (has_key key) ms ->
  reduce_interval key thr ms = reduce_select key thr None ms.
Proof.
  intros HF. unfold reduce_interval. rewrite compact_is_sfm.
  apply (reduce_interval_gen key thr ms 0 false None HF); [reflexivity|discriminate].
Qed.
(* the hypothesis is exactly the negation of the finding's classifier *)
Lemma has_key_of_classifier key ms : cls_reduce_record_without_key key ms = false -> Forall (has_key key) ms.
Proof.
  unfold cls_reduce_record_without_key. intros H. apply Forall_forall. intros m Hin Hr Hk.
  assert (X : existsb (fun m => is_rec m && (get_u32 key m =? U32INV)) ms = true).
  { apply existsb_exists. exists m. split; [exact Hin|]. rewrite Hr, Hk, N.eqb_refl. reflexivity. }
  congruence.
Qed.
Theorem reduce_interval_spec_outside_finding key thr ms : cls_reduce_record_without_key key ms = false ->
  reduce_interval key thr ms = reduce_select key thr None ms.
Proof. intros H. apply reduce_interval_spec. apply has_key_of_classifier. exact H. Qed.
(* unconditional parts: the loop is the stateful filter; every non-record survives in order; the first record survives *)
Theorem reduce_interval_is_sfm key thr ms : reduce_interval key thr ms = fst (sfm nostop (interval_decide key thr) (0, false) ms).
Proof. unfold reduce_interval. rewrite compact_is_sfm. reflexivity. Qed.
Lemma sfm_interval_nonrec key thr : forall ms s,
  filter (fun m => negb (is_rec m)) (fst (sfm nostop (interval_decide key thr) s ms)) = filter (fun m => negb (is_rec m)) ms.
Proof.
  induction ms as [|m r IH]; intros s; cbn [sfm]; [reflexivity|]. unfold nostop at 1.
  destruct s as [last reached]. unfold interval_decide at 1. cbn [filter]. destruct (is_rec m) eqn:Erec; cbn [negb].
  - destruct (negb reached).
    + destruct (sfm nostop (interval_decide key thr) _ r) eqn:E. cbn [fst filter]. rewrite Erec. cbn [negb].
      change l with (fst (l, p)). rewrite <- E. apply IH.
    + destruct (get_u32 key m =? U32INV); [apply IH|]. destruct (sub32 (get_u32 key m) last <? thr); [apply IH|].
      destruct (sfm nostop (interval_decide key thr) _ r) eqn:E. cbn [fst filter]. rewrite Erec. cbn [negb].
      change l with (fst (l, p)). rewrite <- E. apply IH.
  - destruct (sfm nostop (interval_decide key thr) (last, reached) r) eqn:E. cbn [fst filter]. rewrite Erec. cbn [negb]. f_equal.
    change l with (fst (l, p)). rewrite <- E. apply IH.
Qed.
Theorem reduce_keeps_non_records key thr ms :
  filter (fun m => negb (is_rec m)) (reduce_interval key thr ms) = filter (fun m => negb (is_rec m)) ms.
Proof. rewrite reduce_interval_is_sfm. apply sfm_interval_nonrec. Qed.
Theorem reduce_first_record_kept key thr pre m post :
  Forall (fun x => is_rec x = false) pre -> is_rec m = true ->
  exists rest, reduce_interval key thr (pre ++ m :: post) = pre ++ m :: rest.
Proof.
  intros Hpre Hm. rewrite reduce_interval_is_sfm. induction pre as [|x pre IH]; cbn [app sfm].
  - unfold nostop at 1, interval_decide at 1. rewrite Hm. cbn [negb].
    destruct (sfm nostop (interval_decide key thr) _ post) eqn:E. cbn [fst]. eauto.
  - unfold nostop at 1, interval_decide at 1. rewrite (Forall_inv Hpre).
    destruct (IH (Forall_inv_tail Hpre)) as [rest Hrest].
    destruct (sfm nostop (interval_decide key thr) (0, false) (pre ++ m :: post)) eqn:E. cbn [fst] in *. subst l. eauto.
Qed.
Lemma sub32_exact a b : b <= a -> a < W32 -> sub32 a b = a - b.
Proof.
  intros H1 H2. unfold sub32, W32 in *. rewrite (N.mod_small b) by lia.
  replace (a + 4294967296 - b) with (a - b + 1 * 4294967296) by lia. rewrite N.mod_add by lia. apply N.mod_small. lia.
Qed.

(* ---------------------------------------------------------------- reduce by RDP: findFragments and defragment *)
Fixpoint filter_idx (p : nat -> bool) (i : nat) (ms : list mesg) : list mesg :=
  match ms with [] => [] | m :: r => if p i then m :: filter_idx p (S i) r else filter_idx p (S i) r end.
Definition memn (x : nat) (l : list nat) : bool := existsb (Nat.eqb x) l.
Lemma filter_idx_ext p q : forall ms i, (forall j, (i <= j)%nat -> p j = q j) -> filter_idx p i ms = filter_idx q i ms.
Proof.
  induction ms as [|m r IH]; intros i H; cbn [filter_idx]; [reflexivity|]. rewrite (H i (le_n _)).
  rewrite (IH (S i)) by (intros j Hj; apply H; lia). reflexivity.
Qed.
Lemma filter_idx_all p : forall ms i, (forall j, (i <= j)%nat -> p j = true) -> filter_idx p i ms = ms.
Proof.
  induction ms as [|m r IH]; intros i H; cbn [filter_idx]; [reflexivity|]. rewrite (H i (le_n _)). f_equal. apply IH. intros j Hj. apply H. lia.
Qed.
Lemma memn_false_lt x l : Forall (fun f => (x < f)%nat) l -> memn x l = false.
Proof.
  unfold memn. induction l as [|f r IH]; intros H; cbn [existsb]; [reflexivity|]. rewrite (IH (Forall_inv_tail H)).
  pose proof (Forall_inv H) as Hf. cbn in Hf. replace (Nat.eqb x f) with false by (symmetry; apply Nat.eqb_neq; lia). reflexivity.
Qed.
Lemma sfm_defrag : forall ms i frs, StronglySorted lt frs -> Forall (fun f => (i <= f)%nat) frs ->
  fst (sfm defrag_stop defrag_decide (i, frs) ms) = filter_idx (fun j => negb (memn j frs)) i ms.
Proof.
  induction ms as [|m r IH]; intros i frs Hs Hge; cbn [sfm filter_idx]; [reflexivity|].
  destruct frs as [|f frs'].
  - cbn. f_equal. symmetry. apply filter_idx_all. reflexivity.
  - unfold defrag_stop at 1. cbn [snd]. unfold defrag_decide at 1. inversion Hs as [|? ? Hs' Hlt]; subst.
    pose proof (Forall_inv Hge) as Hif. cbn in Hif.
    destruct (Nat.eqb i f) eqn:Eif.
    + apply Nat.eqb_eq in Eif. subst f. unfold memn at 1. cbn [existsb]. rewrite Nat.eqb_refl. cbn [orb negb].
      rewrite (IH (S i) frs' Hs').
      2:{ eapply Forall_impl; [|exact Hlt]. cbn. intros; lia. }
      apply filter_idx_ext. intros j Hj. unfold memn. cbn [existsb].
      replace (Nat.eqb j i) with false by (symmetry; apply Nat.eqb_neq; lia). reflexivity.
    + apply Nat.eqb_neq in Eif. unfold memn at 1. cbn [existsb].
      replace (Nat.eqb i f) with false by (symmetry; apply Nat.eqb_neq; lia). cbn [orb].
      fold (memn i frs'). rewrite memn_false_lt.
      2:{ eapply Forall_impl; [|exact Hlt]. cbn. intros; lia. }
      cbn [negb]. destruct (sfm defrag_stop defrag_decide (S i, f :: frs') r) eqn:E. cbn [fst]. f_equal.
      change l with (fst (l, p)). rewrite <- E. apply IH; [exact Hs|].
      constructor; [lia|]. eapply Forall_impl; [|exact Hlt]. cbn. intros; lia.
Qed.
(* defragment removes exactly the messages at the fragment indices and keeps the rest in order *)
Theorem defragment_spec ms frs : StronglySorted lt frs ->
  defragment ms frs = filter_idx (fun j => negb (memn j frs)) 0 ms.
Proof.
  intros Hs. unfold defragment. rewrite compact_is_sfm. apply sfm_defrag; [exact Hs|].
  apply Forall_forall. intros; lia.
Qed.

Lemma find_fragments_eq r ris' p pts' :
  find_fragments (r :: ris') (p :: pts') =
  if Nat.ltb r p then r :: find_fragments ris' (p :: pts')
  else if Nat.eqb r p then find_fragments ris' pts' else find_fragments (r :: ris') pts'.
Proof. reflexivity. Qed.
Lemma find_fragments_nil_r ris : find_fragments ris [] = ris.
Proof. destruct ris; reflexivity. Qed.
Lemma find_fragments_nil_l pts : find_fragments [] pts = [].
Proof. destruct pts; reflexivity. Qed.
(* findFragments = the record indices that the simplification did not return *)
Theorem find_fragments_spec : forall ris pts, StronglySorted lt ris -> StronglySorted lt pts ->
  find_fragments ris pts = filter (fun r => negb (memn r pts)) ris.
Proof.
  induction ris as [|r ris' IHr]; intros pts Hr Hp; [rewrite find_fragments_nil_l; reflexivity|].
  inversion Hr as [|? ? Hr' Hrlt]; subst.
  induction pts as [|p pts' IHp].
  - rewrite find_fragments_nil_r. symmetry. erewrite filter_ext; [apply filter_true|]. reflexivity.
  - inversion Hp as [|? ? Hp' Hplt]; subst. rewrite find_fragments_eq.
    destruct (Nat.ltb r p) eqn:Elt.
    + apply Nat.ltb_lt in Elt. cbn [filter]. rewrite memn_false_lt.
      2:{ constructor; [exact Elt|]. eapply Forall_impl; [|exact Hplt]. cbn. intros; lia. }
      cbn [negb]. f_equal. apply IHr; assumption.
    + apply Nat.ltb_ge in Elt. destruct (Nat.eqb r p) eqn:Eeq.
      * apply Nat.eqb_eq in Eeq. subst p. cbn [filter]. unfold memn at 1. cbn [existsb]. rewrite Nat.eqb_refl. cbn [orb negb].
        rewrite (IHr pts' Hr' Hp'). apply filter_ext_in. intros x Hx. unfold memn. cbn [existsb].
        rewrite Forall_forall in Hrlt. specialize (Hrlt x Hx).
        replace (Nat.eqb x r) with false by (symmetry; apply Nat.eqb_neq; lia). reflexivity.
      * apply Nat.eqb_neq in Eeq. rewrite (IHp Hp'). apply filter_ext_in. intros x Hx. unfold memn. cbn [existsb].
        replace (Nat.eqb x p) with false; [reflexivity|]. symmetry. apply Nat.eqb_neq.
        destruct Hx as [<-|Hx]; [lia|]. rewrite Forall_forall in Hrlt. specialize (Hrlt x Hx). lia.
Qed.
Lemma indices_from_bounds p : forall ms i, Forall (fun j => (i <= j)%nat) (indices_from p i ms).
Proof.
  induction ms as [|m r IH]; intros i; cbn [indices_from]; [constructor|].
  assert (H : Forall (fun j => (i <= j)%nat) (indices_from p (S i) r)).
  { eapply Forall_impl; [|apply IH]. cbn. intros; lia. }
  destruct (p m); [constructor; [lia|exact H]|exact H].
Qed.
Lemma indices_from_sorted p : forall ms i, StronglySorted lt (indices_from p i ms).
Proof.
  induction ms as [|m r IH]; intros i; cbn [indices_from]; [constructor|].
  destruct (p m); [|apply IH]. constructor; [apply IH|].
  eapply Forall_impl; [|apply (indices_from_bounds p r (S i))]. cbn. intros; lia.
Qed.
Lemma filter_sorted (p : nat -> bool) l : StronglySorted lt l -> StronglySorted lt (filter p l).
Proof.
  induction 1 as [|a l Hs IH Hlt]; cbn [filter]; [constructor|]. destruct (p a); [|exact IH].
  constructor; [exact IH|]. rewrite Forall_forall in *. intros x Hx. apply filter_In in Hx. apply Hlt. tauto.
Qed.
(* reduceByRDP: exactly the records whose index the simplification did not return are deleted; everything else stays in
   order (records without a position are never returned, hence deleted).  [simplify] is only assumed to return increasing indices. *)
Theorem reduce_rdp_spec (simplify : list nat -> list nat) ms :
  StronglySorted lt (simplify (indices_from has_point 0 ms)) ->
  indices_from has_point 0 ms <> [] ->
  reduce_rdp simplify ms =
  Some (filter_idx (fun j => negb (memn j (filter (fun r => negb (memn r (simplify (indices_from has_point 0 ms)))) (indices_from is_rec 0 ms)))) 0 ms).
Proof.
  intros Hs Hne. unfold reduce_rdp. destruct (indices_from has_point 0 ms) eqn:E; [contradiction|]. rewrite <- E in *.
  f_equal. rewrite find_fragments_spec by (try apply indices_from_sorted; exact Hs).
  apply defragment_spec. apply filter_sorted. apply indices_from_sorted.
Qed.

(* ================================================================ Part 3: concealer *)
(* ---------------------------------------------------------------- frame: nothing but position fields changes *)
Definition pos_fields (n : N) : list N :=
  if n =? RECORD then [REC_LAT; REC_LONG]
  else if n =? LAP then [LAP_START_LAT; LAP_START_LONG; LAP_END_LAT; LAP_END_LONG]
  else if n =? SESSION then [SES_START_LAT; SES_START_LONG; SES_END_LAT; SES_END_LONG]
  else [].
Definition nonpos (ks : list N) (fs : list field) : list field := filter (fun f => negb (memN (fnum f) ks)) fs.
(* same message number, same developer fields, same fields in the same order once the position fields are left out *)
Definition same_but_pos (m m' : mesg) : Prop :=
  mnum m' = mnum m /\ mdev m' = mdev m /\ nonpos (pos_fields (mnum m)) (mfields m') = nonpos (pos_fields (mnum m)) (mfields m).

Lemma same_but_pos_refl m : same_but_pos m m.
Proof. unfold same_but_pos. auto. Qed.
Lemma same_but_pos_trans a b c : same_but_pos a b -> same_but_pos b c -> same_but_pos a c.
Proof.
  unfold same_but_pos. intros (H1 & H2 & H3) (H4 & H5 & H6). rewrite H1 in *.
  split; [congruence|]. split; [congruence|]. congruence.
Qed.
Lemma nonpos_remove_first ks k fs : memN k ks = true -> nonpos ks (remove_first k fs) = nonpos ks fs.
Proof.
  intros Hk. unfold nonpos. induction fs as [|f r IH]; cbn [remove_first filter]; [reflexivity|].
  destruct (fnum f =? k) eqn:E.
  - apply N.eqb_eq in E. rewrite E, Hk. reflexivity.
  - cbn [filter]. rewrite IH. reflexivity.
Qed.
Lemma nonpos_set_first ks k v fs : memN k ks = true -> nonpos ks (set_first k v fs) = nonpos ks fs.
Proof.
  intros Hk. unfold nonpos. induction fs as [|f r IH]; cbn [set_first filter]; [reflexivity|].
  destruct (fnum f =? k) eqn:E.
  - apply N.eqb_eq in E. cbn [filter fnum]. rewrite E, Hk. reflexivity.
  - cbn [filter]. rewrite IH. reflexivity.
Qed.
Lemma sbp_remove k m : memN k (pos_fields (mnum m)) = true -> same_but_pos m (remove_field k m).
Proof. intros H. unfold same_but_pos, remove_field. cbn [mnum mdev mfields]. rewrite nonpos_remove_first by exact H. auto. Qed.
Lemma sbp_set k v m : memN k (pos_fields (mnum m)) = true -> same_but_pos m (set_field k v m).
Proof. intros H. unfold same_but_pos, set_field. cbn [mnum mdev mfields]. rewrite nonpos_set_first by exact H. auto. Qed.
Lemma sbp_set_or_remove k v m : memN k (pos_fields (mnum m)) = true -> same_but_pos m (set_or_remove k v m).
Proof. intros H. unfold set_or_remove. destruct (Z.eqb v S32INV); [apply sbp_remove|apply sbp_set]; exact H. Qed.
Lemma sbp_step m f g : (forall x, mnum x = mnum m -> same_but_pos x (f x) /\ mnum (f x) = mnum m) ->
  (forall x, mnum x = mnum m -> same_but_pos x (g x)) -> same_but_pos m (g (f m)).
Proof. intros Hf Hg. destruct (Hf m eq_refl) as [H1 H2]. eapply same_but_pos_trans; [exact H1|]. apply Hg. exact H2. Qed.

Lemma sbp_strip_rec m : is_rec m = true -> same_but_pos m (strip_rec m).
Proof.
  unfold is_rec. intros H. apply N.eqb_eq in H. unfold strip_rec.
  eapply same_but_pos_trans; [apply (sbp_remove REC_LAT)|apply (sbp_remove REC_LONG)];
    cbn [remove_field mnum]; rewrite H; reflexivity.
Qed.
(* the placeholders name position fields of their own message *)
Definition ph_ok (ph : placeholder) : Prop :=
  memN (ph_slat ph) (pos_fields (ph_num ph)) = true /\ memN (ph_slong ph) (pos_fields (ph_num ph)) = true /\
  memN (ph_elat ph) (pos_fields (ph_num ph)) = true /\ memN (ph_elong ph) (pos_fields (ph_num ph)) = true.
Lemma lap_ph_ok : ph_ok lap_ph. Proof. repeat split; reflexivity. Qed.
Lemma session_ph_ok : ph_ok session_ph. Proof. repeat split; reflexivity. Qed.
Lemma sbp_strip4 ph m : ph_ok ph -> mnum m = ph_num ph -> same_but_pos m (strip4 ph m).
Proof.
  intros (H1 & H2 & H3 & H4) Hn. unfold strip4.
  eapply same_but_pos_trans; [|apply sbp_remove; cbn [remove_field mnum]; rewrite Hn; exact H4].
  eapply same_but_pos_trans; [|apply sbp_remove; cbn [remove_field mnum]; rewrite Hn; exact H3].
  eapply same_but_pos_trans; [|apply sbp_remove; cbn [remove_field mnum]; rewrite Hn; exact H2].
  apply sbp_remove. rewrite Hn. exact H1.
Qed.
Lemma mnum_set_or_remove k v m : mnum (set_or_remove k v m) = mnum m.
Proof. unfold set_or_remove. destruct (Z.eqb v S32INV); reflexivity. Qed.
Lemma sbp_two k1 v1 k2 v2 m n : mnum m = n -> memN k1 (pos_fields n) = true -> memN k2 (pos_fields n) = true ->
  same_but_pos m (set_or_remove k2 v2 (set_or_remove k1 v1 m)).
Proof.
  intros Hn H1 H2. eapply same_but_pos_trans; [apply sbp_set_or_remove; rewrite Hn; exact H1|].
  apply sbp_set_or_remove. rewrite mnum_set_or_remove, Hn. exact H2.
Qed.

Lemma Forall2_refl {A} (R : A -> A -> Prop) : (forall x, R x x) -> forall l, Forall2 R l l.
Proof. intros H. induction l; constructor; auto. Qed.
Lemma Forall2_weaken {A} (R1 R2 : A -> A -> Prop) : (forall x y, R1 x y -> R2 x y) -> forall a b, Forall2 R1 a b -> Forall2 R2 a b.
Proof. intros H a b H1. induction H1; constructor; auto. Qed.
Lemma Forall2_len {A} (R : A -> A -> Prop) a b : Forall2 R a b -> length a = length b.
Proof. induction 1; cbn; congruence. Qed.
Lemma Forall2_compose {A} (R1 R2 R3 : A -> A -> Prop) : (forall x y z, R1 x y -> R2 y z -> R3 x z) ->
  forall a b c, Forall2 R1 a b -> Forall2 R2 b c -> Forall2 R3 a c.
Proof.
  intros H a b c H1. revert c. induction H1 as [|x y a b Hxy Hab IH]; intros c H2; inversion H2; subst; constructor; eauto.
Qed.

Lemma frame_scan_start thr : forall ms i, Forall2 same_but_pos ms (fst (scan_start thr i ms)).
Proof.
  induction ms as [|m r IH]; intros i; cbn [scan_start]; [constructor|].
  destruct (is_rec m) eqn:Er.
  - destruct (get_u32 REC_DIST m <? thr).
    + specialize (IH (S i)). destruct (scan_start thr (S i) r). cbn [fst] in *. constructor; [apply sbp_strip_rec; exact Er|exact IH].
    + cbn [fst]. apply Forall2_refl. apply same_but_pos_refl.
  - specialize (IH (S i)). destruct (scan_start thr (S i) r). cbn [fst] in *. constructor; [apply same_but_pos_refl|exact IH].
Qed.
Lemma frame_update_start ph t la lo : ph_ok ph -> forall ms, Forall2 same_but_pos ms (update_start ph t la lo ms).
Proof.
  intros Hok. induction ms as [|m r IH]; cbn [update_start]; [constructor|].
  destruct (mnum m =? ph_num ph) eqn:En.
  - apply N.eqb_eq in En. destruct (lap_before ph t m).
    + constructor; [apply sbp_strip4; assumption|exact IH].
    + constructor; [|apply Forall2_refl; apply same_but_pos_refl].
      destruct Hok as (H1 & H2 & _). apply (sbp_two _ _ _ _ _ _ En H1 H2).
  - constructor; [apply same_but_pos_refl|exact IH].
Qed.
Lemma frame_scan_end thr : forall ms, Forall2 same_but_pos ms (fst (scan_end thr ms)).
Proof.
  induction ms as [|m r IH]; cbn [scan_end]; [constructor|].
  destruct (scan_end thr r) as [r' s]. cbn [fst] in *. destruct s as [lrd|k].
  - destruct (is_rec m) eqn:Er.
    + destruct (sub32 _ _ <? thr); cbn [fst]; constructor; try exact IH; [apply sbp_strip_rec; exact Er|apply same_but_pos_refl].
    + cbn [fst]. constructor; [apply same_but_pos_refl|exact IH].
  - cbn [fst]. constructor; [apply same_but_pos_refl|exact IH].
Qed.
Lemma frame_update_end ph ov t la lo : ph_ok ph -> forall ms, Forall2 same_but_pos ms (fst (update_end ph ov t la lo ms)).
Proof.
  intros Hok. induction ms as [|m r IH]; cbn [update_end]; [constructor|].
  destruct (update_end ph ov t la lo r) as [r' dn]. cbn [fst] in *. destruct dn.
  - cbn [fst]. constructor; [apply same_but_pos_refl|exact IH].
  - destruct (mnum m =? ph_num ph) eqn:En.
    + apply N.eqb_eq in En. destruct (lap_after ph t m); cbn [fst]; constructor; try exact IH; [apply sbp_strip4; assumption|].
      destruct Hok as (H1 & H2 & H3 & H4). destruct ov.
      * eapply same_but_pos_trans.
        { eapply same_but_pos_trans; [apply (sbp_remove (ph_slat ph)); rewrite En; exact H1|].
          apply (sbp_remove (ph_slong ph)). cbn [remove_field mnum]. rewrite En. exact H2. }
        apply (sbp_two _ _ _ _ _ (ph_num ph)); [cbn [remove_field mnum]; exact En|exact H3|exact H4].
      * apply (sbp_two _ _ _ _ _ _ En H3 H4).
    + cbn [fst]. constructor; [apply same_but_pos_refl|exact IH].
Qed.
Lemma Forall2_sbp_trans a b c : Forall2 same_but_pos a b -> Forall2 same_but_pos b c -> Forall2 same_but_pos a c.
Proof. apply Forall2_compose. apply same_but_pos_trans. Qed.

Lemma frame_conceal_start thr ms : Forall2 same_but_pos ms (fst (conceal_start thr ms)).
Proof.
  unfold conceal_start. destruct (thr =? 0); [apply Forall2_refl; apply same_but_pos_refl|].
  pose proof (frame_scan_start thr ms 0) as H. destruct (scan_start thr 0 ms) as [ms1 idx]. cbn [fst] in *.
  eapply Forall2_sbp_trans; [exact H|]. unfold update_start_at.
  eapply Forall2_sbp_trans; [apply frame_update_start; apply lap_ph_ok|apply frame_update_start; apply session_ph_ok].
Qed.
Lemma frame_conceal_end thr si ms : Forall2 same_but_pos ms (conceal_end thr si ms).
Proof.
  unfold conceal_end. destruct (thr =? 0); [apply Forall2_refl; apply same_but_pos_refl|].
  pose proof (frame_scan_end thr ms) as H. destruct (scan_end thr ms) as [ms1 s]. cbn [fst] in *.
  eapply Forall2_sbp_trans; [exact H|]. unfold update_end_at.
  eapply Forall2_sbp_trans; [apply frame_update_end; apply lap_ph_ok|apply frame_update_end; apply session_ph_ok].
Qed.
(* conceal changes nothing other than position fields: message by message, same number, same developer fields, same
   other fields in the same order (no hypothesis on the input) *)
Theorem conceal_frame first last ms : Forall2 same_but_pos ms (conceal first last ms).
Proof.
  unfold conceal. pose proof (frame_conceal_start first ms) as H. destruct (conceal_start first ms) as [ms1 idx]. cbn [fst] in *.
  eapply Forall2_sbp_trans; [exact H|apply frame_conceal_end].
Qed.
Lemma nonpos_nil fs : nonpos [] fs = fs.
Proof. unfold nonpos. cbn. apply filter_true. Qed.
(* messages that are neither record, lap nor session are untouched *)
Corollary conceal_frame_other first last ms :
  Forall2 (fun m m' => pos_fields (mnum m) = [] -> m' = m) ms (conceal first last ms).
Proof.
  eapply Forall2_weaken; [|apply conceal_frame]. intros m m' (H1 & H2 & H3) Hp. rewrite Hp, !nonpos_nil in H3.
  destruct m, m'. cbn in *. congruence.
Qed.
Corollary conceal_length first last ms : length (conceal first last ms) = length ms.
Proof. symmetry. eapply Forall2_len. apply conceal_frame. Qed.

(* ---------------------------------------------------------------- records inside the stretches *)
Definition dist (m : mesg) : N := get_u32 REC_DIST m.
(* records carry valid, non-decreasing distances *)
Fixpoint mono (lo : N) (ms : list mesg) : Prop :=
  match ms with
  | [] => True
  | m :: r => if is_rec m then (lo <= dist m /\ dist m < U32INV) /\ mono (dist m) r else mono lo r
  end.
Definition valid_nondecreasing_distances (ms : list mesg) : Prop := mono 0 ms.
(* distance of the last record (U32INV when there is none) *)
Fixpoint last_dist (ms : list mesg) : N :=
  match ms with
  | [] => U32INV
  | m :: r => let l := last_dist r in if is_rec m then (if l =? U32INV then dist m else l) else l
  end.
Definition in_start (thr : N) (m : mesg) : bool := is_rec m && (dist m <? thr).
Definition in_end (thr L : N) (m : mesg) : bool := is_rec m && (sub32 L (dist m) <? thr).
Definition fs (thr : N) (m : mesg) : mesg := if in_start thr m then strip_rec m else m.
Definition fe (thr L : N) (m : mesg) : mesg := if in_end thr L m then strip_rec m else m.

Lemma mono_weaken lo lo' ms : lo' <= lo -> mono lo ms -> mono lo' ms.
Proof.
  revert lo lo'. induction ms as [|m r IH]; intros lo lo' Hle H; cbn [mono] in *; [exact I|].
  destruct (is_rec m); [destruct H as [[H1 H3] H2]; split; [lia|exact H2]|eapply IH; eassumption].
Qed.
Lemma beyond_untouched thr : forall ms lo, thr <= lo -> mono lo ms -> map (fs thr) ms = ms.
Proof.
  induction ms as [|m r IH]; intros lo Hlo H; cbn [map]; [reflexivity|]. cbn [mono] in H. unfold fs at 1, in_start.
  destruct (is_rec m) eqn:Er.
  - destruct H as [[H1 H3] H2]. replace (dist m <? thr) with false by (symmetry; apply N.ltb_ge; lia). cbn [andb].
    f_equal. apply (IH (dist m)); [lia|exact H2].
  - cbn [andb]. f_equal. eapply IH; eassumption.
Qed.
(* the early-exit forward scan strips exactly the records below the threshold *)
Lemma scan_start_spec thr : forall ms lo i, mono lo ms -> fst (scan_start thr i ms) = map (fs thr) ms.
Proof.
  induction ms as [|m r IH]; intros lo i H; cbn [scan_start map]; [reflexivity|]. cbn [mono] in H. unfold fs at 1, in_start.
  destruct (is_rec m) eqn:Er; cbn [andb].
  - destruct H as [[H1 H3] H2]. fold (dist m). destruct (dist m <? thr) eqn:Ed.
    + specialize (IH (dist m) (S i) H2). destruct (scan_start thr (S i) r). cbn [fst] in *. f_equal. exact IH.
    + cbn [fst]. f_equal. symmetry. apply N.ltb_ge in Ed. apply (beyond_untouched thr r (dist m)); assumption.
  - specialize (IH lo (S i) H). destruct (scan_start thr (S i) r). cbn [fst] in *. f_equal. exact IH.
Qed.

Lemma last_dist_bounds : forall ms lo, mono lo ms -> last_dist ms = U32INV \/ (lo <= last_dist ms /\ last_dist ms < U32INV).
Proof.
  induction ms as [|m r IH]; intros lo H; cbn [last_dist mono] in *; [left; reflexivity|].
  destruct (is_rec m).
  - destruct H as [[H1 H3] H2]. destruct (IH _ H2) as [E|[E1 E2]].
    + rewrite E, N.eqb_refl. right. lia.
    + replace (last_dist r =? U32INV) with false by (symmetry; apply N.eqb_neq; lia). right. lia.
  - apply IH. exact H.
Qed.
Lemma no_records_fe thr L L' : forall ms lo, mono lo ms -> last_dist ms = U32INV -> map (fe thr L) ms = map (fe thr L') ms.
Proof.
  induction ms as [|m r IH]; intros lo H HL; cbn [map]; [reflexivity|]. cbn [mono last_dist] in *. unfold fe at 1 3, in_end.
  destruct (is_rec m).
  - exfalso. destruct H as [[H1 H3] H2]. destruct (last_dist r =? U32INV) eqn:E; [lia|]. apply N.eqb_neq in E. contradiction.
  - cbn [andb]. f_equal. eapply IH; eassumption.
Qed.
(* the backward scan strips exactly the records closer than the threshold to the last record's distance *)
Lemma scan_end_spec thr : forall ms lo, mono lo ms ->
  fst (scan_end thr ms) = map (fe thr (last_dist ms)) ms /\
  match snd (scan_end thr ms) with
  | EScanning lrd => lrd = last_dist ms
  | EDone _ => last_dist ms < U32INV /\ lo <= last_dist ms /\ thr <= last_dist ms - lo
  end.
Proof.
  induction ms as [|m r IH]; intros lo H; cbn [scan_end map last_dist]; [split; reflexivity|]. cbn [mono] in H.
  destruct (is_rec m) eqn:Er.
  - destruct H as [[H1 H3] H2]. destruct (IH _ H2) as [IH1 IH2]. pose proof (last_dist_bounds r _ H2) as HB.
    destruct (scan_end thr r) as [r' s]. cbn [fst snd] in *. destruct s as [lrd|k].
    + subst lrd. try rewrite Er. fold (dist m).
      set (L := if last_dist r =? U32INV then dist m else last_dist r).
      assert (HL : dist m <= L /\ L < U32INV).
      { unfold L. destruct HB as [E|[E1 E2]]; [rewrite E, N.eqb_refl; lia|].
        replace (last_dist r =? U32INV) with false by (symmetry; apply N.eqb_neq; lia). lia. }
      assert (Hmap : map (fe thr (last_dist r)) r = map (fe thr L) r).
      { unfold L. destruct (last_dist r =? U32INV) eqn:E; [|reflexivity]. apply N.eqb_eq in E. eapply no_records_fe; eassumption. }
      unfold fe at 1, in_end. try rewrite Er. cbn [andb]. destruct (sub32 L (dist m) <? thr) eqn:Et; cbn [fst snd].
      * split; [f_equal; rewrite IH1; exact Hmap|reflexivity].
      * split; [f_equal; rewrite IH1; exact Hmap|]. apply N.ltb_ge in Et.
        rewrite sub32_exact in Et by (unfold W32, U32INV in *; lia). lia.
    + destruct IH2 as (B1 & B2 & B3). try rewrite Er.
      replace (last_dist r =? U32INV) with false by (symmetry; apply N.eqb_neq; lia). cbn [fst snd].
      unfold fe at 1, in_end. try rewrite Er. cbn [andb]. fold (dist m).
      replace (sub32 (last_dist r) (dist m) <? thr) with false.
      2:{ symmetry. apply N.ltb_ge. rewrite sub32_exact by (unfold W32, U32INV in *; lia). exact B3. }
      split; [f_equal; exact IH1|]. lia.
  - destruct (IH _ H) as [IH1 IH2]. destruct (scan_end thr r) as [r' s]. cbn [fst snd] in *. try rewrite Er.
    unfold fe at 1, in_end. try rewrite Er. cbn [andb].
    destruct s as [lrd|k]; cbn [fst snd]; (split; [f_equal; exact IH1|exact IH2]).
Qed.

(* what the later stages need to know about the earlier ones: same kind of message, same distance *)
Definition keeps_dist (m m' : mesg) : Prop := is_rec m' = is_rec m /\ (is_rec m = true -> dist m' = dist m).
Lemma find_field_nonpos ks k fs : memN k ks = false -> find_field k (nonpos ks fs) = find_field k fs.
Proof.
  intros Hk. unfold nonpos. induction fs as [|f r IH]; cbn [filter find_field]; [reflexivity|].
  destruct (fnum f =? k) eqn:E.
  - apply N.eqb_eq in E. rewrite E, Hk. cbn [negb find_field]. rewrite E, N.eqb_refl. reflexivity.
  - destruct (negb (memN (fnum f) ks)); cbn [find_field]; [rewrite E|]; exact IH.
Qed.
Lemma sbp_get_u32 k m m' : same_but_pos m m' -> memN k (pos_fields (mnum m)) = false -> get_u32 k m' = get_u32 k m.
Proof.
  intros (H1 & H2 & H3) Hk. unfold get_u32.
  rewrite <- (find_field_nonpos _ k (mfields m') Hk), <- (find_field_nonpos _ k (mfields m) Hk), H3. reflexivity.
Qed.
Lemma sbp_keeps_dist m m' : same_but_pos m m' -> keeps_dist m m'.
Proof.
  intros H. pose proof H as (H1 & _). unfold keeps_dist, is_rec. rewrite H1. split; [reflexivity|].
  intros Hr. apply N.eqb_eq in Hr. unfold dist. apply sbp_get_u32; [exact H|]. rewrite Hr. reflexivity.
Qed.
Lemma mono_transfer : forall ms ms' lo, Forall2 keeps_dist ms ms' -> mono lo ms -> mono lo ms'.
Proof.
  intros ms ms' lo HF. revert lo. induction HF as [|m m' r r' [K1 K2] HF IH]; intros lo H; cbn [mono] in *; [exact I|].
  rewrite K1. destruct (is_rec m); [rewrite (K2 eq_refl); destruct H as [Ha Hb]; split; [exact Ha|apply IH; exact Hb]|apply IH; exact H].
Qed.
Lemma last_dist_transfer : forall ms ms', Forall2 keeps_dist ms ms' -> last_dist ms' = last_dist ms.
Proof.
  intros ms ms' HF. induction HF as [|m m' r r' [K1 K2] HF IH]; cbn [last_dist]; [reflexivity|].
  rewrite K1, IH. destruct (is_rec m); [rewrite (K2 eq_refl)|]; reflexivity.
Qed.

(* lap / session updates leave every other message alone *)
Lemma update_start_others ph t la lo : forall ms, Forall2 (fun m m' => mnum m <> ph_num ph -> m' = m) ms (update_start ph t la lo ms).
Proof.
  induction ms as [|m r IH]; cbn [update_start]; [constructor|]. destruct (mnum m =? ph_num ph) eqn:En.
  - apply N.eqb_eq in En. destruct (lap_before ph t m); constructor; try (intros; contradiction); [exact IH|].
    apply Forall2_refl. auto.
  - constructor; [auto|exact IH].
Qed.
Lemma update_end_others ph ov t la lo : forall ms, Forall2 (fun m m' => mnum m <> ph_num ph -> m' = m) ms (fst (update_end ph ov t la lo ms)).
Proof.
  induction ms as [|m r IH]; cbn [update_end]; [constructor|]. destruct (update_end ph ov t la lo r) as [r' dn]. cbn [fst] in *.
  destruct dn; cbn [fst]; [constructor; [auto|exact IH]|].
  destruct (mnum m =? ph_num ph) eqn:En.
  - apply N.eqb_eq in En. destruct (lap_after ph t m); cbn [fst]; constructor; try (intros; contradiction); exact IH.
  - cbn [fst]. constructor; [auto|exact IH].
Qed.

(* one stage: frame + what happens to records *)
Definition stage (f : mesg -> mesg) (m m' : mesg) : Prop := same_but_pos m m' /\ (is_rec m = true -> m' = f m).
Lemma stage_compose f g a b c : Forall2 (stage f) a b -> Forall2 (stage g) b c -> Forall2 (stage (fun m => g (f m))) a c.
Proof.
  apply Forall2_compose. intros x y z [S1 R1] [S2 R2]. split; [eapply same_but_pos_trans; eassumption|].
  intros Hr. rewrite <- (R1 Hr). apply R2. destruct (sbp_keeps_dist _ _ S1) as [K _]. rewrite K. exact Hr.
Qed.
Lemma stage_of_map f ms : Forall2 same_but_pos ms (map f ms) -> Forall2 (stage f) ms (map f ms).
Proof.
  induction ms as [|m r IH]; cbn [map]; intros H; inversion H; subst; constructor; [split; auto|auto].
Qed.
Lemma stage_id_of_others n ms ms' : n <> RECORD ->
  Forall2 same_but_pos ms ms' -> Forall2 (fun m m' => mnum m <> n -> m' = m) ms ms' -> Forall2 (stage (fun m => m)) ms ms'.
Proof.
  intros Hn H1. induction H1 as [|m m' r r' Hs H1 IH]; intros H2; inversion H2 as [|? ? ? ? Hhead Htail]; subst; constructor; [|auto].
  split; [exact Hs|]. intros Hr. unfold is_rec in Hr. apply N.eqb_eq in Hr. apply Hhead. congruence.
Qed.
Lemma stage_ext f g a b : (forall m, is_rec m = true -> f m = g m) -> Forall2 (stage f) a b -> Forall2 (stage g) a b.
Proof. intros H. apply Forall2_weaken. intros x y [S R]. split; [exact S|]. intros Hr. rewrite <- (H x Hr). auto. Qed.
Lemma stage_keeps f a b : Forall2 (stage f) a b -> Forall2 keeps_dist a b.
Proof. apply Forall2_weaken. intros x y [S _]. apply sbp_keeps_dist. exact S. Qed.

Lemma lap_num_not_record : ph_num lap_ph <> RECORD. Proof. discriminate. Qed.
Lemma session_num_not_record : ph_num session_ph <> RECORD. Proof. discriminate. Qed.

Lemma stage_conceal_start thr ms lo : mono lo ms -> Forall2 (stage (fs thr)) ms (fst (conceal_start thr ms)).
Proof.
  intros Hm. unfold conceal_start. destruct (thr =? 0) eqn:E0.
  - apply N.eqb_eq in E0. subst thr. cbn [fst]. apply (stage_ext (fun m => m)).
    + intros m _. unfold fs, in_start. replace (dist m <? 0) with false by (symmetry; apply N.ltb_ge; lia). rewrite andb_false_r. reflexivity.
    + apply Forall2_refl. intros x. split; [apply same_but_pos_refl|reflexivity].
  - pose proof (scan_start_spec thr ms lo 0%nat Hm) as H1. pose proof (frame_scan_start thr ms 0) as F1.
    destruct (scan_start thr 0 ms) as [ms1 idx]. cbn [fst] in *. subst ms1. unfold update_start_at.
    pose proof (stage_of_map (fs thr) ms F1) as S1.
    match goal with |- Forall2 _ _ (update_start ?p2 ?t2 ?a2 ?o2 (update_start ?p1 ?t1 ?a1 ?o1 ?l)) =>
      assert (S2 : Forall2 (stage (fun m => m)) l (update_start p1 t1 a1 o1 l))
        by (apply (stage_id_of_others (ph_num lap_ph) _ _ lap_num_not_record); [apply frame_update_start; apply lap_ph_ok|apply update_start_others]);
      assert (S3 : Forall2 (stage (fun m => m)) (update_start p1 t1 a1 o1 l) (update_start p2 t2 a2 o2 (update_start p1 t1 a1 o1 l)))
        by (apply (stage_id_of_others (ph_num session_ph) _ _ session_num_not_record); [apply frame_update_start; apply session_ph_ok|apply update_start_others])
    end.
    pose proof (stage_compose _ _ _ _ _ (stage_compose _ _ _ _ _ S1 S2) S3) as S.
    eapply stage_ext; [|exact S]. reflexivity.
Qed.
Lemma stage_conceal_end thr si ms lo : mono lo ms -> Forall2 (stage (fe thr (last_dist ms))) ms (conceal_end thr si ms).
Proof.
  intros Hm. unfold conceal_end. destruct (thr =? 0) eqn:E0.
  - apply N.eqb_eq in E0. subst thr. apply (stage_ext (fun m => m)).
    + intros m _. unfold fe, in_end. replace (sub32 (last_dist ms) (dist m) <? 0) with false by (symmetry; apply N.ltb_ge; lia).
      rewrite andb_false_r. reflexivity.
    + apply Forall2_refl. intros x. split; [apply same_but_pos_refl|reflexivity].
  - destruct (scan_end_spec thr ms lo Hm) as [H1 _]. pose proof (frame_scan_end thr ms) as F1.
    destruct (scan_end thr ms) as [ms1 s]. cbn [fst] in *. subst ms1. unfold update_end_at.
    pose proof (stage_of_map (fe thr (last_dist ms)) ms F1) as S1.
    match goal with |- Forall2 _ _ (fst (update_end ?p2 ?v2 ?t2 ?a2 ?o2 (fst (update_end ?p1 ?v1 ?t1 ?a1 ?o1 ?l)))) =>
      assert (S2 : Forall2 (stage (fun m => m)) l (fst (update_end p1 v1 t1 a1 o1 l)))
        by (apply (stage_id_of_others (ph_num lap_ph) _ _ lap_num_not_record); [apply frame_update_end; apply lap_ph_ok|apply update_end_others]);
      assert (S3 : Forall2 (stage (fun m => m)) (fst (update_end p1 v1 t1 a1 o1 l)) (fst (update_end p2 v2 t2 a2 o2 (fst (update_end p1 v1 t1 a1 o1 l)))))
        by (apply (stage_id_of_others (ph_num session_ph) _ _ session_num_not_record); [apply frame_update_end; apply session_ph_ok|apply update_end_others])
    end.
    pose proof (stage_compose _ _ _ _ _ (stage_compose _ _ _ _ _ S1 S2) S3) as S.
    eapply stage_ext; [|exact S]. reflexivity.
Qed.

(* On activities whose records carry valid, non-decreasing distances: message by message, a record comes out as itself
   with its position stripped if it lies in the first [first] or the last [last] (raw units) of the distance, and exactly as
   it was otherwise *)
Theorem conceal_records_exact first last ms : valid_nondecreasing_distances ms ->
  Forall2 (fun m m' => is_rec m = true -> m' = fe last (last_dist ms) (fs first m)) ms (conceal first last ms).
Proof.
  intros Hm. unfold conceal. pose proof (stage_conceal_start first ms 0 Hm) as H1.
  destruct (conceal_start first ms) as [ms1 idx]. cbn [fst] in *.
  pose proof (stage_keeps _ _ _ H1) as K. pose proof (mono_transfer _ _ _ K Hm) as Hm1.
  pose proof (stage_conceal_end last idx ms1 0 Hm1) as H2. rewrite (last_dist_transfer _ _ K) in H2.
  pose proof (stage_compose _ _ _ _ _ H1 H2) as H3. eapply Forall2_weaken; [|exact H3]. intros x y [_ R]. exact R.
Qed.

(* in the words of the statement *)
Definition nodup_fields (m : mesg) : Prop := NoDup (map fnum (mfields m)).
Lemma find_remove_first_same k fs : NoDup (map fnum fs) -> find_field k (remove_first k fs) = None.
Proof.
  induction fs as [|f r IH]; intros H; cbn [remove_first find_field map] in *; [reflexivity|]. inversion H as [|? ? Hn Hd]; subst.
  destruct (fnum f =? k) eqn:E.
  - apply N.eqb_eq in E. subst k. clear -Hn. induction r as [|g r IH]; cbn [find_field map] in *; [reflexivity|].
    destruct (fnum g =? fnum f) eqn:E; [apply N.eqb_eq in E; exfalso; apply Hn; left; exact E|]. apply IH. intros Hc. apply Hn. right. exact Hc.
  - cbn [find_field]. rewrite E. apply IH. exact Hd.
Qed.
Lemma find_remove_first_other k k' fs : k <> k' -> find_field k (remove_first k' fs) = find_field k fs.
Proof.
  intros Hk. induction fs as [|f r IH]; cbn [remove_first find_field]; [reflexivity|].
  destruct (fnum f =? k') eqn:E.
  - apply N.eqb_eq in E. replace (fnum f =? k) with false by (symmetry; apply N.eqb_neq; congruence). reflexivity.
  - cbn [find_field]. rewrite IH. reflexivity.
Qed.
Lemma NoDup_remove_first k fs : NoDup (map fnum fs) -> NoDup (map fnum (remove_first k fs)).
Proof.
  induction fs as [|f r IH]; intros H; cbn [remove_first map] in *; [exact H|]. inversion H as [|? ? Hn Hd]; subst.
  destruct (fnum f =? k); [exact Hd|]. cbn [map]. constructor; [|apply IH; exact Hd].
  intros Hc. apply Hn. clear -Hc. induction r as [|g r IH]; cbn [remove_first map] in *; [exact Hc|].
  destruct (fnum g =? k); [right; exact Hc|]. cbn [map] in Hc. destruct Hc as [Hc|Hc]; [left; exact Hc|right; apply IH; exact Hc].
Qed.
Lemma strip_rec_no_position m : nodup_fields m -> has_field REC_LAT (strip_rec m) = false /\ has_field REC_LONG (strip_rec m) = false.
Proof.
  intros Hd. unfold has_field, strip_rec, remove_field. cbn [mfields]. split.
  - rewrite find_remove_first_other by discriminate. rewrite find_remove_first_same by exact Hd. reflexivity.
  - rewrite find_remove_first_same by (apply NoDup_remove_first; exact Hd). reflexivity.
Qed.
Lemma has_field_strip_rec k m : has_field k (strip_rec m) = true -> has_field k m = true.
Proof.
  unfold has_field, strip_rec, remove_field. cbn [mfields]. 
  assert (G : forall k' fs, find_field k (remove_first k' fs) <> None -> find_field k fs <> None).
  { intros k' fs. induction fs as [|f r IH]; cbn [remove_first find_field]; [auto|].
    destruct (fnum f =? k') eqn:E; cbn [find_field]; destruct (fnum f =? k); auto; discriminate. }
  intros H. destruct (find_field k (mfields m)) eqn:E; [reflexivity|]. exfalso.
  destruct (find_field k (remove_first REC_LONG (remove_first REC_LAT (mfields m)))) eqn:E2; [|discriminate].
  eapply G; [eapply G; rewrite E2; discriminate|exact E].
Qed.
(* every record inside either concealed stretch has no GPS position afterwards; every record outside both is unchanged *)
Lemma conceal_records_words first last L : forall l l', Forall nodup_fields l ->
  Forall2 (fun m m' => is_rec m = true -> m' = fe last L (fs first m)) l l' ->
  Forall2 (fun m m' => is_rec m = true ->
             (in_start first m || in_end last L m = true -> has_field REC_LAT m' = false /\ has_field REC_LONG m' = false) /\
             (in_start first m || in_end last L m = false -> m' = m)) l l'.
Proof.
  intros l l' Hd H. induction H as [|m m' r r' Hmm H IH]; [constructor|]. constructor; [|apply IH; exact (Forall_inv_tail Hd)].
  intros Hr. specialize (Hmm Hr). pose proof (Forall_inv Hd) as Hnd. subst m'.
  assert (Hde : in_end last L (fs first m) = in_end last L m).
  { unfold fs. destruct (in_start first m); [|reflexivity]. unfold in_end.
    destruct (sbp_keeps_dist _ _ (sbp_strip_rec m Hr)) as [K1 K2]. rewrite K1, (K2 Hr). reflexivity. }
  unfold fe. rewrite Hde. split.
  - intros Hin. unfold fs. destruct (in_start first m) eqn:Es; destruct (in_end last L m) eqn:Ee; try discriminate.
    + destruct (strip_rec_no_position m Hnd) as [A B]. split.
      * destruct (has_field REC_LAT (strip_rec (strip_rec m))) eqn:X; [apply has_field_strip_rec in X; congruence|reflexivity].
      * destruct (has_field REC_LONG (strip_rec (strip_rec m))) eqn:X; [apply has_field_strip_rec in X; congruence|reflexivity].
    + apply strip_rec_no_position. exact Hnd.
    + apply strip_rec_no_position. exact Hnd.
  - intros Hout. apply orb_false_iff in Hout. destruct Hout as [Es Ee]. unfold fs. rewrite Es, Ee. reflexivity.
Qed.
Theorem conceal_records first last ms : valid_nondecreasing_distances ms -> Forall nodup_fields ms ->
  Forall2 (fun m m' => is_rec m = true ->
             (in_start first m || in_end last (last_dist ms) m = true -> has_field REC_LAT m' = false /\ has_field REC_LONG m' = false) /\
             (in_start first m || in_end last (last_dist ms) m = false -> m' = m))
          ms (conceal first last ms).
Proof. intros Hm Hd. apply conceal_records_words; [exact Hd|apply conceal_records_exact; exact Hm]. Qed.

(* ---------------------------------------------------------------- laps and sessions: the code's own criterion *)
Definition strip_if_ph (ph : placeholder) (m : mesg) : mesg := if mnum m =? ph_num ph then strip4 ph m else m.
(* updateStartPosition: every lap (session) up to the first one that does not satisfy [lap_before] loses all four positions;
   that first one gets the position of the first revealed record as start position (or loses it); the rest is untouched *)
Theorem update_start_spec ph t la lo pre m post :
  Forall (fun x => mnum x = ph_num ph -> lap_before ph t x = true) pre -> mnum m = ph_num ph ->
  update_start ph t la lo (pre ++ m :: post) =
  map (strip_if_ph ph) pre ++
  (if lap_before ph t m then strip4 ph m :: update_start ph t la lo post
   else set_or_remove (ph_slong ph) lo (set_or_remove (ph_slat ph) la m) :: post).
Proof.
  intros Hpre Hm. induction pre as [|x pre IH]; cbn [app map update_start].
  - rewrite Hm, N.eqb_refl. destruct (lap_before ph t m); reflexivity.
  - pose proof (Forall_inv Hpre) as Hx. unfold strip_if_ph at 1. destruct (mnum x =? ph_num ph) eqn:E.
    + apply N.eqb_eq in E. rewrite (Hx E). f_equal. apply IH. exact (Forall_inv_tail Hpre).
    + f_equal. apply IH. exact (Forall_inv_tail Hpre).
Qed.
Lemma update_start_all_before ph t la lo ms :
  Forall (fun x => mnum x = ph_num ph -> lap_before ph t x = true) ms -> update_start ph t la lo ms = map (strip_if_ph ph) ms.
Proof.
  induction ms as [|x r IH]; intros H; cbn [map update_start]; [reflexivity|]. unfold strip_if_ph at 1.
  pose proof (Forall_inv H) as Hx. destruct (mnum x =? ph_num ph) eqn:E.
  - apply N.eqb_eq in E. rewrite (Hx E). f_equal. apply IH. exact (Forall_inv_tail H).
  - f_equal. apply IH. exact (Forall_inv_tail H).
Qed.
Lemma update_end_all_after ph ov t la lo ms :
  Forall (fun x => mnum x = ph_num ph -> lap_after ph t x = true) ms -> update_end ph ov t la lo ms = (map (strip_if_ph ph) ms, false).
Proof.
  induction ms as [|x r IH]; intros H; cbn [map update_end]; [reflexivity|]. rewrite (IH (Forall_inv_tail H)).
  replace (strip_if_ph ph x) with (if mnum x =? ph_num ph then strip4 ph x else x) by reflexivity. pose proof (Forall_inv H) as Hx. destruct (mnum x =? ph_num ph) eqn:E; [|reflexivity].
  apply N.eqb_eq in E. rewrite (Hx E). reflexivity.
Qed.
Lemma update_end_done ph ov t la lo pre l : snd (update_end ph ov t la lo l) = true ->
  update_end ph ov t la lo (pre ++ l) = (pre ++ fst (update_end ph ov t la lo l), true).
Proof.
  intros H. induction pre as [|x pre IH]; cbn [app update_end].
  - destruct (update_end ph ov t la lo l); cbn in *; subst; reflexivity.
  - rewrite IH. reflexivity.
Qed.
(* updateEndPosition, from the last lap backwards: laps starting after the last revealed record lose all positions; the
   first one (from the back) that does not gets the record's position as end position (and loses its start position when the
   zones overlap); earlier laps are untouched *)
Theorem update_end_spec ph ov t la lo pre m post :
  Forall (fun x => mnum x = ph_num ph -> lap_after ph t x = true) post -> mnum m = ph_num ph -> lap_after ph t m = false ->
  fst (update_end ph ov t la lo (pre ++ m :: post)) =
  pre ++ set_or_remove (ph_elong ph) lo (set_or_remove (ph_elat ph) la
           (if ov then remove_field (ph_slong ph) (remove_field (ph_slat ph) m) else m)) :: map (strip_if_ph ph) post.
Proof.
  intros Hpost Hm Ha.
  assert (H : update_end ph ov t la lo (m :: post) =
              (set_or_remove (ph_elong ph) lo (set_or_remove (ph_elat ph) la
                 (if ov then remove_field (ph_slong ph) (remove_field (ph_slat ph) m) else m)) :: map (strip_if_ph ph) post, true)).
  { cbn [update_end]. rewrite (update_end_all_after _ _ _ _ _ _ Hpost), Hm, N.eqb_refl, Ha. reflexivity. }
  rewrite update_end_done by (rewrite H; reflexivity). rewrite H. reflexivity.
Qed.
(* a stripped lap has none of the four position fields *)
Lemma has_field_remove_other k k' m : k <> k' -> has_field k (remove_field k' m) = has_field k m.
Proof. intros H. unfold has_field, remove_field. cbn [mfields]. rewrite find_remove_first_other by exact H. reflexivity. Qed.
Lemma has_field_remove_same k m : nodup_fields m -> has_field k (remove_field k m) = false.
Proof. intros H. unfold has_field, remove_field. cbn [mfields]. rewrite find_remove_first_same by exact H. reflexivity. Qed.
Lemma nodup_remove k m : nodup_fields m -> nodup_fields (remove_field k m).
Proof. unfold nodup_fields, remove_field. cbn [mfields]. apply NoDup_remove_first. Qed.
Lemma has_field_remove_le k k' m : has_field k (remove_field k' m) = true -> has_field k m = true.
Proof.
  unfold has_field, remove_field. cbn [mfields]. induction (mfields m) as [|f r IH]; cbn [remove_first find_field]; [auto|].
  destruct (fnum f =? k') eqn:E; cbn [find_field]; destruct (fnum f =? k); auto;
    try (intros H; destruct (find_field k r); [reflexivity|discriminate]).
Qed.
Lemma hf_false_remove k k' m : has_field k m = false -> has_field k (remove_field k' m) = false.
Proof. intros H. destruct (has_field k (remove_field k' m)) eqn:E; [apply has_field_remove_le in E; congruence|reflexivity]. Qed.
Theorem strip4_no_positions ph m : nodup_fields m ->
  has_field (ph_slat ph) (strip4 ph m) = false /\ has_field (ph_slong ph) (strip4 ph m) = false /\
  has_field (ph_elat ph) (strip4 ph m) = false /\ has_field (ph_elong ph) (strip4 ph m) = false.
Proof.
  intros Hd. unfold strip4.
  pose proof (nodup_remove (ph_slat ph) m Hd) as Hd1. pose proof (nodup_remove (ph_slong ph) _ Hd1) as Hd2.
  pose proof (nodup_remove (ph_elat ph) _ Hd2) as Hd3.
  split; [|split; [|split]].
  - do 3 apply hf_false_remove. apply has_field_remove_same. exact Hd.
  - do 2 apply hf_false_remove. apply has_field_remove_same. exact Hd1.
  - apply hf_false_remove. apply has_field_remove_same. exact Hd2.
  - apply has_field_remove_same. exact Hd3.
Qed.

(* ---------------------------------------------------------------- the time-based criterion is refuted *)
(* DESIGN.md witness: 10 records 100 m and 1 s apart, laps [0,2) [2,4) [4,10) s (total_timer_time in ms), 450 m concealed *)
Definition w_rec (k : N) : mesg :=
  M RECORD [F REC_TIMESTAMP BT_UINT32 false (U32 (1000000000 + k)); F REC_LAT BT_SINT32 false (S32 (Z.of_N (1000 + k)));
            F REC_LONG BT_SINT32 false (S32 (Z.of_N (2000 + k))); F REC_DIST BT_UINT32 true (U32 (k * 10000))] [].
Definition w_lap (a b : N) : mesg :=
  M LAP [F TIMESTAMP BT_UINT32 false (U32 (1000000000 + b)); F LAP_START_TIME BT_UINT32 false (U32 (1000000000 + a));
         F LAP_START_LAT BT_SINT32 false (S32 (Z.of_N (1000 + a))); F LAP_START_LONG BT_SINT32 false (S32 (Z.of_N (2000 + a)));
         F LAP_END_LAT BT_SINT32 false (S32 (Z.of_N (1000 + b - 1))); F LAP_END_LONG BT_SINT32 false (S32 (Z.of_N (2000 + b - 1)));
         F 7 BT_UINT32 false (U32 ((b - a) * 1000)); F LAP_TOTAL_TIMER_TIME BT_UINT32 false (U32 ((b - a) * 1000))] [].
Definition witness_activity : list mesg :=
  [w_rec 0; w_rec 1; w_lap 0 2; w_rec 2; w_rec 3; w_lap 2 4; w_rec 4; w_rec 5; w_rec 6; w_rec 7; w_rec 8; w_rec 9; w_lap 4 10].

(* the statement's reading: a lap that ends (start_time + total_timer_time/1000 s) before the first revealed record lies
   entirely inside the concealed start stretch, so none of its positions may survive *)
Definition lap_ends_before (ph : placeholder) (recTs : N) (m : mesg) : bool :=
  let st := get_u32 (ph_start_time ph) m in let tt := get_u32 (ph_ttt ph) m in
  (mnum m =? ph_num ph) && negb (st =? U32INV) && negb (tt =? U32INV) && (st + tt / 1000 <? recTs).
Definition any_position (ph : placeholder) (m : mesg) : bool :=
  has_field (ph_slat ph) m || has_field (ph_slong ph) m || has_field (ph_elat ph) m || has_field (ph_elong ph) m.
Fixpoint bool_nodup (l : list N) : bool := match l with [] => true | x :: r => negb (memN x r) && bool_nodup r end.
Definition wf_activity_b (ms : list mesg) : bool := forallb (fun m => bool_nodup (map fnum (mfields m))) ms.
Fixpoint mono_b (lo : N) (ms : list mesg) : bool :=
  match ms with [] => true | m :: r => if is_rec m then (lo <=? dist m) && (dist m <? U32INV) && mono_b (dist m) r else mono_b lo r end.
Lemma mono_b_sound : forall ms lo, mono_b lo ms = true -> mono lo ms.
Proof.
  induction ms as [|m r IH]; intros lo H; cbn [mono mono_b] in *; [exact I|]. destruct (is_rec m); [|apply IH; exact H].
  apply andb_prop in H. destruct H as [H H2]. apply andb_prop in H. destruct H as [H0 H1].
  apply N.leb_le in H0. apply N.ltb_lt in H1. split; [split; assumption|apply IH; exact H2].
Qed.
(* conceal_laps (time-based) is false: a well-formed activity with valid non-decreasing distances, a lap entirely inside the
   concealed start stretch, and that lap still carries a position afterwards *)
Theorem conceal_laps_refuted : exists ms first last i m m',
  valid_nondecreasing_distances ms /\ wf_activity_b ms = true /\
  nth_error ms i = Some m /\ nth_error (conceal first last ms) i = Some m' /\
  lap_ends_before lap_ph (first_revealed_ts first ms) m = true /\ any_position lap_ph m' = true /\
  cls_lap_inside_concealed_zone first ms = true.
Proof.
  exists witness_activity, 45000, 0, 5%nat, (w_lap 2 4), (w_lap 2 4).
  split; [apply mono_b_sound; vm_compute; reflexivity|]. repeat split; vm_compute; reflexivity.
Qed.
(* second deviation: the end zone covers every record; every record is concealed but the earlier laps keep their positions *)
Definition cls_end_zone_covers_activity (last : N) (ms : list mesg) : bool :=
  negb (last =? 0) && match snd (scan_end last ms) with EScanning _ => true | EDone _ => false end.
Theorem conceal_end_zone_refuted : exists ms first last i m',
  valid_nondecreasing_distances ms /\ wf_activity_b ms = true /\
  forallb (fun m => negb (is_rec m) || negb (has_field REC_LAT m || has_field REC_LONG m)) (conceal first last ms) = true /\
  nth_error (conceal first last ms) i = Some m' /\ mnum m' = LAP /\ any_position lap_ph m' = true /\
  cls_end_zone_covers_activity last ms = true /\ cls_lap_inside_concealed_zone first ms = false.
Proof.
  exists witness_activity, 0, 1000000, 2%nat, (w_lap 0 2).
  split; [apply mono_b_sound; vm_compute; reflexivity|]. repeat split; vm_compute; reflexivity.
Qed.
(* outside the classifier the code's test and the time-based one coincide, lap by lap *)
Theorem lap_before_is_time_based ph recTs m : mnum m = ph_num ph ->
  lap_unit_differs ph recTs m = false -> get_u32 (ph_start_time ph) m <> U32INV -> get_u32 (ph_ttt ph) m <> U32INV ->
  lap_before ph recTs m = lap_ends_before ph recTs m.
Proof.
  intros Hn Hc H1 H2. unfold lap_unit_differs, lap_before, lap_ends_before in *. rewrite Hn, N.eqb_refl in *.
  apply N.eqb_neq in H1. apply N.eqb_neq in H2. rewrite H1, H2 in *. cbn [negb andb orb] in *.
  apply negb_false_iff in Hc. apply eqb_prop in Hc. exact Hc.
Qed.

(* ================================================================ Part 4: combiner *)
(* ---------------------------------------------------------------- creation-time order *)
Lemma insert_fit_perm f l : Permutation (insert_fit f l) (f :: l).
Proof.
  induction l as [|g r IH]; cbn [insert_fit]; [apply Permutation_refl|].
  destruct (time_created g <? time_created f); [|apply Permutation_refl].
  eapply Permutation_trans; [apply perm_skip; exact IH|apply perm_swap].
Qed.
Theorem sort_fits_perm l : Permutation (sort_fits l) l.
Proof.
  induction l as [|f r IH]; cbn [sort_fits]; [constructor|].
  eapply Permutation_trans; [apply insert_fit_perm|apply perm_skip; exact IH].
Qed.
Definition tc_le (f g : list mesg) : Prop := time_created f <= time_created g.
Lemma insert_fit_sorted f l : StronglySorted tc_le l -> StronglySorted tc_le (insert_fit f l).
Proof.
  induction 1 as [|g r Hs IH Hall]; cbn [insert_fit]; [constructor; constructor|].
  destruct (time_created g <? time_created f) eqn:E.
  - apply N.ltb_lt in E. constructor; [exact IH|].
    apply (Permutation_Forall (Permutation_sym (insert_fit_perm f r))). constructor; [unfold tc_le; lia|exact Hall].
  - apply N.ltb_ge in E. constructor; [constructor; assumption|]. constructor; [exact E|].
    eapply Forall_impl; [|exact Hall]. unfold tc_le. intros; lia.
Qed.
Theorem sort_fits_sorted l : StronglySorted tc_le (sort_fits l).
Proof. induction l as [|f r IH]; cbn [sort_fits]; [constructor|apply insert_fit_sorted; exact IH]. Qed.

(* ---------------------------------------------------------------- the per-file loop keeps everything but the summary messages *)
Definition strip_summary (f : list mesg) : list mesg := filter (fun m => negb (is_summary (mnum m))) f.
Lemma sfm_split : forall ms c, fst (sfm nostop split_decide c ms) = strip_summary ms.
Proof.
  unfold strip_summary. induction ms as [|m r IH]; intros c; cbn [sfm filter]; [reflexivity|]. unfold nostop at 1, split_decide at 1, is_summary at 1.
  destruct (mnum m =? SESSION); [apply IH|]. destruct (mnum m =? SPLIT_SUMMARY); [apply IH|].
  destruct (mnum m =? ACTIVITY); [apply IH|]. destruct (mnum m =? SPORT); [apply IH|]. cbn [orb negb].
  destruct (sfm nostop split_decide c r) eqn:E. cbn [fst]. f_equal. change l with (fst (l, c0)). rewrite <- E. apply IH.
Qed.
Lemma split_files_bodies : forall fits sp ac so res sp' ac' so',
  split_files fits sp ac so = Some (res, sp', ac', so') -> map fst res = map strip_summary fits.
Proof.
  induction fits as [|f r IH]; intros sp ac so res sp' ac' so' H; cbn [split_files] in H.
  - inversion H; subst. reflexivity.
  - rewrite compact_is_sfm in H. pose proof (sfm_split f (COL [] sp ac so)) as Hf.
    destruct (sfm nostop split_decide (COL [] sp ac so) f) as [ms c]. cbn [fst] in Hf. subst ms.
    destruct (c_sessions c); [discriminate|].
    destruct (split_files r (c_splits c) (c_activities c) (c_sports c)) as [[[[rest sp2] ac2] so2]|] eqn:E; [|discriminate].
    inversion H; subst. cbn [map fst]. f_equal. eapply IH. exact E.
Qed.

(* ---------------------------------------------------------------- accumulation leaves everything but accumulable values alone *)
Definition field_rel (f f' : field) : Prop :=
  fnum f' = fnum f /\ fbase f' = fbase f /\ facc f' = facc f /\ (accumulable f = false -> fval f' = fval f).
Definition acc_rel (m m' : mesg) : Prop := mnum m' = mnum m /\ mdev m' = mdev m /\ Forall2 field_rel (mfields m) (mfields m').
Definition not_ids (m : mesg) : bool := negb ((mnum m =? FILE_ID) || (mnum m =? FILE_CREATOR)).
Lemma accumulate_fields_rel mn : forall fl a, Forall2 field_rel fl (fst (accumulate_fields mn fl a)).
Proof.
  induction fl as [|f r IH]; intros a; cbn [accumulate_fields]; [constructor|].
  destruct (accumulable f) eqn:Ea.
  - destruct (acc_accumulate mn (fnum f) (fval f) a) as [a' v]. specialize (IH a'). destruct (accumulate_fields mn r a'). cbn [fst] in *.
    constructor; [|exact IH]. unfold field_rel. cbn. repeat split; auto. intros; congruence.
  - specialize (IH a). destruct (accumulate_fields mn r a). cbn [fst] in *. constructor; [|exact IH]. unfold field_rel. auto.
Qed.
Lemma accumulate_mesgs_rel : forall ms a, Forall2 acc_rel (filter not_ids ms) (fst (accumulate_mesgs ms a)).
Proof.
  induction ms as [|m r IH]; intros a; cbn [accumulate_mesgs filter]; [constructor|]. unfold not_ids at 1.
  destruct ((mnum m =? FILE_ID) || (mnum m =? FILE_CREATOR)); cbn [negb]; [apply IH|].
  pose proof (accumulate_fields_rel (mnum m) (mfields m) a) as Hf. destruct (accumulate_fields (mnum m) (mfields m) a) as [fl a'].
  specialize (IH a'). destruct (accumulate_mesgs r a'). cbn [fst] in *. constructor; [|exact IH]. unfold acc_rel. cbn. auto.
Qed.
Lemma acc_rel_refl m : acc_rel m m.
Proof. unfold acc_rel. repeat split; auto. apply Forall2_refl. intros f. unfold field_rel. auto. Qed.
Lemma Forall2_app_both {A} (R : A -> A -> Prop) a b c e : Forall2 R a b -> Forall2 R c e -> Forall2 R (a ++ c) (b ++ e).
Proof. induction 1; cbn; auto. Qed.
Lemma merge_files_body : forall rest body a sessions,
  exists tail, fst (merge_files rest body a sessions) = body ++ tail /\
               Forall2 acc_rel (concat (map (fun p => filter not_ids (fst p)) rest)) tail.
Proof.
  induction rest as [|[ms nexts] r IH]; intros body a sessions; cbn [merge_files map concat].
  - exists []. rewrite app_nil_r. split; [reflexivity|constructor].
  - pose proof (accumulate_mesgs_rel ms a) as Hm. destruct (accumulate_mesgs ms a) as [ms' a']. cbn [fst] in *.
    match goal with |- context [merge_files r ?b ?x ?s] => destruct (IH b x s) as (tail & H1 & H2) end.
    exists (ms' ++ tail). rewrite H1, <- app_assoc. split; [reflexivity|]. apply Forall2_app_both; assumption.
Qed.
(* combine keeps every message of every input that is not a summary message (sessions, sports, split summaries, activity)
   nor a later file's file_id / file_creator: first file verbatim, then the later files in creation-time order, message by
   message in their original order, nothing lost, nothing duplicated, nothing changed except accumulable values.
   In particular every record of every input is there, in creation-time order. *)
Theorem combine_records fits body t : combine fits = CombOk body t ->
  exists f0 rest, map strip_summary (sort_fits (filter (fun f => match f with [] => false | _ => true end) fits)) = f0 :: rest /\
    exists tail, body = f0 ++ tail /\ Forall2 acc_rel (concat (map (filter not_ids) rest)) tail.
Proof.
  unfold combine. intros H.
  destruct (split_files _ [] 0%nat []) as [[[[res sp] ac] so]|] eqn:E; [|discriminate].
  pose proof (split_files_bodies _ _ _ _ _ _ _ _ E) as Hb.
  destruct res as [|[ms0 ses0] rest]; [discriminate|].
  destruct (merge_files rest ms0 (collect_mesgs ms0 []) ses0) as [bd sessions] eqn:Em.
  injection H as <- _. cbn [map fst] in Hb. exists ms0, (map fst rest). split; [symmetry; exact Hb|].
  destruct (merge_files_body rest ms0 (collect_mesgs ms0 []) ses0) as (tail & H1 & H2). rewrite Em in H1. cbn [fst] in H1.
  exists tail. split; [exact H1|]. rewrite map_map. exact H2.
Qed.
Corollary combine_records_in_order fits body t : combine fits = CombOk body t ->
  exists f0 rest, map strip_summary (sort_fits (filter (fun f => match f with [] => false | _ => true end) fits)) = f0 :: rest /\
    Forall2 acc_rel (filter is_rec (f0 ++ concat (map (filter not_ids) rest))) (filter is_rec body).
Proof.
  intros H. destruct (combine_records _ _ _ H) as (f0 & rest & H1 & tail & -> & H2). exists f0, rest. split; [exact H1|].
  rewrite !filter_app. apply Forall2_app_both; [apply Forall2_refl; apply acc_rel_refl|].
  clear -H2. induction H2 as [|m m' r r' Hm H IH]; cbn [filter]; [constructor|].
  destruct Hm as (Hn & Hd & Hf). assert (Hr : is_rec m' = is_rec m) by (unfold is_rec; rewrite Hn; reflexivity).
  rewrite Hr. destruct (is_rec m); [constructor; [unfold acc_rel; auto|exact IH]|exact IH].
Qed.

(* ---------------------------------------------------------------- accumulable quantities continue across file boundaries *)
Fixpoint lookup (a : accumulator) (mn fn : N) : option (value * value) :=
  match a with [] => None | v :: r => if av_is mn fn v then Some (av_value v, av_last v) else lookup r mn fn end.
Definition keyeq (mn fn mn' fn' : N) : bool := (mn' =? mn) && (fn' =? fn).
Lemma av_is_mk mn fn mn' fn' v l : av_is mn fn (AV mn' fn' v l) = keyeq mn fn mn' fn'.
Proof. reflexivity. Qed.
Lemma keyeq_true mn fn mn' fn' : keyeq mn fn mn' fn' = true -> mn' = mn /\ fn' = fn.
Proof. unfold keyeq. intros H. apply andb_prop in H. destruct H as [A B]. apply N.eqb_eq in A. apply N.eqb_eq in B. auto. Qed.
Lemma av_is_eta mn fn v : av_is mn fn v = keyeq mn fn (av_mesg v) (av_field v).
Proof. reflexivity. Qed.
Lemma keyeq_trans_false mn fn mn' fn' a b : keyeq mn fn mn' fn' = false -> keyeq mn' fn' a b = true -> keyeq mn fn a b = false.
Proof. intros H1 H2. apply keyeq_true in H2. destruct H2; subst. exact H1. Qed.

Lemma acc_accumulate_same mn fn val : forall a v0 l0, lookup a mn fn = Some (v0, l0) ->
  snd (acc_accumulate mn fn val a) = vsum val v0 /\ lookup (fst (acc_accumulate mn fn val a)) mn fn = Some (v0, vsum val v0).
Proof.
  induction a as [|v r IH]; intros v0 l0 H; cbn [lookup acc_accumulate] in *; [discriminate|].
  destruct (av_is mn fn v) eqn:E.
  - injection H as <- <-. cbn [fst snd lookup]. rewrite av_is_mk. unfold keyeq. rewrite !N.eqb_refl. auto.
  - destruct (IH _ _ H) as [A B]. destruct (acc_accumulate mn fn val r). cbn [fst snd lookup] in *. rewrite E. auto.
Qed.
Lemma acc_accumulate_other mn fn mn' fn' val : keyeq mn fn mn' fn' = false ->
  forall a, lookup (fst (acc_accumulate mn' fn' val a)) mn fn = lookup a mn fn.
Proof.
  intros Hk. induction a as [|v r IH]; cbn [lookup acc_accumulate fst].
  - rewrite av_is_mk, Hk. reflexivity.
  - destruct (av_is mn' fn' v) eqn:E.
    + cbn [fst lookup]. rewrite av_is_mk. rewrite av_is_eta in E. rewrite av_is_eta.
      rewrite (keyeq_trans_false _ _ _ _ _ _ Hk E), Hk. reflexivity.
    + destruct (acc_accumulate mn' fn' val r). cbn [fst lookup] in *. rewrite IH. reflexivity.
Qed.
Lemma acc_collect_same mn fn val : forall a, lookup (acc_collect mn fn val a) mn fn = Some (val, val).
Proof.
  induction a as [|v r IH]; cbn [acc_collect lookup].
  - rewrite av_is_mk. unfold keyeq. rewrite !N.eqb_refl. reflexivity.
  - destruct (av_is mn fn v) eqn:E; cbn [lookup]; [rewrite av_is_mk; unfold keyeq; rewrite !N.eqb_refl; reflexivity|rewrite E; exact IH].
Qed.
Lemma lookup_sequence_completed mn fn : forall a, lookup (acc_sequence_completed a) mn fn =
  match lookup a mn fn with Some (_, l) => Some (l, l) | None => None end.
Proof.
  induction a as [|v r IH]; cbn [acc_sequence_completed map lookup]; [reflexivity|].
  rewrite av_is_mk, <- av_is_eta. destruct (av_is mn fn v); [reflexivity|exact IH].
Qed.

(* the value a later file's field must get, and the last accumulated value of the file, for one quantity (mn, fn) whose
   last accumulated value over the earlier files is v0 *)
Definition hits (mn fn mn' : N) (f : field) : bool := keyeq mn fn mn' (fnum f) && accumulable f.
Fixpoint last_in_fields (mn fn mn' : N) (v0 l : value) (fl : list field) : value :=
  match fl with [] => l | f :: r => last_in_fields mn fn mn' v0 (if hits mn fn mn' f then vsum (fval f) v0 else l) r end.
Fixpoint last_in_mesgs (mn fn : N) (v0 l : value) (ms : list mesg) : value :=
  match ms with
  | [] => l
  | m :: r => if not_ids m then last_in_mesgs mn fn v0 (last_in_fields mn fn (mnum m) v0 l (mfields m)) r else last_in_mesgs mn fn v0 l r
  end.
Lemma accumulate_fields_key mn fn mn' v0 : forall fl a l0, lookup a mn fn = Some (v0, l0) ->
  Forall2 (fun f f' => hits mn fn mn' f = true -> fval f' = vsum (fval f) v0) fl (fst (accumulate_fields mn' fl a)) /\
  lookup (snd (accumulate_fields mn' fl a)) mn fn = Some (v0, last_in_fields mn fn mn' v0 l0 fl).
Proof.
  induction fl as [|f r IH]; intros a l0 H; cbn [accumulate_fields last_in_fields]; [split; [constructor|exact H]|].
  unfold hits at 2. destruct (accumulable f) eqn:Ea.
  - destruct (keyeq mn fn mn' (fnum f)) eqn:Ek; cbn [andb].
    + destruct (keyeq_true _ _ _ _ Ek) as [-> Ef]. rewrite Ef. destruct (acc_accumulate_same mn fn (fval f) a v0 l0 H) as [A B].
      destruct (acc_accumulate mn fn (fval f) a) as [a' v]. cbn [fst snd] in *. subst v.
      destruct (IH a' _ B) as [I1 I2]. destruct (accumulate_fields mn r a'). cbn [fst snd] in *.
      split; [constructor; [intros _; reflexivity|exact I1]|exact I2].
    + pose proof (acc_accumulate_other mn fn mn' (fnum f) (fval f) Ek a) as B. rewrite H in B.
      destruct (acc_accumulate mn' (fnum f) (fval f) a) as [a' v]. cbn [fst] in B.
      destruct (IH a' _ B) as [I1 I2]. destruct (accumulate_fields mn' r a'). cbn [fst snd] in *.
      split; [constructor; [unfold hits; rewrite Ek; discriminate|exact I1]|exact I2].
  - rewrite andb_false_r. destruct (IH a _ H) as [I1 I2]. destruct (accumulate_fields mn' r a). cbn [fst snd] in *.
    split; [constructor; [unfold hits; rewrite Ea, andb_false_r; discriminate|exact I1]|exact I2].
Qed.
(* Inside a later file every valid accumulable field of quantity (mn, fn) comes out as its own value plus v0, the last
   accumulated value of the earlier files; the accumulator then holds the last value so produced (or the old one if the file
   has none), which SequenceCompleted makes the v0 of the next file. *)
Theorem combine_accumulate mn fn v0 : forall ms a l0, lookup a mn fn = Some (v0, l0) ->
  Forall2 (fun m m' => Forall2 (fun f f' => hits mn fn (mnum m) f = true -> fval f' = vsum (fval f) v0) (mfields m) (mfields m'))
          (filter not_ids ms) (fst (accumulate_mesgs ms a)) /\
  lookup (acc_sequence_completed (snd (accumulate_mesgs ms a))) mn fn =
    Some (last_in_mesgs mn fn v0 l0 ms, last_in_mesgs mn fn v0 l0 ms).
Proof.
  induction ms as [|m r IH]; intros a l0 H; cbn [accumulate_mesgs filter last_in_mesgs].
  - split; [constructor|]. rewrite lookup_sequence_completed. cbn [snd]. rewrite H. reflexivity.
  - unfold not_ids. destruct ((mnum m =? FILE_ID) || (mnum m =? FILE_CREATOR)) eqn:Eid; cbn [negb]; [apply IH; exact H|].
    destruct (accumulate_fields_key mn fn (mnum m) v0 (mfields m) a l0 H) as [F1 F2].
    destruct (accumulate_fields (mnum m) (mfields m) a) as [fl a']. cbn [fst snd] in *.
    destruct (IH a' _ F2) as [I1 I2]. destruct (accumulate_mesgs r a'). cbn [fst snd] in *.
    split; [constructor; [exact F1|exact I1]|exact I2].
Qed.
(* the first file only seeds the accumulator: after it, the base of a quantity is the last valid value the file carries *)
Lemma collect_fields_key mn fn mn' : forall fl a f, In f fl -> hits mn fn mn' f = true ->
  exists g, In g fl /\ hits mn fn mn' g = true /\ lookup (collect_fields mn' fl a) mn fn = Some (fval g, fval g).
Proof.
  assert (K : forall fl a v, lookup a mn fn = Some (v, v) -> (forall g, In g fl -> hits mn fn mn' g = false) ->
              lookup (collect_fields mn' fl a) mn fn = Some (v, v)).
  { induction fl as [|g r IHr]; intros a v Ha Hno; cbn [collect_fields]; [exact Ha|]. apply IHr; [|intros; apply Hno; right; assumption].
    pose proof (Hno g (or_introl eq_refl)) as Hg. unfold hits in Hg. destruct (accumulable g); [|exact Ha].
    rewrite andb_true_r in Hg.
    assert (forall a0, lookup (acc_collect mn' (fnum g) (fval g) a0) mn fn = lookup a0 mn fn) as L.
    { induction a0 as [|x a0 IHa]; cbn [acc_collect lookup]; [rewrite av_is_mk, Hg; reflexivity|].
      destruct (av_is mn' (fnum g) x) eqn:E; cbn [lookup]; [|rewrite IHa; reflexivity].
      rewrite av_is_mk, Hg. rewrite av_is_eta in E. rewrite av_is_eta, (keyeq_trans_false _ _ _ _ _ _ Hg E). reflexivity. }
    rewrite L. exact Ha. }
  induction fl as [|g r IH]; intros a f Hin Hf; [contradiction|]. cbn [collect_fields].
  destruct (existsb (hits mn fn mn') r) eqn:Ex.
  - apply existsb_exists in Ex. destruct Ex as (f2 & Hin2 & Hf2). destruct (IH (if accumulable g then acc_collect mn' (fnum g) (fval g) a else a) f2 Hin2 Hf2) as (g2 & G1 & G2 & G3).
    exists g2. split; [right; exact G1|]. split; assumption.
  - destruct Hin as [->|Hin]; [|exfalso; assert (X : existsb (hits mn fn mn') r = true) by (apply existsb_exists; eauto); congruence].
    exists f. split; [left; reflexivity|]. split; [exact Hf|]. unfold hits in Hf. apply andb_prop in Hf. destruct Hf as [Hk Ha]. rewrite Ha.
    destruct (keyeq_true _ _ _ _ Hk) as [-> <-]. apply K; [apply acc_collect_same|].
    intros g0 Hg0. destruct (hits mn (fnum f) mn g0) eqn:X; [|reflexivity]. exfalso.
    assert (Y : existsb (hits mn (fnum f) mn) r = true) by (apply existsb_exists; eauto). congruence.
Qed.
