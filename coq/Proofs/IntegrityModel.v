(* C04: the model of Decoder.CheckIntegrity (Model/Api.v integrity_loop over Model/Decoder.v: header, discardMessages in
   765-byte reads with the running CRC, trailing CRC, loop over chained sequences) computes, for EVERY byte string, exactly
   the verdict and the number of valid sequences of the integrity rules of Model/Wire.v with the two known deviations
   switched on (integrity_impl_b).  So the burst / truncation / append theorems stated on the rules speak about the model of
   the implementation, and the only distance left between rules and model is the two listed findings. *)
From Coq Require Import NArith ZArith List Lia Bool ZifyN ZifyNat ZifyBool.
Import ListNotations.
From Fit Require Import Model.Api Model.Wire Proofs.CrcProofs Proofs.EncoderProofs Proofs.IntegrityProofs Proofs.ValueProofs Proofs.AcceptProofs.
Open Scope N_scope.

(* ---------------------------------------------------------------- reads *)
Definition bufok (s : dstate) : Prop := s_buf s <= len (s_rest s).
Definition same_but_read (s s' : dstate) : Prop :=
  s_ts s' = s_ts s /\ s_lto s' = s_lto s /\ s_defs s' = s_defs s /\ s_devidx s' = s_devidx s /\ s_fdescs s' = s_fdescs s /\ s_acc s' = s_acc s
  /\ s_fileid s' = s_fileid s /\ s_header s' = s_header s /\ s_msgs s' = s_msgs s /\ s_events s' = s_events s.

Lemma len_take' {A} n (l : list A) : n <= len l -> len (take n l) = n.
Proof. unfold len, take. intros H. rewrite firstn_length. lia. Qed.
Lemma len_drop' {A} n (l : list A) : len (drop n l) = len l - n.
Proof. unfold len, drop. rewrite skipn_length. lia. Qed.

Lemma read_raw_ok c s n : bufok s -> n <= 765 -> 765 <= c_bufsize c -> n <= len (s_rest s) ->
  exists s', read_raw c s n = Ok (take n (s_rest s), s') /\ s_rest s' = drop n (s_rest s) /\ bufok s' /\ s_n s' = s_n s + n
    /\ s_cur s' = s_cur s /\ s_crc s' = s_crc s /\ s_header s' = s_header s /\ same_but_read s s'.
Proof.
  intros Hb Hn Hc Hl. unfold read_raw, bufok in *.
  destruct (n <=? s_buf s) eqn:E1.
  - eexists. split; [reflexivity|]. unfold same_but_read. cbn [upd_read s_rest s_buf s_n s_cur s_crc s_header s_ts s_lto s_defs s_devidx s_fdescs s_acc s_fileid s_msgs s_events]. rewrite len_drop'. repeat split; lia.
  - replace (n <=? s_buf s + N.min (len (s_rest s) - s_buf s) (c_bufsize c)) with true by (symmetry; apply N.leb_le; lia).
    eexists. split; [reflexivity|]. unfold same_but_read. cbn [upd_read s_rest s_buf s_n s_cur s_crc s_header s_ts s_lto s_defs s_devidx s_fdescs s_acc s_fileid s_msgs s_events]. rewrite len_drop'. repeat split; lia.
Qed.

Lemma read_raw_short c s n : bufok s -> len (s_rest s) < n ->
  exists e, read_raw c s n = Err e /\ (s_rest s = [] -> e = E_EOF).
Proof.
  intros Hb Hl. unfold read_raw, bufok in *.
  replace (n <=? s_buf s) with false by (symmetry; apply N.leb_gt; lia).
  replace (n <=? s_buf s + N.min (len (s_rest s) - s_buf s) (c_bufsize c)) with false by (symmetry; apply N.leb_gt; lia).
  eexists. split; [reflexivity|]. intros Hr. rewrite Hr. change (len (@nil N)) with 0. rewrite N.sub_0_l, N.min_0_l. reflexivity.
Qed.

Lemma read_n_ok c s n : c_checksum c = true -> bufok s -> n <= 765 -> 765 <= c_bufsize c -> n <= len (s_rest s) ->
  exists s', read_n c s n = Ok (take n (s_rest s), s') /\ s_rest s' = drop n (s_rest s) /\ bufok s' /\ s_n s' = s_n s + n
    /\ s_cur s' = wrap 32 (s_cur s + n) /\ s_crc s' = write (s_crc s) (take n (s_rest s)) /\ s_header s' = s_header s.
Proof.
  intros Hck Hb Hn Hc Hl. unfold read_n, bind.
  destruct (read_raw_ok c s n Hb Hn Hc Hl) as (s1 & E & R & B & Nn & Cu & Cr & Hh & _). rewrite E, Hck.
  eexists. split; [reflexivity|]. cbn [upd_read s_rest s_buf s_n s_cur s_crc s_header]. unfold bufok in *. cbn [upd_read s_rest s_buf].
  rewrite Cu, Cr. repeat split; assumption.
Qed.
Lemma read_n_short c s n : bufok s -> len (s_rest s) < n -> exists e, read_n c s n = Err e.
Proof. intros Hb Hl. unfold read_n, bind. destruct (read_raw_short c s n Hb Hl) as (e & E & _). rewrite E. eexists. reflexivity. Qed.

(* ---------------------------------------------------------------- little-endian readers agree *)
Lemma le_word_le32 l : length l = 4%nat -> le_word l = le32 l.
Proof. destruct l as [|a [|b [|c [|d [|? ?]]]]]; cbn [length]; try lia. intros _. cbn [le_word le32]. lia. Qed.
Lemma le_word_le16 l : length l = 2%nat -> le_word l = le16 l.
Proof. destruct l as [|a [|b [|? ?]]]; cbn [length]; try lia. intros _. cbn [le_word le16]. lia. Qed.
Lemma list_N_eqb_beq a : forall b, list_N_eqb a b = beq a b.
Proof. induction a as [|x a IH]; intros [|y b]; cbn [Value.list_N_eqb beq]; try reflexivity; rewrite IH; reflexivity. Qed.

#[local] Opaque write.
Lemma write_cons s x l : write s (x :: l) = write (write s [x]) l.
Proof. change (x :: l) with ([x] ++ l). apply write_app. Qed.

(* ---------------------------------------------------------------- the header *)
(* the header conditions of the rules, with the implementation's two deviations irrelevant at this stage *)
Definition hdr_ok (bs : bytes) : option (N * N * N) :=      (* header size, data size, header CRC field *)
  match bs with
  | hs :: _ =>
    if negb ((hs =? 12) || (hs =? 14)) then None else
    if len bs <? hs then None else
    let h := take hs bs in
    if negb (beq (take 4 (drop 8 h)) fit_tag) then None else
    let dsize := le32 (take 4 (drop 4 h)) in
    if dsize =? 0 then None else
    let hcrc := if hs =? 14 then le16 (drop 12 h) else 0 in
    if negb (hcrc =? 0) && negb (hcrc =? crc_of (take 12 h)) then None else Some (hs, dsize, hcrc)
  | [] => None
  end.

Lemma rules_via_hdr l12 zc bs : integrity_sequence_gen l12 zc bs =
  match hdr_ok bs with
  | None => None
  | Some (hs, dsize, hcrc) =>
    if len bs <? hs + dsize + 2 then None else
    let fcrc := le16 (take 2 (drop (hs + dsize) bs)) in
    let records_only := (l12 && (hs =? 12)) || (zc && (hs =? 14) && (hcrc =? 0)) in
    if fcrc =? (if records_only then crc_of (take dsize (drop hs bs)) else crc_of (take (hs + dsize) bs))
    then Some (drop (hs + dsize + 2) bs) else None
  end.
Proof.
  unfold integrity_sequence_gen, hdr_ok. destruct bs as [|hs r]; [reflexivity|].
  destruct (negb ((hs =? 12) || (hs =? 14))); [reflexivity|]. destruct (len (hs :: r) <? hs); [reflexivity|].
  destruct (negb (beq _ fit_tag)); [reflexivity|]. destruct (le32 _ =? 0); [reflexivity|].
  destruct (negb _ && negb _); reflexivity.
Qed.

Lemma firstn_len_ge {A} k (l : list A) : (k <= length l)%nat -> length (firstn k l) = k.
Proof. intros H. rewrite firstn_length. lia. Qed.

Definition hdr_state (s s' : dstate) (hs dsize : N) : Prop :=
  s_rest s' = drop hs (s_rest s) /\ bufok s' /\ s_crc s' = 0 /\ s_cur s' = s_cur s /\ h_datasize (s_header s') = dsize /\ s_n s' = s_n s + hs.

Lemma header_spec c s : c_checksum c = true -> 765 <= c_bufsize c -> bufok s -> s_crc s = 0 ->
  match hdr_ok (s_rest s) with
  | Some (hs, dsize, hcrc) => exists s', decode_file_header c s = Ok s' /\ hdr_state s s' hs dsize
  | None => exists e, decode_file_header c s = Err e /\ (s_rest s = [] -> e = E_EOF)
  end.
Proof.
  intros Hck Hbs Hb Hcrc. unfold decode_file_header, hdr_ok, bind.
  destruct (s_rest s) as [|hs r] eqn:Er.
  { destruct (read_raw_short c s 1 Hb) as (e & E & He); [rewrite Er; cbn; lia|]. rewrite E. exists e. split; [reflexivity|]. intros _. apply He. exact Er. }
  destruct (read_raw_ok c s 1 Hb ltac:(lia) Hbs) as (s1 & E1 & R1 & B1 & N1 & C1 & K1 & H1 & _); [rewrite Er; unfold len; cbn [length]; lia|].
  rewrite E1, Er. change (take 1 (hs :: r)) with [hs]. cbn [byte_at nth_opt].
  destruct (negb ((hs =? 12) || (hs =? 14))) eqn:Esz.
  { eexists. split; [reflexivity|discriminate]. }
  assert (Hhs : hs = 12 \/ hs = 14).
  { apply negb_false_iff, orb_true_iff in Esz. destruct Esz as [E|E]; apply N.eqb_eq in E; auto. }
  rewrite Er in R1. change (drop 1 (hs :: r)) with r in R1.
  set (s1c := upd_crc s1 (write (s_crc s1) [hs])).
  assert (B1c : bufok s1c) by exact B1.
  assert (R1c : s_rest s1c = r) by exact R1.
  destruct (len (hs :: r) <? hs) eqn:Elen.
  { apply N.ltb_lt in Elen. destruct (read_raw_short c s1c (hs - 1) B1c) as (e & E & _); [rewrite R1c; unfold len in *; cbn [length] in Elen; lia|].
    rewrite E. eexists. split; [reflexivity|discriminate]. }
  apply N.ltb_ge in Elen.
  destruct (read_raw_ok c s1c (hs - 1) B1c ltac:(lia) Hbs) as (s2 & E2 & R2 & B2 & N2 & C2 & K2 & H2 & _); [rewrite R1c; unfold len in *; cbn [length] in Elen; lia|].
  rewrite E2, R1c.
  assert (Lr : (N.to_nat (hs - 1) <= length r)%nat) by (unfold len in Elen; cbn [length] in Elen; lia).
  set (b := take (hs - 1) r).
  assert (Lb : length b = N.to_nat (hs - 1)) by (unfold b, take; apply firstn_len_ge; exact Lr).
  assert (Eh : take hs (hs :: r) = hs :: b).
  { unfold b, take. destruct Hhs as [-> | ->]; reflexivity. }
  rewrite Eh.
  (* slices are in bounds *)
  assert (S1 : slice b 7 11 = Ok (firstn 4 (skipn 7 b))) by (unfold slice; rewrite Lb; destruct Hhs as [-> | ->]; reflexivity).
  assert (S2 : slice b 1 3 = Ok (firstn 2 (skipn 1 b))) by (unfold slice; rewrite Lb; destruct Hhs as [-> | ->]; reflexivity).
  assert (S3 : slice b 3 7 = Ok (firstn 4 (skipn 3 b))) by (unfold slice; rewrite Lb; destruct Hhs as [-> | ->]; reflexivity).
  rewrite S1. change (take 4 (drop 8 (hs :: b))) with (firstn 4 (skipn 7 b)).
  change (Value.list_N_eqb (firstn 4 (skipn 7 b)) DataTypeFIT) with (beq (firstn 4 (skipn 7 b)) fit_tag).
  destruct (negb (beq (firstn 4 (skipn 7 b)) fit_tag)); [eexists; split; [reflexivity|discriminate]|].
  assert (Hb0 : exists b0, byte_at b 0 = Ok b0).
  { destruct b as [|b0 b']; [cbn [length] in Lb; lia|]. exists b0. reflexivity. }
  destruct Hb0 as (b0 & Eb0). rewrite Eb0, S2, S3.
  change (take 4 (drop 4 (hs :: b))) with (firstn 4 (skipn 3 b)).
  assert (L4 : length (firstn 4 (skipn 3 b)) = 4%nat) by (apply firstn_len_ge; rewrite skipn_length, Lb; lia).
  rewrite (le_word_le32 _ L4).
  set (dsize := le32 (firstn 4 (skipn 3 b))).
  destruct (dsize =? 0) eqn:Ed0; [eexists; split; [reflexivity|discriminate]|].
  assert (Hstate : forall sx, s_rest sx = s_rest s2 -> s_buf sx = s_buf s2 -> s_cur sx = s_cur s2 -> s_n sx = s_n s2 -> s_crc sx = 0 -> h_datasize (s_header sx) = dsize ->
            hdr_state s sx hs dsize).
  { intros sx A1 A2 A3 A4 A5 A6. unfold hdr_state, bufok in *. rewrite A1, A2, A3, A4, A5, A6, R2, R1c, Er, C2, N2.
    unfold s1c. cbn [upd_crc upd_read s_cur s_n]. rewrite C1, N1.
    split; [unfold drop; destruct Hhs as [-> | ->]; reflexivity|]. split; [rewrite R2, R1c in B2; exact B2|]. repeat split; try reflexivity. lia. }
  destruct Hhs as [-> | ->].
  - (* 12-byte header: no CRC field *)
    change (12 =? 14) with false. cbv iota. change (0 =? 0) with true. cbn [negb andb orb].
    eexists. split; [reflexivity|]. apply Hstate; reflexivity.
  - change (14 =? 14) with true. cbv iota.
    assert (S4 : slice b 11 13 = Ok (firstn 2 (skipn 11 b))) by (unfold slice; rewrite Lb; reflexivity).
    rewrite S4. change (drop 12 (14 :: b)) with (skipn 11 b).
    assert (L2 : length (skipn 11 b) = 2%nat) by (rewrite skipn_length, Lb; reflexivity).
    assert (F2 : firstn 2 (skipn 11 b) = skipn 11 b) by (apply firstn_all2; rewrite L2; lia).
    rewrite F2, (le_word_le16 _ L2). set (hcrc := le16 (skipn 11 b)).
    rewrite Hck. cbn [negb orb]. rewrite orb_false_r.
    destruct (hcrc =? 0) eqn:Eh0.
    + cbn [negb andb]. eexists. split; [reflexivity|]. apply Hstate; reflexivity.
    + cbn [negb andb].
      assert (Ecrc : write (s_crc (push_event (upd_header s2 (mkfh 14 b0 (le_word (firstn 2 (skipn 1 b))) dsize hcrc)) (EvHeader (mkfh 14 b0 (le_word (firstn 2 (skipn 1 b))) dsize hcrc))))
                       (firstn (length b - 2) b) = crc_of (take 12 (14 :: b))).
      { cbn [push_event upd_header s_crc]. rewrite K2. unfold s1c. cbn [upd_crc upd_read s_crc]. rewrite K1, Hcrc.
        unfold crc_of. change (take 12 (14 :: b)) with (14 :: firstn 11 b). rewrite (write_cons 0 14). rewrite Lb. reflexivity. }
      rewrite Ecrc. rewrite (N.eqb_sym (crc_of _) hcrc).
      destruct (hcrc =? crc_of (take 12 (14 :: b))); cbn [negb]; [eexists; split; [reflexivity|]; apply Hstate; reflexivity|eexists; split; [reflexivity|discriminate]].
Qed.

(* ---------------------------------------------------------------- discardMessages *)
#[local] Transparent write.
Lemma write_nil s : write s [] = s. Proof. reflexivity. Qed.
#[local] Opaque write.

Lemma drop_drop' {A} a b (l : list A) : drop a (drop b l) = drop (b + a) l.
Proof. unfold drop. revert l. replace (N.to_nat (b + a)) with (N.to_nat b + N.to_nat a)%nat by lia.
  induction (N.to_nat b) as [|k IH]; intros l; [reflexivity|]. destruct l as [|x l]; cbn [skipn Nat.add]; [destruct (N.to_nat a); reflexivity|apply IH]. Qed.
Lemma take_add {A} a b (l : list A) : take (a + b) l = take a l ++ take b (drop a l).
Proof. unfold take, drop. replace (N.to_nat (a + b)) with (N.to_nat a + N.to_nat b)%nat by lia.
  revert l. induction (N.to_nat a) as [|k IH]; intros l; [reflexivity|]. destruct l as [|x l]; cbn [firstn skipn Nat.add app]; [destruct (N.to_nat b); reflexivity|]. f_equal. apply IH. Qed.

Lemma discard_spec c : c_checksum c = true -> 765 <= c_bufsize c -> forall fuel s, bufok s ->
  s_cur s <= h_datasize (s_header s) -> h_datasize (s_header s) < 2 ^ 32 -> (length (s_rest s) < fuel)%nat ->
  let k := h_datasize (s_header s) - s_cur s in
  if k <=? len (s_rest s)
  then exists s', discard_messages fuel c s = Ok s' /\ s_rest s' = drop k (s_rest s) /\ bufok s' /\ s_crc s' = write (s_crc s) (take k (s_rest s))
                  /\ s_n s' = s_n s + k /\ s_header s' = s_header s
  else exists e, discard_messages fuel c s = Err e.
Proof.
  intros Hck Hbs. induction fuel as [|fuel IH]; intros s Hb Hcur Hd Hf; [lia|].
  cbv zeta. cbn [discard_messages]. set (D := h_datasize (s_header s)) in *.
  destruct (D <=? s_cur s) eqn:Edone.
  - apply N.leb_le in Edone. replace (D - s_cur s) with 0 by lia. replace (0 <=? len (s_rest s)) with true by (symmetry; apply N.leb_le; lia). exists s.
    unfold drop, take. cbn [N.to_nat skipn firstn]. rewrite write_nil. repeat split; auto; lia.
  - apply N.leb_gt in Edone. set (size := N.min (D - s_cur s) 765).
    destruct (size <=? len (s_rest s)) eqn:Esz.
    + apply N.leb_le in Esz.
      destruct (read_n_ok c s size Hck Hb ltac:(unfold size; lia) Hbs Esz) as (s1 & E1 & R1 & B1 & N1 & C1 & K1 & H1).
      unfold bind. rewrite E1.
      assert (Hc1 : s_cur s1 = s_cur s + size).
      { rewrite C1. unfold wrap. apply N.mod_small. change (2 ^ 32) with 4294967296 in *. unfold size. lia. }
      specialize (IH s1 B1). rewrite H1 in IH. fold D in IH. rewrite Hc1 in IH.
      specialize (IH ltac:(unfold size; lia) Hd ltac:(rewrite R1; unfold drop; rewrite skipn_length; unfold size, len in *; lia)). cbv zeta in IH.
      replace (D - (s_cur s + size)) with (D - s_cur s - size) in IH by lia.
      rewrite R1, len_drop' in IH.
      destruct (D - s_cur s <=? len (s_rest s)) eqn:Eall.
      * apply N.leb_le in Eall. replace (D - s_cur s - size <=? len (s_rest s) - size) with true in IH by (symmetry; apply N.leb_le; lia).
        destruct IH as (s' & E' & R' & B' & K' & N' & H'). exists s'. split; [exact E'|].
        split; [rewrite R', drop_drop'; f_equal; unfold size; lia|]. split; [exact B'|].
        split; [rewrite K', K1, <- write_app, <- take_add; f_equal; f_equal; unfold size; lia|]. split; [rewrite N', N1; unfold size; lia|congruence].
      * apply N.leb_gt in Eall. replace (D - s_cur s - size <=? len (s_rest s) - size) with false in IH by (symmetry; apply N.leb_gt; lia). exact IH.
    + apply N.leb_gt in Esz. destruct (read_n_short c s size Hb Esz) as (e & E). unfold bind. rewrite E.
      replace (D - s_cur s <=? len (s_rest s)) with false by (symmetry; apply N.leb_gt; unfold size in Esz; lia). exists e. reflexivity.
Qed.

(* ---------------------------------------------------------------- one sequence *)
Lemma le32_bound l : bytes_ok l -> le32 l < 2 ^ 32.
Proof.
  intros H. change (2 ^ 32) with 4294967296. destruct l as [|a [|b [|c [|d [|? ?]]]]]; cbn [le32]; try lia.
  inversion H as [|? ? Ha H1]; subst. inversion H1 as [|? ? Hb H2]; subst. inversion H2 as [|? ? Hc H3]; subst. inversion H3 as [|? ? Hd _]; subst. lia.
Qed.
Lemma le16_inv l : length l = 2%nat -> bytes_ok l -> l = le_bytes 2 (le16 l).
Proof.
  destruct l as [|a [|b [|? ?]]]; cbn [length]; try lia. intros _ H. inversion H as [|? ? Ha H1]; subst. inversion H1 as [|? ? Hb _]; subst.
  cbn [le16 le_bytes]. f_equal; [|f_equal]; lia.
Qed.
Lemma bytes_ok_take n l : bytes_ok l -> bytes_ok (take n l).
Proof. unfold bytes_ok, take. intros H. rewrite <- (firstn_skipn (N.to_nat n) l) in H. apply Forall_app in H. apply H. Qed.
Lemma bytes_ok_drop n l : bytes_ok l -> bytes_ok (drop n l).
Proof. unfold bytes_ok, drop. intros H. rewrite <- (firstn_skipn (N.to_nat n) l) in H. apply Forall_app in H. apply H. Qed.

(* the body of one iteration of CheckIntegrity's loop *)
Definition seq_body (c : dcfg) (s : dstate) : outcome dstate :=
  do s1 <- decode_file_header c s;
  do s2 <- discard_messages (S (length (s_rest s1))) c s1;
  do r <- decode_crc c s2; Ok (snd r).

Lemma seq_body_spec c s : c_checksum c = true -> 765 <= c_bufsize c -> bufok s -> s_crc s = 0 -> s_cur s = 0 -> bytes_ok (s_rest s) ->
  match integrity_sequence_gen true true (s_rest s) with
  | Some rest' => exists s3, seq_body c s = Ok s3 /\ s_rest s3 = rest' /\ bufok s3 /\ s_crc s3 = 0
                             /\ (length rest' < length (s_rest s))%nat /\ s_n s < s_n s3
  | None => exists e, seq_body c s = Err e /\ (s_rest s = [] -> e = E_EOF)
  end.
Proof.
  intros Hck Hbs Hb Hcrc Hcur Hok. rewrite rules_via_hdr. unfold seq_body, bind.
  pose proof (header_spec c s Hck Hbs Hb Hcrc) as Hh.
  destruct (hdr_ok (s_rest s)) as [[[hs dsize] hcrc]|] eqn:Ehdr.
  2: { destruct Hh as (e & E & He). rewrite E. exists e. split; [reflexivity|exact He]. }
  destruct Hh as (s1 & E1 & R1 & B1 & K1 & C1 & D1 & N1). rewrite E1.
  (* facts the header rules give *)
  assert (Hfacts : (hs = 12 \/ hs = 14) /\ hs <= len (s_rest s) /\ dsize = le32 (take 4 (drop 4 (take hs (s_rest s)))) /\ dsize <> 0
                   /\ hcrc = (if hs =? 14 then le16 (drop 12 (take hs (s_rest s))) else 0)
                   /\ (hcrc = 0 \/ hcrc = crc_of (take 12 (take hs (s_rest s))))).
  { unfold hdr_ok in Ehdr. destruct (s_rest s) as [|h0 r]; [discriminate|].
    destruct (negb ((h0 =? 12) || (h0 =? 14))) eqn:Ea; [discriminate|]. destruct (len (h0 :: r) <? h0) eqn:Eb; [discriminate|].
    destruct (negb (beq _ fit_tag)); [discriminate|]. destruct (le32 _ =? 0) eqn:Ed; [discriminate|].
    destruct (negb _ && negb _) eqn:Ec; [discriminate|]. injection Ehdr as <- <- <-.
    apply negb_false_iff, orb_true_iff in Ea. apply N.ltb_ge in Eb. apply N.eqb_neq in Ed.
    split; [destruct Ea as [E|E]; apply N.eqb_eq in E; auto|]. split; [exact Eb|]. split; [reflexivity|]. split; [exact Ed|]. split; [reflexivity|].
    apply andb_false_iff in Ec. destruct Ec as [E|E]; apply negb_false_iff, N.eqb_eq in E; auto. }
  destruct Hfacts as (Hhs & Hlen & Hds & Hdnz & Hhc & Hhcv).
  assert (Hdb : dsize < 2 ^ 32) by (rewrite Hds; apply le32_bound; apply bytes_ok_take, bytes_ok_drop, bytes_ok_take; exact Hok).
  (* discardMessages *)
  pose proof (discard_spec c Hck Hbs (S (length (s_rest s1))) s1 B1) as Hdis. rewrite D1, C1, Hcur, N.sub_0_r in Hdis.
  specialize (Hdis ltac:(lia) Hdb). cbv zeta in Hdis.
  assert (Lr1 : len (s_rest s1) = len (s_rest s) - hs) by (rewrite R1; apply len_drop').
  destruct (len (s_rest s) <? hs + dsize + 2) eqn:Eshort.
  - (* too short for the records and the CRC *)
    apply N.ltb_lt in Eshort.
    destruct (dsize <=? len (s_rest s1)) eqn:Ed1.
    + apply N.leb_le in Ed1. destruct Hdis as (s2 & E2 & R2 & B2 & K2 & N2 & H2); [lia|]. rewrite E2.
      unfold decode_crc, bind. destruct (read_raw_short c s2 2 B2) as (e & E & _); [rewrite R2, len_drop'; lia|]. rewrite E.
      exists e. split; [reflexivity|]. intros Hnil. rewrite Hnil in Hlen. change (len (@nil N)) with 0 in Hlen. lia.
    + destruct Hdis as (e & E); [lia|]. rewrite E. exists e. split; [reflexivity|].
      intros Hnil. rewrite Hnil in Hlen. change (len (@nil N)) with 0 in Hlen. lia.
  - apply N.ltb_ge in Eshort.
    replace (dsize <=? len (s_rest s1)) with true in Hdis by (symmetry; apply N.leb_le; lia).
    destruct Hdis as (s2 & E2 & R2 & B2 & K2 & N2 & H2); [lia|]. rewrite E2.
    unfold decode_crc, bind.
    destruct (read_raw_ok c s2 2 B2 ltac:(lia) Hbs) as (s3 & E3 & R3 & B3 & N3 & C3 & K3 & H3 & _); [rewrite R2, len_drop'; lia|]. rewrite E3, Hck.
    cbn [andb].
    assert (Rs2 : s_rest s2 = drop (hs + dsize) (s_rest s)) by (rewrite R2, R1; apply drop_drop').
    rewrite Rs2. set (fc := take 2 (drop (hs + dsize) (s_rest s))).
    assert (Lfc : length fc = 2%nat) by (unfold fc, take; apply firstn_len_ge; unfold drop; rewrite skipn_length; unfold len in *; lia).
    rewrite (le_word_le16 fc Lfc).
    (* the CRC the model has accumulated is the one the rules ask for *)
    assert (Hcrc_eq : s_crc s3 = (if (true && (hs =? 12)) || (true && (hs =? 14) && (hcrc =? 0))
                                  then crc_of (take dsize (drop hs (s_rest s))) else crc_of (take (hs + dsize) (s_rest s)))).
    { rewrite K3, K2, K1, R1. cbn [andb]. unfold crc_of.
      destruct Hhs as [-> | ->]; [reflexivity|]. change (14 =? 12) with false. change (14 =? 14) with true. cbn [orb andb].
      destruct (hcrc =? 0) eqn:E0; [reflexivity|]. apply N.eqb_neq in E0. destruct Hhcv as [Hz|Hv]; [congruence|].
      rewrite take_add. set (h := take 14 (s_rest s)) in *.
      assert (Lh : length h = 14%nat) by (unfold h, take; apply firstn_len_ge; unfold len in *; lia).
      assert (Eh : h = take 12 h ++ drop 12 h) by (unfold take, drop; symmetry; apply firstn_skipn).
      change (14 =? 14) with true in Hhc. cbv iota in Hhc.
      assert (L2 : length (drop 12 h) = 2%nat) by (unfold drop; rewrite skipn_length, Lh; reflexivity).
      assert (Hd12 : drop 12 h = le_bytes 2 (write 0 (take 12 h))).
      { rewrite (le16_inv _ L2) by (apply bytes_ok_drop; unfold h; apply bytes_ok_take; exact Hok). rewrite <- Hhc, Hv. reflexivity. }
      rewrite Eh, Hd12. symmetry. apply crc_header14_transparent. apply bytes_ok_take. unfold h. apply bytes_ok_take. exact Hok. }
    rewrite K3 in Hcrc_eq |- *. rewrite Hcrc_eq. cbn [andb].
    set (want := if (hs =? 12) || (hs =? 14) && (hcrc =? 0) then crc_of (take dsize (drop hs (s_rest s))) else crc_of (take (hs + dsize) (s_rest s))).
    rewrite (N.eqb_sym want (le16 fc)).
    destruct (le16 fc =? want) eqn:Ecmp; cbn [negb].
    + eexists. split; [reflexivity|]. cbn [snd push_event upd_crc upd_read s_rest s_buf s_crc s_n]. unfold bufok in *. cbn [push_event upd_crc upd_read s_rest s_buf].
      rewrite R3, Rs2, drop_drop'. split; [reflexivity|]. split; [rewrite R3, Rs2, drop_drop' in B3; exact B3|]. split; [reflexivity|].
      split; [unfold drop; rewrite skipn_length; unfold len in *; lia|]. rewrite N3, N2, N1. lia.
    + eexists. split; [reflexivity|]. intros Hnil. rewrite Hnil in Hlen. change (len (@nil N)) with 0 in Hlen. lia.
Qed.

Lemma rules_rest_ok l12 zc bs rest' : bytes_ok bs -> integrity_sequence_gen l12 zc bs = Some rest' -> bytes_ok rest'.
Proof.
  intros Hok. unfold integrity_sequence_gen. destruct bs as [|hs r]; [discriminate|].
  destruct (negb ((hs =? 12) || (hs =? 14))); [discriminate|]. destruct (len (hs :: r) <? hs); [discriminate|].
  destruct (negb (beq _ fit_tag)); [discriminate|]. destruct (le32 _ =? 0); [discriminate|].
  destruct (negb _ && negb _); [discriminate|]. destruct (len (hs :: r) <? _); [discriminate|].
  destruct (_ =? _); [|discriminate]. intros H. injection H as <-. apply bytes_ok_drop. exact Hok.
Qed.

(* ---------------------------------------------------------------- the loop over chained sequences *)
Definition verdict (e : option N) : bool := match e with None => true | Some _ => false end.

Theorem integrity_loop_spec c : c_checksum c = true -> 765 <= c_bufsize c -> forall fuel a seq,
  a_once a = false -> bufok (a_s a) -> s_crc (a_s a) = 0 -> s_cur (a_s a) = 0 -> bytes_ok (s_rest (a_s a)) ->
  (length (s_rest (a_s a)) < fuel)%nat -> (s_n (a_s a) =? 0) = (seq =? 0) ->
  let '(a', n, e, ok) := integrity_loop fuel c a seq in
  ok = true /\ integrity_gen true true fuel (s_rest (a_s a)) seq = (n, verdict e).
Proof.
  intros Hck Hbs. induction fuel as [|fuel IH]; intros a seq Honce Hb Hcrc Hcur Hok Hf Hpos; [lia|].
  cbn [integrity_loop integrity_gen]. unfold header_once. rewrite Honce.
  pose proof (seq_body_spec c (a_s a) Hck Hbs Hb Hcrc Hcur Hok) as Hspec.
  pose proof (header_spec c (a_s a) Hck Hbs Hb Hcrc) as Hh.
  destruct (s_rest (a_s a)) as [|x r] eqn:Er.
  - (* nothing left: a clean end after at least one sequence *)
    change (hdr_ok []) with (@None (N * N * N)) in Hh. destruct Hh as (e & E & He). rewrite E. rewrite (He eq_refl).
    change (len (@nil N) =? 0) with true. change (E_EOF =? E_EOF) with true. rewrite Hpos, !andb_true_r.
    split; [reflexivity|]. destruct (seq =? 0); reflexivity.
  - rewrite <- Er in *. unfold seq_body, bind in Hspec.
    assert (Hne : (len (s_rest (a_s a)) =? 0) = false) by (rewrite Er; reflexivity).
    destruct (decode_file_header c (a_s a)) as [s1|e1|p1|] eqn:E1.
    + cbn [a_s].
      destruct (discard_messages (S (length (s_rest s1))) c s1) as [s2|e2|p2|] eqn:E2.
      * destruct (decode_crc c s2) as [[crc s3]|e3|p3|] eqn:E3.
        -- cbn [snd] in Hspec. destruct (integrity_sequence_gen true true (s_rest (a_s a))) as [rest'|] eqn:Eseq.
           ++ destruct Hspec as (s3' & Es & R3 & B3 & K3 & L3 & N3). injection Es as <-.
              set (a2 := mkapi (upd_read s3 (s_rest s3) (s_buf s3) (s_n s3) 0 (s_crc s3)) None false (a_cfg (mkapi s1 None true (a_cfg a) (a_all a))) (a_all (mkapi s1 None true (a_cfg a) (a_all a)))).
              specialize (IH a2 (seq + 1)). cbn [a2 a_once a_s upd_read s_rest s_buf s_crc s_cur s_n] in IH.
              assert (Hlt : (length rest' < fuel)%nat) by (rewrite Er in L3, Hf; cbn [length] in L3, Hf; lia).
              specialize (IH eq_refl B3 K3 eq_refl ltac:(rewrite R3; exact (rules_rest_ok _ _ _ _ Hok Eseq))
                               ltac:(rewrite R3; exact Hlt)
                               ltac:(replace (s_n s3 =? 0) with false by (symmetry; apply N.eqb_neq; lia); symmetry; apply N.eqb_neq; lia)).
              rewrite R3 in IH. exact IH.
           ++ destruct Hspec as (e & Habs & _). discriminate Habs.
        -- destruct (integrity_sequence_gen true true (s_rest (a_s a))) as [rest'|]; [destruct Hspec as (s3' & Es & _); discriminate Es|].
           split; reflexivity.
        -- destruct (integrity_sequence_gen true true (s_rest (a_s a))) as [rest'|]; [destruct Hspec as (s3' & Es & _); discriminate Es|destruct Hspec as (e & Es & _); discriminate Es].
        -- destruct (integrity_sequence_gen true true (s_rest (a_s a))) as [rest'|]; [destruct Hspec as (s3' & Es & _); discriminate Es|destruct Hspec as (e & Es & _); discriminate Es].
      * destruct (integrity_sequence_gen true true (s_rest (a_s a))) as [rest'|]; [destruct Hspec as (s3' & Es & _); discriminate Es|]. split; reflexivity.
      * destruct (integrity_sequence_gen true true (s_rest (a_s a))) as [rest'|]; [destruct Hspec as (s3' & Es & _); discriminate Es|destruct Hspec as (e & Es & _); discriminate Es].
      * destruct (integrity_sequence_gen true true (s_rest (a_s a))) as [rest'|]; [destruct Hspec as (s3' & Es & _); discriminate Es|destruct Hspec as (e & Es & _); discriminate Es].
    + destruct (integrity_sequence_gen true true (s_rest (a_s a))) as [rest'|]; [destruct Hspec as (s3' & Es & _); discriminate Es|].
      rewrite Hne, andb_false_r. split; reflexivity.
    + destruct (integrity_sequence_gen true true (s_rest (a_s a))) as [rest'|]; [destruct Hspec as (s3' & Es & _); discriminate Es|destruct Hspec as (e & Es & _); discriminate Es].
    + destruct (integrity_sequence_gen true true (s_rest (a_s a))) as [rest'|]; [destruct Hspec as (s3' & Es & _); discriminate Es|destruct Hspec as (e & Es & _); discriminate Es].
Qed.

(* ---------------------------------------------------------------- Decoder.CheckIntegrity on a fresh decoder *)
Theorem check_integrity_is_rules c bs : 765 <= c_bufsize c -> bytes_ok bs ->
  exists n e, snd (api_step (api_new c bs) ACheckIntegrity) = RIntegrity n e /\ integrity_impl_b bs = (n, verdict e).
Proof.
  intros Hbs Hok. unfold api_step, api_new. cbn [a_err a_cfg a_s init_state s_rest].
  set (c1 := mkcfg true (c_expand c) (c_bufsize c)).
  pose proof (integrity_loop_spec c1 eq_refl Hbs (S (length bs)) (mkapi (init_state bs) None false c bs) 0) as H.
  cbn [a_once a_s init_state s_rest s_buf s_crc s_cur s_n] in H.
  specialize (H eq_refl). unfold bufok in H. cbn [init_state s_rest s_buf] in H.
  specialize (H ltac:(lia) eq_refl eq_refl Hok ltac:(lia) eq_refl).
  destruct (integrity_loop (S (length bs)) c1 (mkapi (init_state bs) None false c bs) 0) as [[[a1 n] e] ok].
  destruct H as [-> H]. cbn [negb]. exists n, e. split; [reflexivity|]. unfold integrity_impl_b. exact H.
Qed.

(* the implementation's rules differ from the reference only in the two listed classes: 12-byte header, or 14-byte header
   whose CRC field is zero *)
Theorem deviations_only_in_known_classes bs d q : hdr_ok bs = Some (14, d, q) -> q <> 0 ->
  integrity_sequence_gen true true bs = integrity_sequence bs.
Proof.
  intros Hh Hq. unfold integrity_sequence. rewrite !rules_via_hdr, Hh. change (14 =? 12) with false. change (14 =? 14) with true.
  replace (q =? 0) with false by (symmetry; apply N.eqb_neq; exact Hq). reflexivity.
Qed.
