(* C01, sequence level: for every list of messages whose fields round-trip at the value level, what the encoder model writes
   (definitions through the LRU of local message types -- hit, free slot, eviction --, data records, header, CRC) is read back
   by the decoder model as exactly those messages, in order: the definition a data record is decoded with is the one it was
   written with however often the slot was reused, every field is cut out of the record at the right place, and the loop over
   the data size ends exactly after the last record.  Normal (not compressed-timestamp) headers, no developer fields. *)
From Coq Require Import NArith ZArith List Lia Bool ZifyN ZifyNat ZifyBool.
Import ListNotations.
From Fit Require Import Model.Encoder Proofs.ValueProofs Proofs.EncoderProofs Proofs.AcceptProofs Proofs.IntegrityModel Proofs.GrammarProofs.
Open Scope N_scope.
#[local] Arguments N.add : simpl never.
#[local] Arguments N.mul : simpl never.
#[local] Arguments N.sub : simpl never.

(* ---------------------------------------------------------------- reads that must succeed *)
Definition keepsM (s s' : dstate) : Prop := s_defs s' = s_defs s /\ s_header s' = s_header s /\ s_msgs s' = s_msgs s.
Lemma keepsM_refl s : keepsM s s. Proof. repeat split. Qed.
Lemma keepsM_trans a b c : keepsM a b -> keepsM b c -> keepsM a c.
Proof. intros (A1 & A2 & A3) (B1 & B2 & B3). unfold keepsM. rewrite B1, B2, B3. auto. Qed.

(* [got k s s']: s' is s after exactly the next k bytes were read through readN *)
Definition got (k : N) (s s' : dstate) : Prop :=
  s_rest s' = drop k (s_rest s) /\ bufok s' /\ s_cur s' = wrap 32 (s_cur s + k) /\ keepsM s s'.

Lemma read_n_total c s n : bufok s -> n <= 765 -> 765 <= c_bufsize c -> n <= len (s_rest s) ->
  exists s', read_n c s n = Ok (take n (s_rest s), s') /\ got n s s'.
Proof.
  intros Hb Hn Hc Hl. unfold read_n, bind.
  destruct (read_raw_ok c s n Hb Hn Hc Hl) as (s1 & E & R & B & Nn & Cu & Cr & Hh & Hs). rewrite E.
  eexists. split; [reflexivity|]. unfold got, bufok, keepsM in *. cbn [upd_read s_rest s_buf s_cur s_defs s_header s_msgs].
  destruct Hs as (A1 & A2 & A3 & A4 & A5 & A6 & A7 & A8 & A9 & A10). rewrite Cu. repeat split; assumption.
Qed.

Lemma got_trans k1 k2 s s1 s2 : got k1 s s1 -> got k2 s1 s2 -> got (k1 + k2) s s2.
Proof.
  intros (A2 & A3 & A4 & A5) (B2 & B3 & B4 & B5). unfold got.
  split; [rewrite B2, A2, drop_drop'; reflexivity|]. split; [exact B3|].
  split; [rewrite B4, A4, wrap_add; f_equal; lia|]. eapply keepsM_trans; eassumption.
Qed.
Lemma wrap32_small x : x < 4294967296 -> wrap 32 x = x.
Proof. intros H. unfold wrap. apply N.mod_small. exact H. Qed.

(* ---------------------------------------------------------------- what round-trips *)
Definition arch_of (big : bool) : N := if big then BigEndian else LittleEndian.
Lemma arch_big big : negb (arch_of big =? LittleEndian) = big. Proof. destruct big; reflexivity. Qed.

(* what the decoder makes of a field definition before it reads the value: the known field of the factory, or an unknown field typed
   by the definition's base type, an array when the size is a multiple of the base type size (the term is decode_fields' own) *)
Definition field_prefix (mn : N) (fd : fdef) : outcome (field * bool) :=
  let f0 := create_field mn (fd_num fd) in
  if f_known f0 then Ok (f0, false) else
  let base := fd_base fd in
  do dv <- (if bt_size base <? fd_size fd then bt_size_div (fd_size fd) base else Ok false);
  Ok (set_fb f0 (with_type (f_fb f0) base (N.land base BaseTypeNumMask) dv), base =? bt_string).

Definition field_rt_known (big : bool) (mn : N) (f : field) : Prop :=
  create_field mn (f_num f) = mkfield (f_fb f) true VInvalid false /\ f_known f = true /\ f_expanded f = false
  /\ bt_valid (f_base f) = true
  /\ exists b, marshal big (f_value f) = Some b /\ 0 < size (f_value f) <= 255 /\ bt_size (f_base f) <= size (f_value f)
               /\ unmarshal big (f_base f) (fb_ptype (f_fb f)) (fb_array (f_fb f)) b = Ok (f_value f).

(* a field round-trips at the value level: the decoder's reading of its definition, filled with what unmarshal makes of what
   marshal wrote, is the field itself *)
Definition field_rt (big : bool) (mn : N) (f : field) : Prop :=
  bt_valid (f_base f) = true /\ exists b fp ovr, marshal big (f_value f) = Some b /\ 0 < size (f_value f) <= 255 /\ bt_size (f_base f) <= size (f_value f)
    /\ field_prefix mn (mkfd (f_num f) (size (f_value f)) (f_base f)) = Ok (fp, ovr) /\ f_base fp = f_base f /\ set_value fp (f_value f) = f
    /\ unmarshal big (f_base f) (fb_ptype (f_fb fp)) (if ovr && (f_base f =? bt_string) then 1 <? strcount b else fb_array (f_fb fp)) b = Ok (f_value f).

Lemma known_is_rt big mn f : field_rt_known big mn f -> field_rt big mn f.
Proof.
  intros (Hcf & Hkn & Hexp & Hbt & b & Eb & Hsz & Hbs & Hun). split; [exact Hbt|]. exists b, (mkfield (f_fb f) true VInvalid false), false.
  split; [exact Eb|]. split; [exact Hsz|]. split; [exact Hbs|].
  split; [unfold field_prefix; cbn [fd_num]; rewrite Hcf; reflexivity|]. split; [reflexivity|].
  split; [destruct f as [fb kn v ex]; cbn in *; subst kn ex; reflexivity|]. cbn [andb f_fb]. exact Hun.
Qed.
Definition msg_rt (big : bool) (m : message) : Prop :=
  m_devs m = [] /\ (length (m_fields m) <= 255)%nat /\ m_num m < 65536 /\ Forall (field_rt big (m_num m)) (m_fields m).

Definition fdef_of (f : field) : fdef := mkfd (f_num f) (wrap 8 (size (f_value f))) (f_base f).

Lemma take_app_len {A} (a b : list A) : take (len a) (a ++ b) = a.
Proof. unfold take, len. rewrite Nat2N.id, firstn_app, Nat.sub_diag, firstn_all. cbn. apply app_nil_r. Qed.
Lemma drop_app_len {A} (a b : list A) : drop (len a) (a ++ b) = b.
Proof. unfold drop, len. rewrite Nat2N.id, skipn_app, Nat.sub_diag, skipn_all. reflexivity. Qed.

Lemma got_0 s : bufok s -> s_cur s < 4294967296 -> got 0 s s.
Proof.
  intros Hb Hc. unfold got. split; [reflexivity|]. split; [exact Hb|]. split; [|apply keepsM_refl].
  rewrite N.add_0_r. symmetry. apply wrap32_small. exact Hc.
Qed.
Lemma got_cur_small k s s' : got k s s' -> s_cur s' < 4294967296.
Proof. intros (_ & _ & -> & _). apply (wrap_lt 32). Qed.
(* updates that leave stream, counter, definitions, header and messages alone *)
Definition sameM (s s' : dstate) : Prop := s_rest s' = s_rest s /\ s_buf s' = s_buf s /\ s_cur s' = s_cur s /\ keepsM s s'.
Lemma sameM_refl s : sameM s s. Proof. repeat split. Qed.
Lemma got_sameM k s s1 s2 : got k s s1 -> sameM s1 s2 -> got k s s2.
Proof.
  intros (A2 & A3 & A4 & A5) (B1 & B2 & B3 & B4). unfold got, bufok in *. rewrite B1, B2, B3.
  split; [exact A2|]. split; [exact A3|]. split; [exact A4|]. eapply keepsM_trans; eassumption.
Qed.
Lemma sm_upd_time s a b : sameM s (upd_time s a b). Proof. repeat split. Qed.
Lemma sm_upd_fileid s a : sameM s (upd_fileid s a). Proof. repeat split. Qed.
Lemma sm_upd_dev s a b : sameM s (upd_dev s a b). Proof. repeat split. Qed.

(* the fields of one data record *)
Lemma decode_fields_rt dc big mn : c_expand dc = false -> 765 <= c_bufsize dc ->
  forall fs s acc bs tail, Forall (field_rt big mn) fs -> marshal_values big (map f_value fs) = Some bs ->
  s_rest s = bs ++ tail -> bufok s -> s_cur s < 4294967296 ->
  exists s', decode_fields dc s (arch_of big) mn (map fdef_of fs) acc = Ok (acc ++ fs, s') /\ got (len bs) s s'.
Proof.
  intros Hex Hbuf. induction fs as [|f fs IH]; intros s acc bs tail Hrt Hm Hrest Hb Hc.
  - cbn [map marshal_values] in Hm. injection Hm as <-. cbn [map decode_fields]. exists s. rewrite app_nil_r. split; [reflexivity|].
    apply got_0; assumption.
  - inversion Hrt as [|? ? Hf Hfs]; subst. cbn [map marshal_values] in Hm.
    destruct (marshal big (f_value f)) as [a|] eqn:Ea; [|discriminate].
    destruct (marshal_values big (map f_value fs)) as [b|] eqn:Eb; [|discriminate]. injection Hm as <-.
    destruct Hf as (Hbt & a' & fp & ovr & Ea' & Hsz & Hbs & Hpre & Hbfp & Hset & Hun). rewrite Ea in Ea'. injection Ea' as <-.
    pose proof (size_marshal _ _ _ Ea) as Hla.
    cbn [map decode_fields]. cbn [fdef_of fd_num fd_size fd_base].
    rewrite (wrap8_small (size (f_value f))) by lia.
    unfold field_prefix in Hpre. cbn [fd_num fd_size fd_base] in Hpre. cbv zeta in Hpre. rewrite Hpre. cbn [bind]. rewrite Hbfp.
    replace (size (f_value f) =? 0) with false by (symmetry; apply N.eqb_neq; lia).
    replace (size (f_value f) <? bt_size (f_base f)) with false by (symmetry; apply N.ltb_ge; lia).
    unfold read_value. rewrite <- app_assoc in Hrest.
    destruct (read_n_total dc s (size (f_value f)) Hb ltac:(lia) Hbuf) as (s1 & Er & G1); [rewrite Hrest, len_app; lia|].
    rewrite Er. cbn [bind]. rewrite Hrest, <- Hla, take_app_len. rewrite arch_big, Hun. cbn [bind].
    rewrite N.eqb_refl. cbn [negb]. rewrite Hex, andb_false_r.
    set (s2 := match f_value f with VNum TU32 t => if f_num fp =? FieldNumTimestamp then upd_time s1 (fst (clock_full t)) (snd (clock_full t)) else s1 | _ => s1 end).
    assert (H2 : sameM s1 s2).
    { unfold s2. destruct (f_value f) as [|ty x|ty l|sv|ss]; try apply sameM_refl. destruct ty; try apply sameM_refl.
      destruct (_ =? FieldNumTimestamp); [apply sm_upd_time|apply sameM_refl]. }
    pose proof (got_sameM _ _ _ _ G1 H2) as G2.
    destruct (IH s2 (acc ++ [set_value fp (f_value f)]) b tail Hfs eq_refl) as (s' & Ed & G3).
    + destruct G2 as (R2 & _). rewrite R2, Hrest, <- Hla, drop_app_len. reflexivity.
    + apply G2.
    + eapply got_cur_small; exact G2.
    + exists s'. split.
      * rewrite Ed. f_equal. f_equal. rewrite <- app_assoc. f_equal. cbn [app]. f_equal. exact Hset.
      * rewrite len_app, Hla. eapply got_trans; [exact G2|exact G3].
Qed.

(* ---------------------------------------------------------------- header bytes of the two record kinds (sweeps over 16 local numbers) *)
Definition data_hdr_ok (i : N) : bool :=
  negb (N.land i (N.lor MesgCompressedHeaderMask MesgDefinitionMask) =? MesgDefinitionMask) && negb (has i MesgCompressedHeaderMask) && (N.land i LocalMesgNumMask =? i).
Definition def_hdr_ok (i : N) : bool :=
  (N.land (N.lor 64 i) (N.lor MesgCompressedHeaderMask MesgDefinitionMask) =? MesgDefinitionMask) && negb (has (N.lor 64 i) DevDataMask)
  && (N.land (N.lor 64 i) LocalMesgNumMask =? i).
Lemma hdr_sweep : forallb (fun i => data_hdr_ok i && def_hdr_ok i) (nrange 16 0) = true. Proof. vm_compute. reflexivity. Qed.
Lemma hdr_facts i : i < 16 -> data_hdr_ok i = true /\ def_hdr_ok i = true.
Proof. intros H. pose proof hdr_sweep as Hs. rewrite forallb_forall in Hs. specialize (Hs i (in_nrange 16 0 i ltac:(lia))). apply andb_prop in Hs. exact Hs. Qed.

(* ---------------------------------------------------------------- definitions as the encoder builds them *)
Definition dwith (i : N) (d : mdef) : mdef := mkmd (N.lor (md_header d) i) (md_reserved d) (md_arch d) (md_num d) (md_fields d) (md_devs d).
Definition def_rt (d : mdef) : Prop :=
  md_header d = 64 /\ md_reserved d = 0 /\ md_num d < 65536 /\ (length (md_fields d) <= 255)%nat /\ md_devs d = []
  /\ Forall (fun f => bt_valid (fd_base f) = true) (md_fields d).

Lemma new_definition_rt big m : msg_rt big m -> def_rt (new_definition big m) /\ new_definition big m = mkmd 64 0 (arch_of big) (m_num m) (map fdef_of (m_fields m)) [].
Proof.
  intros (Hd & Hl & Hn & Hf). unfold new_definition. rewrite Hd. cbn [map]. split; [|reflexivity].
  unfold def_rt. cbn [md_header md_reserved md_num md_fields md_devs]. rewrite map_length.
  repeat split; try assumption; try reflexivity.
  apply Forall_forall. intros fd Hin. apply in_map_iff in Hin. destruct Hin as (f & <- & Hin). cbn [fd_base].
  rewrite Forall_forall in Hf. apply (Hf f Hin).
Qed.

Lemma parse_ftriples : forall fs fuel, Forall (fun f => bt_valid (fd_base f) = true) fs -> (length fs <= fuel)%nat -> parse_fdefs fuel (ftriples fs) = Ok fs.
Proof.
  induction fs as [|f fs IH]; intros fuel Hv Hl.
  - destruct fuel; reflexivity.
  - destruct fuel as [|fuel]; [cbn [length] in Hl; lia|]. inversion Hv as [|? ? Hf Hr]; subst.
    change (ftriples (f :: fs)) with (fd_num f :: fd_size f :: fd_base f :: ftriples fs). cbn [parse_fdefs]. rewrite Hf.
    rewrite (IH fuel Hr) by (cbn [length] in Hl; lia). cbn [bind]. destruct f; reflexivity.
Qed.

Lemma ftriples_inj : forall a b, ftriples a = ftriples b -> a = b.
Proof.
  induction a as [|x a IH]; intros [|y b] H; try reflexivity; try discriminate.
  change (ftriples (x :: a)) with (fd_num x :: fd_size x :: fd_base x :: ftriples a) in H.
  change (ftriples (y :: b)) with (fd_num y :: fd_size y :: fd_base y :: ftriples b) in H.
  injection H as H1 H2 H3 H4. f_equal; [destruct x, y; cbn in *; congruence|apply IH; exact H4].
Qed.

Lemma marshal_def_rt d : def_rt d -> exists e0 e1, enc (negb (md_arch d =? LittleEndian)) 2 (md_num d) = [e0; e1] /\
  marshal_def d = 64 :: 0 :: md_arch d :: e0 :: e1 :: len (md_fields d) :: ftriples (md_fields d).
Proof.
  intros (Hh & Hr & Hn & Hl & Hd & Hv). unfold marshal_def.
  destruct (enc (negb (md_arch d =? LittleEndian)) 2 (md_num d)) as [|e0 [|e1 [|? ?]]] eqn:Ee;
    try (apply (f_equal (@length N)) in Ee; rewrite enc_length in Ee; cbn in Ee; lia).
  exists e0, e1. split; [reflexivity|]. rewrite Hh, Hr. change (has 64 DevDataMask) with false. cbv iota. rewrite app_nil_r.
  rewrite (wrap8_small (len (md_fields d))) by (unfold len; lia). reflexivity.
Qed.

Lemma marshal_def_inj d d' : def_rt d -> def_rt d' -> marshal_def d = marshal_def d' -> d = d'.
Proof.
  intros Hd Hd' He. destruct (marshal_def_rt d Hd) as (e0 & e1 & Ee & Em). destruct (marshal_def_rt d' Hd') as (e0' & e1' & Ee' & Em').
  rewrite Em, Em' in He. injection He as Ha H0 H1 Hn Hf.
  destruct Hd as (Hh & Hr & Hnum & Hl & Hdv & _). destruct Hd' as (Hh' & Hr' & Hnum' & Hl' & Hdv' & _).
  apply ftriples_inj in Hf.
  assert (Hnn : md_num d = md_num d').
  { rewrite <- (enc_dec (negb (md_arch d =? LittleEndian)) 2 (md_num d)) by (cbn; lia).
    rewrite <- (enc_dec (negb (md_arch d' =? LittleEndian)) 2 (md_num d')) by (cbn; lia). rewrite Ee, Ee', Ha, H0, H1. reflexivity. }
  destruct d, d'. cbn in *. congruence.
Qed.

(* ---------------------------------------------------------------- one definition record *)
Definition rec_post (k : N) (s s' : dstate) : Prop :=
  s_rest s' = drop k (s_rest s) /\ bufok s' /\ s_cur s' = wrap 32 (s_cur s + k) /\ s_header s' = s_header s.

Lemma def_record_rt dc d i tail s : 765 <= c_bufsize dc -> def_rt d -> i < 16 ->
  (match marshal_def d with h :: r => s_rest s = (N.lor h i :: r) ++ tail | [] => False end) -> bufok s ->
  exists s', decode_message dc s = Ok s' /\ rec_post (len (marshal_def d)) s s' /\ s_rest s' = tail
             /\ s_defs s' = replace_nth (s_defs s) (N.to_nat i) (Some (dwith i d)) /\ s_msgs s' = s_msgs s.
Proof.
  intros Hbuf Hd Hi Hrest Hb. destruct (marshal_def_rt d Hd) as (e0 & e1 & Ee & Em). rewrite Em in Hrest |- *.
  destruct Hd as (Hh & Hr & Hnum & Hl & Hdv & Hv).
  destruct (hdr_facts i Hi) as [_ Hdh]. unfold def_hdr_ok in Hdh. apply andb_prop in Hdh. destruct Hdh as [Hdh Hloc]. apply andb_prop in Hdh. destruct Hdh as [Hisdef Hnodev].
  apply N.eqb_eq in Hloc. apply negb_true_iff in Hnodev.
  set (F := ftriples (md_fields d)) in *. set (n := len (md_fields d)) in *.
  assert (LF : len F = n * 3) by (unfold F, n, len; rewrite ftriples_length; lia).
  cbn [app] in Hrest.
  unfold decode_message.
  destruct (read_n_total dc s 1 Hb ltac:(lia) Hbuf) as (s1 & E1 & G1); [rewrite Hrest; unfold len; cbn [length]; lia|].
  rewrite E1, Hrest. change (take 1 (N.lor 64 i :: ?x)) with [N.lor 64 i]. cbn [bind byte_at nth_opt]. rewrite Hisdef.
  destruct G1 as (R1 & B1 & C1 & K1). rewrite Hrest in R1. change (drop 1 (N.lor 64 i :: ?x)) with x in R1.
  unfold decode_definition.
  destruct (read_n_total dc s1 5 B1 ltac:(lia) Hbuf) as (s2 & E2 & G2); [rewrite R1; unfold len; cbn [length]; lia|].
  rewrite E2, R1. change (take 5 (0 :: md_arch d :: e0 :: e1 :: n :: ?x)) with [0; md_arch d; e0; e1; n].
  cbn [bind byte_at nth_opt slice length Nat.leb andb firstn skipn Nat.sub].
  destruct G2 as (R2 & B2 & C2 & K2). rewrite R1 in R2. change (drop 5 (0 :: md_arch d :: e0 :: e1 :: n :: ?x)) with x in R2.
  assert (Hn : n <= 255) by (unfold n, len; lia).
  destruct (read_n_total dc s2 (n * 3) B2 ltac:(lia) Hbuf) as (s3 & E3 & G3); [rewrite R2, len_app; lia|].
  rewrite E3, R2. rewrite <- LF, take_app_len. cbn [bind].
  assert (Hp : parse_fdefs (length F) F = Ok (md_fields d)) by (apply parse_ftriples; [exact Hv|unfold F; rewrite ftriples_length; lia]).
  rewrite Hp. cbn [bind].
  rewrite Hnodev. cbn [bind].
  destruct G3 as (R3 & B3 & C3 & K3). rewrite R2, <- LF, drop_app_len in R3.
  eexists. split; [reflexivity|].
  destruct K1 as (K1d & K1h & K1m). destruct K2 as (K2d & K2h & K2m). destruct K3 as (K3d & K3h & K3m).
  cbn [push_event upd_defs s_rest s_buf s_cur s_header s_defs s_msgs].
  split; [|split; [exact R3|split; [|congruence]]].
  - unfold rec_post, bufok in *. cbn [push_event upd_defs s_rest s_buf s_cur s_header].
    split; [rewrite R3, Hrest; change (64 :: 0 :: md_arch d :: e0 :: e1 :: n :: F) with ([64; 0; md_arch d; e0; e1; n] ++ F);
            change (N.lor 64 i :: 0 :: md_arch d :: e0 :: e1 :: n :: F ++ tail) with (([N.lor 64 i; 0; md_arch d; e0; e1; n] ++ F) ++ tail);
            replace (len ([64; 0; md_arch d; e0; e1; n] ++ F)) with (len ([N.lor 64 i; 0; md_arch d; e0; e1; n] ++ F)) by (rewrite !len_app; reflexivity);
            rewrite drop_app_len; reflexivity|].
    split; [exact B3|]. split; [|congruence].
    rewrite C3, C2, C1. rewrite wrap_add, <- N.add_assoc, wrap_add. f_equal. unfold len. cbn [length]. unfold len in LF. lia.
  - rewrite K3d, K2d, K1d, Hloc. f_equal. f_equal. unfold dwith. rewrite Hh, Hr, Hdv.
    f_equal. rewrite <- Ee. rewrite enc_dec by (cbn; lia). reflexivity.
Qed.

(* ---------------------------------------------------------------- one data record *)
Lemma data_record_rt dc big m i body tail s : c_expand dc = false -> 765 <= c_bufsize dc -> msg_rt big m -> i < 16 ->
  marshal_values big (map f_value (m_fields m)) = Some body -> s_rest s = (i :: body) ++ tail -> bufok s ->
  nth (N.to_nat i) (s_defs s) None = Some (dwith i (new_definition big m)) ->
  exists s', decode_message dc s = Ok s' /\ rec_post (1 + len body) s s' /\ s_rest s' = tail /\ s_defs s' = s_defs s
             /\ s_msgs s' = mkmsg i (m_num m) (m_fields m) [] :: s_msgs s.
Proof.
  intros Hex Hbuf Hm Hi Hbody Hrest Hb Hdef.
  destruct (new_definition_rt big m Hm) as [_ Hnd]. rewrite Hnd in Hdef. unfold dwith in Hdef. cbn [md_header md_reserved md_arch md_num md_fields md_devs] in Hdef.
  destruct Hm as (Hdv & Hl & Hnum & Hf).
  destruct (hdr_facts i Hi) as [Hdh _]. unfold data_hdr_ok in Hdh. apply andb_prop in Hdh. destruct Hdh as [Hdh Hloc]. apply andb_prop in Hdh. destruct Hdh as [Hnotdef Hnotc].
  apply N.eqb_eq in Hloc. apply negb_true_iff in Hnotdef. apply negb_true_iff in Hnotc.
  cbn [app] in Hrest. unfold decode_message.
  destruct (read_n_total dc s 1 Hb ltac:(lia) Hbuf) as (s1 & E1 & G1); [rewrite Hrest; unfold len; cbn [length]; lia|].
  rewrite E1, Hrest. change (take 1 (i :: ?x)) with [i]. cbn [bind byte_at nth_opt]. rewrite Hnotdef.
  pose proof G1 as (R1 & B1 & C1 & K1d & K1h & K1m). rewrite Hrest in R1. change (drop 1 (i :: ?x)) with x in R1.
  unfold decode_data. rewrite Hnotc. cbv zeta. rewrite Hloc, K1d, Hdef.
  unfold decode_data_body. cbn [md_arch md_num md_fields md_devs].
  destruct (decode_fields_rt dc big (m_num m) Hex Hbuf (m_fields m) s1 [] body tail Hf Hbody R1 B1) as (s2 & Ed & G2); [rewrite C1; apply (wrap_lt 32)|].
  rewrite Ed. cbn [bind fst snd app]. rewrite Hex. cbn [fst snd].
  pose proof G2 as (R2 & B2 & C2 & K2d & K2h & K2m). rewrite R1, drop_app_len in R2.
  set (s3 := match s_fileid s2 with None => if m_num m =? mesgnum_FileId then upd_fileid s2 (Some (mkmsg i (m_num m) (m_fields m) [])) else s2 | Some _ => s2 end).
  assert (H3 : sameM s2 s3) by (unfold s3; destruct (s_fileid s2); [apply sameM_refl|]; destruct (m_num m =? mesgnum_FileId); [apply sm_upd_fileid|apply sameM_refl]).
  set (s4 := if m_num m =? mesgnum_DeveloperDataId then upd_dev s3 (s_devidx s3 ++ [u8_of (field_value_by_num (m_fields m) fn_DeveloperDataId_DeveloperDataIndex)]) (s_fdescs s3)
             else if m_num m =? mesgnum_FieldDescription then upd_dev s3 (s_devidx s3) (s_fdescs s3 ++ [new_field_description (m_fields m)]) else s3).
  assert (H4 : sameM s3 s4).
  { unfold s4. destruct (m_num m =? mesgnum_DeveloperDataId); [apply sm_upd_dev|]. destruct (m_num m =? mesgnum_FieldDescription); [apply sm_upd_dev|apply sameM_refl]. }
  cbn [bind fst snd].
  eexists. split; [reflexivity|].
  destruct H3 as (P1 & P2 & P3 & P4 & P5 & P6). destruct H4 as (Q1 & Q2 & Q3 & Q4 & Q5 & Q6).
  unfold rec_post, bufok in *. cbn [push_msg s_rest s_buf s_cur s_header s_defs s_msgs].
  rewrite Q1, Q2, Q3, Q4, Q5, Q6, P1, P2, P3, P4, P5, P6.
  split; [|split; [exact R2|split; [congruence|congruence]]].
  split; [rewrite R2, Hrest; change (i :: body ++ tail) with ((i :: body) ++ tail); replace (1 + len body) with (len (i :: body)) by (unfold len; cbn [length]; lia); rewrite drop_app_len; reflexivity|].
  split; [exact B2|]. split; [|congruence]. rewrite C2, C1, wrap_add, N.add_assoc. reflexivity.
Qed.

(* ---------------------------------------------------------------- the loop over the data size *)
Lemma decode_messages_step fuel dc s s1 : decode_message dc s = Ok s1 -> s_cur s < h_datasize (s_header s) ->
  decode_messages (S fuel) dc s = decode_messages fuel dc s1.
Proof.
  intros H Hc. cbn [decode_messages]. replace (h_datasize (s_header s) <=? s_cur s) with false by (symmetry; apply N.leb_gt; exact Hc).
  rewrite H. reflexivity.
Qed.
Lemma decode_messages_done fuel dc s : h_datasize (s_header s) <= s_cur s -> decode_messages fuel dc s = Ok s.
Proof. intros H. destruct fuel; cbn [decode_messages]; replace (h_datasize (s_header s) <=? s_cur s) with true by (symmetry; apply N.leb_le; exact H); reflexivity. Qed.

(* ---------------------------------------------------------------- encoder LRU vs decoder definition table *)
Definition dinv (l : lru) (defs : list (option mdef)) : Prop :=
  forall i, (i < length (l_items l))%nat -> nth i (l_items l) [] <> [] ->
    exists d, def_rt d /\ nth i (l_items l) [] = marshal_def d /\ nth i defs None = Some (dwith (N.of_nat i) d).

Definition content (m : message) := (m_num m, m_fields m, m_devs m).

Lemma message_rt c dc st m b st' s tail : e_compressed c = false -> c_expand dc = false -> 765 <= c_bufsize dc -> msg_rt (e_big c) m ->
  linv (es_lru st) -> (0 < length (l_items (es_lru st)) <= 16)%nat -> dinv (es_lru st) (s_defs s) -> length (s_defs s) = 16%nat ->
  encode_message c st m = Ok (b, st') -> s_rest s = b ++ tail -> bufok s ->
  s_cur s + len b <= h_datasize (s_header s) -> h_datasize (s_header s) < 4294967296 ->
  exists s' k mh, (1 <= k)%nat /\ N.of_nat k <= len b /\ (forall fuel, decode_messages (k + fuel) dc s = decode_messages fuel dc s')
    /\ s_rest s' = tail /\ bufok s' /\ s_cur s' = s_cur s + len b /\ s_header s' = s_header s
    /\ s_msgs s' = mkmsg mh (m_num m) (m_fields m) [] :: s_msgs s
    /\ linv (es_lru st') /\ length (l_items (es_lru st')) = length (l_items (es_lru st)) /\ dinv (es_lru st') (s_defs s') /\ length (s_defs s') = 16%nat.
Proof.
  intros Hcomp Hex Hbuf Hm Hli Hsz Hdinv Hl16 Henc Hrest Hb Hcur Hds.
  unfold encode_message, encode_message_chunks, bind in Henc. rewrite Hcomp in Henc.
  set (m2 := mkmsg MesgNormalHeaderMask (m_num m) (m_fields m) (m_devs m)) in Henc.
  change (new_definition (e_big c) m2) with (new_definition (e_big c) m) in Henc.
  destruct (new_definition_rt (e_big c) m Hm) as [Hdrt Hnd].
  set (d := new_definition (e_big c) m) in *.
  destruct (marshal_def_rt d Hdrt) as (e0 & e1 & Ee & Emd).
  set (r0 := 0 :: md_arch d :: e0 :: e1 :: len (md_fields d) :: ftriples (md_fields d)) in *. rewrite Emd in Henc.
  destruct (lru_put (es_lru st) (64 :: r0)) as [[local isnew] lru'] eqn:Ep.
  destruct (lru_put_spec _ _ _ _ _ Hli ltac:(lia) Ep) as (Hli' & Hlen' & Hidx & Hitems).
  assert (Hl : local < 16) by lia.
  pose proof Hm as (Hdv & Hnf & Hnum & Hfs).
  unfold marshal_message in Henc. cbn [m_fields m_devs m2] in Henc. rewrite Hdv in Henc. cbn [map] in Henc. rewrite app_nil_r in Henc.
  destruct (marshal_values (e_big c) (map f_value (m_fields m))) as [body|] eqn:Ebody; [|destruct isnew; discriminate].
  change (N.lor MesgNormalHeaderMask local) with (N.lor 0 local) in Henc. rewrite N.lor_0_l in Henc.
  assert (Hcs : s_cur s < 4294967296) by lia.
  destruct isnew.
  - (* a definition record, then the data record *)
    cbv beta iota delta [fst snd m_header] in Henc.
    match type of Henc with Ok (?x, ?y) = Ok _ => assert (Eb : b = x) by congruence; assert (Est : st' = y) by congruence end. subst b st'. clear Henc. cbv beta iota delta [es_lru].
    change (concat ([N.lor 64 local :: r0] ++ [local :: body])) with ((N.lor 64 local :: r0) ++ (local :: body) ++ []) in *. rewrite app_nil_r in *.
    rewrite <- app_assoc in Hrest.
    destruct (def_record_rt dc d local ((local :: body) ++ tail) s Hbuf Hdrt Hl) as (s1 & D1 & (R1 & B1 & C1 & H1) & T1 & F1 & M1); [rewrite Emd; exact Hrest|exact Hb|].
    rewrite Emd in C1. fold r0 in C1.
    assert (Hdef1 : nth (N.to_nat local) (s_defs s1) None = Some (dwith local d)) by (rewrite F1; apply nth_replace_same; lia).
    destruct (data_record_rt dc (e_big c) m local body tail s1 Hex Hbuf Hm Hl Ebody T1 B1 Hdef1) as (s2 & D2 & (R2 & B2 & C2 & H2) & T2 & F2 & M2).
    rewrite len_app in Hcur. assert (Ld : len (N.lor 64 local :: r0) = len (64 :: r0)) by reflexivity.
    assert (Lb : len (local :: body) = 1 + len body) by (unfold len; cbn [length]; lia).
    assert (C1' : s_cur s1 = s_cur s + len (64 :: r0)) by (rewrite C1; apply wrap32_small; lia).
    assert (C2' : s_cur s2 = s_cur s + len (64 :: r0) + (1 + len body)) by (rewrite C2, C1'; apply wrap32_small; lia).
    exists s2, 2%nat, local. split; [lia|]. split; [rewrite len_app, Lb; unfold len; cbn [length]; lia|].
    split. { intros fuel. change (2 + fuel)%nat with (S (S fuel)). rewrite (decode_messages_step _ _ _ _ D1) by lia.
             apply decode_messages_step; [exact D2|]. rewrite H1. lia. }
    split; [exact T2|]. split; [exact B2|]. split; [rewrite C2', len_app, Ld, Lb; lia|]. split; [congruence|].
    split; [rewrite M2, M1; reflexivity|]. split; [exact Hli'|]. split; [exact Hlen'|]. split; [|rewrite F2, F1, replace_nth_length; exact Hl16].
    (* the table after the new definition *)
    intros j Hj Hne. rewrite Hitems in Hne |- *. rewrite Hlen' in Hj. rewrite F2, F1.
    destruct (Nat.eq_dec j (N.to_nat local)) as [->|Hneq].
    + rewrite !nth_replace_same by lia. exists d. split; [exact Hdrt|]. split; [symmetry; exact Emd|]. rewrite N2Nat.id. reflexivity.
    + rewrite nth_replace_other in Hne |- * by congruence. rewrite nth_replace_other by congruence. apply Hdinv; assumption.
  - (* the definition is already in force: the data record only *)
    destruct Hitems as [Hsame Hnth].
    cbv beta iota delta [fst snd m_header] in Henc.
    match type of Henc with Ok (?x, ?y) = Ok _ => assert (Eb : b = x) by congruence; assert (Est : st' = y) by congruence end. subst b st'. clear Henc. cbv beta iota delta [es_lru].
    change (concat ([] ++ [local :: body])) with ((local :: body) ++ []) in *. rewrite app_nil_r in *.
    destruct (Hdinv (N.to_nat local) Hidx) as (d0 & Hd0 & Hi0 & Hdef0); [rewrite Hnth; discriminate|].
    assert (Hdd : d0 = d) by (apply marshal_def_inj; [exact Hd0|exact Hdrt|rewrite <- Hi0, Hnth; symmetry; exact Emd]). subst d0.
    rewrite N2Nat.id in Hdef0.
    destruct (data_record_rt dc (e_big c) m local body tail s Hex Hbuf Hm Hl Ebody Hrest Hb Hdef0) as (s2 & D2 & (R2 & B2 & C2 & H2) & T2 & F2 & M2).
    assert (Lb : len (local :: body) = 1 + len body) by (unfold len; cbn [length]; lia).
    exists s2, 1%nat, local. split; [lia|]. split; [rewrite Lb; lia|].
    split. { intros fuel. apply decode_messages_step; [exact D2|]. lia. }
    split; [exact T2|]. split; [exact B2|]. split; [rewrite C2, Lb; apply wrap32_small; lia|]. split; [exact H2|].
    split; [exact M2|]. split; [exact Hli'|]. split; [exact Hlen'|]. split; [|rewrite F2; exact Hl16].
    intros j Hj Hne. rewrite Hsame in *. rewrite F2. apply Hdinv; assumption.
Qed.

Lemma encode_message_lru c st m b st' : linv (es_lru st) -> (0 < length (l_items (es_lru st)))%nat -> encode_message c st m = Ok (b, st') ->
  linv (es_lru st') /\ length (l_items (es_lru st')) = length (l_items (es_lru st)).
Proof.
  intros Hli Hpos. unfold encode_message, encode_message_chunks, bind.
  destruct (if e_compressed c then compress_timestamp (es_tsref st) (es_lastts st) m else (None, es_tsref st, es_lastts st)) as [[cmp tsref] lastts].
  destruct (match cmp with Some (h, fs) => (h, fs, true) | None => (MesgNormalHeaderMask, m_fields m, false) end) as [[hdr fs] compressed].
  destruct (lru_put (es_lru st) _) as [[local isnew] lru'] eqn:Ep.
  destruct (lru_put_spec _ _ _ _ _ Hli Hpos Ep) as (Hli' & Hlen' & _).
  destruct (marshal_message _ _); [|discriminate]. intros H. injection H as _ <-. cbn [es_lru]. split; assumption.
Qed.

(* ---------------------------------------------------------------- all messages of a sequence *)
Lemma messages_rt c dc : e_compressed c = false -> c_expand dc = false -> 765 <= c_bufsize dc ->
  forall ms st acc out st', Forall (msg_rt (e_big c)) ms -> linv (es_lru st) -> (0 < length (l_items (es_lru st)) <= 16)%nat ->
  encode_messages c st ms acc = Ok (out, st') ->
  exists recs, out = acc ++ recs /\
    forall s tail fuel, dinv (es_lru st) (s_defs s) -> length (s_defs s) = 16%nat -> s_rest s = recs ++ tail -> bufok s ->
      s_cur s + len recs = h_datasize (s_header s) -> h_datasize (s_header s) < 4294967296 -> (length recs <= fuel)%nat ->
      exists s', decode_messages fuel dc s = Ok s' /\ s_rest s' = tail /\ bufok s' /\ s_header s' = s_header s
                 /\ map content (s_msgs s') = rev (map content ms) ++ map content (s_msgs s).
Proof.
  intros Hcomp Hex Hbuf. induction ms as [|m ms IH]; intros st acc out st' Hrt Hli Hsz Henc; cbn [encode_messages] in Henc.
  - injection Henc as <- <-. exists []. rewrite app_nil_r. split; [reflexivity|].
    intros s tail fuel _ _ Hrest Hb Hcur _ _. exists s. change (len (@nil N)) with 0 in Hcur.
    split; [apply decode_messages_done; lia|]. split; [exact Hrest|]. split; [exact Hb|]. split; reflexivity.
  - inversion Hrt as [|? ? Hm Hms]; subst. unfold bind in Henc.
    destruct (encode_message c st m) as [[b st1]| | |] eqn:Em; try discriminate.
    destruct (encode_message_lru c st m b st1 Hli ltac:(lia) Em) as [Hli1 Hlen1].
    destruct (IH st1 (acc ++ b) out st' Hms Hli1 ltac:(lia) Henc) as (recs' & Hout & Hdec).
    exists (b ++ recs'). split; [rewrite Hout, app_assoc; reflexivity|].
    intros s tail fuel Hdinv Hl16 Hrest Hb Hcur Hds Hfuel.
    rewrite <- app_assoc in Hrest. rewrite len_app in Hcur.
    destruct (message_rt c dc st m b st1 s (recs' ++ tail) Hcomp Hex Hbuf Hm Hli Hsz Hdinv Hl16 Em Hrest Hb ltac:(lia) Hds)
      as (s1 & k & mh & Hk1 & Hk2 & Hstep & T1 & B1 & C1 & H1 & M1 & _ & _ & Hdinv1 & Hl161).
    rewrite app_length in Hfuel. unfold len in Hk2.
    replace fuel with (k + (fuel - k))%nat by lia. rewrite Hstep.
    destruct (Hdec s1 tail (fuel - k)%nat Hdinv1 Hl161 T1 B1) as (s' & D' & T' & B' & H' & M'); [rewrite H1, C1; lia|rewrite H1; exact Hds|lia|].
    exists s'. split; [exact D'|]. split; [exact T'|]. split; [exact B'|]. split; [congruence|].
    assert (Hc : content (mkmsg mh (m_num m) (m_fields m) []) = content m) by (unfold content; cbn [m_num m_fields m_devs]; rewrite (proj1 Hm); reflexivity).
    rewrite M', M1. cbn [map rev]. rewrite Hc, <- app_assoc. reflexivity.
Qed.

(* ---------------------------------------------------------------- the file header and the CRC (checksums ignored) *)
Lemma firstn_app_split {A} (l : list A) n : l = firstn n l ++ skipn n l. Proof. symmetry. apply firstn_skipn. Qed.

Lemma header_total dc s hb rest hsize ver pv dsize : c_checksum dc = false -> 765 <= c_bufsize dc -> bufok s -> s_rest s = hb ++ rest ->
  len hb = hsize -> (hsize = 12 \/ hsize = 14) -> firstn 12 hb = hsize :: ver :: le_bytes 2 pv ++ le_bytes 4 dsize ++ DataTypeFIT ->
  dsize < 4294967296 -> dsize <> 0 ->
  exists s1, decode_file_header dc s = Ok s1 /\ s_rest s1 = rest /\ bufok s1 /\ s_cur s1 = s_cur s /\ s_defs s1 = s_defs s /\ s_msgs s1 = s_msgs s
             /\ h_datasize (s_header s1) = dsize.
Proof.
  intros Hck Hbuf Hb Hrest Hlen Hsz H12 Hds Hnz.
  destruct (le_bytes 2 pv) as [|p0 [|p1 [|? ?]]] eqn:E2; try (apply (f_equal (@length N)) in E2; rewrite le_bytes_length in E2; cbn in E2; lia).
  destruct (le_bytes 4 dsize) as [|d0 [|d1 [|d2 [|d3 [|? ?]]]]] eqn:E4; try (apply (f_equal (@length N)) in E4; rewrite le_bytes_length in E4; cbn in E4; lia).
  change DataTypeFIT with [46; 70; 73; 84] in H12. cbn [app] in H12.
  assert (Hdw : le_word [d0; d1; d2; d3] = dsize) by (rewrite <- E4; apply le_roundtrip; cbn; lia).
  assert (Hhb : exists t, hb = hsize :: ver :: p0 :: p1 :: d0 :: d1 :: d2 :: d3 :: 46 :: 70 :: 73 :: 84 :: t /\ len t = hsize - 12).
  { exists (skipn 12 hb). rewrite (firstn_app_split hb 12) at 1. rewrite H12. split; [reflexivity|].
    unfold len in *. rewrite skipn_length. lia. }
  destruct Hhb as (t & -> & Lt). cbn [app] in Hrest.
  unfold decode_file_header, bind.
  destruct (read_raw_ok dc s 1 Hb ltac:(lia) Hbuf) as (s1 & E1 & R1 & B1 & _ & C1 & _ & _ & K1); [rewrite Hrest; unfold len; cbn [length]; lia|].
  rewrite E1, Hrest. change (take 1 (hsize :: ?x)) with [hsize]. cbn [byte_at nth_opt].
  replace (negb ((hsize =? 12) || (hsize =? 14))) with false by (destruct Hsz; subst hsize; reflexivity).
  set (s1c := upd_crc s1 (write (s_crc s1) [hsize])).
  assert (B1c : bufok s1c) by exact B1.
  rewrite Hrest in R1. change (drop 1 (hsize :: ?x)) with x in R1. assert (R1c : s_rest s1c = s_rest s1) by reflexivity.
  destruct (read_raw_ok dc s1c (hsize - 1) B1c ltac:(lia) Hbuf) as (s2 & E2' & R2 & B2 & _ & C2 & _ & _ & K2).
  { rewrite R1c, R1. unfold len in *. cbn [length]. rewrite app_length. cbn [length] in Hlen. lia. }
  rewrite E2', R1c, R1.
  destruct K1 as (_ & _ & K1d & _ & _ & _ & _ & _ & K1m & _). destruct K2 as (_ & _ & K2d & _ & _ & _ & _ & _ & K2m & _).
  change (s_defs s1c) with (s_defs s1) in K2d. change (s_msgs s1c) with (s_msgs s1) in K2m. change (s_cur s1c) with (s_cur s1) in C2.
  destruct Hsz as [Hs|Hs]; subst hsize.
  - (* 12-byte header *)
    assert (t = []) by (destruct t; [reflexivity|unfold len in Lt; cbn [length] in Lt; lia]). subst t.
    change (take (12 - 1) (ver :: p0 :: p1 :: d0 :: d1 :: d2 :: d3 :: 46 :: 70 :: 73 :: 84 :: [] ++ rest)) with [ver; p0; p1; d0; d1; d2; d3; 46; 70; 73; 84].
    cbn [slice length Nat.leb andb firstn skipn Nat.sub byte_at nth_opt]. change (list_N_eqb [46; 70; 73; 84] DataTypeFIT) with true. cbn [negb].
    rewrite Hdw. replace (dsize =? 0) with false by (symmetry; apply N.eqb_neq; exact Hnz).
    change (12 =? 14) with false. cbv iota. change (0 =? 0) with true. cbn [orb].
    eexists. split; [reflexivity|]. cbn [upd_crc upd_read push_event upd_header s_rest s_buf s_cur s_defs s_msgs s_header h_datasize].
    rewrite R1c, R1 in R2. split; [exact R2|]. split; [exact B2|]. split; [rewrite C2; exact C1|]. split; [congruence|]. split; [congruence|reflexivity].
  - (* 14-byte header *)
    destruct t as [|c0 [|c1 [|? ?]]]; try (unfold len in Lt; cbn [length] in Lt; lia).
    change (take (14 - 1) (ver :: p0 :: p1 :: d0 :: d1 :: d2 :: d3 :: 46 :: 70 :: 73 :: 84 :: [c0; c1] ++ rest)) with [ver; p0; p1; d0; d1; d2; d3; 46; 70; 73; 84; c0; c1].
    cbn [slice length Nat.leb andb firstn skipn Nat.sub byte_at nth_opt]. change (list_N_eqb [46; 70; 73; 84] DataTypeFIT) with true. cbn [negb].
    rewrite Hdw. replace (dsize =? 0) with false by (symmetry; apply N.eqb_neq; exact Hnz).
    change (14 =? 14) with true. cbv iota. rewrite Hck. cbn [negb]. rewrite orb_true_r.
    eexists. split; [reflexivity|]. cbn [upd_crc upd_read push_event upd_header s_rest s_buf s_cur s_defs s_msgs s_header h_datasize].
    rewrite R1c, R1 in R2. split; [exact R2|]. split; [exact B2|]. split; [rewrite C2; exact C1|]. split; [congruence|]. split; [congruence|reflexivity].
Qed.

(* ---------------------------------------------------------------- what encode_fit returns *)
#[local] Opaque write le_bytes.
Lemma validate_all_length p : forall ms vs acc out, validate_all p vs ms acc = Ok out -> length out = (length acc + length ms)%nat.
Proof.
  induction ms as [|m ms IH]; intros vs acc out H; cbn [validate_all] in H.
  - injection H as <-. cbn [length]. lia.
  - unfold bind in H. destruct (validate p vs m) as [[m' vs']| | |]; try discriminate. apply IH in H. rewrite H, app_length. cbn [length]. lia.
Qed.

Lemma encode_message_nonempty c st m b st' : encode_message c st m = Ok (b, st') -> b <> [].
Proof.
  unfold encode_message, encode_message_chunks, bind.
  destruct (if e_compressed c then compress_timestamp (es_tsref st) (es_lastts st) m else (None, es_tsref st, es_lastts st)) as [[cmp tsref] lastts].
  destruct (match cmp with Some (h, fs) => (h, fs, true) | None => (MesgNormalHeaderMask, m_fields m, false) end) as [[hdr fs] compressed].
  destruct (lru_put (es_lru st) _) as [[local isnew] lru'].
  unfold marshal_message. destruct (marshal_values _ _); [|discriminate]. intros H. injection H as <- _. cbn [fst].
  rewrite concat_app. cbn [concat]. intros Habs. apply app_eq_nil in Habs. destruct Habs as [_ Habs]. discriminate.
Qed.

Lemma datasize_small c : forall ms st acc out st', encode_messages c st ms acc = Ok (out, st') -> es_datasize st < 4294967296 -> es_datasize st' < 4294967296.
Proof.
  induction ms as [|m ms IH]; intros st acc out st' H Hs; cbn [encode_messages] in H.
  - injection H as _ <-. exact Hs.
  - unfold bind in H. destruct (encode_message c st m) as [[b st1]| | |] eqn:E; try discriminate.
    apply (IH _ _ _ _ H). destruct (encode_message_acc _ _ _ _ _ E) as [-> _]. apply (wrap_lt 32).
Qed.

Lemma encode_fit_inv c f r : encode_fit c f = Ok r ->
  exists hb records st ver pv, er_bytes r = hb ++ records ++ le_bytes 2 (er_crc r)
    /\ encode_messages c (es_init c) (er_msgs r) [] = Ok (records, st) /\ er_msgs r <> []
    /\ (let hsize := if ef_hsize f =? 12 then 12 else 14 in
        len hb = hsize /\ firstn 12 hb = hsize :: ver :: le_bytes 2 pv ++ le_bytes 4 (es_datasize st) ++ DataTypeFIT).
Proof.
  unfold encode_fit. destruct (ef_msgs f) as [|m0 ms0] eqn:Em; [discriminate|].
  unfold bind. destruct (proto_validate_all _ _); try discriminate.
  destruct (validate_all _ _ _ _) as [vms| | |] eqn:Ev; try discriminate.
  destruct (encode_messages _ _ _ _) as [[records st]| | |] eqn:E; try discriminate.
  intros H. injection H as <-. cbn [er_bytes er_crc er_header er_msgs].
  eexists. exists records, st. eexists. eexists. split; [reflexivity|]. split; [exact E|].
  split. { apply validate_all_length in Ev. cbn [length] in Ev. destruct vms; [discriminate|discriminate]. }
  unfold marshal_header. cbn [N.leb app].
  change DataTypeFIT with [46; 70; 73; 84].
  destruct (le_bytes 2 (if ef_profile f =? 0 then profile_Version else ef_profile f)) as [|p0 [|p1 [|? ?]]] eqn:E2;
    try (apply (f_equal (@length N)) in E2; rewrite le_bytes_length in E2; cbn in E2; lia).
  destruct (le_bytes 4 (es_datasize st)) as [|a4 [|b4 [|c4 [|d4 [|? ?]]]]] eqn:E4;
    try (apply (f_equal (@length N)) in E4; rewrite le_bytes_length in E4; cbn in E4; lia).
  destruct (ef_hsize f =? 12) eqn:E12.
  - cbn [N.eqb Pos.eqb]. rewrite E2. cbn [app]. split; [reflexivity|]. reflexivity.
  - cbn [N.eqb Pos.eqb]. cbn [app]. split.
    + unfold len. cbn [length app]. rewrite ?app_length, ?le_bytes_length. reflexivity.
    + rewrite E2. reflexivity.
Qed.

(* ---------------------------------------------------------------- encode, then decode *)
Lemma dinv_init n : dinv (lru_init n) no_defs.
Proof.
  intros i Hi Hne. exfalso. apply Hne. unfold lru_init. cbn [l_items]. destruct (Nat.lt_ge_cases i (N.to_nat n)) as [H|H].
  - apply nth_repeat.
  - apply nth_overflow. rewrite repeat_length. exact H.
Qed.

Theorem encode_decode_roundtrip c f r dc :
  e_compressed c = false -> c_checksum dc = false -> c_expand dc = false -> 765 <= c_bufsize dc ->
  encode_fit c f = Ok r -> Forall (msg_rt (e_big c)) (er_msgs r) -> len (er_bytes r) < 4294967296 ->
  exists ft, decode_stream dc (er_bytes r) = Ok [ft] /\ map content (fit_msgs ft) = map content (er_msgs r).
Proof.
  intros Hcomp Hck Hex Hbuf Henc Hrt Hlen.
  destruct (encode_fit_inv c f r Henc) as (hb & records & st & ver & pv & Hbytes & Hem & Hne & Hhlen & Hh12).
  set (hsize := if ef_hsize f =? 12 then 12 else 14) in *.
  assert (Hsz : hsize = 12 \/ hsize = 14) by (unfold hsize; destruct (ef_hsize f =? 12); auto).
  (* the records *)
  assert (Hsz16 : (0 < length (l_items (es_lru (es_init c))) <= 16)%nat).
  { unfold es_init, lru_init, local_types. cbn [es_lru l_items]. rewrite repeat_length, Hcomp. lia. }
  destruct (messages_rt c dc Hcomp Hex Hbuf (er_msgs r) (es_init c) [] records st Hrt (linv_init _) Hsz16 Hem) as (recs & Hrec & Hdec).
  cbn [app] in Hrec. subst recs.
  destruct (encode_messages_acc _ _ _ _ _ _ Hem) as (x & Hx & Hds & _). cbn [app] in Hx. subst x.
  cbn [es_init es_datasize] in Hds. rewrite N.add_0_l in Hds.
  pose proof (datasize_small c _ _ _ _ _ Hem ltac:(cbn; lia)) as Hsmall.
  assert (Hlr : len records < 4294967296) by (rewrite Hbytes, !len_app in Hlen; lia).
  assert (Hdsz : es_datasize st = len records) by (rewrite <- (wrap32_small (es_datasize st) Hsmall), Hds; apply wrap32_small; exact Hlr).
  assert (Hrne : len records <> 0).
  { destruct (er_msgs r) as [|m0 ms0]; [contradiction|]. cbn [encode_messages] in Hem. unfold bind in Hem.
    destruct (encode_message c (es_init c) m0) as [[b0 st0]| | |] eqn:E0; try discriminate.
    pose proof (encode_message_nonempty _ _ _ _ _ E0) as Hb0. destruct (encode_messages_acc _ _ _ _ _ _ Hem) as (x & -> & _).
    cbn [app]. rewrite len_app. destruct b0; [contradiction|unfold len; cbn [length]; lia]. }
  (* the decoder *)
  unfold decode_stream. set (bs := er_bytes r). set (s0 := init_state bs).
  assert (Hb0 : bufok s0) by (unfold bufok, s0; cbn; lia).
  destruct (header_total dc s0 hb (records ++ le_bytes 2 (er_crc r)) hsize ver pv (es_datasize st) Hck Hbuf Hb0 Hbytes Hhlen Hsz Hh12 Hsmall ltac:(lia))
    as (s1 & D1 & R1 & B1 & C1 & F1 & M1 & H1).
  destruct (Hdec s1 (le_bytes 2 (er_crc r)) (S (length (s_rest s1)))) as (s2 & D2 & R2 & B2 & H2 & M2).
  { rewrite F1. apply dinv_init. }
  { rewrite F1. reflexivity. }
  { exact R1. }
  { exact B1. }
  { rewrite C1, H1, Hdsz. reflexivity. }
  { rewrite H1. exact Hsmall. }
  { rewrite R1, app_length. lia. }
  (* the CRC, unchecked *)
  assert (Hl2 : len (le_bytes 2 (er_crc r)) = 2) by (unfold len; rewrite le_bytes_length; reflexivity).
  destruct (read_raw_ok dc s2 2 B2 ltac:(lia) Hbuf) as (s3 & E3 & R3 & B3 & _ & _ & _ & H3 & K3); [rewrite R2, Hl2; lia|].
  assert (Hone : decode_one dc s0 = Ok (mkfit (s_header s3) (rev (s_msgs s3)) (le_word (take 2 (s_rest s2))), reset_seq (push_event (upd_crc s3 0) (EvCrc (le_word (take 2 (s_rest s2))))))).
  { unfold decode_one, bind. rewrite D1, D2. unfold decode_crc, bind. rewrite E3, Hck. reflexivity. }
  assert (Hrest3 : s_rest s3 = []).
  { rewrite R3, R2. replace 2 with (len (le_bytes 2 (er_crc r))) by exact Hl2. rewrite <- (app_nil_r (le_bytes 2 (er_crc r))) at 2. apply drop_app_len. }
  eexists. split.
  - assert (Hbl : exists n, length bs = S n).
    { unfold bs. rewrite Hbytes, app_length. destruct hb; [unfold len in Hhlen; cbn in Hhlen; destruct Hsz; lia|cbn [length]; eexists; reflexivity]. }
    destruct Hbl as (n & Hn). rewrite Hn. cbn [decode_all].
    assert (Hfirst : forall X : outcome (list fit) * list event, match s_rest s0 with [] => X | _ :: _ => X end = X) by (intros X; destruct (s_rest s0); reflexivity).
    rewrite Hfirst, Hone. cbn [decode_all reset_seq push_event upd_crc upd_read s_rest]. rewrite Hrest3. reflexivity.
  - cbn [fit_msgs]. rewrite map_rev. destruct K3 as (_ & _ & _ & _ & _ & _ & _ & _ & K3m & _). rewrite K3m, M2, M1. cbn [s_msgs s0 init_state map]. rewrite app_nil_r, rev_involutive. reflexivity.
Qed.

(* ---------------------------------------------------------------- which fields round-trip: numeric scalars and arrays of known fields *)
Definition bt_width_ok (bt : N) : bool :=
  match bt_ntype bt with Some t => (bt_size bt =? N.of_nat (width t)) && bt_valid bt | None => true end.
Lemma bt_width_sweep : forallb bt_width_ok (nrange 256 0) = true. Proof. vm_compute. reflexivity. Qed.
Lemma bt_ntype_small bt t : bt_ntype bt = Some t -> bt < 256.
Proof.
  intros H. destruct (N.lt_ge_cases bt 256) as [Hlt|Hge]; [exact Hlt|]. exfalso. unfold bt_ntype in H.
  repeat match type of H with context [bt =? ?c] => replace (bt =? c) with false in H by (symmetry; apply N.eqb_neq; intros ->; vm_compute in Hge; apply Hge; reflexivity) end.
  cbn in H. discriminate.
Qed.
Lemma bt_size_width bt t : bt_ntype bt = Some t -> bt_size bt = N.of_nat (width t) /\ bt_valid bt = true.
Proof.
  intros H. pose proof (bt_ntype_small bt t H) as Hs. pose proof bt_width_sweep as Hw. rewrite forallb_forall in Hw.
  specialize (Hw bt (in_nrange 256 0 bt ltac:(lia))). unfold bt_width_ok in Hw. rewrite H in Hw. apply andb_prop in Hw. destruct Hw as [H1 H2].
  apply N.eqb_eq in H1. auto.
Qed.

Lemma field_rt_scalar big mn f t x : create_field mn (f_num f) = mkfield (f_fb f) true VInvalid false -> f_known f = true -> f_expanded f = false ->
  f_value f = VNum t x -> elt_ok t x = true -> numeric t -> bt_for t (f_base f) -> pt_for t (fb_ptype (f_fb f)) -> fb_array (f_fb f) = false ->
  field_rt big mn f.
Proof.
  intros Hc Hk He Hv Hx Hn Hbt Hpt Ha. apply known_is_rt. unfold field_rt_known. split; [exact Hc|]. split; [exact Hk|]. split; [exact He|].
  assert (Hty : bt_ntype (f_base f) = Some t) by (destruct Hbt as [_ Hb]; destruct t; try exact Hb; contradiction).
  destruct (bt_size_width _ _ Hty) as [Hsz Hval]. split; [exact Hval|].
  rewrite Hv, Ha. eexists. split; [reflexivity|]. cbn [size]. pose proof (width_pos t). split; [destruct t; cbn; lia|]. split; [lia|].
  apply roundtrip_scalar; try assumption. reflexivity.
Qed.

Lemma field_rt_array big mn f t l : create_field mn (f_num f) = mkfield (f_fb f) true VInvalid false -> f_known f = true -> f_expanded f = false ->
  f_value f = VArr t l -> forallb (elt_ok t) l = true -> numeric t -> bt_for t (f_base f) -> pt_for t (fb_ptype (f_fb f)) -> fb_array (f_fb f) = true ->
  l <> [] -> len l * N.of_nat (width t) <= 255 -> field_rt big mn f.
Proof.
  intros Hc Hk He Hv Hx Hn Hbt Hpt Ha Hne Hsz. apply known_is_rt. unfold field_rt_known. split; [exact Hc|]. split; [exact Hk|]. split; [exact He|].
  assert (Hty : bt_ntype (f_base f) = Some t) by (destruct Hbt as [_ Hb]; destruct t; try exact Hb; contradiction).
  destruct (bt_size_width _ _ Hty) as [Hs Hval]. split; [exact Hval|].
  rewrite Hv, Ha. eexists. split; [reflexivity|]. cbn [size]. pose proof (width_pos t).
  assert (1 <= len l) by (destruct l; [contradiction|unfold len; cbn [length]; lia]).
  split; [split; [nia|exact Hsz]|]. split; [rewrite Hs; nia|].
  apply roundtrip_array; try assumption. reflexivity.
Qed.

(* strings of known string fields qualify as well (clean = valid UTF-8 without NUL and without U+FFFD, C06) *)
Lemma field_rt_string big mn f s : create_field mn (f_num f) = mkfield (f_fb f) true VInvalid false -> f_known f = true -> f_expanded f = false ->
  f_value f = VStr s -> clean s -> f_base f = bt_string -> fb_array (f_fb f) = false -> str_size s <= 255 -> field_rt big mn f.
Proof.
  intros Hc Hk He Hv Hcl Hb Ha Hsz. apply known_is_rt. unfold field_rt_known. split; [exact Hc|]. split; [exact Hk|]. split; [exact He|]. rewrite Hb. split; [reflexivity|].
  rewrite Hv, Ha. eexists. split; [reflexivity|]. cbn [size]. pose proof (str_size_pos s). split; [lia|]. split; [change (bt_size bt_string) with 1; lia|].
  apply roundtrip_string; [exact Hcl|reflexivity].
Qed.

(* ---------------------------------------------------------------- one sequence inside a longer stream (chained files) *)
Definition boundary_state (s : dstate) : Prop :=
  bufok s /\ s_cur s = 0 /\ s_defs s = no_defs /\ s_msgs s = [] /\ s_ts s = 0 /\ s_lto s = 0.

Lemma reset_seq_boundary s : bufok s -> boundary_state (reset_seq s).
Proof. intros H. unfold boundary_state, reset_seq, bufok in *. cbn. repeat split; auto. Qed.

Lemma one_sequence_rt c f r dc s tail :
  e_compressed c = false -> c_checksum dc = false -> c_expand dc = false -> 765 <= c_bufsize dc ->
  encode_fit c f = Ok r -> Forall (msg_rt (e_big c)) (er_msgs r) -> len (er_bytes r) < 4294967296 ->
  boundary_state s -> s_rest s = er_bytes r ++ tail ->
  exists ft s', decode_one dc s = Ok (ft, s') /\ map content (fit_msgs ft) = map content (er_msgs r) /\ boundary_state s' /\ s_rest s' = tail.
Proof.
  intros Hcomp Hck Hex Hbuf Henc Hrt Hlen (Hb0 & Hc0 & Hd0 & Hm0 & _ & _) Hrest.
  destruct (encode_fit_inv c f r Henc) as (hb & records & st & ver & pv & Hbytes & Hem & Hne & Hhlen & Hh12).
  set (hsize := if ef_hsize f =? 12 then 12 else 14) in *.
  assert (Hsz : hsize = 12 \/ hsize = 14) by (unfold hsize; destruct (ef_hsize f =? 12); auto).
  assert (Hsz16 : (0 < length (l_items (es_lru (es_init c))) <= 16)%nat).
  { unfold es_init, lru_init, local_types. cbn [es_lru l_items]. rewrite repeat_length, Hcomp. lia. }
  destruct (messages_rt c dc Hcomp Hex Hbuf (er_msgs r) (es_init c) [] records st Hrt (linv_init _) Hsz16 Hem) as (recs & Hrec & Hdec).
  cbn [app] in Hrec. subst recs.
  destruct (encode_messages_acc _ _ _ _ _ _ Hem) as (x & Hx & Hds & _). cbn [app] in Hx. subst x.
  cbn [es_init es_datasize] in Hds. rewrite N.add_0_l in Hds.
  pose proof (datasize_small c _ _ _ _ _ Hem ltac:(cbn; lia)) as Hsmall.
  assert (Hlr : len records < 4294967296) by (rewrite Hbytes, !len_app in Hlen; lia).
  assert (Hdsz : es_datasize st = len records) by (rewrite <- (wrap32_small (es_datasize st) Hsmall), Hds; apply wrap32_small; exact Hlr).
  assert (Hrne : len records <> 0).
  { destruct (er_msgs r) as [|m0 ms0]; [contradiction|]. cbn [encode_messages] in Hem. unfold bind in Hem.
    destruct (encode_message c (es_init c) m0) as [[b0 st0]| | |] eqn:E0; try discriminate.
    pose proof (encode_message_nonempty _ _ _ _ _ E0) as Hb0'. destruct (encode_messages_acc _ _ _ _ _ _ Hem) as (x & -> & _).
    cbn [app]. rewrite len_app. destruct b0; [contradiction|unfold len; cbn [length]; lia]. }
  rewrite Hbytes in Hrest. rewrite <- !app_assoc in Hrest.
  destruct (header_total dc s hb (records ++ le_bytes 2 (er_crc r) ++ tail) hsize ver pv (es_datasize st) Hck Hbuf Hb0 Hrest Hhlen Hsz Hh12 Hsmall ltac:(lia))
    as (s1 & D1 & R1 & B1 & C1 & F1 & M1 & H1).
  destruct (Hdec s1 (le_bytes 2 (er_crc r) ++ tail) (S (length (s_rest s1)))) as (s2 & D2 & R2 & B2 & H2 & M2).
  { rewrite F1, Hd0. apply dinv_init. }
  { rewrite F1, Hd0. reflexivity. }
  { exact R1. }
  { exact B1. }
  { rewrite C1, Hc0, H1, Hdsz. reflexivity. }
  { rewrite H1. exact Hsmall. }
  { rewrite R1, app_length. lia. }
  assert (Hl2 : len (le_bytes 2 (er_crc r)) = 2) by (unfold len; rewrite le_bytes_length; reflexivity).
  destruct (read_raw_ok dc s2 2 B2 ltac:(lia) Hbuf) as (s3 & E3 & R3 & B3 & _ & _ & _ & H3 & K3); [rewrite R2, len_app, Hl2; lia|].
  eexists. eexists. split.
  - unfold decode_one, bind. rewrite D1, D2. unfold decode_crc, bind. rewrite E3, Hck. reflexivity.
  - cbn [fit_msgs snd fst]. split.
    + rewrite map_rev. destruct K3 as (_ & _ & _ & _ & _ & _ & _ & _ & K3m & _). cbn [push_event upd_crc upd_read s_msgs]. rewrite K3m, M2, M1, Hm0. cbn [map]. rewrite app_nil_r, rev_involutive. reflexivity.
    + split; [apply reset_seq_boundary; exact B3|]. cbn [reset_seq push_event upd_crc upd_read s_rest].
      rewrite R3, R2. replace 2 with (len (le_bytes 2 (er_crc r))) by exact Hl2. apply drop_app_len.
Qed.

(* unknown fields (numbers the profile does not define, or fields of unknown messages): the decoder types them by the base type
   of the definition; scalars, and arrays of at least two elements, of numeric type qualify *)
Lemma field_rt_unknown_scalar big mn f t x : factory mn (f_num f) = None -> f_known f = false -> f_expanded f = false ->
  f_value f = VNum t x -> elt_ok t x = true -> numeric t -> bt_for t (f_base f) -> pt_for t (N.land (f_base f) BaseTypeNumMask) ->
  f_fb f = with_type (unknown_fb (f_num f)) (f_base f) (N.land (f_base f) BaseTypeNumMask) false -> field_rt big mn f.
Proof.
  intros Hfac Hk He Hv Hx Hn Hbt Hpt Hfb.
  assert (Hty : bt_ntype (f_base f) = Some t) by (destruct Hbt as [_ Hb]; destruct t; try exact Hb; contradiction).
  destruct (bt_size_width _ _ Hty) as [Hsz Hval]. split; [exact Hval|].
  assert (Hnstr : (f_base f =? bt_string) = false) by (apply N.eqb_neq; apply Hbt).
  rewrite Hv. eexists. eexists. eexists. split; [reflexivity|]. cbn [size]. pose proof (width_pos t).
  split; [destruct t; cbn; lia|]. split; [lia|].
  split. { unfold field_prefix, create_field. cbn [fd_num fd_size fd_base]. rewrite Hfac. cbn [f_known]. rewrite Hsz, N.ltb_irrefl. cbn [bind]. rewrite Hnstr. reflexivity. }
  split; [reflexivity|]. split.
  - destruct f as [fb kn v ex]. cbn [f_known f_value f_expanded] in Hk, He, Hv. subst kn ex v. unfold set_value, set_fb. cbn [f_fb f_known f_value f_expanded]. rewrite <- Hfb. reflexivity.
  - cbn [andb set_fb f_fb with_type fb_ptype fb_array]. apply roundtrip_scalar; try assumption. reflexivity.
Qed.

Lemma field_rt_unknown_array big mn f t l : factory mn (f_num f) = None -> f_known f = false -> f_expanded f = false ->
  f_value f = VArr t l -> forallb (elt_ok t) l = true -> numeric t -> bt_for t (f_base f) -> pt_for t (N.land (f_base f) BaseTypeNumMask) ->
  f_fb f = with_type (unknown_fb (f_num f)) (f_base f) (N.land (f_base f) BaseTypeNumMask) true ->
  2 <= len l -> len l * N.of_nat (width t) <= 255 -> field_rt big mn f.
Proof.
  intros Hfac Hk He Hv Hx Hn Hbt Hpt Hfb Hl2 Hsz255.
  assert (Hty : bt_ntype (f_base f) = Some t) by (destruct Hbt as [_ Hb]; destruct t; try exact Hb; contradiction).
  destruct (bt_size_width _ _ Hty) as [Hsz Hval]. split; [exact Hval|].
  assert (Hnstr : (f_base f =? bt_string) = false) by (apply N.eqb_neq; apply Hbt).
  rewrite Hv. eexists. eexists. eexists. split; [reflexivity|]. cbn [size]. pose proof (width_pos t).
  split; [split; [nia|exact Hsz255]|]. split; [rewrite Hsz; nia|].
  split. { unfold field_prefix, create_field. cbn [fd_num fd_size fd_base]. rewrite Hfac. cbn [f_known]. rewrite Hsz.
           replace (N.of_nat (width t) <? len l * N.of_nat (width t)) with true by (symmetry; apply N.ltb_lt; nia).
           unfold bt_size_div. rewrite Hsz. replace (N.of_nat (width t) =? 0) with false by (symmetry; apply N.eqb_neq; lia). cbn [bind].
           rewrite N.mod_mul by lia. rewrite Hnstr. reflexivity. }
  split; [reflexivity|]. split.
  - destruct f as [fb kn v ex]. cbn [f_known f_value f_expanded] in Hk, He, Hv. subst kn ex v. unfold set_value, set_fb. cbn [f_fb f_known f_value f_expanded]. change (0 =? 0) with true. rewrite <- Hfb. reflexivity.
  - cbn [andb set_fb f_fb with_type fb_ptype fb_array]. change (0 =? 0) with true. apply roundtrip_array; try assumption. reflexivity.
Qed.

(* ---------------------------------------------------------------- with checksum verification on *)
Lemma encode_fit_inv2 c f r : encode_fit c f = Ok r ->
  exists hb records st ver pv, er_bytes r = hb ++ records ++ le_bytes 2 (er_crc r)
    /\ encode_messages c (es_init c) (er_msgs r) [] = Ok (records, st) /\ er_msgs r <> []
    /\ (let hsize := if ef_hsize f =? 12 then 12 else 14 in
        len hb = hsize /\ firstn 12 hb = hsize :: ver :: le_bytes 2 pv ++ le_bytes 4 (es_datasize st) ++ DataTypeFIT)
    /\ er_crc r = write 0 records
    /\ ((ef_hsize f =? 12) = false -> skipn 12 hb = le_bytes 2 (write 0 (firstn 12 hb))).
Proof.
  unfold encode_fit. destruct (ef_msgs f) as [|m0 ms0] eqn:Em; [discriminate|].
  unfold bind. destruct (proto_validate_all _ _); try discriminate.
  destruct (validate_all _ _ _ _) as [vms| | |] eqn:Ev; try discriminate.
  destruct (encode_messages _ _ _ _) as [[records st]| | |] eqn:E; try discriminate.
  intros H. injection H as <-. cbn [er_bytes er_crc er_header er_msgs].
  destruct (encode_messages_acc _ _ _ _ _ _ E) as (x & Hx & _ & Hcrc). cbn [app] in Hx. subst x. cbn [es_init es_crc] in Hcrc.
  eexists. exists records, st. eexists. eexists. split; [reflexivity|]. split; [exact E|].
  split. { apply validate_all_length in Ev. cbn [length] in Ev. destruct vms; [discriminate|discriminate]. }
  unfold marshal_header. cbn [N.leb app].
  change DataTypeFIT with [46; 70; 73; 84].
  destruct (le_bytes 2 (if ef_profile f =? 0 then profile_Version else ef_profile f)) as [|p0 [|p1 [|? ?]]] eqn:E2;
    try (apply (f_equal (@length N)) in E2; rewrite le_bytes_length in E2; cbn in E2; lia).
  destruct (le_bytes 4 (es_datasize st)) as [|a4 [|b4 [|c4 [|d4 [|? ?]]]]] eqn:E4;
    try (apply (f_equal (@length N)) in E4; rewrite le_bytes_length in E4; cbn in E4; lia).
  destruct (ef_hsize f =? 12) eqn:E12.
  - cbn [N.eqb Pos.eqb]. rewrite E2. cbn [app]. split; [split; reflexivity|]. split; [exact Hcrc|discriminate].
  - cbn [N.eqb Pos.eqb]. cbn [app]. split; [split|split; [exact Hcrc|]].
    + unfold len. cbn [length app]. rewrite ?app_length, ?le_bytes_length. reflexivity.
    + rewrite E2. reflexivity.
    + intros _. reflexivity.
Qed.

Lemma header_total_any dc s hb rest hsize ver pv dsize : 765 <= c_bufsize dc -> bufok s -> s_crc s = 0 -> s_rest s = hb ++ rest ->
  len hb = hsize -> (hsize = 12 \/ hsize = 14) -> firstn 12 hb = hsize :: ver :: le_bytes 2 pv ++ le_bytes 4 dsize ++ DataTypeFIT ->
  (hsize = 14 -> skipn 12 hb = le_bytes 2 (write 0 (firstn 12 hb))) -> bytes_ok (firstn 12 hb) ->
  dsize < 4294967296 -> dsize <> 0 ->
  exists s1, decode_file_header dc s = Ok s1 /\ s_rest s1 = rest /\ bufok s1 /\ s_cur s1 = s_cur s /\ s_defs s1 = s_defs s /\ s_msgs s1 = s_msgs s
             /\ h_datasize (s_header s1) = dsize /\ s_crc s1 = 0.
Proof.
  intros Hbuf Hb Hcrc0 Hrest Hlen Hsz H12 Hhc Hok12 Hds Hnz.
  destruct (le_bytes 2 pv) as [|p0 [|p1 [|? ?]]] eqn:E2; try (apply (f_equal (@length N)) in E2; rewrite le_bytes_length in E2; cbn in E2; lia).
  destruct (le_bytes 4 dsize) as [|d0 [|d1 [|d2 [|d3 [|? ?]]]]] eqn:E4; try (apply (f_equal (@length N)) in E4; rewrite le_bytes_length in E4; cbn in E4; lia).
  change DataTypeFIT with [46; 70; 73; 84] in H12. cbn [app] in H12.
  assert (Hdw : le_word [d0; d1; d2; d3] = dsize) by (rewrite <- E4; apply le_roundtrip; cbn; lia).
  rewrite H12 in Hhc, Hok12.
  assert (Hhb : exists t, hb = hsize :: ver :: p0 :: p1 :: d0 :: d1 :: d2 :: d3 :: 46 :: 70 :: 73 :: 84 :: t /\ len t = hsize - 12 /\ skipn 12 hb = t).
  { exists (skipn 12 hb). rewrite (firstn_app_split hb 12) at 1. rewrite H12. split; [reflexivity|]. split; [|reflexivity].
    unfold len in *. rewrite skipn_length. lia. }
  destruct Hhb as (t & Ehb & Lt & Hskip). rewrite Hskip in Hhc. subst hb. cbn [app] in Hrest.
  unfold decode_file_header, bind.
  destruct (read_raw_ok dc s 1 Hb ltac:(lia) Hbuf) as (s1 & E1 & R1 & B1 & _ & C1 & Cr1 & _ & K1); [rewrite Hrest; unfold len; cbn [length]; lia|].
  rewrite E1, Hrest. change (take 1 (hsize :: ?x)) with [hsize]. cbn [byte_at nth_opt].
  replace (negb ((hsize =? 12) || (hsize =? 14))) with false by (destruct Hsz; subst hsize; reflexivity).
  set (s1c := upd_crc s1 (write (s_crc s1) [hsize])).
  assert (B1c : bufok s1c) by exact B1.
  rewrite Hrest in R1. change (drop 1 (hsize :: ?x)) with x in R1. assert (R1c : s_rest s1c = s_rest s1) by reflexivity.
  destruct (read_raw_ok dc s1c (hsize - 1) B1c ltac:(lia) Hbuf) as (s2 & E2' & R2 & B2 & _ & C2 & Cr2 & _ & K2).
  { rewrite R1c, R1. unfold len in *. cbn [length]. rewrite app_length. cbn [length] in Hlen. lia. }
  rewrite E2', R1c, R1.
  destruct K1 as (_ & _ & K1d & _ & _ & _ & _ & _ & K1m & _). destruct K2 as (_ & _ & K2d & _ & _ & _ & _ & _ & K2m & _).
  change (s_defs s1c) with (s_defs s1) in K2d. change (s_msgs s1c) with (s_msgs s1) in K2m. change (s_cur s1c) with (s_cur s1) in C2.
  change (s_crc s1c) with (write (s_crc s1) [hsize]) in Cr2. rewrite Cr1, Hcrc0 in Cr2.
  destruct Hsz as [Hs|Hs]; subst hsize.
  - (* 12-byte header: no header CRC *)
    assert (t = []) by (destruct t; [reflexivity|unfold len in Lt; cbn [length] in Lt; lia]). subst t.
    change (take (12 - 1) (ver :: p0 :: p1 :: d0 :: d1 :: d2 :: d3 :: 46 :: 70 :: 73 :: 84 :: [] ++ rest)) with [ver; p0; p1; d0; d1; d2; d3; 46; 70; 73; 84].
    cbn [slice length Nat.leb andb firstn skipn Nat.sub byte_at nth_opt]. change (list_N_eqb [46; 70; 73; 84] DataTypeFIT) with true. cbn [negb].
    rewrite Hdw. replace (dsize =? 0) with false by (symmetry; apply N.eqb_neq; exact Hnz).
    change (12 =? 14) with false. cbv iota. change (0 =? 0) with true. cbn [orb].
    eexists. split; [reflexivity|]. cbn [upd_crc upd_read push_event upd_header s_rest s_buf s_cur s_defs s_msgs s_header h_datasize s_crc].
    rewrite R1c, R1 in R2. split; [exact R2|]. split; [exact B2|]. split; [rewrite C2; exact C1|]. split; [congruence|]. split; [congruence|split; reflexivity].
  - (* 14-byte header *)
    destruct t as [|c0 [|c1 [|? ?]]]; try (unfold len in Lt; cbn [length] in Lt; lia).
    change (take (14 - 1) (ver :: p0 :: p1 :: d0 :: d1 :: d2 :: d3 :: 46 :: 70 :: 73 :: 84 :: [c0; c1] ++ rest)) with [ver; p0; p1; d0; d1; d2; d3; 46; 70; 73; 84; c0; c1].
    cbn [slice length Nat.leb andb firstn skipn Nat.sub byte_at nth_opt]. change (list_N_eqb [46; 70; 73; 84] DataTypeFIT) with true. cbn [negb].
    rewrite Hdw. replace (dsize =? 0) with false by (symmetry; apply N.eqb_neq; exact Hnz).
    change (14 =? 14) with true. cbv iota.
    set (L12 := [14; ver; p0; p1; d0; d1; d2; d3; 46; 70; 73; 84]) in *.
    assert (Hc01 : le_word [c0; c1] = write 0 L12).
    { rewrite (Hhc eq_refl). apply le_roundtrip. pose proof (CrcProofs.C18_state_bounded L12 Hok12) as Hbd. change (256 ^ N.of_nat 2) with 65536. exact Hbd. }
    assert (Hfin : exists s1', Ok (upd_crc (push_event (upd_header s2 (mkfh 14 ver (le_word [p0; p1]) dsize (le_word [c0; c1]))) (EvHeader (mkfh 14 ver (le_word [p0; p1]) dsize (le_word [c0; c1])))) 0) = Ok s1'
              /\ s_rest s1' = rest /\ bufok s1' /\ s_cur s1' = s_cur s /\ s_defs s1' = s_defs s /\ s_msgs s1' = s_msgs s /\ h_datasize (s_header s1') = dsize /\ s_crc s1' = 0).
    { eexists. split; [reflexivity|]. cbn [upd_crc upd_read push_event upd_header s_rest s_buf s_cur s_defs s_msgs s_header h_datasize s_crc].
      rewrite R1c, R1 in R2. split; [exact R2|]. split; [exact B2|]. split; [rewrite C2; exact C1|]. split; [congruence|]. split; [congruence|split; reflexivity]. }
    destruct ((le_word [c0; c1] =? 0) || negb (c_checksum dc)); [exact Hfin|].
    cbn [push_event upd_header s_crc]. rewrite Cr2, <- write_app. change ([14] ++ [ver; p0; p1; d0; d1; d2; d3; 46; 70; 73; 84]) with L12.
    rewrite Hc01, N.eqb_refl. cbn [negb]. rewrite <- Hc01. exact Hfin.
Qed.

(* string arrays of known fields: non-empty clean elements, at least one *)
Lemma field_rt_strings big mn f ss : create_field mn (f_num f) = mkfield (f_fb f) true VInvalid false -> f_known f = true -> f_expanded f = false ->
  f_value f = VStrs ss -> Forall (fun s => clean s /\ s <> []) ss -> ss <> [] -> f_base f = bt_string -> fb_array (f_fb f) = true ->
  size (VStrs ss) <= 255 -> field_rt big mn f.
Proof.
  intros Hc Hk He Hv Hss Hne Hb Ha Hsz. apply known_is_rt. unfold field_rt_known. split; [exact Hc|]. split; [exact Hk|]. split; [exact He|]. rewrite Hb. split; [reflexivity|].
  rewrite Hv, Ha. eexists. split; [reflexivity|].
  assert (Hpos : 0 < size (VStrs ss)).
  { cbn [size]. destruct (fold_left (fun acc s => acc + str_size s) ss 0 =? 0) eqn:E; [lia|]. apply N.eqb_neq in E. lia. }
  split; [split; [exact Hpos|exact Hsz]|]. split; [change (bt_size bt_string) with 1; lia|].
  apply roundtrip_strings; [exact Hss|exact Hne|reflexivity].
Qed.
