(* C08, lifted to the decoder: what Decode returns does not depend on the size of the read buffer (which decides how the
   stream reaches the decoder: refills of min(buffer size, what the reader still holds)) nor on how much of the stream already
   sits in the buffer.  Same relational proof as Proofs/ApiIndependence.v (C07), now with two configurations that differ in the
   buffer size only: every function of Model/Decoder.v maps related states to related outcomes (same value, related states;
   or errors of the same class, io.EOF and io.ErrUnexpectedEOF being one class -- known finding eof_kind_depends_on_chunking).
   Together with C08_read_n (any chunking reader answers every ReadN with the next n bytes) this is the lifting of the
   reader-level theorem to headers, messages and CRCs. *)
From Coq Require Import NArith ZArith List Lia Bool ZifyN ZifyNat ZifyBool.
Import ListNotations.
From Fit Require Import Model.Api Model.Crc Proofs.IntegrityModel Proofs.ApiIndependence.
Open Scope N_scope.

Section TwoConfigs.
Variables c c' : dcfg.
Hypothesis Hbuf : 765 <= c_bufsize c.
Hypothesis Hbuf' : 765 <= c_bufsize c'.
Hypothesis Hck : c_checksum c' = c_checksum c.
Hypothesis Hex : c_expand c' = c_expand c.


Lemma read_raw_sim s t n : dsim s t -> n <= 765 -> osim (rsimb n) (read_raw c s n) (read_raw c' t n).
Proof.
  intros (R & Cu & Cr & Ts & Lt & Df & Di & Fd & Ac & Fi & Hd & Ms & Bs & Bt & Hk & Sm) Hn.
  destruct (N.le_gt_cases n (len (s_rest s))) as [Hl|Hl].
  - destruct (read_raw_ok c s n Bs Hn Hbuf Hl) as (s' & E & R' & B' & _ & C' & K' & H' & Hs').
    destruct (read_raw_ok c' t n Bt Hn Hbuf' ltac:(rewrite <- R; exact Hl)) as (t' & E2 & R2 & B2 & _ & C2 & K2 & H2 & Ht').
    rewrite E, E2. cbn. split; [cbn; rewrite R; reflexivity|]. cbn [fst snd]. split; [apply bytes_ok_take; exact Hk|]. split; [apply len_take'; exact Hl|].
    destruct Hs' as (A1 & A2 & A3 & A4 & A5 & A6 & A7 & A8 & A9 & A10). destruct Ht' as (B1 & B2' & B3 & B4 & B5 & B6 & B7 & B8 & B9 & B10).
    unfold dsim. rewrite R', R2, C', C2, K', K2, A1, A2, A3, A4, A5, A6, A7, A8, A9, B1, B2', B3, B4, B5, B6, B7, B8, B9, R.
    repeat split; auto; try congruence. apply bytes_ok_drop. rewrite <- R. exact Hk.
  - destruct (read_raw_short c s n Bs Hl) as (e & E & _). destruct (read_raw_short c' t n Bt ltac:(rewrite <- R; exact Hl)) as (e2 & E2 & _).
    rewrite E, E2. cbn. unfold read_raw in E, E2.
    destruct (n <=? s_buf s); [discriminate|]. destruct (n <=? s_buf s + _); [discriminate|]. injection E as <-.
    destruct (n <=? s_buf t); [discriminate|]. destruct (n <=? s_buf t + _); [discriminate|]. injection E2 as <-.
    unfold eclass. destruct (_ =? 0), (_ =? 0); reflexivity.
Qed.

Lemma dsim_upd s t rest buf1 buf2 n1 n2 cur crc : dsim s t -> buf1 <= len rest -> buf2 <= len rest -> bytes_ok rest ->
  dsim (upd_read s rest buf1 n1 cur crc) (upd_read t rest buf2 n2 cur crc).
Proof.
  intros (R & Cu & Cr & Ts & Lt & Df & Di & Fd & Ac & Fi & Hd & Ms & Bs & Bt & Hk & Sm) H1 H2 Hok.
  unfold dsim, bufok. cbn [upd_read s_rest s_buf s_cur s_crc s_ts s_lto s_defs s_devidx s_fdescs s_acc s_fileid s_header s_msgs].
  repeat split; auto.
Qed.

Lemma read_n_sim s t n : dsim s t -> n <= 765 -> osim (rsimb n) (read_n c s n) (read_n c' t n).
Proof.
  intros H Hn. unfold read_n. rewrite ?Hck. eapply osim_bind; [apply read_raw_sim; assumption|].
  intros [b s1] [b' t1] (Hb & Hbo & Hbl & Hs). cbn [fst snd] in Hb, Hbo, Hbl, Hs. subst b'. cbn.
  split; [reflexivity|]. cbn [fst snd]. split; [exact Hbo|]. split; [exact Hbl|].
  pose proof Hs as (R & Cu & Cr & Ts & Lt & Df & Di & Fd & Ac & Fi & Hd & Ms & Bs & Bt & Hk & Sm).
  rewrite Cu, Cr, R. apply dsim_upd; [exact Hs| | |].
  - unfold bufok in Bs. rewrite <- R. exact Bs.
  - exact Bt.
  - rewrite <- R. exact Hk.
Qed.

(* ---------------------------------------------------------------- state updaters respect the relation *)
Ltac dsim_upd_tac := intros (R & Cu & Cr & Ts & Lt & Df & Di & Fd & Ac & Fi & Hd & Ms & Bs & Bt & Hk & Sm); unfold dsim, bufok in *;
  cbn [upd_crc upd_read upd_time upd_defs upd_dev upd_acc upd_fileid upd_header push_msg push_event
       s_rest s_buf s_cur s_crc s_ts s_lto s_defs s_devidx s_fdescs s_acc s_fileid s_header s_msgs]; repeat split; auto; try congruence.
Lemma sim_upd_crc s t x : dsim s t -> dsim (upd_crc s x) (upd_crc t x). Proof. dsim_upd_tac. Qed.
Lemma sim_upd_time s t a b : dsim s t -> dsim (upd_time s a b) (upd_time t a b). Proof. dsim_upd_tac. Qed.
Lemma sim_upd_dev s t a b : dsim s t -> dsim (upd_dev s a b) (upd_dev t a b). Proof. dsim_upd_tac. Qed.
Lemma sim_upd_acc s t a : dsim s t -> dsim (upd_acc s a) (upd_acc t a). Proof. dsim_upd_tac. Qed.
Lemma sim_upd_fileid s t a : dsim s t -> dsim (upd_fileid s a) (upd_fileid t a). Proof. dsim_upd_tac. Qed.
Lemma sim_upd_header s t a : dsim s t -> dsim (upd_header s a) (upd_header t a). Proof. dsim_upd_tac. Qed.
Lemma sim_push_msg s t a : dsim s t -> dsim (push_msg s a) (push_msg t a). Proof. dsim_upd_tac. Qed.
Lemma sim_push_event s t a b : dsim s t -> dsim (push_event s a) (push_event t b). Proof. dsim_upd_tac. Qed.
Lemma sim_upd_defs s t d : dsim s t -> defs_small d -> dsim (upd_defs s d) (upd_defs t d). Proof. intros H Hd'. revert H. dsim_upd_tac. Qed.

Lemma dsim_fields s t : dsim s t -> s_cur s = s_cur t /\ s_crc s = s_crc t /\ s_ts s = s_ts t /\ s_lto s = s_lto t /\ s_defs s = s_defs t
  /\ s_devidx s = s_devidx t /\ s_fdescs s = s_fdescs t /\ s_acc s = s_acc t /\ s_fileid s = s_fileid t /\ s_header s = s_header t /\ s_msgs s = s_msgs t.
Proof. intros (R & Cu & Cr & Ts & Lt & Df & Di & Fd & Ac & Fi & Hd & Ms & _). repeat split; assumption. Qed.

Lemma osim_bind_same {A B B'} (Q : B -> B' -> Prop) (x : outcome A) (f : A -> outcome B) (g : A -> outcome B') :
  (forall a, x = Ok a -> osim Q (f a) (g a)) -> osim Q (bind x f) (bind x g).
Proof. intros Hf. destruct x; cbn; auto. Qed.
Lemma osim_err {A B} (Q : A -> B -> Prop) e : osim Q (Err e) (Err e). Proof. reflexivity. Qed.

Lemma byte_at_small b i x : bytes_ok b -> byte_at b i = Ok x -> x < 256.
Proof.
  unfold byte_at. intros Hb. destruct (nth_opt b i) as [y|] eqn:E; [|discriminate]. intros H. injection H as <-.
  revert i E. induction Hb as [|z l Hz Hl IH]; intros [|i] E; cbn [nth_opt] in E; try discriminate; [injection E as <-; exact Hz|eapply IH; exact E].
Qed.

Ltac same_step := first
  [ apply osim_err
  | match goal with |- osim _ (if ?c then _ else _) (if ?c then _ else _) => destruct c eqn:?; try apply osim_err end
  | match goal with |- osim _ (bind ?x _) (bind ?x _) => apply osim_bind_same; intros ? ? end ].

Tactic Notation "same_bind" ident(x) ident(Hx) := match goal with |- osim _ (bind ?e _) (bind ?e _) => apply osim_bind_same; intros x Hx end.
Ltac same_if := match goal with |- osim _ (if ?c then _ else _) (if ?c then _ else _) => destruct c eqn:?; try apply osim_err end.


Lemma decode_file_header_sim s t : dsim s t -> osim dsim (decode_file_header c s) (decode_file_header c' t).
Proof.
  intros H. unfold decode_file_header. rewrite ?Hck.
  eapply osim_bind; [apply read_raw_sim; [exact H|lia]|].
  intros [b s1] [b' t1] (Hb & Hbo & Hbl & Hs1). cbn [fst snd] in Hb, Hbo, Hbl, Hs1. subst b'. cbv beta iota zeta.
  same_bind hsz Esz. same_if.
  assert (Hsz : hsz < 256) by (eapply byte_at_small; eassumption).
  destruct (dsim_fields _ _ Hs1) as (F1 & F2 & _). rewrite F2.
  eapply osim_bind; [apply read_raw_sim; [apply sim_upd_crc; exact Hs1|lia]|].
  intros [b2 s2] [b2' t2] (Hb2 & Hbo2 & Hbl2 & Hs2). cbn [fst snd] in Hb2, Hbo2, Hbl2, Hs2. subst b2'. cbv beta iota zeta.
  repeat same_step.
  - cbv zeta. destruct (dsim_fields _ _ Hs2) as (G1 & G2 & _).
    cbn [push_event upd_header s_crc]. apply sim_upd_crc, sim_push_event, sim_upd_header. exact Hs2.
  - cbv zeta. destruct (dsim_fields _ _ Hs2) as (G1 & G2 & _). cbn [push_event upd_header s_crc]. rewrite G2.
    same_step. apply sim_upd_crc, sim_push_event, sim_upd_header. exact Hs2.
Qed.

Lemma parse_fdefs_small : forall fuel b fds, bytes_ok b -> parse_fdefs fuel b = Ok fds -> Forall (fun f => fd_size f < 256) fds.
Proof.
  induction fuel as [|fuel IH]; intros b fds Hb H; cbn [parse_fdefs] in H; [injection H as <-; constructor|].
  destruct b as [|num [|size [|base r]]]; try (injection H as <-; constructor).
  destruct (bt_valid base); [|discriminate]. unfold bind in H. destruct (parse_fdefs fuel r) as [rest| | |] eqn:E; try discriminate.
  injection H as <-. inversion Hb as [|? ? _ H1]; subst. inversion H1 as [|? ? Hs H2]; subst. inversion H2 as [|? ? _ H3]; subst.
  constructor; [exact Hs|]. eapply IH; [exact H3|exact E].
Qed.
Lemma parse_ddefs_small : forall fuel b, bytes_ok b -> Forall (fun f => dd_size f < 256) (parse_ddefs fuel b).
Proof.
  induction fuel as [|fuel IH]; intros b Hb; cbn [parse_ddefs]; [constructor|].
  destruct b as [|num [|size [|idx r]]]; try constructor.
  - inversion Hb as [|? ? _ H1]; subst. inversion H1 as [|? ? Hs H2]; subst. exact Hs.
  - apply IH. inversion Hb as [|? ? _ H1]; subst. inversion H1 as [|? ? Hs H2]; subst. inversion H2; assumption.
Qed.
Lemma defs_small_replace defs i d : defs_small defs -> Forall (fun f => fd_size f < 256) (md_fields d) -> Forall (fun f => dd_size f < 256) (md_devs d) ->
  defs_small (replace_nth defs i (Some d)).
Proof.
  unfold defs_small. revert i. induction defs as [|x l IH]; intros i H Hf Hd; destruct i; cbn [replace_nth]; auto.
  - inversion H; subst. constructor; auto.
  - inversion H; subst. constructor; auto.
Qed.

Lemma decode_definition_sim s t header : dsim s t -> osim dsim (decode_definition c s header) (decode_definition c' t header).
Proof.
  intros H. unfold decode_definition.
  eapply osim_bind; [apply read_n_sim; [exact H|lia]|].
  intros [b s1] [b' t1] (Hb & Hbo & Hbl & Hs1). cbn [fst snd] in Hb, Hbo, Hbl, Hs1. subst b'. cbv beta iota zeta.
  same_bind reserved Er0. same_bind arch Ea0. same_bind mn Em0. same_bind n En0.
  assert (Hn : n < 256) by (eapply byte_at_small; eassumption).
  eapply osim_bind; [apply read_n_sim; [exact Hs1|lia]|].
  intros [b2 s2] [b2' t2] (Hb2 & Hbo2 & Hbl2 & Hs2). cbn [fst snd] in Hb2, Hbo2, Hbl2, Hs2. subst b2'. cbv beta iota zeta.
  same_bind fds Efds. pose proof (parse_fdefs_small _ _ _ Hbo2 Efds) as Hfds.
  eapply (osim_bind (fun x y => fst x = fst y /\ Forall (fun f => dd_size f < 256) (fst x) /\ dsim (snd x) (snd y))).
  - destruct (has header DevDataMask).
    + eapply osim_bind; [apply read_n_sim; [exact Hs2|lia]|].
      intros [b3 s3] [b3' t3] (Hb3 & Hbo3 & Hbl3 & Hs3). cbn [fst snd] in Hb3, Hbo3, Hbl3, Hs3. subst b3'. cbv beta iota zeta.
      same_bind m Em1. assert (Hm : m < 256) by (eapply byte_at_small; eassumption).
      eapply osim_bind; [apply read_n_sim; [exact Hs3|lia]|].
      intros [b4 s4] [b4' t4] (Hb4 & Hbo4 & Hbl4 & Hs4). cbn [fst snd] in Hb4, Hbo4, Hbl4, Hs4. subst b4'. cbv beta iota zeta.
      cbn. split; [reflexivity|]. split; [apply parse_ddefs_small; exact Hbo4|exact Hs4].
    + cbn. split; [reflexivity|]. split; [constructor|exact Hs2].
  - intros [dds s5] [dds' t5] (Hd & Hsm & Hs5). cbn [fst snd] in Hd, Hsm, Hs5. subst dds'. cbv beta iota zeta. cbn.
    destruct (dsim_fields _ _ Hs5) as (_ & _ & _ & _ & Fdefs & _). rewrite Fdefs.
    apply sim_push_event, sim_upd_defs; [exact Hs5|]. apply defs_small_replace; [rewrite <- Fdefs; apply Hs5|exact Hfds|exact Hsm].
Qed.

Lemma read_value_sim s t sz arch base ptype arr ovr : dsim s t -> sz < 256 ->
  osim rsim (read_value c s sz arch base ptype arr ovr) (read_value c' t sz arch base ptype arr ovr).
Proof.
  intros H Hsz. unfold read_value.
  eapply osim_bind; [apply read_n_sim; [exact H|lia]|].
  intros [b s1] [b' t1] (Hb & Hbo & Hbl & Hs1). cbn [fst snd] in Hb, Hbo, Hbl, Hs1. subst b'. cbv beta iota zeta.
  same_bind v Ev. cbn. split; [reflexivity|exact Hs1].
Qed.

Definition fsim (x y : list field * dstate) : Prop := fst x = fst y /\ dsim (snd x) (snd y).

Lemma decode_fields_sim arch mesgnum : forall fds s t fs, dsim s t -> Forall (fun f => fd_size f < 256) fds ->
  osim fsim (decode_fields c s arch mesgnum fds fs) (decode_fields c' t arch mesgnum fds fs).
Proof.
  induction fds as [|fd rest IH]; intros s t fs H Hsm; cbn [decode_fields]; rewrite ?Hex; [cbn; split; [reflexivity|exact H]|].
  inversion Hsm as [|? ? Hfd Hrest]; subst.
  same_bind r Er. destruct r as [f ovr]. cbv beta iota zeta.
  same_if; [apply IH; assumption|].
  destruct (if fd_size fd <? bt_size (f_base f) then (bt_uint8, pt_Uint8, true) else (f_base f, fb_ptype (f_fb f), fb_array (f_fb f))) as [[rb rp] ra].
  eapply osim_bind; [apply read_value_sim; [exact H|exact Hfd]|].
  intros [v s1] [v' t1] [Hv Hs1]. cbn [fst snd] in Hv, Hs1. subst v'. cbv beta iota zeta.
  apply IH; [|exact Hrest].
  set (v2 := if negb (rb =? f_base f) then convert_bytes_to_value (slice_u8 v) arch (f_base f) else v).
  assert (Hts : dsim (match v2 with
                      | VNum TU32 t0 => if f_num f =? FieldNumTimestamp then upd_time s1 (fst (clock_full t0)) (snd (clock_full t0)) else s1
                      | _ => s1 end)
                     (match v2 with
                      | VNum TU32 t0 => if f_num f =? FieldNumTimestamp then upd_time t1 (fst (clock_full t0)) (snd (clock_full t0)) else t1
                      | _ => t1 end)).
  { destruct v2 as [|ty x|ty l|sv|ss]; try exact Hs1. destruct ty; try exact Hs1. destruct (f_num f =? FieldNumTimestamp); [apply sim_upd_time|]; exact Hs1. }
  destruct (fb_accum (f_fb f) && c_expand c); [|exact Hts].
  match goal with |- dsim (upd_acc ?a _) (upd_acc ?b _) => destruct (dsim_fields a b Hts) as (_ & _ & _ & _ & _ & _ & _ & Fa & _) end.
  rewrite Fa. apply sim_upd_acc. exact Hts.
Qed.

Definition vsim (x y : list devfield * dstate) : Prop := fst x = fst y /\ dsim (snd x) (snd y).

Lemma decode_dev_fields_sim arch : forall dds s t out, dsim s t -> Forall (fun f => dd_size f < 256) dds ->
  osim vsim (decode_dev_fields c s arch dds out) (decode_dev_fields c' t arch dds out).
Proof.
  induction dds as [|dd rest IH]; intros s t out H Hsm; cbn [decode_dev_fields]; [cbn; split; [reflexivity|exact H]|].
  inversion Hsm as [|? ? Hdd Hrest]; subst.
  destruct (dsim_fields _ _ H) as (_ & _ & _ & _ & _ & _ & Ffd & _). rewrite Ffd.
  destruct (find_fdesc (s_fdescs t) (dd_idx dd) (dd_num dd)) as [fdsc|].
  - same_if. same_bind dv Edv. same_if; [apply IH; assumption|].
    destruct (if dd_size dd <? bt_size (fdx_base fdsc) then (bt_uint8, pt_Uint8, true) else (fdx_base fdsc, N.land (fdx_base fdsc) BaseTypeNumMask, dv)) as [[rb rp] ra].
    eapply osim_bind; [apply read_value_sim; [exact H|exact Hdd]|].
    intros [v s1] [v' t1] [Hv Hs1]. cbn [fst snd] in Hv, Hs1. subst v'. cbv beta iota zeta. apply IH; assumption.
  - eapply osim_bind; [apply read_n_sim; [exact H|lia]|].
    intros [b s1] [b' t1] (Hb & Hbo & Hbl & Hs1). cbn [fst snd] in Hb, Hbo, Hbl, Hs1. cbv beta iota zeta. apply IH; assumption.
Qed.

Lemma decode_data_body_sim s t header d fs0 : dsim s t -> Forall (fun f => fd_size f < 256) (md_fields d) -> Forall (fun f => dd_size f < 256) (md_devs d) ->
  osim dsim (decode_data_body c s header d fs0) (decode_data_body c' t header d fs0).
Proof.
  intros H Hf Hd. unfold decode_data_body. rewrite ?Hex.
  eapply osim_bind; [apply decode_fields_sim; [exact H|exact Hf]|].
  intros [fs s1] [fs' t1] [Hfs Hs1]. cbn [fst snd] in Hfs, Hs1. subst fs'. cbv beta iota zeta. cbn [fst snd].
  (* expansion *)
  set (r2s := if c_expand c then (fst (expand_all (length fs) 0 (md_num d) fs (s_acc s1)), upd_acc s1 (snd (expand_all (length fs) 0 (md_num d) fs (s_acc s1)))) else (fs, s1)).
  set (r2t := if c_expand c then (fst (expand_all (length fs) 0 (md_num d) fs (s_acc t1)), upd_acc t1 (snd (expand_all (length fs) 0 (md_num d) fs (s_acc t1)))) else (fs, t1)).
  assert (H2 : fst r2s = fst r2t /\ dsim (snd r2s) (snd r2t)).
  { unfold r2s, r2t. destruct (dsim_fields _ _ Hs1) as (_ & _ & _ & _ & _ & _ & _ & Fa & _). rewrite Fa.
    destruct (c_expand c); cbn [fst snd]; split; try reflexivity; [apply sim_upd_acc|]; exact Hs1. }
  destruct H2 as [E2 S2]. rewrite E2. set (fs2 := fst r2t) in *. clearbody r2s r2t fs2.
  (* file id *)
  set (s3 := match s_fileid (snd r2s) with None => if md_num d =? mesgnum_FileId then upd_fileid (snd r2s) (Some (mkmsg header (md_num d) fs2 [])) else snd r2s | Some _ => snd r2s end).
  set (t3 := match s_fileid (snd r2t) with None => if md_num d =? mesgnum_FileId then upd_fileid (snd r2t) (Some (mkmsg header (md_num d) fs2 [])) else snd r2t | Some _ => snd r2t end).
  assert (S3 : dsim s3 t3).
  { unfold s3, t3. destruct (dsim_fields _ _ S2) as (_ & _ & _ & _ & _ & _ & _ & _ & Ffi & _). rewrite Ffi.
    destruct (s_fileid (snd r2t)); [exact S2|]. destruct (md_num d =? mesgnum_FileId); [apply sim_upd_fileid|]; exact S2. }
  clearbody s3 t3.
  (* developer tables *)
  set (s4 := if md_num d =? mesgnum_DeveloperDataId then upd_dev s3 (s_devidx s3 ++ [u8_of (field_value_by_num fs2 fn_DeveloperDataId_DeveloperDataIndex)]) (s_fdescs s3)
             else if md_num d =? mesgnum_FieldDescription then upd_dev s3 (s_devidx s3) (s_fdescs s3 ++ [new_field_description fs2]) else s3).
  set (t4 := if md_num d =? mesgnum_DeveloperDataId then upd_dev t3 (s_devidx t3 ++ [u8_of (field_value_by_num fs2 fn_DeveloperDataId_DeveloperDataIndex)]) (s_fdescs t3)
             else if md_num d =? mesgnum_FieldDescription then upd_dev t3 (s_devidx t3) (s_fdescs t3 ++ [new_field_description fs2]) else t3).
  assert (S4 : dsim s4 t4).
  { unfold s4, t4. destruct (dsim_fields _ _ S3) as (_ & _ & _ & _ & _ & Fdi & Ffd & _). rewrite Fdi, Ffd.
    destruct (md_num d =? mesgnum_DeveloperDataId); [apply sim_upd_dev; exact S3|]. destruct (md_num d =? mesgnum_FieldDescription); [apply sim_upd_dev|]; exact S3. }
  clearbody s4 t4.
  eapply (osim_bind vsim).
  - destruct (md_devs d) as [|d0 ds] eqn:Ed; [cbn; split; [reflexivity|exact S4]|]. apply decode_dev_fields_sim; [exact S4|exact Hd].
  - intros [dv s5] [dv' t5] [Hdv Hs5]. cbn [fst snd] in Hdv, Hs5. subst dv'. cbn. apply sim_push_msg. exact Hs5.
Qed.

Lemma defs_small_nth defs i d : defs_small defs -> nth i defs None = Some d ->
  Forall (fun f => fd_size f < 256) (md_fields d) /\ Forall (fun f => dd_size f < 256) (md_devs d).
Proof.
  unfold defs_small. intros H E. destruct (Nat.lt_ge_cases i (length defs)) as [Hi|Hi].
  - rewrite Forall_forall in H. specialize (H (nth i defs None) (nth_In _ _ Hi)). rewrite E in H. exact H.
  - rewrite nth_overflow in E by exact Hi. discriminate.
Qed.

Lemma decode_data_sim s t header : dsim s t -> osim dsim (decode_data c s header) (decode_data c' t header).
Proof.
  intros H. unfold decode_data. cbv zeta.
  destruct (dsim_fields _ _ H) as (_ & _ & Fts & Flt & Fdf & _). rewrite Fdf, Fts, Flt.
  destruct (nth _ (s_defs t) None) as [d|] eqn:En; [|apply osim_err].
  assert (Hsm : defs_small (s_defs t)) by (rewrite <- Fdf; apply H).
  destruct (defs_small_nth _ _ _ Hsm En) as [Hf Hd].
  destruct (has header MesgCompressedHeaderMask).
  - apply decode_data_body_sim; [apply sim_upd_time; exact H|exact Hf|exact Hd].
  - apply decode_data_body_sim; assumption.
Qed.

Lemma decode_message_sim s t : dsim s t -> osim dsim (decode_message c s) (decode_message c' t).
Proof.
  intros H. unfold decode_message.
  eapply osim_bind; [apply read_n_sim; [exact H|lia]|].
  intros [b s1] [b' t1] (Hb & Hbo & Hbl & Hs1). cbn [fst snd] in Hb, Hbo, Hbl, Hs1. subst b'. cbv beta iota zeta.
  same_bind header Eh. same_if; [apply decode_definition_sim|apply decode_data_sim]; exact Hs1.
Qed.

Lemma decode_messages_sim : forall fuel s t, dsim s t -> osim dsim (decode_messages fuel c s) (decode_messages fuel c' t).
Proof.
  induction fuel as [|fuel IH]; intros s t H; cbn [decode_messages];
    destruct (dsim_fields _ _ H) as (Fcu & _ & _ & _ & _ & _ & _ & _ & _ & Fhd & _); rewrite Fcu, Fhd.
  - destruct (_ <=? _); cbn; [exact H|exact I].
  - destruct (_ <=? _); [cbn; exact H|]. eapply osim_bind; [apply decode_message_sim; exact H|]. intros a b Hab. apply IH. exact Hab.
Qed.

Definition csim (x y : N * dstate) : Prop := fst x = fst y /\ dsim (snd x) (snd y).
Lemma decode_crc_sim s t : dsim s t -> osim csim (decode_crc c s) (decode_crc c' t).
Proof.
  intros H. unfold decode_crc. rewrite ?Hck.
  eapply osim_bind; [apply read_raw_sim; [exact H|lia]|].
  intros [b s1] [b' t1] (Hb & Hbo & Hbl & Hs1). cbn [fst snd] in Hb, Hbo, Hbl, Hs1. subst b'. cbv beta iota zeta.
  destruct (dsim_fields _ _ Hs1) as (_ & Fcr & _). rewrite Fcr. same_if.
  cbn. split; [reflexivity|]. apply sim_push_event, sim_upd_crc. exact Hs1.
Qed.

(* one whole sequence *)
Definition qsim (x y : fit * dstate) : Prop := fst x = fst y /\ dsim (snd x) (snd y).
Lemma decode_seq_sim s t : dsim s t -> osim qsim (ApiIndependence.decode_seq c s) (ApiIndependence.decode_seq c' t).
Proof.
  intros H. unfold ApiIndependence.decode_seq.
  eapply osim_bind; [apply decode_file_header_sim; exact H|]. intros s1 t1 H1.
  assert (Hr : s_rest s1 = s_rest t1) by apply H1. rewrite Hr.
  eapply osim_bind; [apply decode_messages_sim; exact H1|]. intros s2 t2 H2.
  eapply osim_bind; [apply decode_crc_sim; exact H2|]. intros [crc s3] [crc' t3] [Hc H3]. cbn [fst snd] in Hc, H3. subst crc'.
  cbn. destruct (dsim_fields _ _ H3) as (_ & _ & _ & _ & _ & _ & _ & _ & _ & Fh & Fm). rewrite Fh, Fm. split; [reflexivity|exact H3].
Qed.
End TwoConfigs.

(* two decoder objects whose option sets differ in the read-buffer size only, at a sequence boundary over the same remaining stream
   (however much of it each has already buffered): Decode returns the same FIT and leaves them related again, or errors of one class *)
Theorem decode_is_buffer_independent a b : a_err a = None -> a_err b = None -> a_once a = false -> a_once b = false ->
  c_checksum (a_cfg b) = c_checksum (a_cfg a) -> c_expand (a_cfg b) = c_expand (a_cfg a) ->
  765 <= c_bufsize (a_cfg a) -> 765 <= c_bufsize (a_cfg b) -> dsim (a_s a) (a_s b) ->
  match snd (api_step a ADecode), snd (api_step b ADecode) with
  | RFit f, RFit g => f = g /\ dsim (a_s (fst (api_step a ADecode))) (a_s (fst (api_step b ADecode)))
  | r1, r2 => res_class r1 = res_class r2 /\ (forall f, r1 <> RFit f) /\ (forall f, r2 <> RFit f)
  end.
Proof.
  intros Ea Eb Oa Ob Hck Hex Hbuf Hbuf' Hs.
  pose proof (api_decode_is_seq a Ea Oa) as Ha. pose proof (api_decode_is_seq b Eb Ob) as Hb.
  pose proof (decode_seq_sim (a_cfg a) (a_cfg b) Hbuf Hbuf' Hck Hex _ _ Hs) as Hsim.
  destruct (decode_seq (a_cfg a) (a_s a)) as [[f s3]|e|p|], (decode_seq (a_cfg b) (a_s b)) as [[g t3]|e'|p'|]; cbn in Hsim; try contradiction.
  - destruct Hsim as [Hf H3]. cbn [fst snd] in Hf, H3. subst g. rewrite Ha, Hb. cbn [fst snd a_s]. split; [reflexivity|apply dsim_reset_release; exact H3].
  - rewrite Ha, Hb. split; [cbn; rewrite Hsim; reflexivity|split; discriminate].
  - destruct (snd (api_step a ADecode)), (snd (api_step b ADecode)); cbn in Ha, Hb; try discriminate; (split; [reflexivity|split; discriminate]).
  - destruct (snd (api_step a ADecode)), (snd (api_step b ADecode)); cbn in Ha, Hb; try discriminate; (split; [reflexivity|split; discriminate]).
Qed.

(* fresh decoders over the same bytes with any two buffer sizes *)
Corollary fresh_decoders_agree ck ex k1 k2 bs : 765 <= k1 -> 765 <= k2 -> bytes_ok bs ->
  match snd (api_step (api_new (mkcfg ck ex k1) bs) ADecode), snd (api_step (api_new (mkcfg ck ex k2) bs) ADecode) with
  | RFit f, RFit g => f = g
  | r1, r2 => res_class r1 = res_class r2 /\ (forall f, r1 <> RFit f) /\ (forall f, r2 <> RFit f)
  end.
Proof.
  intros H1 H2 Hok.
  assert (Hs : dsim (a_s (api_new (mkcfg ck ex k1) bs)) (a_s (api_new (mkcfg ck ex k2) bs))).
  { unfold dsim, api_new, init_state, bufok. cbn [a_s s_rest s_buf s_cur s_crc s_ts s_lto s_defs s_devidx s_fdescs s_acc s_fileid s_header s_msgs].
    repeat split; auto; try lia. unfold defs_small, no_defs. apply Forall_forall. intros x Hx. apply repeat_spec in Hx. subst x. exact I. }
  pose proof (decode_is_buffer_independent (api_new (mkcfg ck ex k1) bs) (api_new (mkcfg ck ex k2) bs) eq_refl eq_refl eq_refl eq_refl eq_refl eq_refl H1 H2 Hs) as H.
  destruct (snd (api_step (api_new (mkcfg ck ex k1) bs) ADecode)), (snd (api_step (api_new (mkcfg ck ex k2) bs) ADecode)); try exact H. apply H.
Qed.

(* the decoder model's read layer meets the same specification as readBuffer.ReadN over an arbitrary chunking reader
   (ReadBufProofs.read_n_spec): the next n bytes of the stream, or an end-of-stream error iff fewer remain *)
Theorem read_raw_is_stream_read c s n : bufok s -> n <= 765 -> 765 <= c_bufsize c ->
  match read_raw c s n with
  | Ok (b, s') => n <= len (s_rest s) /\ b = take n (s_rest s) /\ s_rest s' = drop n (s_rest s) /\ bufok s'
  | Err e => len (s_rest s) < n /\ (e = E_EOF \/ e = E_UnexpectedEOF)
  | _ => False
  end.
Proof.
  intros Hb Hn Hc. destruct (N.le_gt_cases n (len (s_rest s))) as [Hle | Hgt].
  - destruct (read_raw_ok c s n Hb Hn Hc Hle) as (s' & E & R & B & _). rewrite E. repeat split; assumption.
  - unfold read_raw, bufok in *.
    replace (n <=? s_buf s) with false by (symmetry; apply N.leb_gt; lia).
    replace (n <=? s_buf s + N.min (len (s_rest s) - s_buf s) (c_bufsize c)) with false by (symmetry; apply N.leb_gt; lia).
    split; [exact Hgt|]. destruct (N.min (len (s_rest s) - s_buf s) (c_bufsize c) =? 0); [left|right]; reflexivity.
Qed.
