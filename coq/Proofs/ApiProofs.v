(* C07: at every sequence boundary (after a completed Decode, a completed Discard, any CheckIntegrity, any Reset) every
   per-sequence component of the decoder object is in its initial state, so what the next operation does can only depend
   on the remaining stream, the buffer fill and the options. *)
From Coq Require Import NArith ZArith List Lia Bool.
Import ListNotations.
From Fit Require Import Model.Api.
Open Scope N_scope.

Definition seq_initial (s : dstate) : Prop :=
  s_cur s = 0 /\ s_crc s = 0 /\ s_ts s = 0 /\ s_lto s = 0 /\ s_defs s = no_defs /\ s_devidx s = [] /\ s_fdescs s = []
  /\ s_acc s = [] /\ s_fileid s = None /\ s_header s = zero_header /\ s_msgs s = [].
Definition boundary (a : api) : Prop := a_err a = None /\ a_once a = false /\ seq_initial (a_s a).

(* the translated facts about the source this proof rests on *)
Definition source_resets_everything : Prop :=
  reset_clears_definitions = true /\ reset_clears_developer_tables = true.

Lemma reset_state_initial s : source_resets_everything -> seq_initial (reset_state s).
Proof. intros [H1 H2]. unfold reset_state, seq_initial. rewrite H1, H2. cbn. repeat split. Qed.

Lemma seq_initial_upd_read s rest buf n : seq_initial s -> seq_initial (upd_read s rest buf n (s_cur s) (s_crc s)).
Proof. unfold seq_initial, upd_read. cbn. tauto. Qed.

Ltac break_match :=
  repeat match goal with
  | H : context[match ?x with _ => _ end] |- _ => destruct x eqn:?; try discriminate
  | H : (_, _) = (_, _) |- _ => inversion H; subst; clear H
  end.

Theorem decode_ends_at_boundary a a' f : source_resets_everything -> api_step a ADecode = (a', RFit f) -> boundary a'.
Proof.
  intros Hsrc H. unfold api_step in H. break_match.
  all: try match goal with H : _ = RFit _ |- _ => discriminate H end.
  all: unfold boundary; cbn [a_err a_once a_s]; repeat split; try apply reset_state_initial; try exact Hsrc.
  all: try (destruct (reset_state_initial (release_state d) Hsrc) as (?&?&?&?&?&?&?&?&?&?&?); assumption).
Qed.

Theorem discard_ends_at_boundary a a' : source_resets_everything -> api_step a ADiscard = (a', RUnit) -> boundary a'.
Proof.
  intros Hsrc H. unfold api_step in H. break_match.
  all: try match goal with H : _ = RUnit |- _ => discriminate H end.
  all: unfold boundary; cbn [a_err a_once a_s]; repeat split; try apply reset_state_initial; try exact Hsrc.
  all: try (match goal with |- context[reset_state ?d] => destruct (reset_state_initial d Hsrc) as (?&?&?&?&?&?&?&?&?&?&?); assumption end).
Qed.

Theorem reset_ends_at_boundary a bs c a' r : source_resets_everything -> api_step a (AReset bs c) = (a', r) -> boundary a'.
Proof.
  intros Hsrc H. unfold api_step in H. injection H as <- _.
  destruct (reset_state_initial (a_s a) Hsrc) as (?&?&?&?&?&?&?&?&?&?&?).
  unfold boundary, seq_initial. cbn. repeat split; assumption.
Qed.

Theorem integrity_ends_at_boundary a a' n e : source_resets_everything -> a_err a = None ->
  api_step a ACheckIntegrity = (a', RIntegrity n e) -> boundary a'.
Proof.
  intros Hsrc Herr H. unfold api_step in H. rewrite Herr in H.
  destruct (integrity_loop _ _ _ _) as [[[a1 seq] err] fuel_ok].
  destruct (negb fuel_ok); [discriminate|]. injection H as <- _ _.
  unfold boundary. cbn [a_err a_once a_s]. split; [reflexivity|]. split; [reflexivity|].
  pose proof (reset_state_initial (a_s a1) Hsrc) as Hi.
  destruct integrity_drops_buffer.
  - apply seq_initial_upd_read with (s := set_n (reset_state (a_s a1)) 0). unfold set_n. apply seq_initial_upd_read. exact Hi.
  - unfold set_n. apply seq_initial_upd_read. exact Hi.
Qed.

(* a boundary state is determined by the remaining stream, the buffer fill, the byte counter and the event log *)
Theorem boundary_state_canonical a : boundary a ->
  a_s a = mkst (s_rest (a_s a)) (s_buf (a_s a)) (s_n (a_s a)) 0 0 0 0 no_defs [] [] [] None zero_header [] (s_events (a_s a)).
Proof.
  intros (_ & _ & (H1&H2&H3&H4&H5&H6&H7&H8&H9&H10&H11)). destruct (a_s a); cbn in *. subst. reflexivity.
Qed.

(* sticky errors (C03): once an entry point has failed, every entry point keeps returning that error until Reset *)
Theorem error_is_sticky a e o : a_err a = Some e -> (forall bs c, o <> AReset bs c) -> o <> ASeekStart ->
  fst (api_step a o) = a /\ (snd (api_step a o) = RErr e \/ snd (api_step a o) = RBool false \/ snd (api_step a o) = RIntegrity 0 (Some e)).
Proof.
  intros He Hr Hs. unfold api_step. rewrite He.
  destruct o; cbn; auto; try (exfalso; eapply Hr; reflexivity); try (exfalso; apply Hs; reflexivity).
Qed.

(* Reset onto a new reader and option set leaves exactly a new decoder -- byte counter, buffer, tables, clock, accumulators,
   error and header-once flag -- so every entry point behaves after Reset as on a decoder that was never used.  Rests on what
   the source's reset() and Reset() clear (gen/DecoderReset.v) *)
Theorem reset_is_new a bs c : source_resets_everything -> public_reset_clears_n = true ->
  fst (api_step a (AReset bs c)) = api_new c bs.
Proof.
  intros [H1 H2] H3. cbn [api_step fst]. unfold api_new, init_state, reset_state. rewrite H1, H2, H3. reflexivity.
Qed.

(* PeekFileId never leaves the decoder beyond the end of the sequence it peeks into: every message it decodes ends within the
   declared data size, or the call fails (and the error sticks) -- so a Discard after it ends exactly at the sequence's end *)
Lemma until_file_id_inside c : peekfileid_checks_overrun = true -> forall fuel s s',
  until_file_id fuel c s = Ok s' -> s' = s \/ s_cur s' <= h_datasize (s_header s').
Proof.
  intros Hflag. induction fuel as [|f IH]; intros s s'; cbn [until_file_id].
  - destruct (s_fileid s); [intros H; injection H as <-; left; reflexivity|].
    destruct (peekfileid_bounded && _); discriminate.
  - destruct (s_fileid s); [intros H; injection H as <-; left; reflexivity|].
    destruct (peekfileid_bounded && _); [discriminate|].
    unfold bind. destruct (decode_message c s) as [s1| | |]; try discriminate.
    rewrite Hflag. cbn [andb]. destruct (N.ltb_spec (h_datasize (s_header s1)) (s_cur s1)) as [Hlt | Hge]; [discriminate|].
    intros H. destruct (IH s1 s' H) as [-> | Hin]; right; [exact Hge|exact Hin].
Qed.
