(* C17 -- soundness of the boolean sweeps of Model/ProfileCheck.v: each [..._b t = true] gives the quantified statement. *)
From Coq Require Import NArith ZArith String Ascii List Bool Lia.
Import ListNotations.
From Fit Require Import Model.Profile Model.ProfileRows Model.ProfileCheck.
Open Scope N_scope.

(* ------------------------------------------------------------------ generic *)
Lemma opt_N_eqb_eq : forall a b, opt_N_eqb a b = true -> a = b.
Proof.
  intros [x|] [y|] H; cbn in H; try discriminate; [|reflexivity].
  apply N.eqb_eq in H. now subst.
Qed.

Lemma opt_N_eqb_refl : forall a, opt_N_eqb a a = true.
Proof. intros [x|]; cbn; [apply N.eqb_refl|reflexivity]. Qed.

Lemma mem_str_In : forall x l, mem_str x l = true <-> In x l.
Proof.
  intros x l; induction l as [|y r IH]; cbn.
  - split; [discriminate|tauto].
  - destruct (String.eqb x y) eqn:E.
    + apply String.eqb_eq in E. subst. split; auto.
    + apply String.eqb_neq in E. rewrite IH. split; [auto|].
      intros [H|H]; [congruence|assumption].
Qed.

Lemma nodup_str_NoDup : forall l, nodup_str l = true -> NoDup l.
Proof.
  induction l as [|x r IH]; cbn; intro H; [constructor|].
  destruct (mem_str x r) eqn:E; [discriminate|].
  constructor; [|auto].
  intro Hin. apply mem_str_In in Hin. congruence.
Qed.

Lemma subset_str_sound : forall a b, subset_str a b = true -> forall x, In x a -> In x b.
Proof.
  induction a as [|y r IH]; cbn; intros b H x Hin; [tauto|].
  destruct (mem_str y b) eqn:E; [|discriminate].
  destruct Hin as [->|Hin]; [now apply mem_str_In|eauto].
Qed.

Lemma same_set_str_sound : forall a b, same_set_str a b = true -> forall x, In x a <-> In x b.
Proof.
  unfold same_set_str. intros a b H x. apply andb_true_iff in H as [H1 H2].
  split; eauto using subset_str_sound.
Qed.

Lemma list_eqb_eq : forall {A} (eqb : A -> A -> bool), (forall x y, eqb x y = true -> x = y) ->
  forall a b, list_eqb eqb a b = true -> a = b.
Proof.
  intros A eqb Heq. induction a as [|x a IH]; intros [|y b] H; cbn in H; try discriminate; [reflexivity|].
  apply andb_true_iff in H as [H1 H2]. f_equal; auto.
Qed.

Lemma list_eqb_refl : forall {A} (eqb : A -> A -> bool), (forall x, eqb x x = true) -> forall a, list_eqb eqb a a = true.
Proof. intros A eqb Hr. induction a as [|x a IH]; cbn; [reflexivity|]. now rewrite Hr, IH. Qed.

Lemma list_eqb_neq : forall {A} (eqb : A -> A -> bool), (forall x, eqb x x = true) ->
  forall a b, list_eqb eqb a b = false -> a <> b.
Proof. intros A eqb Hr a b H Heq. subst. rewrite (list_eqb_refl eqb Hr) in H. discriminate. Qed.

Lemma sv_eqb_eq : forall a b, sv_eqb a b = true -> a = b.
Proof.
  intros [s v] [s' v'] H. unfold sv_eqb in H. cbn in H. apply andb_true_iff in H as [H1 H2].
  apply String.eqb_eq in H1. apply opt_N_eqb_eq in H2. now subst.
Qed.

Lemma str_pair_eqb_refl : forall a, str_pair_eqb a a = true.
Proof. intros [a b]. unfold str_pair_eqb. cbn. now rewrite !String.eqb_refl. Qed.

Lemma nameentry_eqb_refl : forall e, nameentry_eqb e e = true.
Proof.
  intros [[[[m f] n] u] s]. cbn. rewrite !N.eqb_refl, !String.eqb_refl. cbn.
  apply list_eqb_refl. apply str_pair_eqb_refl.
Qed.

(* ------------------------------------------------------------------ boolean table equality is equality *)
Ltac eqb_solve :=
  repeat match goal with
  | H : (_ && _)%bool = true |- _ => apply andb_true_iff in H as [? ?]
  | H : N.eqb _ _ = true |- _ => apply N.eqb_eq in H
  | H : Z.eqb _ _ = true |- _ => apply Z.eqb_eq in H
  | H : Bool.eqb _ _ = true |- _ => apply Bool.eqb_prop in H
  | H : String.eqb _ _ = true |- _ => apply String.eqb_eq in H
  end.

Lemma comp_eqb_eq : forall a b, comp_eqb a b = true -> a = b.
Proof. intros [] [] H. unfold comp_eqb in H. cbn in H. eqb_solve. subst. reflexivity. Qed.

Lemma map_eqb_eq : forall a b : N * Z, map_eqb a b = true -> a = b.
Proof. intros [] [] H. unfold map_eqb in H. cbn in H. eqb_solve. subst. reflexivity. Qed.

Lemma subf_eqb_eq : forall a b, subf_eqb a b = true -> a = b.
Proof.
  intros [] [] H. unfold subf_eqb in H. cbn in H. eqb_solve. subst.
  f_equal; [eapply list_eqb_eq; [apply map_eqb_eq|eassumption] | eapply list_eqb_eq; [apply comp_eqb_eq|eassumption]].
Qed.

Lemma fieldbase_eqb_eq : forall a b, fieldbase_eqb a b = true -> a = b.
Proof.
  intros [] [] H. unfold fieldbase_eqb in H. cbn in H. eqb_solve. subst.
  f_equal; [eapply list_eqb_eq; [apply comp_eqb_eq|eassumption] | eapply list_eqb_eq; [apply subf_eqb_eq|eassumption]].
Qed.

Lemma mesg_entry_eqb_eq : forall a b, mesg_entry_eqb a b = true -> a = b.
Proof.
  intros [] [] H. unfold mesg_entry_eqb in H. cbn in H. eqb_solve. subst.
  f_equal. eapply list_eqb_eq; [apply fieldbase_eqb_eq|eassumption].
Qed.

Theorem opt_table_eqb_eq : forall a b, opt_table_eqb a b = true -> a = Some b.
Proof.
  intros [t|] b H; [|discriminate]. cbn in H. f_equal.
  eapply list_eqb_eq; [apply mesg_entry_eqb_eq|eassumption].
Qed.

Lemma str_pair_eqb_eq : forall a b, str_pair_eqb a b = true -> a = b.
Proof. intros [] [] H. unfold str_pair_eqb in H. cbn in H. eqb_solve. subst. reflexivity. Qed.

Lemma nameentry_eqb_eq : forall a b, nameentry_eqb a b = true -> a = b.
Proof.
  intros [[[[m f] n] u] s] [[[[m' f'] n'] u'] s'] H. cbn in H. eqb_solve. subst.
  f_equal. eapply list_eqb_eq; [apply str_pair_eqb_eq|eassumption].
Qed.

Theorem names_eqb_eq : forall a b, names_eqb a b = true -> a = b.
Proof. intros a b H. eapply list_eqb_eq; [apply nameentry_eqb_eq|exact H]. Qed.

(* ------------------------------------------------------------------ the factory table as a function *)
Lemma find_mesg_In : forall t m fs, find_mesg t m = Some fs -> In (m, fs) t.
Proof.
  induction t as [|[n gs] r IH]; cbn; intros m fs H; [discriminate|].
  destruct (N.eqb n m) eqn:E.
  - apply N.eqb_eq in E. injection H as <-. subst. now left.
  - right. auto.
Qed.

Lemma find_field_In : forall fs n fb, find_field fs n = Some fb -> In fb fs /\ fb_num fb = n.
Proof.
  induction fs as [|g r IH]; cbn; intros n fb H; [discriminate|].
  destruct (N.eqb (fb_num g) n) eqn:E.
  - apply N.eqb_eq in E. injection H as <-. auto.
  - destruct (IH _ _ H). auto.
Qed.

Lemma lookup_inv : forall t m f fb, lookup t m f = Some fb ->
  exists fs, find_mesg t m = Some fs /\ In (m, fs) t /\ In fb fs /\ fb_num fb = f.
Proof.
  unfold lookup. intros t m f fb H. destruct (find_mesg t m) as [fs|] eqn:E; [|discriminate].
  exists fs. destruct (find_field_In _ _ _ H). auto using find_mesg_In.
Qed.

Lemma resolves_lookup : forall t m fs n, find_mesg t m = Some fs -> resolves fs n = true -> exists fb, lookup t m n = Some fb.
Proof.
  unfold resolves, lookup. intros t m fs n E H. rewrite E. destruct (find_field fs n) as [fb|]; [eauto|discriminate].
Qed.

(* (b) every component destination and every sub-field reference is a field of the same message *)
Theorem refs_resolve_sound : forall t, refs_resolve_b t = true ->
  forall m f fb, lookup t m f = Some fb ->
    (forall c, In c (fb_comps fb) -> exists fb', lookup t m (c_num c) = Some fb') /\
    (forall s, In s (fb_subs fb) ->
       (forall mp, In mp (s_maps s) -> exists fb', lookup t m (fst mp) = Some fb') /\
       (forall c, In c (s_comps s) -> exists fb', lookup t m (c_num c) = Some fb')).
Proof.
  intros t Hb m f fb Hl.
  destruct (lookup_inv _ _ _ _ Hl) as (fs & Hfm & Hin & Hfb & _).
  unfold refs_resolve_b in Hb. rewrite forallb_forall in Hb. specialize (Hb _ Hin). cbn in Hb.
  rewrite forallb_forall in Hb. specialize (Hb _ Hfb). unfold field_refs_ok in Hb.
  apply andb_true_iff in Hb as [Hc Hs]. rewrite forallb_forall in Hc, Hs.
  split.
  - intros c Hc'. eapply resolves_lookup; eauto.
  - intros s Hs'. specialize (Hs _ Hs'). apply andb_true_iff in Hs as [Hm Hsc].
    rewrite forallb_forall in Hm, Hsc. split; intros x Hx; eapply resolves_lookup; eauto.
Qed.

(* (c) component widths *)
Lemma comps_fit_sound : forall cap cs, comps_fit cap cs = true -> Forall (fun c => c_bits c <= 32) cs /\ sum_bits cs <= cap.
Proof.
  unfold comps_fit. intros cap cs H. apply andb_true_iff in H as [H1 H2]. rewrite forallb_forall in H1.
  split; [|now apply N.leb_le].
  apply Forall_forall. intros c Hc. apply N.leb_le. auto.
Qed.

Theorem bits_fit_sound : forall sizes t, bits_fit_b sizes t = true ->
  forall m f fb, lookup t m f = Some fb ->
    exists cap, capacity sizes fb = Some cap /\
      Forall (fun c => c_bits c <= 32) (fb_comps fb) /\ sum_bits (fb_comps fb) <= cap /\
      (forall s, In s (fb_subs fb) -> Forall (fun c => c_bits c <= 32) (s_comps s) /\ sum_bits (s_comps s) <= cap).
Proof.
  intros sizes t Hb m f fb Hl.
  destruct (lookup_inv _ _ _ _ Hl) as (fs & _ & Hin & Hfb & _).
  unfold bits_fit_b in Hb. rewrite forallb_forall in Hb. specialize (Hb _ Hin). cbn in Hb.
  rewrite forallb_forall in Hb. specialize (Hb _ Hfb). unfold field_bits_ok in Hb.
  destruct (capacity sizes fb) as [cap|]; [|discriminate]. exists cap. split; [reflexivity|].
  apply andb_true_iff in Hb as [Hc Hs]. destruct (comps_fit_sound _ _ Hc) as [H1 H2].
  split; [assumption|]. split; [assumption|].
  rewrite forallb_forall in Hs. intros s Hin'. apply comps_fit_sound. auto.
Qed.

(* ------------------------------------------------------------------ (a) typedef *)
Record typedef_good (td : typedef) : Prop := {
  tg_roundtrip : forall c, In c (td_list td) ->
      exists v s, const_value td c = Some v /\ to_string td v = Some s /\ from_string td s = Some v;
  tg_names_unique : NoDup (map snd (td_str td)) /\ NoDup (map fst (td_from td));
  tg_listed_unique : NoDup (td_list td);
  tg_listed_named : forall c, In c (td_list td) <-> In c (map fst (td_str td));
  tg_from_listed : forall c, In c (map snd (td_from td)) -> In c (td_list td);
  tg_invalid_not_listed : ~ In (td_from_default td) (td_list td)
}.

Lemma roundtrip_in_sound : forall sv fv d c, roundtrip_in sv fv d c = true ->
  exists v s, c = Some v /\ to_string_in sv v = Some s /\ from_string_in fv d s = Some v.
Proof.
  unfold roundtrip_in. intros sv fv d [v|] H; [|discriminate].
  destruct (to_string_in sv v) as [s|] eqn:E; [|discriminate].
  exists v, s. split; [reflexivity|]. split; [exact E|]. now apply opt_N_eqb_eq.
Qed.

Theorem typedef_ok_sound : forall td, typedef_ok td = true -> typedef_good td.
Proof.
  intros td H. unfold typedef_ok in H.
  repeat (apply andb_true_iff in H as [H ?H]).
  constructor.
  - intros c Hc. unfold roundtrip_all in H. cbv zeta in H. rewrite forallb_forall in H.
    destruct (roundtrip_in_sound _ _ _ _ (H _ Hc)) as (v & s & Hv & Hs & Hf).
    exists v, s. unfold to_string, from_string. auto.
  - split; auto using nodup_str_NoDup.
  - auto using nodup_str_NoDup.
  - now apply same_set_str_sound.
  - now apply subset_str_sound.
  - destruct (invalid_const td) as [[c v]|]; [|discriminate].
    match goal with Hx : (String.eqb c _ && _)%bool = true |- _ => apply andb_true_iff in Hx as [Hx1 Hx2] end.
    apply String.eqb_eq in Hx1. subst c. intro Hin.
    apply negb_true_iff in Hx2. apply not_true_iff_false in Hx2. apply Hx2.
    apply existsb_exists. exists (td_from_default td). split; [assumption|apply String.eqb_refl].
Qed.

Theorem typedefs_ok_sound : forall tds, typedefs_ok_b tds = true ->
  (forall td, In td tds -> typedef_good td) /\ NoDup (map td_name tds).
Proof.
  unfold typedefs_ok_b. intros tds H. apply andb_true_iff in H as [H1 H2]. rewrite forallb_forall in H1.
  split; [|now apply nodup_str_NoDup].
  intros td Hin. apply typedef_ok_sound. auto.
Qed.

(* typedef against the sheet *)
Lemma find_typedef_In : forall tds sq td, find_typedef tds sq = Some td -> In td tds /\ squash (td_name td) = sq.
Proof.
  induction tds as [|t r IH]; cbn; intros sq td H; [discriminate|].
  destruct (String.eqb (squash (td_name t)) sq) eqn:E.
  - apply String.eqb_eq in E. injection H as <-. auto.
  - destruct (IH _ _ H). auto.
Qed.

Theorem typedefs_match_sheet_sound : forall ts tds, typedefs_match_sheet_b ts tds = true ->
  (forall t, In t ts -> pt_name t <> fit_base_type_name ->
     exists td, In td tds /\ squash (td_name td) = squash (pt_name t) /\ kept_values t = typedef_values td /\
                exists c v, invalid_const td = Some (c, v) /\ invalid_of_base (pt_base t) = Some v)
  /\ List.length (generated_types ts) = List.length tds.
Proof.
  unfold typedefs_match_sheet_b. intros ts tds H.
  apply andb_true_iff in H as [H H3]. apply andb_true_iff in H as [H1 H2].
  split; [|now apply Nat.eqb_eq].
  rewrite forallb_forall in H1. intros t Hin Hne.
  assert (Hg : In t (generated_types ts)).
  { unfold generated_types. apply filter_In. split; [assumption|]. apply negb_true_iff. now apply String.eqb_neq. }
  specialize (H1 _ Hg). unfold type_matches_typedef in H1.
  destruct (find_typedef tds (squash (pt_name t))) as [td|] eqn:E; [|discriminate].
  destruct (find_typedef_In _ _ _ E) as [Htd Hsq].
  apply andb_true_iff in H1 as [Hv Hi].
  exists td. split; [assumption|]. split; [assumption|]. split; [apply (list_eqb_eq sv_eqb sv_eqb_eq); assumption|].
  destruct (invalid_const td) as [[c v]|]; [|discriminate].
  destruct (invalid_of_base (pt_base t)) as [w|]; [|discriminate].
  apply N.eqb_eq in Hi. subst. eauto.
Qed.

(* ------------------------------------------------------------------ (d) constants *)
Lemma sn_eqb_eq : forall a b, sn_eqb a b = true -> a = b.
Proof.
  intros [s v] [s' v'] H. unfold sn_eqb in H. cbn in H. apply andb_true_iff in H as [H1 H2].
  apply String.eqb_eq in H1. apply N.eqb_eq in H2. now subst.
Qed.

Lemma subset_sn_sound : forall a b, subset_sn a b = true -> forall x, In x a -> In x b.
Proof.
  unfold subset_sn. intros a b H x Hin. rewrite forallb_forall in H. specialize (H _ Hin).
  apply existsb_exists in H as (y & Hy & He). apply sn_eqb_eq in He. now subst.
Qed.

Definition squashed (consts : list (string * N)) : list (string * N) := map (fun c => (squash (fst c), snd c)) consts.

Theorem same_consts_sound : forall expected consts, same_consts expected consts = true ->
  (forall x, In x expected <-> In x (squashed consts)) /\ NoDup (map fst (squashed consts)) /\
  List.length expected = List.length consts.
Proof.
  unfold same_consts. intros e c H. cbv zeta in H. fold (squashed c) in H.
  repeat (apply andb_true_iff in H as [H ?H]).
  split; [|split; [now apply nodup_str_NoDup|now apply Nat.eqb_eq]].
  intro x. split; eauto using subset_sn_sound.
Qed.
