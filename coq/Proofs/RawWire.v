(* C16, lengths clause: whenever the raw decoder model accepts a byte string and the independent record grammar of
   Model/Wire.v segments it at all (no record straddles the end of its data region), both give the same segments -- every
   definition record as long as its own counts say, every data record as long as the live definition of its local number
   prescribes.  Record by record the two are the same function as long as the raw decoder's reads succeed. *)
From Coq Require Import NArith ZArith List Lia Bool ZifyN ZifyNat ZifyBool.
Import ListNotations.
From Fit Require Import Model.Raw Model.Wire Model.Crc Run.RunC16 Proofs.RawSafety Proofs.IntegrityModel.
Open Scope N_scope.
#[local] Arguments N.add : simpl never.
#[local] Arguments N.mul : simpl never.
#[local] Arguments N.sub : simpl never.

Lemma read_full_take s k b s' : read_full s k = (b, None, s') ->
  b = take k (r_rest s) /\ r_rest s' = drop k (r_rest s) /\ k <= len (r_rest s) /\ r_n s' = r_n s + k /\ r_segs s' = r_segs s.
Proof.
  unfold read_full. destruct (k =? 0) eqn:E0.
  { apply N.eqb_eq in E0. subst k. intros H. injection H as <- <-. unfold take, drop. cbn. repeat split; lia. }
  destruct (k <=? len (r_rest s)) eqn:Ek.
  - intros H. injection H as <- <-. cbn [r_rest r_n r_segs]. apply N.leb_le in Ek. repeat split; auto.
  - destruct (r_rest s); discriminate.
Qed.

Lemma sizes_sum_fuel : forall k l, length l = (3 * k)%nat -> sizes_sum l = sum_sizes l k.
Proof.
  induction k as [|k IH]; intros l H.
  - destruct l; [reflexivity|cbn [length] in H; lia].
  - destruct l as [|a [|sz [|c r]]]; cbn [length] in H; try lia. cbn [sizes_sum sum_sizes]. f_equal. apply IH. lia.
Qed.

Lemma nth_opt_nth {A} (l : list A) i d : (i < length l)%nat -> nth_opt l i = Some (nth i l d).
Proof. revert i. induction l as [|x l IH]; intros [|i] H; cbn [length nth_opt nth] in *; try lia; auto. apply IH. lia. Qed.

Lemma take_length_le {A} k (l : list A) : k <= len l -> length (take k l) = N.to_nat k.
Proof. intros H. unfold take, len in *. rewrite firstn_length. lia. Qed.

Lemma nth_take {A} k i (l : list A) d : (i < N.to_nat k)%nat -> nth i (take k l) d = nth i l d.
Proof. unfold take. revert i l. induction (N.to_nat k) as [|n IH]; intros i l H; [lia|]. destruct l as [|x l]; [destruct i; reflexivity|]. destruct i; cbn [firstn nth]; auto. apply IH. lia. Qed.

Lemma nth_drop {A} k i (l : list A) d : nth i (drop k l) d = nth (N.to_nat k + i) l d.
Proof. unfold drop. revert l. induction (N.to_nat k) as [|n IH]; intros l; [reflexivity|]. destruct l as [|x l]; [destruct i; reflexivity|]. cbn [skipn Nat.add nth]. apply IH. Qed.

Lemma wrap32_small x : x < 4294967296 -> wrap 32 x = x.
Proof. intros H. unfold wrap. apply N.mod_small. exact H. Qed.

Lemma local_same h : local_mesg_num h = local_of h. Proof. reflexivity. Qed.

(* one record *)
Lemma raw_record_wire s lens s' lens' : st_ok s -> lens_ok lens -> raw_record s lens = inl (s', lens') ->
  exists k seg, r_segs s' = (k, seg) :: r_segs s /\ parse_record lens (r_rest s) = Some ((kind_of k, seg), r_rest s', lens')
                /\ r_n s' = r_n s + len seg /\ seg <> [].
Proof.
  intros Hs Hl. unfold raw_record. set (bs := r_rest s).
  destruct (read_full s 1) as [[hb e] s1] eqn:E1. destruct e as [e|]; [discriminate|].
  destruct (read_full_take _ _ _ _ E1) as (Hb1 & R1 & L1 & N1 & G1). fold bs in Hb1, R1, L1.
  destruct bs as [|h r] eqn:Ebs; [change (len (@nil N)) with 0 in L1; lia|].
  change (take 1 (h :: r)) with [h] in Hb1. subst hb.
  assert (Hok : bytes_ok (h :: r)) by (unfold bs in Ebs; rewrite <- Ebs; exact Hs).
  change (N.land h (N.lor MesgCompressedHeaderMask MesgDefinitionMask) =? MesgDefinitionMask) with (is_def h).
  unfold parse_record. destruct (is_def h) eqn:Edef.
  - (* definition *)
    destruct (read_full s1 5) as [[fixed e] s2] eqn:E2. destruct e as [e|]; [discriminate|].
    destruct (read_full_take _ _ _ _ E2) as (Hfx & R2 & L2 & N2 & G2). rewrite R1 in Hfx, R2, L2.
    set (nf := nth 4 fixed 0).
    destruct (read_full s2 (nf * 3)) as [[fds e] s3] eqn:E3. destruct e as [e|]; [discriminate|].
    destruct (read_full_take _ _ _ _ E3) as (Hfd & R3 & L3 & N3 & G3). rewrite R2 in Hfd, R3, L3.
    assert (Hfxl : length fixed = 5%nat) by (rewrite Hfx; apply take_length_le; exact L2).
    assert (Hn5 : nth_opt (h :: r) 5 = Some nf).
    { rewrite (nth_opt_nth _ 5 0) by (rewrite len_drop' in L2; unfold len in L2; cbn [length] in *; lia).
      f_equal. unfold nf. rewrite Hfx. rewrite nth_take by (cbn; lia). rewrite nth_drop. reflexivity. }
    rewrite Hn5.
    assert (Hd6 : drop (nf * 3) (drop 5 (drop 1 (h :: r))) = drop (6 + 3 * nf) (h :: r)) by (rewrite !drop_drop'; f_equal; lia).
    assert (Hd6' : drop 5 (drop 1 (h :: r)) = drop 6 (h :: r)) by (rewrite drop_drop'; reflexivity).
    rewrite Hd6' in Hfd, L3, R3.
    assert (Lall : 6 + 3 * nf <= len (h :: r)) by (rewrite !len_drop' in L3; rewrite len_drop' in L2; lia).
    replace (len (h :: r) <? 6 + 3 * nf) with false by (symmetry; apply N.ltb_ge; exact Lall).
    replace (3 * nf) with (nf * 3) by lia. rewrite <- Hfd.
    assert (Hfdl : length fds = (3 * N.to_nat nf)%nat) by (rewrite Hfd, take_length_le by exact L3; lia).
    rewrite <- (sizes_sum_fuel (N.to_nat nf) fds Hfdl).
    assert (Hseg1 : h :: fixed ++ fds = take (6 + nf * 3) (h :: r)).
    { replace (6 + nf * 3) with (1 + (5 + nf * 3)) by lia. rewrite (take_add 1), (take_add 5). rewrite Hfx, Hfd, Hd6'. reflexivity. }
    assert (Hbnd : 1 + sizes_sum fds <= raw_bound).
    { assert (Hfxok : bytes_ok fixed) by (rewrite Hfx; apply bytes_ok_take, bytes_ok_drop; exact Hok).
      assert (Hfdok : bytes_ok fds) by (rewrite Hfd; apply bytes_ok_take, bytes_ok_drop; exact Hok).
      pose proof (nth_bytes_ok 4 fixed Hfxok) as Hnf. fold nf in Hnf.
      pose proof (sizes_sum_bound _ fds (le_n _) Hfdok) as Hsum. unfold len in Hsum. rewrite Hfdl in Hsum. unfold raw_bound. lia. }
    change (N.land h DevDataMask =? DevDataMask) with (N.land h 32 =? 32).
    destruct (N.land h 32 =? 32) eqn:Edev.
    + destruct (read_full s3 1) as [[nd e] s4] eqn:E4. destruct e as [e|]; [discriminate|].
      destruct (read_full_take _ _ _ _ E4) as (Hnd & R4 & L4 & N4 & G4). rewrite R3 in Hnd, R4, L4.
      set (m := nth 0 nd 0).
      destruct (read_full s4 (m * 3)) as [[dds e] s5] eqn:E5. destruct e as [e|]; [discriminate|].
      destruct (read_full_take _ _ _ _ E5) as (Hdd & R5 & L5 & N5 & G5). rewrite R4 in Hdd, R5, L5.
      intros H. injection H as <- <-.
      assert (Hd7 : drop 1 (drop (nf * 3) (drop 6 (h :: r))) = drop (6 + 3 * nf + 1) (h :: r)) by (rewrite !drop_drop'; f_equal; lia).
      assert (Hd6b : drop (nf * 3) (drop 6 (h :: r)) = drop (6 + 3 * nf) (h :: r)) by (rewrite drop_drop'; f_equal; lia).
      rewrite Hd7 in Hdd, L5, R5. rewrite Hd6b in Hnd, L4.
      assert (Hm : nth_opt (h :: r) (N.to_nat (6 + nf * 3)) = Some m).
      { rewrite (nth_opt_nth _ _ 0) by (rewrite len_drop' in L4; unfold len in L4; lia).
        f_equal. unfold m. rewrite Hnd. rewrite nth_take by (cbn; lia). rewrite nth_drop. f_equal. lia. }
      rewrite Hm.
      assert (Ltot : 6 + nf * 3 + 1 + 3 * m <= len (h :: r)) by (rewrite len_drop' in L5; rewrite len_drop' in L4; lia).
      replace (len (h :: r) <? 6 + nf * 3 + 1 + 3 * m) with false by (symmetry; apply N.ltb_ge; exact Ltot).
      replace (3 * m) with (m * 3) by lia.
      replace (drop (6 + nf * 3 + 1) (h :: r)) with (drop (6 + 3 * nf + 1) (h :: r)) by (f_equal; lia). rewrite <- Hdd.
      assert (Hddl : length dds = (3 * N.to_nat m)%nat) by (rewrite Hdd, take_length_le by exact L5; lia).
      rewrite <- (sizes_sum_fuel (N.to_nat m) dds Hddl).
      assert (Hseg2 : h :: fixed ++ fds ++ nd ++ dds = take (6 + 3 * nf + 1 + m * 3) (h :: r)).
      { replace (6 + 3 * nf + 1 + m * 3) with ((6 + nf * 3) + (1 + m * 3)) by lia. rewrite (take_add (6 + nf * 3)), (take_add 1).
        rewrite <- Hseg1. replace (6 + nf * 3) with (6 + 3 * nf) by lia. rewrite <- Hnd.
        replace (drop 1 (drop (6 + 3 * nf) (h :: r))) with (drop (6 + 3 * nf + 1) (h :: r)) by (rewrite drop_drop'; reflexivity).
        rewrite <- Hdd. cbn [app]. rewrite <- !app_assoc. reflexivity. }
      exists RFDef, (h :: fixed ++ fds ++ nd ++ dds). cbn [emit r_segs r_rest r_n]. split; [rewrite G5, G4, G3, G2, G1; reflexivity|].
      split.
      * assert (Hb2 : sizes_sum dds <= 255 * m).
        { assert (Hddok : bytes_ok dds) by (rewrite Hdd; apply bytes_ok_take, bytes_ok_drop; exact Hok).
          pose proof (sizes_sum_bound _ dds (le_n _) Hddok) as Hsum. unfold len in Hsum. rewrite Hddl in Hsum. lia. }
        assert (Hmb : m < 256) by (apply nth_bytes_ok; rewrite Hnd; apply bytes_ok_take, bytes_ok_drop; exact Hok).
        rewrite Hseg2, R5, drop_drop'. unfold set_len. change LocalMesgNumMask with 15.
        match goal with |- context[wrap 32 ?x] => rewrite (wrap32_small x) by (unfold raw_bound in Hbnd; lia) end.
        replace (6 + 3 * nf + 1 + m * 3) with (6 + nf * 3 + 1 + m * 3) by lia. reflexivity.
      * split; [|discriminate]. rewrite N5, N4, N3, N2, N1. unfold len in *. cbn [length]. rewrite !app_length, Hfxl, Hfdl, Hddl.
        assert (length nd = 1%nat) by (rewrite Hnd; apply take_length_le; exact L4). lia.
    + intros H. injection H as <- <-.
      exists RFDef, (h :: fixed ++ fds). cbn [emit r_segs r_rest r_n]. split; [rewrite G3, G2, G1; reflexivity|].
      split.
      * rewrite Hseg1, R3, drop_drop'. unfold set_len. change LocalMesgNumMask with 15.
        match goal with |- context[wrap 32 ?x] => rewrite (wrap32_small x) by (unfold raw_bound in Hbnd; lia) end.
        replace (6 + 3 * nf) with (6 + nf * 3) by lia. reflexivity.
      * split; [|discriminate]. rewrite N3, N2, N1. unfold len in *. cbn [length]. rewrite app_length, Hfxl, Hfdl. lia.
  - (* data *)
    rewrite local_same. unfold get_len.
    set (l := nth (N.to_nat (local_of h)) lens 0).
    destruct (l =? 0) eqn:El0; [discriminate|].
    destruct (read_full s1 (l - 1)) as [[body e] s2] eqn:E2. destruct e as [e|]; [discriminate|].
    destruct (read_full_take _ _ _ _ E2) as (Hbd & R2 & L2 & N2 & G2). rewrite R1 in Hbd, R2, L2.
    intros H. injection H as <- <-. apply N.eqb_neq in El0.
    assert (Ll : l <= len (h :: r)) by (rewrite len_drop' in L2; unfold len in *; cbn [length] in *; lia).
    replace (len (h :: r) <? l) with false by (symmetry; apply N.ltb_ge; exact Ll).
    exists RFData, (h :: body). cbn [emit r_segs r_rest r_n]. split; [rewrite G2, G1; reflexivity|].
    assert (Hseg : h :: body = take l (h :: r)).
    { replace l with (1 + (l - 1)) by lia. rewrite (take_add 1). rewrite Hbd. reflexivity. }
    split; [rewrite Hseg, R2, drop_drop'; replace (1 + (l - 1)) with l by lia; reflexivity|].
    split; [|discriminate]. rewrite N2, N1. unfold len. cbn [length]. rewrite Hbd, take_length_le by exact L2. lia.
Qed.

Definition wire (sg : rsegment) : segment := (kind_of (fst sg), snd sg).

Lemma parse_records_0 wf lens bs : parse_records wf lens bs 0 = Some ([], bs).
Proof. destruct wf; reflexivity. Qed.

(* the record region: same segments as long as no record straddles the end of the region; otherwise the grammar rejects *)
Lemma raw_records_wire : forall fuel s lens pos ds s', st_ok s -> lens_ok lens -> pos <= r_n s -> r_n s - pos <= ds ->
  len (r_rest s) + (r_n s - pos) < 4294967296 ->
  raw_records fuel s lens pos ds = inl s' ->
  exists segs, rev (r_segs s') = rev (r_segs s) ++ segs /\ st_ok s' /\ pos <= r_n s' /\
    len (r_rest s') + (r_n s' - pos) = len (r_rest s) + (r_n s - pos) /\
    N.of_nat (length segs) + (r_n s - pos) <= r_n s' - pos /\
    forall wf, (length segs <= wf)%nat ->
      parse_records wf lens (r_rest s) (ds - (r_n s - pos)) = if r_n s' - pos =? ds then Some (map wire segs, r_rest s') else None.
Proof.
  induction fuel as [|fuel IH]; intros s lens pos ds s' Hs Hl Hp Hk Hsz; cbn [raw_records].
  - rewrite wrap32_small by lia. destruct (ds <=? r_n s - pos) eqn:E; [|discriminate]. apply N.leb_le in E. intros H. injection H as <-.
    exists []. rewrite app_nil_r. repeat split; auto; [cbn [length]; lia|]. intros wf _. replace (ds - (r_n s - pos)) with 0 by lia.
    rewrite parse_records_0. replace (r_n s - pos =? ds) with true by (symmetry; apply N.eqb_eq; lia). reflexivity.
  - rewrite wrap32_small by lia. destruct (ds <=? r_n s - pos) eqn:E.
    + apply N.leb_le in E. intros H. injection H as <-.
      exists []. rewrite app_nil_r. repeat split; auto; [cbn [length]; lia|]. intros wf _. replace (ds - (r_n s - pos)) with 0 by lia.
      rewrite parse_records_0. replace (r_n s - pos =? ds) with true by (symmetry; apply N.eqb_eq; lia). reflexivity.
    + apply N.leb_gt in E.
      pose proof (raw_record_wire s lens) as Hrec. pose proof (raw_record_lens s lens Hs Hl) as Hlens.
      destruct (raw_record s lens) as [[s1 lens1]|res]; [|discriminate].
      destruct (Hrec s1 lens1 Hs Hl eq_refl) as (k & seg & G1 & P1 & N1 & Hne). destruct Hlens as [Hs1 Hl1].
      assert (Hseglen : 0 < len seg) by (destruct seg; [congruence|unfold len; cbn [length]; lia]).
      assert (Hrest1 : len (r_rest s1) + len seg = len (r_rest s)).
      { unfold parse_record in P1. clear - P1 Hseglen.
        assert (Hx : exists a, seg = take a (r_rest s) /\ r_rest s1 = drop a (r_rest s) /\ a <= len (r_rest s)).
        { destruct (r_rest s) as [|h r]; [discriminate|]. destruct (is_def h).
          - destruct (nth_opt (h :: r) 5) as [n|]; [|discriminate]. destruct (len (h :: r) <? 6 + 3 * n) eqn:E1; [discriminate|]. apply N.ltb_ge in E1.
            destruct (N.land h 32 =? 32).
            + destruct (nth_opt (h :: r) (N.to_nat (6 + 3 * n))) as [m|]; [|discriminate].
              destruct (len (h :: r) <? 6 + 3 * n + 1 + 3 * m) eqn:E2; [discriminate|]. apply N.ltb_ge in E2.
              injection P1 as _ <- <- _. eexists. split; [reflexivity|]. split; [reflexivity|exact E2].
            + injection P1 as _ <- <- _. eexists. split; [reflexivity|]. split; [reflexivity|exact E1].
          - destruct (get_len lens (local_of h) =? 0); [discriminate|]. destruct (len (h :: r) <? get_len lens (local_of h)) eqn:E1; [discriminate|]. apply N.ltb_ge in E1.
            injection P1 as _ <- <- _. eexists. split; [reflexivity|]. split; [reflexivity|exact E1]. }
        destruct Hx as (a & -> & -> & Ha). rewrite len_drop', len_take' by exact Ha. lia. }
      intros Hrun.
      destruct (ds - (r_n s - pos) <? len seg) eqn:Estr.
      * (* the record runs over the end of the region: the raw decoder stops right after it, the grammar rejects *)
        apply N.ltb_lt in Estr.
        assert (Hstop : s' = s1).
        { destruct fuel; cbn [raw_records] in Hrun; rewrite wrap32_small in Hrun by lia;
            (replace (ds <=? r_n s1 - pos) with true in Hrun by (symmetry; apply N.leb_le; lia)); injection Hrun as <-; reflexivity. }
        subst s'. exists [(k, seg)]. rewrite G1. cbn [rev]. split; [reflexivity|]. split; [exact Hs1|]. split; [lia|]. split; [lia|]. split; [cbn [length]; lia|].
        intros wf Hwf. destruct wf as [|wf]; [cbn [length] in Hwf; lia|]. cbn [parse_records].
        replace (ds - (r_n s - pos) =? 0) with false by (symmetry; apply N.eqb_neq; lia). rewrite P1.
        replace (ds - (r_n s - pos) <? len seg) with true by (symmetry; apply N.ltb_lt; exact Estr).
        replace (r_n s1 - pos =? ds) with false by (symmetry; apply N.eqb_neq; lia). reflexivity.
      * apply N.ltb_ge in Estr.
        destruct (IH s1 lens1 pos ds s' Hs1 Hl1 ltac:(lia) ltac:(lia) ltac:(lia) Hrun) as (segs & G & Hs' & Hp' & Hsum & Hcnt & Hw).
        exists ((k, seg) :: segs). rewrite G, G1. cbn [rev]. rewrite <- app_assoc. split; [reflexivity|]. split; [exact Hs'|]. split; [exact Hp'|]. split; [lia|]. split; [cbn [length]; lia|].
        intros wf Hwf. destruct wf as [|wf]; [cbn [length] in Hwf; lia|]. cbn [parse_records].
        replace (ds - (r_n s - pos) =? 0) with false by (symmetry; apply N.eqb_neq; lia). rewrite P1.
        replace (ds - (r_n s - pos) <? len seg) with false by (symmetry; apply N.ltb_ge; exact Estr).
        replace (ds - (r_n s - pos) - len seg) with (ds - (r_n s1 - pos)) by lia.
        rewrite Hw by (cbn [length] in Hwf; lia). destruct (r_n s' - pos =? ds); reflexivity.
Qed.

Lemma raw_beq a b : list_N_eqb_raw a b = beq a b.
Proof. revert b. induction a as [|x a IH]; intros [|y b]; cbn [list_N_eqb_raw beq]; try reflexivity; rewrite IH; reflexivity. Qed.

Lemma lens0_ok : lens_ok (repeat 0 16).
Proof. unfold lens_ok. apply Forall_forall. intros x Hx. apply repeat_spec in Hx. subst x. unfold raw_bound. lia. Qed.

(* one sequence *)
Lemma raw_sequence_wire s seq s' : st_ok s -> len (r_rest s) < 4294967296 -> raw_sequence s seq = inl s' ->
  exists segs, rev (r_segs s') = rev (r_segs s) ++ segs /\ st_ok s' /\ (length (r_rest s') < length (r_rest s))%nat /\
    match segment_sequence (r_rest s) with
    | Some (ws, rest) => ws = map wire segs /\ rest = r_rest s'
    | None => True
    end.
Proof.
  intros Hs Hsz. unfold raw_sequence.
  destruct (read_full s 1) as [[b0 e] s1] eqn:E1. destruct e as [e|]; [destruct (negb _ && _); discriminate|].
  destruct (read_full_take _ _ _ _ E1) as (Hb0 & R1 & L1 & N1 & G1).
  destruct (r_rest s) as [|hs r] eqn:Er; [change (len (@nil N)) with 0 in L1; lia|].
  change (take 1 (hs :: r)) with [hs] in Hb0. subst b0.
  assert (Hok : bytes_ok (hs :: r)) by (rewrite <- Er; exact Hs).
  unfold segment_sequence.
  destruct (negb ((hs =? 12) || (hs =? 14))) eqn:Ehs; [discriminate|].
  destruct (read_full s1 (hs - 1)) as [[hr e] s2] eqn:E2. destruct e as [e|]; [discriminate|].
  destruct (read_full_take _ _ _ _ E2) as (Hhr & R2 & L2 & N2 & G2). rewrite R1 in Hhr, R2, L2.
  assert (Hhs : hs = 12 \/ hs = 14) by (apply negb_false_iff, orb_true_iff in Ehs; destruct Ehs as [E|E]; apply N.eqb_eq in E; auto).
  assert (Lh : hs <= len (hs :: r)) by (rewrite len_drop' in L2; unfold len in *; cbn [length] in *; lia).
  replace (len (hs :: r) <? hs) with false by (symmetry; apply N.ltb_ge; exact Lh).
  assert (Hh : hs :: hr = take hs (hs :: r)).
  { replace (take hs (hs :: r)) with (take (1 + (hs - 1)) (hs :: r)) by (f_equal; lia). rewrite (take_add 1). rewrite Hhr. reflexivity. }
  rewrite <- Hh. rewrite raw_beq. change DataTypeFIT with fit_tag.
  destruct (negb (beq (take 4 (drop 8 (hs :: hr))) fit_tag)); [discriminate|].
  assert (L4 : length (take 4 (drop 4 (hs :: hr))) = 4%nat).
  { apply take_length_le. rewrite len_drop'. unfold len. cbn [length]. rewrite Hhr, take_length_le by exact L2. destruct Hhs as [-> | ->]; lia. }
  rewrite (le_word_le32 _ L4). set (ds := le32 (take 4 (drop 4 (hs :: hr)))).
  set (s2e := emit s2 RFHeader (hs :: hr)).
  assert (Hs2 : st_ok s2e) by (unfold st_ok, s2e; cbn [emit r_rest]; rewrite R2; apply bytes_ok_drop, bytes_ok_drop; exact Hok).
  assert (Rs2 : r_rest s2e = drop hs (hs :: r)) by (unfold s2e; cbn [emit r_rest]; rewrite R2, drop_drop'; f_equal; lia).
  pose proof (raw_records_wire (S (length (r_rest s2e))) s2e (repeat 0 16) (r_n s2e) ds) as Hrec.
  destruct (raw_records (S (length (r_rest s2e))) s2e (repeat 0 16) (r_n s2e) ds) as [s4|res]; [|discriminate].
  destruct (Hrec s4 Hs2 lens0_ok ltac:(lia) ltac:(lia) ltac:(rewrite Rs2, len_drop'; lia) eq_refl) as (segs & G4 & Hs4 & Hp4 & Hsum & Hcnt & Hw).
  destruct (read_full s4 2) as [[c e] s5] eqn:E5. destruct e as [e|]; [discriminate|].
  destruct (read_full_take _ _ _ _ E5) as (Hc & R5 & L5 & N5 & G5).
  intros H. injection H as <-. cbn [emit r_segs r_rest].
  exists ((RFHeader, hs :: hr) :: segs ++ [(RFCrc, c)]).
  split; [cbn [rev]; rewrite G5, G4; unfold s2e; cbn [emit r_segs rev]; rewrite G2, G1, <- !app_assoc; reflexivity|].
  split; [unfold st_ok; cbn [emit r_rest]; rewrite R5; apply bytes_ok_drop; exact Hs4|].
  cbn [emit r_rest].
  assert (Hlen4 : len (r_rest s4) <= len (drop hs (hs :: r))) by (rewrite <- Rs2; lia).
  split.
  { rewrite R5. unfold drop at 1. rewrite skipn_length. rewrite len_drop' in Hlen4. unfold len in *. cbn [length] in *. lia. }
  rewrite <- Rs2. rewrite N.sub_diag, N.sub_0_r in Hw. rewrite N.sub_diag, N.add_0_r in Hcnt.
  assert (Hfuel : (length segs <= S (length (hs :: r)))%nat).
  { rewrite Rs2, len_drop' in Hsum. rewrite N.sub_diag, N.add_0_r in Hsum. unfold len in *. cbn [length] in *. lia. }
  rewrite (Hw _ Hfuel).
  destruct (r_n s4 - r_n s2e =? ds); [|exact I].
  assert (Hc2 : exists c0 c1, c = [c0; c1] /\ r_rest s4 = c0 :: c1 :: r_rest s5).
  { assert (Lc : length c = 2%nat) by (rewrite Hc; apply take_length_le; exact L5).
    destruct c as [|c0 [|c1 [|? ?]]]; cbn [length] in Lc; try lia. exists c0, c1. split; [reflexivity|].
    rewrite R5. rewrite <- (firstn_skipn 2 (r_rest s4)). unfold take in Hc. change (N.to_nat 2) with 2%nat in Hc. rewrite <- Hc. reflexivity. }
  destruct Hc2 as (c0 & c1 & -> & Er4). rewrite Er4.
  split; [|reflexivity]. cbn [map wire fst snd kind_of]. rewrite map_app. reflexivity.
Qed.

(* the whole stream *)
Lemma raw_sequence_no_clean_end s seq r : r_rest s <> [] -> raw_sequence s seq = inr r -> snd r <> None.
Proof.
  intros Hne. unfold raw_sequence. destruct (read_full s 1) as [[b0 e] s1] eqn:E1.
  assert (He : e = None).
  { unfold read_full in E1. change (1 =? 0) with false in E1. cbv iota in E1. destruct (1 <=? len (r_rest s)) eqn:El.
    - injection E1 as _ <- _. reflexivity.
    - apply N.leb_gt in El. destruct (r_rest s); [congruence|unfold len in El; cbn [length] in El; lia]. }
  subst e. destruct b0 as [|hs [|? ?]]; try (intros H; injection H as <-; discriminate).
  destruct (negb _); [intros H; injection H as <-; discriminate|].
  destruct (read_full s1 (hs - 1)) as [[hr e] s2]. destruct e as [e|]; [intros H; injection H as <-; discriminate|].
  destruct (negb _); [intros H; injection H as <-; discriminate|].
  match goal with |- context[raw_records ?f ?s0 ?l ?p ?d] => destruct (raw_records f s0 l p d) as [s4|res] eqn:Er end.
  - destruct (read_full s4 2) as [[c e] s5]. destruct e as [e|]; [intros H; injection H as <-; discriminate|discriminate].
  - intros H. injection H as <-.
    (* an error inside the record region *)
    clear - Er. revert Er. generalize (S (length (r_rest (emit s2 RFHeader (hs :: hr))))) as fuel. generalize (emit s2 RFHeader (hs :: hr)) as s0.
    generalize (repeat 0 16) as lens. intros lens s0 fuel. generalize (r_n s0) at 1 as pos. revert lens s0.
    induction fuel as [|fuel IH]; intros lens s0 pos; cbn [raw_records].
    + destruct (_ <=? _); [discriminate|]. intros H. injection H as <-. discriminate.
    + destruct (_ <=? _); [discriminate|]. destruct (raw_record s0 lens) as [[s1' lens1]|r1] eqn:Erec.
      * apply IH.
      * intros H. injection H as <-. unfold raw_record in Erec.
        repeat match type of Erec with
               | context[read_full ?a ?b] => destruct (read_full a b) as [[? [?|]] ?]
               | context[if ?c then _ else _] => destruct c
               | context[match ?l with [] => _ | _ :: _ => _ end] => destruct l
               end; try discriminate; injection Erec as <-; discriminate.
Qed.

Lemma raw_loop_wire : forall fuel s seq wacc segs n, st_ok s -> len (r_rest s) < 4294967296 -> r_rest s <> [] ->
  raw_loop fuel s seq = (segs, n, None) ->
  forall wf, (length (r_rest s) < wf)%nat ->
  match segment_stream wf (r_rest s) wacc with
  | Some ws => exists new, segs = rev (r_segs s) ++ new /\ ws = wacc ++ map wire new
  | None => True
  end.
Proof.
  induction fuel as [|fuel IH]; intros s seq wacc segs n Hs Hsz Hne; cbn [raw_loop]; [discriminate|].
  destruct (raw_sequence s seq) as [s'|r] eqn:Eseq.
  2: { intros H. exfalso. apply (raw_sequence_no_clean_end s seq r Hne Eseq). rewrite H. reflexivity. }
  destruct (raw_sequence_wire s seq s' Hs Hsz Eseq) as (segs1 & G1 & Hs' & Hlt & Hw).
  intros Hrun wf Hwf. destruct wf as [|wf]; [lia|]. cbn [segment_stream].
  destruct (segment_sequence (r_rest s)) as [[ws1 rest1]|]; [|exact I]. destruct Hw as [-> ->].
  destruct (r_rest s') as [|x r'] eqn:Er'.
  - (* the stream ends here: the raw decoder's next read hits the end *)
    destruct fuel as [|fuel']; cbn [raw_loop] in Hrun; [discriminate|].
    unfold raw_sequence in Hrun. unfold read_full in Hrun. change (1 =? 0) with false in Hrun. cbv iota in Hrun. rewrite Er' in Hrun.
    change (1 <=? len (@nil N)) with false in Hrun. cbv iota in Hrun.
    replace (negb (seq + 1 =? 0)) with true in Hrun by (symmetry; apply negb_true_iff, N.eqb_neq; lia).
    change (E_EOF =? E_EOF) with true in Hrun. cbn [andb] in Hrun. unfold finish in Hrun. injection Hrun as <- _.
    exists segs1. split; [exact G1|reflexivity].
  - assert (Hne' : r_rest s' <> []) by (rewrite Er'; discriminate).
    assert (Hsz' : len (r_rest s') < 4294967296) by (rewrite Er'; unfold len in *; lia).
    specialize (IH s' (seq + 1) (wacc ++ map wire segs1) segs n Hs' Hsz' Hne' Hrun wf ltac:(rewrite Er'; lia)). rewrite Er' in IH.
    destruct (segment_stream wf (x :: r') (wacc ++ map wire segs1)) as [ws|]; [|exact I].
    destruct IH as (new & -> & ->). exists (segs1 ++ new). rewrite G1, map_app, !app_assoc. split; reflexivity.
Qed.

Lemma segs_match_wire segs : segs_match segs (map wire segs) = true.
Proof.
  induction segs as [|[k b] segs IH]; [reflexivity|]. cbn [map wire segs_match fst snd]. rewrite IH, andb_true_r.
  assert (Hk : kind_eqb (kind_of k) (kind_of k) = true) by (destruct k; reflexivity). rewrite Hk. cbn [andb].
  clear. induction b as [|x b IHb]; [reflexivity|]. cbn [list_N_eqb_raw]. rewrite N.eqb_refl, IHb. reflexivity.
Qed.

(* C16, lengths clause, for every byte string below 4 GiB *)
Theorem raw_lengths_are_the_grammar bs : bytes_ok bs -> len bs < 4294967296 ->
  let '(segs, n, e) := raw_decode bs in check_wire (bs, segs, n, e) = true.
Proof.
  intros Hok Hsz. destruct (raw_decode bs) as [[segs n] e] eqn:Er. unfold check_wire. destruct e as [e|]; [reflexivity|].
  unfold segment_stream_b. destruct bs as [|x r].
  - cbn in Er. discriminate.
  - unfold raw_decode in Er.
    pose proof (raw_loop_wire (S (length (x :: r))) (mkr (x :: r) 0 []) 0 [] segs n Hok Hsz ltac:(discriminate) Er (S (length (x :: r))) ltac:(cbn; lia)) as H.
    cbn [r_rest r_segs rev app] in H. destruct (segment_stream (S (length (x :: r))) (x :: r) []) as [ws|]; [|reflexivity].
    destruct H as (new & -> & ->). cbn [app]. apply segs_match_wire.
Qed.
