(* C03/C16: the raw decoder slices its fixed array d.BytesArray[:lenMesg] / [1:lenMesg]; the lengths it computes never exceed
   1 + 255*255*2 = 130051 (one header byte, 255 fields and 255 developer fields of at most 255 bytes each), for every byte
   stream.  The array length itself is translated from decoder/raw.go (gen/DecConst.v raw_array_len) and compared with this
   bound in Props/C03.v. *)
From Coq Require Import NArith ZArith List Lia Bool ZifyN ZifyNat ZifyBool.
Import ListNotations.
From Fit Require Import Model.Raw Model.Crc.
Open Scope N_scope.

Definition raw_bound : N := 130051.
Definition lens_ok (lens : list N) : Prop := Forall (fun l => l <= raw_bound) lens.
Definition st_ok (s : rstate) : Prop := bytes_ok (r_rest s).

Lemma bytes_ok_split k bs : bytes_ok bs -> bytes_ok (firstn k bs) /\ bytes_ok (skipn k bs).
Proof. unfold bytes_ok. intros H. rewrite <- (firstn_skipn k bs) in H. apply Forall_app in H. exact H. Qed.

Lemma read_full_ok s k b e s' : st_ok s -> read_full s k = (b, e, s') -> st_ok s' /\ bytes_ok b /\ (e = None -> len b = k).
Proof.
  unfold read_full, st_ok. intros Hs. destruct (k =? 0) eqn:E0.
  { intros H. injection H as <- <- <-. apply N.eqb_eq in E0. subst k. repeat split; auto. constructor. }
  destruct (k <=? len (r_rest s)) eqn:Ek.
  - intros H. injection H as <- <- <-. cbn [r_rest]. destruct (bytes_ok_split (N.to_nat k) _ Hs) as [H1 H2].
    repeat split; auto. intros _. unfold len, take in *. rewrite firstn_length. lia.
  - destruct (r_rest s) as [|x r] eqn:Er; intros H; injection H as <- <- <-.
    + repeat split; auto; try discriminate. rewrite Er. constructor.
    + cbn [r_rest]. repeat split; auto; try discriminate. constructor.
Qed.

Lemma sizes_sum_bound : forall n t, (length t <= n)%nat -> bytes_ok t -> 3 * sizes_sum t <= 255 * len t.
Proof.
  induction n as [|n IH]; intros t Hl Hok.
  - destruct t; [cbn; lia|cbn in Hl; lia].
  - destruct t as [|a [|sz [|c r]]]; try (cbn; unfold len; cbn [length]; lia).
    cbn [sizes_sum]. inversion Hok as [|? ? _ Hok1]; subst. inversion Hok1 as [|? ? Hsz Hok2]; subst. inversion Hok2 as [|? ? _ Hok3]; subst.
    assert (Hr : 3 * sizes_sum r <= 255 * len r) by (apply IH; [cbn [length] in Hl; lia|exact Hok3]).
    unfold len in *. cbn [length]. lia.
Qed.

Lemma nth_bytes_ok k bs : bytes_ok bs -> nth k bs 0 < 256.
Proof.
  intros H. destruct (Nat.lt_ge_cases k (length bs)) as [Hk|Hk].
  - unfold bytes_ok in H. rewrite Forall_forall in H. apply H. apply nth_In. exact Hk.
  - rewrite nth_overflow by exact Hk. lia.
Qed.

Lemma lens_ok_replace lens i v : lens_ok lens -> v <= raw_bound -> lens_ok (replace_nth lens i v).
Proof.
  unfold lens_ok. revert i. induction lens as [|x l IH]; intros i H Hv; destruct i; cbn [replace_nth]; auto.
  - inversion H; subst. constructor; assumption.
  - inversion H; subst. constructor; auto.
Qed.

Lemma wrap_le w x : wrap w x <= x.
Proof. unfold wrap. apply N.mod_le. apply N.pow_nonzero. discriminate. Qed.

(* one record: the table of data-record lengths stays within the bound, whatever the bytes are *)
Lemma raw_record_lens s lens : st_ok s -> lens_ok lens ->
  match raw_record s lens with
  | inl (s', lens') => st_ok s' /\ lens_ok lens'
  | inr _ => True
  end.
Proof.
  intros Hs Hl. unfold raw_record.
  destruct (read_full s 1) as [[hb e] s1] eqn:E1. destruct (read_full_ok _ _ _ _ _ Hs E1) as (Hs1 & _ & _).
  destruct e as [e|]; [exact I|]. destruct hb as [|h [|? ?]]; try exact I.
  destruct (_ =? MesgDefinitionMask).
  - destruct (read_full s1 5) as [[fixed e] s2] eqn:E2. destruct (read_full_ok _ _ _ _ _ Hs1 E2) as (Hs2 & Hfx & _).
    destruct e as [e|]; [exact I|].
    destruct (read_full s2 _) as [[fds e] s3] eqn:E3. destruct (read_full_ok _ _ _ _ _ Hs2 E3) as (Hs3 & Hfds & Lfds).
    destruct e as [e|]; [exact I|]. specialize (Lfds eq_refl).
    pose proof (nth_bytes_ok 4 fixed Hfx) as Hnf.
    pose proof (sizes_sum_bound _ fds (le_n _) Hfds) as Hsum. rewrite Lfds in Hsum.
    destruct (_ =? DevDataMask).
    + destruct (read_full s3 1) as [[nd e] s4] eqn:E4. destruct (read_full_ok _ _ _ _ _ Hs3 E4) as (Hs4 & Hnd & _).
      destruct e as [e|]; [exact I|].
      destruct (read_full s4 _) as [[dds e] s5] eqn:E5. destruct (read_full_ok _ _ _ _ _ Hs4 E5) as (Hs5 & Hdds & Ldds).
      destruct e as [e|]; [exact I|]. specialize (Ldds eq_refl).
      pose proof (nth_bytes_ok 0 nd Hnd) as Hndv.
      pose proof (sizes_sum_bound _ dds (le_n _) Hdds) as Hsum2. rewrite Ldds in Hsum2.
      split; [exact Hs5|]. apply lens_ok_replace; [exact Hl|]. eapply N.le_trans; [apply wrap_le|]. unfold raw_bound. lia.
    + split; [exact Hs3|]. apply lens_ok_replace; [exact Hl|]. eapply N.le_trans; [apply wrap_le|]. unfold raw_bound. lia.
  - destruct (nth _ lens 0 =? 0); [exact I|].
    destruct (read_full s1 _) as [[body e] s2] eqn:E2. destruct (read_full_ok _ _ _ _ _ Hs1 E2) as (Hs2 & _ & _).
    destruct e as [e|]; [exact I|]. split; [exact Hs2|exact Hl].
Qed.

(* every data-record length looked up by the raw decoder is within the bound *)
Lemma lens_lookup lens i : lens_ok lens -> nth i lens 0 <= raw_bound.
Proof.
  intros H. destruct (Nat.lt_ge_cases i (length lens)) as [Hk|Hk].
  - unfold lens_ok in H. rewrite Forall_forall in H. apply H. apply nth_In. exact Hk.
  - rewrite nth_overflow by exact Hk. unfold raw_bound. lia.
Qed.

(* every emitted segment fits: definitions are at most 6 + 765 + 1 + 765 bytes, data records at most the looked-up length *)
Definition seg_ok (sg : rsegment) : Prop := len (snd sg) <= raw_bound.
Lemma raw_record_segs s lens : st_ok s -> lens_ok lens -> Forall seg_ok (r_segs s) ->
  match raw_record s lens with
  | inl (s', _) => Forall seg_ok (r_segs s')
  | inr (segs, _, _) => Forall seg_ok segs
  end.
Proof.
  intros Hs Hl Hsg. unfold raw_record.
  assert (Hfin : forall s0 e, r_segs s0 = r_segs s -> match finish s0 e with (segs, _, _) => Forall seg_ok segs end).
  { intros s0 e0 Hr. unfold finish. rewrite Hr. apply Forall_rev. exact Hsg. }
  assert (Hrf : forall s0 k b e s', read_full s0 k = (b, e, s') -> r_segs s' = r_segs s0).
  { intros s0 k b e0 s' H. unfold read_full in H. destruct (k =? 0); [injection H as _ _ <-; reflexivity|].
    destruct (k <=? len (r_rest s0)); [injection H as _ _ <-; reflexivity|]. destruct (r_rest s0); injection H as _ _ <-; reflexivity. }
  destruct (read_full s 1) as [[hb e] s1] eqn:E1. destruct (read_full_ok _ _ _ _ _ Hs E1) as (Hs1 & _ & _). pose proof (Hrf _ _ _ _ _ E1) as R1.
  destruct e as [e|]; [apply Hfin; exact R1|]. destruct hb as [|h [|? ?]]; try (apply Hfin; exact R1).
  destruct (_ =? MesgDefinitionMask).
  - destruct (read_full s1 5) as [[fixed e] s2] eqn:E2. destruct (read_full_ok _ _ _ _ _ Hs1 E2) as (Hs2 & Hfx & Lfx). pose proof (Hrf _ _ _ _ _ E2) as R2.
    destruct e as [e|]; [apply Hfin; congruence|]. specialize (Lfx eq_refl).
    destruct (read_full s2 _) as [[fds e] s3] eqn:E3. destruct (read_full_ok _ _ _ _ _ Hs2 E3) as (Hs3 & Hfds & Lfds). pose proof (Hrf _ _ _ _ _ E3) as R3.
    destruct e as [e|]; [apply Hfin; congruence|]. specialize (Lfds eq_refl).
    pose proof (nth_bytes_ok 4 fixed Hfx) as Hnf.
    destruct (_ =? DevDataMask).
    + destruct (read_full s3 1) as [[nd e] s4] eqn:E4. destruct (read_full_ok _ _ _ _ _ Hs3 E4) as (Hs4 & Hnd & Lnd). pose proof (Hrf _ _ _ _ _ E4) as R4.
      destruct e as [e|]; [apply Hfin; congruence|]. specialize (Lnd eq_refl).
      destruct (read_full s4 _) as [[dds e] s5] eqn:E5. destruct (read_full_ok _ _ _ _ _ Hs4 E5) as (Hs5 & Hdds & Ldds). pose proof (Hrf _ _ _ _ _ E5) as R5.
      destruct e as [e|]; [apply Hfin; congruence|]. specialize (Ldds eq_refl).
      pose proof (nth_bytes_ok 0 nd Hnd) as Hndv.
      unfold emit. cbn [r_segs]. constructor; [|rewrite R5, R4, R3, R2, R1; exact Hsg].
      unfold seg_ok, raw_bound. cbn [snd]. unfold len in *. cbn [length]. rewrite !app_length. lia.
    + unfold emit. cbn [r_segs]. constructor; [|rewrite R3, R2, R1; exact Hsg].
      unfold seg_ok, raw_bound. cbn [snd]. unfold len in *. cbn [length]. rewrite !app_length. lia.
  - pose proof (lens_lookup lens (N.to_nat (local_mesg_num h)) Hl) as Hlk.
    destruct (nth _ lens 0 =? 0) eqn:Ez; [apply Hfin; exact R1|].
    destruct (read_full s1 _) as [[body e] s2] eqn:E2. destruct (read_full_ok _ _ _ _ _ Hs1 E2) as (Hs2 & _ & Lb). pose proof (Hrf _ _ _ _ _ E2) as R2.
    destruct e as [e|]; [apply Hfin; congruence|]. specialize (Lb eq_refl).
    unfold emit. cbn [r_segs]. constructor; [|rewrite R2, R1; exact Hsg].
    unfold seg_ok. cbn [snd]. unfold len in *. cbn [length]. lia.
Qed.

Definition res_ok (r : result) : Prop := match r with (segs, _, _) => Forall seg_ok segs end.
Lemma finish_ok' s e : Forall seg_ok (r_segs s) -> res_ok (finish s e).
Proof. intros H. unfold res_ok, finish. apply Forall_rev. exact H. Qed.
Lemma read_full_segs s0 k b e s' : read_full s0 k = (b, e, s') -> r_segs s' = r_segs s0.
Proof.
  intros H. unfold read_full in H. destruct (k =? 0); [injection H as _ _ <-; reflexivity|].
  destruct (k <=? len (r_rest s0)); [injection H as _ _ <-; reflexivity|]. destruct (r_rest s0); injection H as _ _ <-; reflexivity.
Qed.

Lemma raw_records_segs : forall fuel s lens pos ds, st_ok s -> lens_ok lens -> Forall seg_ok (r_segs s) ->
  match raw_records fuel s lens pos ds with
  | inl s' => st_ok s' /\ Forall seg_ok (r_segs s')
  | inr r => res_ok r
  end.
Proof.
  induction fuel as [|f IH]; intros s lens pos ds Hs Hl Hsg; cbn [raw_records].
  - destruct (ds <=? _); [split; assumption|apply finish_ok'; exact Hsg].
  - destruct (ds <=? _); [split; assumption|].
    pose proof (raw_record_lens s lens Hs Hl) as H1. pose proof (raw_record_segs s lens Hs Hl Hsg) as H2.
    destruct (raw_record s lens) as [[s' lens']|[[segs n] e]].
    + destruct H1 as [Hs' Hl']. apply IH; assumption.
    + exact H2.
Qed.

Lemma raw_sequence_segs s seq : st_ok s -> Forall seg_ok (r_segs s) ->
  match raw_sequence s seq with
  | inl s' => st_ok s' /\ Forall seg_ok (r_segs s')
  | inr r => res_ok r
  end.
Proof.
  intros Hs Hsg. unfold raw_sequence.
  destruct (read_full s 1) as [[b0 e] s1] eqn:E1. destruct (read_full_ok _ _ _ _ _ Hs E1) as (Hs1 & _ & _). pose proof (read_full_segs _ _ _ _ _ E1) as R1.
  assert (G1 : Forall seg_ok (r_segs s1)) by (rewrite R1; exact Hsg).
  destruct e as [e|]. { destruct (negb _ && _); apply finish_ok'; exact G1. }
  destruct b0 as [|hs [|? ?]]; try (apply finish_ok'; exact G1).
  destruct (negb ((hs =? 12) || (hs =? 14))) eqn:Eh; [apply finish_ok'; exact G1|].
  destruct (read_full s1 (hs - 1)) as [[hr e] s2] eqn:E2. destruct (read_full_ok _ _ _ _ _ Hs1 E2) as (Hs2 & _ & Lhr). pose proof (read_full_segs _ _ _ _ _ E2) as R2.
  assert (G2 : Forall seg_ok (r_segs s2)) by (rewrite R2; exact G1).
  destruct e as [e|]; [apply finish_ok'; exact G2|]. specialize (Lhr eq_refl).
  destruct (negb (list_N_eqb_raw _ _)); [apply finish_ok'; exact G2|].
  assert (G3 : Forall seg_ok (r_segs (emit s2 RFHeader (hs :: hr)))).
  { unfold emit. cbn [r_segs]. constructor; [|exact G2]. unfold seg_ok, raw_bound. cbn [snd]. unfold len in *. cbn [length]. lia. }
  assert (Hs3 : st_ok (emit s2 RFHeader (hs :: hr))) by exact Hs2.
  assert (L0 : lens_ok (repeat 0 16)) by (unfold lens_ok; apply Forall_forall; intros x Hx; apply repeat_spec in Hx; subst x; unfold raw_bound; lia).
  match goal with |- context[raw_records ?f ?s0 ?l ?p ?d] =>
    pose proof (raw_records_segs f s0 l p d Hs3 L0 G3) as Hr; destruct (raw_records f s0 l p d) as [s4|r] end; [|exact Hr].
  destruct Hr as [Hs4 G4].
  destruct (read_full s4 2) as [[c e] s5] eqn:E5. destruct (read_full_ok _ _ _ _ _ Hs4 E5) as (Hs5 & _ & Lc). pose proof (read_full_segs _ _ _ _ _ E5) as R5.
  assert (G5 : Forall seg_ok (r_segs s5)) by (rewrite R5; exact G4).
  destruct e as [e|]; [apply finish_ok'; exact G5|]. specialize (Lc eq_refl).
  split; [exact Hs5|]. unfold emit. cbn [r_segs]. constructor; [|exact G5]. unfold seg_ok, raw_bound. cbn [snd]. lia.
Qed.

Lemma raw_loop_segs : forall fuel s seq, st_ok s -> Forall seg_ok (r_segs s) -> res_ok (raw_loop fuel s seq).
Proof.
  induction fuel as [|f IH]; intros s seq Hs Hsg; cbn [raw_loop]; [apply finish_ok'; exact Hsg|].
  pose proof (raw_sequence_segs s seq Hs Hsg) as H. destruct (raw_sequence s seq) as [s'|r]; [destruct H; apply IH; assumption|exact H].
Qed.

(* for every byte stream: every segment the raw decoder hands out -- a slice d.BytesArray[:n] -- has n <= 130051 *)
Theorem raw_segments_fit bs : bytes_ok bs -> res_ok (raw_decode bs).
Proof. intros H. unfold raw_decode. apply raw_loop_segs; [exact H|constructor]. Qed.
