(* The stream encoder at message level (Model/Stream.v) against the batch encoder (Model/Encoder.v: encode_parts):
   interleaving validation and encoding message by message, with the state kept between calls, yields exactly the parts
   encode_parts computes -- provided Encoder.reset clears what the source says it clears (gen/DecoderReset.v). *)
From Coq Require Import NArith List Bool Lia.
Import ListNotations.
From Fit Require Import Model.Stream.
Open Scope N_scope.

(* validate_all without the accumulator *)
Fixpoint vall (p : bool) (vs : vstate) (ms : list message) : outcome (list message) :=
  match ms with
  | [] => Ok []
  | m :: r => do x <- validate p vs m; do r' <- vall p (snd x) r; Ok (fst x :: r')
  end.

Lemma validate_all_vall p : forall ms vs acc,
  validate_all p vs ms acc = (do r <- vall p vs ms; Ok (acc ++ r)).
Proof.
  induction ms as [|m ms IH]; intros vs acc; cbn [validate_all vall bind].
  - now rewrite app_nil_r.
  - destruct (validate p vs m) as [[m' vs']| | |]; cbn [bind fst snd]; try reflexivity.
    rewrite IH. destruct (vall p vs' ms) as [r'| | |]; cbn [bind]; try reflexivity.
    now rewrite <- app_assoc.
Qed.

Definition is_ok {A} (x : outcome A) : bool := match x with Ok _ => true | _ => false end.

(* message by message = validate everything, then encode everything *)
Lemma stream_messages_split c ver : forall ms vs es acc,
  match stream_messages c ver (mkss vs es) ms acc with
  | Ok (chunks, s') =>
      proto_validate_all ver ms = Ok tt /\
      exists vms, vall (e_preserve c) vs ms = Ok vms /\ encode_chunks c es vms acc = Ok (chunks, ss_es s')
  | _ =>
      match proto_validate_all ver ms with
      | Ok _ => match vall (e_preserve c) vs ms with
                | Ok vms => is_ok (encode_chunks c es vms acc) = false
                | _ => True
                end
      | _ => True
      end
  end.
Proof.
  induction ms as [|m ms IH]; intros vs es acc.
  - cbn. split; [reflexivity|]. exists []. split; reflexivity.
  - cbn [stream_messages proto_validate_all vall]. unfold stream_write_message. cbn [ss_vs ss_es].
    destruct (proto_validate ver m) as [[]| | |]; cbn [bind]; try exact I.
    destruct (validate (e_preserve c) vs m) as [[m' vs']| | |]; cbn [bind fst snd].
    2-4: destruct (proto_validate_all ver ms) as [[]| | |]; exact I.
    destruct (encode_message_chunks c es m') as [[ch es']| | |] eqn:He; cbn [bind fst snd].
    + specialize (IH vs' es' (acc ++ ch)).
      destruct (stream_messages c ver (mkss vs' es') ms (acc ++ ch)) as [[chunks s']| | |].
      * destruct IH as [Hp [vms [Hv Hc]]]. split; [exact Hp|].
        exists (m' :: vms). rewrite Hv. cbn [bind]. split; [reflexivity|].
        cbn [encode_chunks]. rewrite He. cbn [bind fst snd]. exact Hc.
      * destruct (proto_validate_all ver ms) as [[]| | |]; try exact I.
        destruct (vall (e_preserve c) vs' ms) as [vms| | |]; cbn [bind]; try exact I.
        cbn [encode_chunks]. rewrite He. cbn [bind fst snd]. exact IH.
      * destruct (proto_validate_all ver ms) as [[]| | |]; try exact I.
        destruct (vall (e_preserve c) vs' ms) as [vms| | |]; cbn [bind]; try exact I.
        cbn [encode_chunks]. rewrite He. cbn [bind fst snd]. exact IH.
      * destruct (proto_validate_all ver ms) as [[]| | |]; try exact I.
        destruct (vall (e_preserve c) vs' ms) as [vms| | |]; cbn [bind]; try exact I.
        cbn [encode_chunks]. rewrite He. cbn [bind fst snd]. exact IH.
    + destruct (proto_validate_all ver ms) as [[]| | |]; try exact I.
      destruct (vall (e_preserve c) vs' ms) as [vms| | |]; cbn [bind]; try exact I.
      cbn [encode_chunks]. rewrite He. reflexivity.
    + destruct (proto_validate_all ver ms) as [[]| | |]; try exact I.
      destruct (vall (e_preserve c) vs' ms) as [vms| | |]; cbn [bind]; try exact I.
      cbn [encode_chunks]. rewrite He. reflexivity.
    + destruct (proto_validate_all ver ms) as [[]| | |]; try exact I.
      destruct (vall (e_preserve c) vs' ms) as [vms| | |]; cbn [bind]; try exact I.
      cbn [encode_chunks]. rewrite He. reflexivity.
Qed.

(* what Encoder.reset must clear for the next sequence to start like the first -- and, for the empty message list (which
   stream_sequence refuses like encode_parts does), that SequenceCompleted refuses before it writes anything when no message
   was written (gen/DecoderReset.v: stream_completed_rejects_empty, read from the source; fix 2690f88) *)
Definition reset_complete : bool :=
  enc_reset_validator && enc_reset_crc && enc_reset_lru && enc_reset_datasize && enc_reset_tsref && enc_reset_lastts && stream_completed_resets
  && stream_completed_rejects_empty.

Lemma enc_reset_init c s : reset_complete = true ->
  (if stream_completed_resets then enc_reset c s else s) = ss_init c.
Proof.
  unfold reset_complete. intros H. repeat (apply andb_prop in H; destruct H as [H ?]).
  unfold enc_reset.
  repeat match goal with Hx : ?f = true |- _ => rewrite Hx; clear Hx end.
  reflexivity.
Qed.

(* one sequence from the initial state: the parts of encode_parts for the zero header, and the initial state again;
   the stream encoder accepts exactly what encode_parts accepts *)
Theorem stream_sequence_spec c ms : reset_complete = true ->
  match stream_sequence c (ss_init c) ms, encode_parts c (mkefile 0 0 0 ms) with
  | Ok (p, s'), Ok q => p = q /\ s' = ss_init c
  | Ok _, _ => False
  | _, Ok _ => False
  | _, _ => True
  end.
Proof.
  intros Hr. unfold stream_sequence, encode_parts. cbn [ef_msgs ef_proto ef_hsize ef_profile].
  destruct ms as [|m ms]; [exact I|].
  set (msl := m :: ms).
  pose proof (stream_messages_split c (select_version c 0) msl vs_init (es_init c) []) as H.
  unfold ss_init.
  destruct (stream_messages c (select_version c 0) (mkss vs_init (es_init c)) msl []) as [[chunks s']| | |]; cbn [bind fst snd].
  - destruct H as [Hp [vms [Hv Hc]]]. rewrite Hp. cbn [bind].
    rewrite validate_all_vall, Hv. cbn [bind app]. rewrite Hc. cbn [bind].
    change (0 =? 12) with false. change (0 =? 0) with true. cbv iota.
    split; [reflexivity|]. apply enc_reset_init. exact Hr.
  - destruct (proto_validate_all (select_version c 0) msl) as [[]| | |]; cbn [bind]; try exact I.
    rewrite validate_all_vall. destruct (vall (e_preserve c) vs_init msl) as [vms| | |]; cbn [bind app]; try exact I.
    destruct (encode_chunks c (es_init c) vms []) as [[? ?]| | |]; cbn [bind]; try exact I. discriminate H.
  - destruct (proto_validate_all (select_version c 0) msl) as [[]| | |]; cbn [bind]; try exact I.
    rewrite validate_all_vall. destruct (vall (e_preserve c) vs_init msl) as [vms| | |]; cbn [bind app]; try exact I.
    destruct (encode_chunks c (es_init c) vms []) as [[? ?]| | |]; cbn [bind]; try exact I. discriminate H.
  - destruct (proto_validate_all (select_version c 0) msl) as [[]| | |]; cbn [bind]; try exact I.
    rewrite validate_all_vall. destruct (vall (e_preserve c) vs_init msl) as [vms| | |]; cbn [bind app]; try exact I.
    destruct (encode_chunks c (es_init c) vms []) as [[? ?]| | |]; cbn [bind]; try exact I. discriminate H.
Qed.

(* a chain: one list of parts per file, those of encode_parts, file by file; accepted iff every file is accepted *)
Fixpoint batch_parts (c : ecfg) (fs : list (list message)) (acc : list eparts) : outcome (list eparts) :=
  match fs with
  | [] => Ok acc
  | ms :: r => do p <- encode_parts c (mkefile 0 0 0 ms); batch_parts c r (acc ++ [p])
  end.

Theorem stream_sequences_spec c : reset_complete = true -> forall fs acc,
  match stream_sequences c (ss_init c) fs acc, batch_parts c fs acc with
  | Ok ps, Ok qs => ps = qs
  | Ok _, _ => False
  | _, Ok _ => False
  | _, _ => True
  end.
Proof.
  intros Hr. induction fs as [|ms fs IH]; intros acc; cbn [stream_sequences batch_parts].
  - reflexivity.
  - pose proof (stream_sequence_spec c ms Hr) as H.
    destruct (stream_sequence c (ss_init c) ms) as [[p s']| | |]; destruct (encode_parts c (mkefile 0 0 0 ms)) as [q| | |]; cbn [bind fst snd]; try exact I; try contradiction.
    destruct H as [-> ->]. apply IH.
Qed.

(* down to bytes: the destination content of a chain written through the stream encoder is encode_fits of the same files
   under the zero header, and one is accepted iff the other is *)
From Fit Require Import Proofs.WriterProofs.

Lemma batch_parts_fits c : forall fs acc accb, concat (map parts_bytes acc) = accb ->
  match batch_parts c fs acc, encode_fits c (map (mkefile 0 0 0) fs) accb with
  | Ok ps, Ok b => concat (map parts_bytes ps) = b
  | Ok _, _ => False
  | _, Ok _ => False
  | _, _ => True
  end.
Proof.
  induction fs as [|ms fs IH]; intros acc accb Hacc; cbn [batch_parts encode_fits map].
  - exact Hacc.
  - pose proof (parts_are_fit c (mkefile 0 0 0 ms)) as H.
    destruct (encode_parts c (mkefile 0 0 0 ms)) as [p| | |]; destruct (encode_fit c (mkefile 0 0 0 ms)) as [r| | |]; cbn [bind]; try exact I; try contradiction.
    apply IH. rewrite map_app, concat_app. cbn [map concat]. rewrite app_nil_r, Hacc. f_equal. exact H.
Qed.

Theorem stream_bytes_spec c fs : reset_complete = true ->
  match stream_bytes c fs, encode_fits c (map (mkefile 0 0 0) fs) [] with
  | Ok a, Ok b => a = b
  | Ok _, _ => False
  | _, Ok _ => False
  | _, _ => True
  end.
Proof.
  intros Hr. unfold stream_bytes.
  pose proof (stream_sequences_spec c Hr fs []) as H1.
  pose proof (batch_parts_fits c fs [] [] eq_refl) as H2.
  destruct (stream_sequences c (ss_init c) fs []) as [ps| | |]; destruct (batch_parts c fs []) as [qs| | |]; cbn [bind]; try contradiction;
    destruct (encode_fits c (map (mkefile 0 0 0) fs) []) as [b| | |]; try exact I; try contradiction.
  subst qs. exact H2.
Qed.

Lemma reset_complete_now : reset_complete = true. Proof. reflexivity. Qed.

(* what the message-level stream encoder writes is an output of encode_fits: every statement about encode_fits applies to it *)
Corollary stream_bytes_are_encode_fits c fs out : stream_bytes c fs = Ok out ->
  encode_fits c (map (mkefile 0 0 0) fs) [] = Ok out.
Proof.
  intros H. pose proof (stream_bytes_spec c fs reset_complete_now) as S. rewrite H in S.
  destruct (encode_fits c (map (mkefile 0 0 0) fs) []) as [b| | |]; try contradiction. now subst.
Qed.

From Fit Require Import Model.Writer.
From Coq Require Import ZArith.
(* ---- end to end: messages in, destination bytes out.  A chain of message lists written message by message through the
   stream encoder into a rewritable destination of any kind, through any write buffer: if the stream encoder accepts it, every
   call succeeds and the destination ends up holding exactly encode_fits of the same lists *)
Lemma batch_parts_ok c : forall fs acc ps, Forall parts_ok acc -> batch_parts c fs acc = Ok ps -> Forall parts_ok ps.
Proof.
  induction fs as [|ms fs IH]; intros acc ps Hacc; cbn [batch_parts].
  - intros H; injection H as <-. exact Hacc.
  - destruct (encode_parts c (mkefile 0 0 0 ms)) as [p| | |] eqn:E; cbn [bind]; try discriminate.
    intros H. eapply IH; [|exact H]. apply Forall_app. split; [exact Hacc|]. constructor; [|constructor]. eapply encode_parts_ok; exact E.
Qed.

Theorem stream_end_to_end c k size fss ps : (can_seek k || can_writeat k = true)%bool ->
  stream_sequences c (ss_init c) fss [] = Ok ps ->
  exists w', stream_chain (wst_new k size [] None) ps 0 [] = (repeat false (length ps), w') /\
             encode_fits c (map (mkefile 0 0 0) fss) [] = Ok (final_bytes w').
Proof.
  intros Hk Hs.
  pose proof (stream_sequences_spec c reset_complete_now fss []) as H1. rewrite Hs in H1.
  destruct (batch_parts c fss []) as [qs| | |] eqn:Eb; try contradiction. subst qs.
  assert (Hok : Forall parts_ok ps) by (eapply batch_parts_ok; [constructor|exact Eb]).
  destruct (wst_new_tidy k size) as (T & B & F).
  assert (Hc : (ew_seeker (wst_new k size [] None) || ew_writerat (wst_new k size [] None) = true)%bool).
  { unfold ew_seeker, ew_writerat, wst_new. cbn [w_kind w_size]. destruct k; cbn in Hk |- *; try discriminate; try reflexivity;
      destruct ((if (size <=? 0)%Z then 0 else Z.to_N size) =? 0); reflexivity. }
  destruct (stream_chain_spec ps _ 0 [] T B Hok Hc) as (w' & Hrun & _ & _ & Hfin).
  exists w'. cbn [rev app] in Hrun. split; [exact Hrun|].
  pose proof (batch_parts_fits c fss [] [] eq_refl) as H2. rewrite Eb in H2.
  destruct (encode_fits c (map (mkefile 0 0 0) fss) []) as [b| | |]; try contradiction.
  rewrite Hfin, F. cbn [app]. f_equal. rewrite <- H2. reflexivity.
Qed.
