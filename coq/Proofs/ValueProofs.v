(* C06: size = marshalled length; numeric/bool/string round trips; type tags are injective. *)
From Coq Require Import NArith ZArith List Lia Arith Bool ZifyN ZifyNat ZifyBool.
Import ListNotations.
From Fit Require Import Model.Value.
Open Scope N_scope.

(* ---- codecs *)
Lemma le_bytes_length w : forall x, length (le_bytes w x) = w.
Proof. induction w; intros; cbn [le_bytes length]; [reflexivity|]. f_equal. apply IHw. Qed.
Lemma le_bytes_ok w : forall x, Forall (fun b => b < 256) (le_bytes w x).
Proof. induction w; intros; cbn [le_bytes]; constructor; [apply N.mod_upper_bound; discriminate|apply IHw]. Qed.
Lemma le_roundtrip w : forall x, x < 256 ^ N.of_nat w -> le_word (le_bytes w x) = x.
Proof.
  induction w as [|w IH]; intros x Hx; cbn [le_bytes le_word].
  - cbn in Hx. lia.
  - rewrite IH.
    + pose proof (N.div_mod x 256 ltac:(discriminate)). lia.
    + rewrite Nat2N.inj_succ, N.pow_succ_r' in Hx. apply N.div_lt_upper_bound; [discriminate|exact Hx].
Qed.
Lemma enc_length big w x : length (enc big w x) = w.
Proof. unfold enc. destruct big; [rewrite rev_length|]; apply le_bytes_length. Qed.
Lemma enc_dec big w x : x < 256 ^ N.of_nat w -> dec big (enc big w x) = x.
Proof. intros H. unfold enc, dec. destruct big; [rewrite rev_involutive|]; apply le_roundtrip; exact H. Qed.
Lemma enc_ok big w x : Forall (fun b => b < 256) (enc big w x).
Proof. unfold enc. destruct big; [apply Forall_rev|]; apply le_bytes_ok. Qed.

Lemma width_pos t : (0 < width t)%nat. Proof. destruct t; cbn; lia. Qed.
Lemma len_app {A} (a b : list A) : len (a ++ b) = len a + len b.
Proof. unfold len. rewrite app_length. lia. Qed.

(* ---- size *)
Lemma marshal_elt_length big t x : length (marshal_elt big t x) = width t.
Proof. destruct t; cbn [marshal_elt width]; try apply enc_length; reflexivity. Qed.

Lemma str_bytes_size s : len (str_bytes s) = str_size s.
Proof.
  unfold str_bytes, str_size. destruct (rev s) as [|l r] eqn:E; [reflexivity|].
  destruct (l =? 0); [reflexivity|]. rewrite len_app. reflexivity.
Qed.
Lemma str_size_pos s : 0 < str_size s.
Proof.
  unfold str_size. destruct (rev s) as [|l r] eqn:E; [lia|].
  assert (Hl : (0 < length s)%nat).
  { destruct s; [discriminate|cbn; lia]. }
  unfold len. destruct (l =? 0); lia.
Qed.

Lemma fold_size_acc ss : forall a, fold_left (fun acc s => acc + str_size s) ss a = a + fold_left (fun acc s => acc + str_size s) ss 0.
Proof. induction ss as [|s ss IH]; intros a; cbn [fold_left]; [lia|]. rewrite IH, (IH (0 + str_size s)). lia. Qed.

Theorem size_marshal big v m : marshal big v = Some m -> len m = size v.
Proof.
  destruct v as [|t x|t l|s|ss]; cbn [marshal size]; intros H; try discriminate; injection H as <-.
  - unfold len. rewrite marshal_elt_length. reflexivity.
  - induction l as [|x l IH]; cbn [flat_map]; [reflexivity|].
    rewrite len_app, IH. unfold len. rewrite marshal_elt_length. cbn [length]. lia.
  - apply str_bytes_size.
  - destruct ss as [|s ss]; [reflexivity|].
    assert (Hgen : forall l, len (flat_map str_bytes l) = fold_left (fun acc s => acc + str_size s) l 0).
    { induction l as [|a l IH]; cbn [flat_map fold_left]; [reflexivity|].
      rewrite len_app, IH, str_bytes_size, (fold_size_acc l (0 + str_size a)). lia. }
    rewrite Hgen. cbn [fold_left]. rewrite fold_size_acc. pose proof (str_size_pos s).
    destruct (_ =? 0) eqn:E; [lia|reflexivity].
Qed.

(* ---- numeric round trip *)
Lemma chunks_flat big w : (0 < w)%nat -> forall l fuel, Forall (fun x => x < 256 ^ N.of_nat w) l -> (length l <= fuel)%nat ->
  chunks fuel big w (flat_map (enc big w) l) = l.
Proof.
  intros Hw. induction l as [|x l IH]; intros fuel Hok Hf.
  - destruct fuel; cbn [chunks flat_map]; [reflexivity|]. cbn [length].
    destruct (Nat.leb w 0) eqn:E; [apply Nat.leb_le in E; lia|reflexivity].
  - destruct fuel as [|fuel]; [cbn in Hf; lia|]. cbn [chunks flat_map]. inversion Hok as [|? ? Hx Hl]; subst.
    rewrite app_length, enc_length.
    replace (Nat.leb w (w + length (flat_map (enc big w) l))) with true by (symmetry; apply Nat.leb_le; lia).
    rewrite firstn_app, enc_length, Nat.sub_diag, firstn_O, app_nil_r.
    rewrite (firstn_all2 (n := w)) by (rewrite enc_length; lia).
    rewrite enc_dec by exact Hx. f_equal.
    rewrite skipn_app, enc_length, Nat.sub_diag, skipn_O.
    rewrite (skipn_all2 (n := w)) by (rewrite enc_length; lia). cbn [app].
    apply IH; [exact Hl|cbn in Hf; lia].
Qed.

Definition numeric (t : ntype) := match t with TBool => False | _ => True end.
(* the base types a value of element type t is written under *)
Definition bt_for (t : ntype) (bt : N) : Prop := bt <> bt_string /\ bt_ntype bt = Some (match t with TBool => TU8 | _ => t end).
Definition pt_for (t : ntype) (pt : N) : Prop := match t with TBool => pt = pt_Bool | TU8 => pt <> pt_Bool | _ => True end.

Lemma flat_map_length_const {A} (f : A -> bytes) w l : (forall x, length (f x) = w) -> length (flat_map f l) = (length l * w)%nat.
Proof. intros H. induction l as [|x l IH]; cbn [flat_map length]; [reflexivity|]. rewrite app_length, H, IH. lia. Qed.

Theorem roundtrip_scalar big t x bt pt m : elt_ok t x = true -> numeric t -> bt_for t bt -> pt_for t pt ->
  marshal big (VNum t x) = Some m -> unmarshal big bt pt false m = Ok (VNum t x).
Proof.
  intros Hx Hn [Hs Hbt] Hpt H. cbn [marshal] in H. injection H as <-.
  unfold unmarshal. apply N.eqb_neq in Hs. rewrite Hs, Hbt.
  unfold elt_ok in Hx. apply N.ltb_lt in Hx.
  destruct t; try contradiction; cbn [marshal_elt];
    try (rewrite enc_length; cbn [width Nat.ltb Nat.leb]; rewrite firstn_all2 by (rewrite enc_length; cbn; lia);
         rewrite enc_dec by exact Hx; reflexivity).
  (* TU8 *) cbn [pt_for] in Hpt. apply N.eqb_neq in Hpt. rewrite Hpt.
  rewrite enc_length; cbn [width Nat.ltb Nat.leb]; rewrite firstn_all2 by (rewrite enc_length; cbn; lia).
  rewrite enc_dec by exact Hx; reflexivity.
Qed.

Theorem roundtrip_array big t l bt pt m : forallb (elt_ok t) l = true -> numeric t -> bt_for t bt -> pt_for t pt ->
  marshal big (VArr t l) = Some m -> unmarshal big bt pt true m = Ok (VArr t l).
Proof.
  intros Hl Hn [Hs Hbt] Hpt H. cbn [marshal] in H. injection H as <-.
  unfold unmarshal. apply N.eqb_neq in Hs. rewrite Hs, Hbt.
  assert (Hm : flat_map (marshal_elt big t) l = flat_map (enc big (width t)) l).
  { destruct t; try contradiction; reflexivity. }
  rewrite Hm.
  assert (Hgoal : forall t', t' = t -> Ok (VArr t' (chunks (length (flat_map (enc big (width t)) l)) big (width t') (flat_map (enc big (width t)) l))) = Ok (VArr t l)).
  { intros t' ->. f_equal. f_equal. apply chunks_flat; [apply width_pos| |].
    - rewrite forallb_forall in Hl. apply Forall_forall. intros x Hin. specialize (Hl x Hin). unfold elt_ok in Hl. lia.
    - rewrite (flat_map_length_const _ (width t)) by (intros; apply enc_length). pose proof (width_pos t). nia. }
  destruct t; try contradiction; try (apply Hgoal; reflexivity).
  cbn [pt_for] in Hpt. apply N.eqb_neq in Hpt. rewrite Hpt. apply Hgoal; reflexivity.
Qed.

(* bool: scalar constructor keeps {0,1,255}; arrays come back with every element > 1 replaced by 255 *)
Theorem roundtrip_bool big x bt m : (x < 2 \/ x = 255) -> bt_for TBool bt ->
  marshal big (VNum TBool x) = Some m -> unmarshal big bt pt_Bool false m = Ok (VNum TBool x).
Proof.
  intros Hx [Hs Hbt] H. cbn [marshal marshal_elt] in H. injection H as <-.
  unfold unmarshal. apply N.eqb_neq in Hs. rewrite Hs, Hbt, N.eqb_refl. cbn [width length Nat.ltb Nat.leb firstn].
  assert (E : dec big [if 1 <? x then 255 else x] = (if 1 <? x then 255 else x)).
  { unfold dec. destruct big; cbn; lia. }
  rewrite E. unfold mk_bool, norm_bool. f_equal. f_equal.
  destruct Hx as [Hx| ->]; [|reflexivity].
  destruct (1 <? x) eqn:E1; [lia|]. rewrite E1. reflexivity.
Qed.

Theorem roundtrip_bool_array big l bt m : Forall (fun x => x < 256) l -> bt_for TBool bt ->
  marshal big (VArr TBool l) = Some m -> unmarshal big bt pt_Bool true m = Ok (VArr TBool (map norm_bool l)).
Proof.
  intros Hl [Hs Hbt] H. cbn [marshal] in H. injection H as <-.
  unfold unmarshal. apply N.eqb_neq in Hs. rewrite Hs, Hbt, N.eqb_refl. f_equal. f_equal.
  assert (Hm : flat_map (marshal_elt big TBool) l = flat_map (enc big 1) (map norm_bool l)).
  { induction l as [|x l IH]; [reflexivity|]. inversion Hl as [|? ? Hx Hr]; subst. cbn [flat_map map marshal_elt]. rewrite (IH Hr). f_equal.
    unfold norm_bool. assert (Hb : (if 1 <? x then 255 else x) < 256) by (destruct (1 <? x); lia).
    unfold enc. destruct big; cbn [le_bytes rev app]; rewrite N.mod_small by exact Hb; reflexivity. }
  rewrite Hm. cbn [width]. apply chunks_flat; [lia| |].
  - apply Forall_forall. intros y Hy. apply in_map_iff in Hy. destruct Hy as (x & <- & Hin).
    rewrite Forall_forall in Hl. specialize (Hl x Hin). unfold norm_bool. destruct (1 <? x); cbn; lia.
  - rewrite (flat_map_length_const _ 1%nat) by (intros; apply enc_length). rewrite map_length. lia.
Qed.

(* ---- strings *)
Inductive clean : bytes -> Prop :=
| clean_nil : clean []
| clean_seq n s r : seq_len (s ++ r) = Some n -> length s = n -> hd 1 s <> 0 -> is_fffd s = false -> clean r -> clean (s ++ r).

Lemma seq_len_pos b n : seq_len b = Some n -> (1 <= n <= 4)%nat /\ (n <= length b)%nat.
Proof.
  unfold seq_len. destruct b as [|p0 r]; [discriminate|].
  destruct (p0 <=? 0x7F); [intros H; injection H as <-; cbn; lia|].
  destruct (between 0xC2 0xDF p0).
  { destruct r as [|b1 r]; [discriminate|]. destruct (cont b1); [|discriminate]. intros H; injection H as <-; cbn; lia. }
  destruct (between 0xE0 0xEF p0).
  { destruct r as [|b1 [|b2 r]]; try discriminate. destruct (_ && _); [|discriminate]. intros H; injection H as <-; cbn; lia. }
  destruct (between 0xF0 0xF4 p0); [|discriminate].
  destruct r as [|b1 [|b2 [|b3 r]]]; try discriminate. destruct (_ && _ && _); [|discriminate]. intros H; injection H as <-; cbn; lia.
Qed.

(* seq_len only inspects the first n bytes *)
Lemma seq_len_prefix s r rest n : seq_len (s ++ r) = Some n -> length s = n -> seq_len (s ++ r ++ rest) = Some n.
Proof.
  intros Hseq Hlen. destruct (seq_len_pos _ _ Hseq) as [[Hn1 Hn4] _].
  destruct s as [|s0 s']; [cbn in Hlen; lia|].
  revert Hseq. unfold seq_len. cbn [app].
  destruct (s0 <=? 0x7F); [auto|]. destruct (between 0xC2 0xDF s0).
  { destruct s' as [|b1 s']; [cbn in Hlen|]; cbn [app].
    - destruct r as [|r0 r]; [discriminate|]. cbn [app]. destruct (cont r0); [intros H; injection H as <-; cbn in Hlen; lia|discriminate].
    - auto. }
  destruct (between 0xE0 0xEF s0).
  { destruct s' as [|b1 [|b2 s']]; cbn [app]; auto.
    - destruct r as [|r0 [|r1 r]]; try discriminate. cbn [app]. destruct (_ && _); [intros H; injection H as <-; cbn in Hlen; lia|discriminate].
    - destruct r as [|r0 r]; try discriminate. cbn [app]. destruct (_ && _); [intros H; injection H as <-; cbn in Hlen; lia|discriminate]. }
  destruct (between 0xF0 0xF4 s0); [|auto].
  destruct s' as [|b1 [|b2 [|b3 s']]]; cbn [app]; auto.
  - destruct r as [|r0 [|r1 [|r2 r]]]; try discriminate. cbn [app]. destruct (_ && _ && _); [intros H; injection H as <-; cbn in Hlen; lia|discriminate].
  - destruct r as [|r0 [|r1 r]]; try discriminate. cbn [app]. destruct (_ && _ && _); [intros H; injection H as <-; cbn in Hlen; lia|discriminate].
  - destruct r as [|r0 r]; try discriminate. cbn [app]. destruct (_ && _ && _); [intros H; injection H as <-; cbn in Hlen; lia|discriminate].
Qed.

Definition stops (rest : bytes) := match rest with [] => True | x :: _ => x = 0 end.

Theorem utf8_string_clean s : clean s -> forall rest fuel, (length s < fuel)%nat -> stops rest ->
  utf8_string_fuel fuel (s ++ rest) = s.
Proof.
  induction 1 as [|n s r Hseq Hlen Hnz Hf Hclean IH]; intros rest fuel Hfuel Hstop.
  - destruct fuel; [cbn in Hfuel; lia|]. cbn [app utf8_string_fuel]. destruct rest as [|x rest]; [reflexivity|].
    cbn in Hstop. subst x. reflexivity.
  - destruct fuel as [|fuel]; [lia|].
    destruct (seq_len_pos _ _ Hseq) as [[Hn1 Hn4] _].
    pose proof (seq_len_prefix s r rest n Hseq Hlen) as Hseq'.
    destruct s as [|s0 s']; [cbn in Hlen; lia|]. cbn [hd] in Hnz.
    rewrite <- app_assoc. cbn [app utf8_string_fuel]. cbn [app] in Hseq'.
    destruct s0 as [|p0]; [contradiction|]. rewrite Hseq'.
    change (N.pos p0 :: s' ++ r ++ rest) with ((N.pos p0 :: s') ++ r ++ rest).
    rewrite firstn_app, <- Hlen, Nat.sub_diag, firstn_all, firstn_O, app_nil_r.
    rewrite skipn_app, Nat.sub_diag, skipn_all, skipn_O. cbn [app].
    rewrite Hf. rewrite IH; [reflexivity| |exact Hstop]. rewrite app_length in Hfuel. cbn in Hfuel, Hlen. lia.
Qed.

(* no byte of a clean string is NUL *)
Lemma seq_nonzero s r n : seq_len (s ++ r) = Some n -> length s = n -> hd 1 s <> 0 -> Forall (fun b => b <> 0) s.
Proof.
  intros Hseq Hlen Hnz. destruct s as [|s0 s']; [constructor|]. cbn [hd] in Hnz. constructor; [exact Hnz|].
  revert Hseq. unfold seq_len. cbn [app].
  destruct (s0 <=? 0x7F). { intros H; injection H as <-. destruct s'; [constructor|cbn in Hlen; lia]. }
  unfold cont, between.
  destruct (_ && _).
  { destruct s' as [|b1 s']; [constructor|]. cbn [app]. destruct (_ && _) eqn:E; [|discriminate]. intros H; injection H as <-.
    destruct s'; [|cbn in Hlen; lia]. repeat constructor. lia. }
  destruct (_ && _).
  { destruct s' as [|b1 [|b2 s']]; cbn [app].
    - constructor.
    - destruct r as [|r0 r]; [discriminate|]. destruct (_ && _) eqn:E; [|discriminate]. intros H; injection H as <-. cbn in Hlen. lia.
    - destruct (_ && _) eqn:E; [|discriminate]. intros H; injection H as <-. destruct s'; [|cbn in Hlen; lia].
      repeat constructor; destruct (s0 =? 224), (s0 =? 237); lia. }
  destruct (_ && _); [|discriminate].
  destruct s' as [|b1 [|b2 [|b3 s']]]; cbn [app].
  - constructor.
  - destruct r as [|r0 [|r1 r]]; try discriminate. destruct (_ && _ && _); [|discriminate]. intros H; injection H as <-. cbn in Hlen. lia.
  - destruct r as [|r0 r]; try discriminate. destruct (_ && _ && _); [|discriminate]. intros H; injection H as <-. cbn in Hlen. lia.
  - destruct (_ && _ && _) eqn:E; [|discriminate]. intros H; injection H as <-. destruct s'; [|cbn in Hlen; lia].
    repeat constructor; destruct (s0 =? 240), (s0 =? 244); lia.
Qed.
Lemma clean_nonzero s : clean s -> Forall (fun b => b <> 0) s.
Proof. induction 1 as [|n s r Hseq Hlen Hnz Hf Hc IH]; [constructor|]. apply Forall_app. split; [eapply seq_nonzero; eassumption|exact IH]. Qed.

Lemma str_bytes_clean s : clean s -> str_bytes s = s ++ [0].
Proof.
  intros Hc. unfold str_bytes. destruct (rev s) as [|l r] eqn:E.
  - apply (f_equal (@rev N)) in E. rewrite rev_involutive in E. subst s. reflexivity.
  - pose proof (clean_nonzero s Hc) as Hnz. assert (Hin : In l s) by (apply in_rev; rewrite E; left; reflexivity).
    rewrite Forall_forall in Hnz. specialize (Hnz l Hin). apply N.eqb_neq in Hnz. rewrite Hnz. reflexivity.
Qed.

Theorem roundtrip_string big s pt m : clean s ->
  marshal big (VStr s) = Some m -> unmarshal big bt_string pt false m = Ok (VStr s).
Proof.
  intros Hc H. cbn [marshal] in H. injection H as <-. unfold unmarshal. rewrite N.eqb_refl. f_equal. f_equal.
  rewrite (str_bytes_clean s Hc). unfold utf8_string. apply utf8_string_clean; [exact Hc| |reflexivity].
  rewrite app_length. cbn. lia.
Qed.

(* string slices: clean non-empty elements come back as they are *)
Lemma split_nul_seg s : Forall (fun b => b <> 0) s -> forall cur rest,
  split_nul cur (s ++ 0 :: rest) = (rev cur ++ s) :: split_nul [] rest.
Proof.
  induction 1 as [|x s Hx Hs IH]; intros cur rest; cbn [app split_nul].
  - rewrite app_nil_r. reflexivity.
  - destruct x as [|p]; [contradiction|]. rewrite IH. cbn [rev]. rewrite <- app_assoc. reflexivity.
Qed.

Lemma strings_split l : Forall (fun s => clean s /\ s <> []) l -> split_nul [] (flat_map str_bytes l) = l.
Proof.
  induction l as [|s l IH]; intros Hss; [reflexivity|]. inversion Hss as [|? ? [Hc Hn] Hr]; subst. cbn [flat_map].
  rewrite (str_bytes_clean s Hc), <- app_assoc. cbn [app]. rewrite (split_nul_seg s (clean_nonzero s Hc)). cbn [rev app].
  rewrite (IH Hr). reflexivity.
Qed.
Lemma strings_nonempty l : Forall (fun s : bytes => clean s /\ s <> []) l -> filter nonempty l = l.
Proof.
  induction l as [|s l IH]; intros Hss; [reflexivity|]. inversion Hss as [|? ? [Hc Hn] Hr]; subst. cbn [filter].
  destruct s; [exfalso; apply Hn; reflexivity|]. cbn [nonempty]. rewrite (IH Hr). reflexivity.
Qed.
Lemma strings_utf8 l : Forall (fun s : bytes => clean s /\ s <> []) l -> map utf8_string l = l.
Proof.
  induction l as [|s l IH]; intros Hss; [reflexivity|]. inversion Hss as [|? ? [Hc Hn] Hr]; subst. cbn [map]. rewrite (IH Hr). f_equal.
  unfold utf8_string. rewrite <- (app_nil_r s) at 2. apply utf8_string_clean; [exact Hc|lia|exact I].
Qed.

Theorem roundtrip_strings big ss pt m : Forall (fun s => clean s /\ s <> []) ss -> ss <> [] ->
  marshal big (VStrs ss) = Some m -> unmarshal big bt_string pt true m = Ok (VStrs ss).
Proof.
  intros Hss Hne H. cbn [marshal] in H. injection H as <-. unfold unmarshal. rewrite N.eqb_refl. f_equal. f_equal.
  assert (Hm : match ss with [] => [0] | _ :: _ => flat_map str_bytes ss end = flat_map str_bytes ss).
  { destruct ss; [contradiction|reflexivity]. }
  rewrite Hm. unfold unmarshal_strings.
  rewrite (strings_split ss Hss), (strings_nonempty ss Hss), (strings_utf8 ss Hss). apply strings_nonempty. exact Hss.
Qed.

(* ---- types: no value of one type is reported as another (tags come from gen/Consts.v) *)
Definition all_ntypes := [TBool; TI8; TU8; TI16; TU16; TI32; TU32; TI64; TU64; TF32; TF64].
Definition all_tags : list N := TypeInvalid :: map scalar_tag all_ntypes ++ TypeString :: map slice_tag all_ntypes ++ [TypeSliceString].
Lemma tags_distinct : NoDup all_tags.
Proof. vm_compute. repeat (constructor; [cbn; intuition discriminate|]). constructor. Qed.

Definition shape (v : value) : N * option ntype :=
  match v with VInvalid => (0, None) | VNum t _ => (1, Some t) | VArr t _ => (2, Some t) | VStr _ => (3, None) | VStrs _ => (4, None) end.
Theorem type_tag_injective v w : type_tag v = type_tag w -> shape v = shape w.
Proof.
  destruct v as [|t x|t l|s|ss], w as [|u y|u k|s'|ss']; cbn [type_tag shape];
    try destruct t; try destruct u; vm_compute; intros H; try reflexivity; try discriminate H.
Qed.
(* size, align, valid and marshalling of numeric data depend on the value only through its tag and content,
   and a tag determines the wire width *)
Theorem size_by_type t x y : size (VNum t x) = size (VNum t y).
Proof. reflexivity. Qed.
