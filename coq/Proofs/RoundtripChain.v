(* C01, chained files: what the encoder writes for a list of files is the concatenation of the single-file outputs, and the decoder
   model, looping over the stream as a caller does with Next/Decode, returns one sequence per file, each related to its input as the
   single-file theorems say (Proofs/RoundtripSeq.v, Proofs/RoundtripComp.v): a decoder leaves every sequence in the state a fresh
   decoder starts in (definitions, timestamps, counters), so sequences do not interfere. *)
From Coq Require Import NArith ZArith List Lia Bool ZifyN ZifyNat ZifyBool.
Import ListNotations.
From Fit Require Import Model.Encoder Proofs.EncoderProofs Proofs.IntegrityModel Proofs.RoundtripSeq Proofs.RoundtripComp Proofs.RoundtripDev.
Open Scope N_scope.

Lemma encode_fits_concat c : forall fs acc out, encode_fits c fs acc = Ok out ->
  exists rs, Forall2 (fun f r => encode_fit c f = Ok r) fs rs /\ out = acc ++ concat (map er_bytes rs).
Proof.
  induction fs as [|f fs IH]; intros acc out H; cbn [encode_fits] in H.
  - injection H as <-. exists []. split; [constructor|]. cbn. rewrite app_nil_r. reflexivity.
  - unfold bind in H. destruct (encode_fit c f) as [r| | |] eqn:E; try discriminate.
    destruct (IH _ _ H) as (rs & HF & ->). exists (r :: rs). split; [constructor; assumption|]. cbn [map concat]. rewrite app_assoc. reflexivity.
Qed.

Section Chain.
Variable dc : dcfg.
Variable Good : eresult -> Prop.                                 (* what is asked of one file's result *)
Variable Rel : list message -> list message -> Prop.             (* decoded messages vs validated input messages *)
Variable Bnd : dstate -> Prop.                                   (* the decoder between sequences *)
Hypothesis Bnd_init : forall bs, Bnd (init_state bs).
Hypothesis one : forall r s tail, Good r -> Bnd s -> s_rest s = er_bytes r ++ tail ->
  exists ft s', decode_one dc s = Ok (ft, s') /\ Rel (fit_msgs ft) (er_msgs r) /\ Bnd s' /\ s_rest s' = tail.
Hypothesis nonempty : forall r, Good r -> er_bytes r <> [].

Lemma chain_loop : forall rs fuel s out, Forall Good rs -> Bnd s -> s_rest s = concat (map er_bytes rs) -> (length (s_rest s) < fuel)%nat ->
  (rs = [] -> out <> []) ->
  exists fts, fst (decode_all fuel dc s out) = Ok (rev out ++ fts) /\ Forall2 (fun ft r => Rel (fit_msgs ft) (er_msgs r)) fts rs.
Proof.
  induction rs as [|r rs IH]; intros fuel s out HG Hb Hrest Hfuel Hne.
  - cbn [map concat] in Hrest. destruct fuel as [|fuel]; [lia|]. cbn [decode_all]. rewrite Hrest.
    destruct out as [|o out']; [exfalso; apply Hne; reflexivity|]. exists []. cbn [fst]. rewrite app_nil_r. split; [reflexivity|constructor].
  - inversion HG as [|? ? Hr Hrs]; subst. cbn [map concat] in Hrest.
    destruct (one r s (concat (map er_bytes rs)) Hr Hb Hrest) as (ft & s' & D & HR & Hb' & Hrest').
    destruct fuel as [|fuel]; [lia|]. cbn [decode_all].
    assert (Hns : s_rest s <> []) by (rewrite Hrest; intros Habs; apply app_eq_nil in Habs; destruct Habs as [Habs _]; exact (nonempty r Hr Habs)).
    assert (Hfirst : forall X Y : outcome (list fit) * list event, match s_rest s, out with [], _ :: _ => X | _, _ => Y end = Y).
    { intros X Y. destruct (s_rest s); [contradiction|reflexivity]. }
    rewrite Hfirst, D.
    destruct (IH fuel s' (ft :: out) Hrs Hb' Hrest') as (fts & Hd & HF).
    + rewrite Hrest'. rewrite Hrest, app_length in Hfuel. destruct (er_bytes r) eqn:Eb; [exfalso; exact (nonempty r Hr Eb)|cbn [length] in Hfuel; lia].
    + intros _. discriminate.
    + exists (ft :: fts). split; [rewrite Hd; cbn [rev]; rewrite <- app_assoc; reflexivity|constructor; assumption].
Qed.

Theorem chain_roundtrip rs : rs <> [] -> Forall Good rs ->
  exists fts, decode_stream dc (concat (map er_bytes rs)) = Ok fts /\ Forall2 (fun ft r => Rel (fit_msgs ft) (er_msgs r)) fts rs.
Proof.
  intros Hne HG. unfold decode_stream.
  destruct (chain_loop rs (S (length (concat (map er_bytes rs)))) (init_state (concat (map er_bytes rs))) [] HG) as (fts & Hd & HF).
  - apply Bnd_init.
  - reflexivity.
  - cbn. lia.
  - intros Habs. contradiction.
  - exists fts. split; [exact Hd|exact HF].
Qed.
End Chain.

Lemma encode_fit_nonempty c f r : encode_fit c f = Ok r -> er_bytes r <> [].
Proof.
  intros H. destruct (encode_fit_inv c f r H) as (hb & records & st & ver & pv & Hb & _ & _ & Hl & _). rewrite Hb.
  destruct hb; [unfold len in Hl; cbn in Hl; destruct (ef_hsize f =? 12); lia|discriminate].
Qed.

(* chains under normal headers *)
Theorem chain_roundtrip_normal c dc fs out : e_compressed c = false -> c_checksum dc = false -> c_expand dc = false -> 765 <= c_bufsize dc ->
  fs <> [] -> encode_fits c fs [] = Ok out ->
  exists rs, Forall2 (fun f r => encode_fit c f = Ok r) fs rs /\ out = concat (map er_bytes rs) /\
    (Forall (fun r => Forall (msg_rt (e_big c)) (er_msgs r) /\ len (er_bytes r) < 4294967296) rs ->
     exists fts, decode_stream dc out = Ok fts /\ Forall2 (fun ft r => map content (fit_msgs ft) = map content (er_msgs r)) fts rs).
Proof.
  intros Hcomp Hck Hex Hbuf Hne Henc. destruct (encode_fits_concat c fs [] out Henc) as (rs & HF & Hout). cbn [app] in Hout.
  exists rs. split; [exact HF|]. split; [exact Hout|]. intros Hgood. subst out.
  apply (chain_roundtrip dc (fun r => (exists f, encode_fit c f = Ok r) /\ Forall (msg_rt (e_big c)) (er_msgs r) /\ len (er_bytes r) < 4294967296)
           (fun ms' ms => map content ms' = map content ms) boundary_state).
  - intros bs. unfold boundary_state, bufok. cbn. repeat split; lia.
  - intros r s tail ((f & Hf) & Hm & Hl) Hb Hr. apply (one_sequence_rt c f r dc s tail); assumption.
  - intros r ((f & Hf) & _). eapply encode_fit_nonempty; exact Hf.
  - destruct rs; [inversion HF; subst; contradiction|discriminate].
  - clear Hne Henc. induction HF as [|f r fs rs Hfr HF IH]; [constructor|]. inversion Hgood as [|? ? [H1 H2] H3]; subst.
    constructor; [split; [exists f; exact Hfr|split; assumption]|apply IH; exact H3].
Qed.

(* chains under the compressed-timestamp option *)
Theorem chain_roundtrip_compressed c dc fs out : e_compressed c = true -> encoder_tracks_last_timestamp = true ->
  c_checksum dc = false -> c_expand dc = false -> 765 <= c_bufsize dc ->
  fs <> [] -> encode_fits c fs [] = Ok out ->
  exists rs, Forall2 (fun f r => encode_fit c f = Ok r) fs rs /\ out = concat (map er_bytes rs) /\
    (Forall (fun r => Forall (msg_rtc (e_big c)) (er_msgs r) /\ len (er_bytes r) < 4294967296) rs ->
     exists fts, decode_stream dc out = Ok fts /\ Forall2 (fun ft r => Forall2 msg_sim (fit_msgs ft) (er_msgs r)) fts rs).
Proof.
  intros Hcomp Hflag Hck Hex Hbuf Hne Henc. destruct (encode_fits_concat c fs [] out Henc) as (rs & HF & Hout). cbn [app] in Hout.
  exists rs. split; [exact HF|]. split; [exact Hout|]. intros Hgood. subst out.
  apply (chain_roundtrip dc (fun r => (exists f, encode_fit c f = Ok r) /\ Forall (msg_rtc (e_big c)) (er_msgs r) /\ len (er_bytes r) < 4294967296)
           (fun ms' ms => Forall2 msg_sim ms' ms) boundary_state).
  - intros bs. unfold boundary_state, bufok. cbn. repeat split; lia.
  - intros r s tail ((f & Hf) & Hm & Hl) Hb Hr. apply (one_sequence_rtc c f r dc s tail); assumption.
  - intros r ((f & Hf) & _). eapply encode_fit_nonempty; exact Hf.
  - destruct rs; [inversion HF; subst; contradiction|discriminate].
  - clear Hne Henc. induction HF as [|f r fs rs Hfr HF IH]; [constructor|]. inversion Hgood as [|? ? [H1 H2] H3]; subst.
    constructor; [split; [exists f; exact Hfr|split; assumption]|apply IH; exact H3].
Qed.

(* chains with developer fields (normal headers): every file starts with an empty list of field descriptions *)
Theorem chain_roundtrip_dev c dc fs out : e_compressed c = false -> c_checksum dc = false -> c_expand dc = false -> 765 <= c_bufsize dc ->
  fs <> [] -> encode_fits c fs [] = Ok out ->
  exists rs, Forall2 (fun f r => encode_fit c f = Ok r) fs rs /\ out = concat (map er_bytes rs) /\
    (Forall (fun r => msgs_rtd (e_big c) [] (er_msgs r) /\ len (er_bytes r) < 4294967296) rs ->
     exists fts, decode_stream dc out = Ok fts /\ Forall2 (fun ft r => map content (fit_msgs ft) = map content (er_msgs r)) fts rs).
Proof.
  intros Hcomp Hck Hex Hbuf Hne Henc. destruct (encode_fits_concat c fs [] out Henc) as (rs & HF & Hout). cbn [app] in Hout.
  exists rs. split; [exact HF|]. split; [exact Hout|]. intros Hgood. subst out.
  apply (chain_roundtrip dc (fun r => (exists f, encode_fit c f = Ok r) /\ msgs_rtd (e_big c) [] (er_msgs r) /\ len (er_bytes r) < 4294967296)
           (fun ms' ms => map content ms' = map content ms) boundary_d).
  - intros bs. unfold boundary_d, boundary_state, bufok. cbn. repeat split; lia.
  - intros r s tail ((f & Hf) & Hm & Hl) Hb Hr. apply (one_sequence_rtd c f r dc s tail); assumption.
  - intros r ((f & Hf) & _). eapply encode_fit_nonempty; exact Hf.
  - destruct rs; [inversion HF; subst; contradiction|discriminate].
  - clear Hne Henc. induction HF as [|f r fs rs Hfr HF IH]; [constructor|]. inversion Hgood as [|? ? [H1 H2] H3]; subst.
    constructor; [split; [exists f; exact Hfr|split; assumption]|apply IH; exact H3].
Qed.
