(* C14 -- proofs about the generic file-type model (Model/Filedef.v): conservation with singleton last-wins,
   prefix order, sortedness and stability of the timestamp order.  Everything is for an arbitrary
   specification satisfying the decidable [wf_fspec]; Inst/FiledefInst.v shows that the translated
   specifications of all file types satisfy it. *)
From Coq Require Import NArith ZArith List Bool Permutation Sorted Lia.
Import ListNotations.
From Fit Require Import Model.Filedef.
Open Scope N_scope.

(* ================================================================ stable insertion sort *)
Section SortProofs.
Context {A : Type} (le : A -> A -> bool).

Lemma insert_perm x l : Permutation (x :: l) (insert le x l).
Proof.
  induction l as [|y r IH]; cbn; [reflexivity|]. destruct (le x y); [reflexivity|].
  etransitivity; [apply perm_swap|]. constructor. exact IH.
Qed.
Theorem isort_perm l : Permutation l (isort le l).
Proof. induction l as [|x r IH]; cbn; [constructor|]. etransitivity; [constructor; exact IH|apply insert_perm]. Qed.

Hypothesis le_total : forall a b, le a b = true \/ le b a = true.
Hypothesis le_trans : forall a b c, le a b = true -> le b c = true -> le a c = true.

Definition sorted (l : list A) := StronglySorted (fun a b => le a b = true) l.

Lemma insert_sorted x l : sorted l -> sorted (insert le x l).
Proof.
  induction 1 as [|y r Hs IH Hall]; cbn; [repeat constructor|].
  destruct (le x y) eqn:E.
  - constructor; [constructor; assumption|]. constructor; [exact E|]. rewrite Forall_forall in *. intros z Hz.
    eapply le_trans; [exact E|apply Hall; exact Hz].
  - assert (Hyx : le y x = true) by (destruct (le_total x y); congruence).
    constructor; [exact IH|]. rewrite Forall_forall in *. intros z Hz.
    apply (Permutation_in _ (Permutation_sym (insert_perm x r))) in Hz. destruct Hz as [<-|Hz]; [exact Hyx|apply Hall; exact Hz].
Qed.
Theorem isort_sorted l : sorted (isort le l).
Proof. induction l as [|x r IH]; cbn; [constructor|apply insert_sorted; exact IH]. Qed.

(* stability: any class of mutually "<=" elements keeps its relative order *)
Variable p : A -> bool.
Hypothesis p_le : forall x y, p x = true -> p y = true -> le x y = true.
Lemma insert_stable x l : filter p (insert le x l) = filter p (x :: l).
Proof.
  induction l as [|y r IH]; cbn [insert]; [reflexivity|].
  destruct (le x y) eqn:E; [reflexivity|].
  cbn [filter] in *. rewrite IH.
  destruct (p x) eqn:Ex, (p y) eqn:Ey; try reflexivity.
  rewrite (p_le x y Ex Ey) in E. discriminate.
Qed.
Theorem isort_stable l : filter p (isort le l) = filter p l.
Proof.
  induction l as [|x r IH]; cbn [isort fold_right]; [reflexivity|]. fold (isort le r). rewrite insert_stable. cbn [filter]. rewrite IH. reflexivity.
Qed.
End SortProofs.

Lemma insert_ext {A} (f g : A -> A -> bool) (H : forall a b, f a b = g a b) x l : insert f x l = insert g x l.
Proof. induction l as [|y r IH]; cbn; [reflexivity|]. rewrite H, IH. reflexivity. Qed.
Lemma isort_ext {A} (f g : A -> A -> bool) (H : forall a b, f a b = g a b) l : isort f l = isort g l.
Proof. induction l as [|x r IH]; [reflexivity|]. cbn [isort fold_right]. fold (isort f r). fold (isort g r). rewrite IH. apply insert_ext, H. Qed.

(* the translated comparator is the stated order *)
Lemma kle_total k a b : kle k a b = true \/ kle k b a = true.
Proof. unfold kle. destruct (k a), (k b); auto. destruct (N.leb_spec n n0); [left; reflexivity|right; apply N.leb_le; lia]. Qed.
Lemma kle_trans k a b c : kle k a b = true -> kle k b c = true -> kle k a c = true.
Proof. unfold kle. destruct (k a), (k b), (k c); try discriminate; auto. intros H1 H2. apply N.leb_le in H1, H2. apply N.leb_le. lia. Qed.
Lemma same_key_kle kf k x y : same_key kf k x = true -> same_key kf k y = true -> kle kf x y = true.
Proof.
  unfold same_key, kle. destruct k, (kf x), (kf y); try discriminate; auto.
  intros H1 H2. apply N.eqb_eq in H1, H2. subst. apply N.leb_refl.
Qed.

Lemma cle_kle c : wf_cmp c = true -> forall a b, cle c a b = kle (key c) a b.
Proof.
  unfold wf_cmp. intros H a b. repeat (apply andb_prop in H; destruct H as [H ?]).
  unfold cle, compare, kle. destruct (key c a) as [x|], (key c b) as [y|].
  - destruct (N.ltb_spec x y); [|destruct (N.ltb_spec y x)].
    + transitivity true; [apply Z.leb_le; lia|symmetry; apply N.leb_le; lia].
    + transitivity false; [apply Z.leb_gt; lia|symmetry; apply N.leb_gt; lia].
    + transitivity true; [apply Z.leb_le; lia|symmetry; apply N.leb_le; lia].
  - apply Z.leb_gt; lia.
  - apply Z.leb_le; lia.
  - apply Z.leb_le; lia.
Qed.

Lemma sort_by_kle c : wf_cmp c = true -> forall l, sort_by c l = isort (kle (key c)) l.
Proof. intros H l. apply isort_ext, cle_kle, H. Qed.

Lemma sorted_b_spec le l : sorted_b le l = true <-> sorted le l.
Proof.
  induction l as [|x r IH]; cbn; [split; [constructor|reflexivity]|].
  rewrite andb_true_iff, forallb_forall, IH. split.
  - intros [H1 H2]. constructor; [exact H2|]. apply Forall_forall. exact H1.
  - intros H. inversion H as [|? ? H2 H1]; subst. split; [apply Forall_forall; exact H1|exact H2].
Qed.

(* ================================================================ boolean reflection helpers *)
Lemma memb_In x l : memb x l = true <-> In x l.
Proof.
  unfold memb. rewrite existsb_exists. split.
  - intros (y & Hy & E). apply N.eqb_eq in E. subst. exact Hy.
  - intros H. exists x. split; [exact H|apply N.eqb_refl].
Qed.
Lemma nodupb_NoDup l : nodupb l = true -> NoDup l.
Proof.
  induction l as [|x r IH]; cbn; [constructor|]. rewrite andb_true_iff, negb_true_iff. intros [H1 H2].
  constructor; [|apply IH, H2]. intros Hin. apply memb_In in Hin. unfold memb in Hin. congruence.
Qed.
Lemma NoDup_map_inj {X Y} (f : X -> Y) l a b : NoDup (map f l) -> In a l -> In b l -> f a = f b -> a = b.
Proof.
  induction l as [|x r IH]; cbn; [tauto|]. intros Hnd Ha Hb E. inversion Hnd as [|? ? Hn Hnd']; subst.
  destruct Ha as [<-|Ha], Hb as [<-|Hb]; auto.
  - exfalso. apply Hn. rewrite E. apply in_map, Hb.
  - exfalso. apply Hn. rewrite <- E. apply in_map, Ha.
Qed.
Lemma find_In {X} (f : X -> bool) l x : find f l = Some x -> In x l /\ f x = true.
Proof. apply find_some. Qed.
Lemma flat_map_ext_in {X Y} (f g : X -> list Y) (l : list X) : (forall a, In a l -> f a = g a) -> flat_map f l = flat_map g l.
Proof. induction l as [|a r IH]; intros H; cbn; [reflexivity|]. rewrite (H a (or_introl eq_refl)), IH; [reflexivity|]. intros b Hb. apply H. right. exact Hb. Qed.
Lemma flat_map_all_nil {X Y} (f : X -> list Y) (l : list X) : (forall a, In a l -> f a = []) -> flat_map f l = [].
Proof. induction l as [|a r IH]; intros H; cbn; [reflexivity|]. rewrite (H a (or_introl eq_refl)), IH; [reflexivity|]. intros b Hb. apply H. right. exact Hb. Qed.

(* replacing the contribution of one slot *)
Lemma flat_map_upd_perm {Y} (F G : N -> list Y) (x : Y) (Z : list Y) s0 : forall ks, NoDup ks -> In s0 ks ->
  (forall s, s <> s0 -> F s = G s) -> Permutation (F s0) (x :: G s0) ->
  Permutation (flat_map F ks ++ Z) (flat_map G ks ++ x :: Z).
Proof.
  induction ks as [|k ks IH]; intros Hnd Hin Hoth H0; [destruct Hin|].
  inversion Hnd as [|? ? Hnotin Hnd']; subst. cbn [flat_map].
  destruct (N.eq_dec k s0) as [->|Hne].
  - assert (Hrest : flat_map F ks = flat_map G ks).
    { apply flat_map_ext_in. intros k Hk. apply Hoth. intros ->. contradiction. }
    rewrite Hrest, <- !app_assoc.
    etransitivity; [apply Permutation_app_tail; exact H0|]. cbn.
    rewrite !app_assoc. apply Permutation_middle.
  - destruct Hin as [->|Hin]; [contradiction|]. rewrite (Hoth k Hne), <- !app_assoc.
    apply Permutation_app_head. apply IH; assumption.
Qed.

(* ================================================================ Add as a per-slot fold *)
Definition step (sp : fspec) (s : N) (acc : list msg) (m : msg) : list msg :=
  match target sp m with
  | Some (s', ap) => if s =? s' then (if ap then acc ++ [stored sp m] else [stored sp m]) else acc
  | None => acc
  end.
Lemma add_at sp st m s : add sp st m s = step sp s (st s) m.
Proof. unfold add, step. destruct (target sp m) as [[s' [|]]|]; unfold upd; try reflexivity. destruct (N.eqb_spec s s'); subst; reflexivity. Qed.
Lemma fold_add_at sp ms : forall st s, fold_left (add sp) ms st s = fold_left (step sp s) ms (st s).
Proof. induction ms as [|m r IH]; intros st s; cbn; [reflexivity|]. rewrite IH, add_at. reflexivity. Qed.

Lemma stored_typed sp m c : dispatch sp (m_num m) = Some c -> ac_ctor c = ac_num c -> stored sp m = norm m.
Proof.
  intros Hd Hc. unfold stored. rewrite Hd. apply find_In in Hd. destruct Hd as [_ E]. apply N.eqb_eq in E.
  rewrite Hc, E. destruct m; reflexivity.
Qed.

(* ================================================================ what wf_fspec gives *)
Record facts (sp : fspec) : Prop := {
  F_nodup : NoDup (emit_order sp);
  F_slots : NoDup (map ac_slot (fs_add sp));
  F_nums : NoDup (map ac_num (fs_add sp));
  F_default : exists u cl, fs_default sp = Some (u, cl) /\ ~ In u (map ac_slot (fs_add sp)) /\ In u (emit_order sp) /\
                           exists tys, emit_order sp = tys ++ [u];
  F_case_in : forall c, In c (fs_add sp) -> In (ac_slot c) (emit_order sp);
  F_ctor : forall c, In c (fs_add sp) -> ac_ctor c = ac_num c;
  F_prefix : exists s0 s1 s2 rest c0 c1 c2, emit_order sp = s0 :: s1 :: s2 :: rest /\
      In c0 (fs_add sp) /\ ac_slot c0 = s0 /\ ac_num c0 = num_file_id /\ is_append (ac_kind c0) = false /\
      In c1 (fs_add sp) /\ ac_slot c1 = s1 /\ ac_num c1 = num_developer_data_id /\ is_append (ac_kind c1) = true /\
      In c2 (fs_add sp) /\ ac_slot c2 = s2 /\ ac_num c2 = num_field_description /\ is_append (ac_kind c2) = true /\
      init sp s0 = [zero_msg num_file_id] /\ (forall s, s <> s0 -> init sp s = []) /\
      (is_all sp = true -> fs_sort_start sp = Some (1, [s1; s2]));
  F_class : classify sp <> None
}.

Lemma find_field_slot sp s f : find_field sp s = Some f -> ff_slot f = s /\ In f (fs_fields sp).
Proof. unfold find_field. intros H. apply find_In in H. destruct H as [H E]. apply N.eqb_eq in E. auto. Qed.

Lemma fkind_eqb_eq a b : fkind_eqb a b = true -> a = b.
Proof. destruct a, b; cbn; congruence. Qed.

Lemma case_for_slot sp s f : wf_fspec sp = true -> find_field sp s = Some f -> ff_kind f <> Unrelated ->
  exists c, In c (fs_add sp) /\ ac_slot c = s /\ ac_num c = ff_num f /\ akind_fits (ff_kind f) (ac_kind c) = true.
Proof.
  unfold wf_fspec. intros H Hf Hk. repeat (apply andb_prop in H; destruct H as [H ?]).
  destruct (find_field_slot _ _ _ Hf) as [Es Hin].
  match goal with Hx : forallb (fun f => fkind_eqb (ff_kind f) Unrelated || _) _ = true |- _ => rename Hx into Hfill end.
  rewrite forallb_forall in Hfill. specialize (Hfill f Hin). apply orb_prop in Hfill. destruct Hfill as [Hu|Hm].
  { apply fkind_eqb_eq in Hu. contradiction. }
  apply memb_In, in_map_iff in Hm. destruct Hm as (c & Ec & Hc). exists c. split; [exact Hc|]. rewrite Ec, Es. split; [reflexivity|].
  match goal with Hx : forallb (case_ok sp) _ = true |- _ => rename Hx into Hcase end.
  rewrite forallb_forall in Hcase. specialize (Hcase c Hc). unfold case_ok in Hcase. rewrite Ec, Es, Hf in Hcase.
  repeat (apply andb_prop in Hcase; destruct Hcase as [Hcase ?]).
  match goal with Hx : (ff_num f =? ac_num c) = true |- _ => apply N.eqb_eq in Hx; rewrite Hx end. split; [reflexivity|exact Hcase].
Qed.

Definition eo (ops : list top) : list N := flat_map (fun o => match o with TEmit s _ => [s] | _ => [] end) ops.
Lemma eo_split ops : eo ops = fst (split_ops ops) ++ eo (snd (split_ops ops)).
Proof.
  induction ops as [|o r IH]; [reflexivity|]. destruct o as [s k| |s]; try reflexivity.
  cbn [split_ops]. destruct (split_ops r) as [e t] eqn:E. cbn [fst snd] in *. unfold eo in *. cbn [flat_map]. rewrite IH. reflexivity.
Qed.
Lemma run_ops_split c ops : forall start st out,
  run_ops c ops start st out = run_ops c (snd (split_ops ops)) start st (out ++ flat_map st (fst (split_ops ops))).
Proof.
  induction ops as [|o r IH]; intros start st out; [cbn; rewrite app_nil_r; reflexivity|].
  destruct o as [s k| |s]; try (cbn; rewrite app_nil_r; reflexivity).
  cbn [split_ops run_ops]. destruct (split_ops r) as [e t] eqn:E. cbn [fst snd flat_map] in *. rewrite IH, <- app_assoc. reflexivity.
Qed.

Lemma wf_parts sp : wf_fspec sp = true ->
  nodupb (map ff_slot (fs_fields sp)) = true /\ nodupb (emit_order sp) = true /\
  forallb (fun s => memb s (emit_order sp)) (map ff_slot (fs_fields sp)) = true /\
  forallb (fun s => memb s (map ff_slot (fs_fields sp))) (emit_order sp) = true /\
  forallb (emit_ok sp) (fs_tofit sp) = true /\
  nodupb (map ac_num (fs_add sp)) = true /\ nodupb (map ac_slot (fs_add sp)) = true /\
  forallb (case_ok sp) (fs_add sp) = true /\
  forallb (fun f => fkind_eqb (ff_kind f) Unrelated || memb (ff_slot f) (map ac_slot (fs_add sp))) (fs_fields sp) = true /\
  match fs_default sp with
  | Some (u, cloned) =>
      cloned && negb (memb u (map ac_slot (fs_add sp))) &&
      match find_field sp u with Some f => fkind_eqb (ff_kind f) Unrelated | None => false end &&
      forallb (fun f => negb (fkind_eqb (ff_kind f) Unrelated) || (ff_slot f =? u)) (fs_fields sp) &&
      match rev (emit_order sp) with l :: _ => l =? u | [] => false end
  | None => false
  end = true /\
  prefix_ok sp = true /\ fs_new_folds_add sp = true.
Proof. unfold wf_fspec. cbv zeta. rewrite !andb_true_iff. tauto. Qed.

Lemma akind_fits_append f a : akind_fits f a = true -> is_append a = match f with Many => true | _ => false end.
Proof. destruct f, a; cbn; congruence. Qed.

Lemma wf_facts sp : wf_fspec sp = true -> facts sp.
Proof.
  intros Hwf. pose proof (wf_parts sp Hwf) as (P1 & P2 & P3 & P4 & P5 & P6 & P7 & P8 & P9 & P10 & P11 & P12).
  assert (Hcase_in : forall c, In c (fs_add sp) -> In (ac_slot c) (emit_order sp)).
  { intros c Hc. rewrite forallb_forall in P8. specialize (P8 c Hc). unfold case_ok in P8.
    destruct (find_field sp (ac_slot c)) as [f|] eqn:Ef; [|discriminate]. destruct (find_field_slot _ _ _ Ef) as [Es Hin].
    rewrite forallb_forall in P3. apply memb_In, P3. rewrite <- Es. apply in_map, Hin. }
  constructor.
  - apply nodupb_NoDup, P2.
  - apply nodupb_NoDup, P7.
  - apply nodupb_NoDup, P6.
  - destruct (fs_default sp) as [[u cl]|]; [|discriminate]. rewrite !andb_true_iff in P10.
    destruct P10 as ((((Hcl & Hnm) & Hf) & Hall) & Hlast). exists u, cl. split; [reflexivity|].
    assert (Hty : exists tys, emit_order sp = tys ++ [u]).
    { destruct (rev (emit_order sp)) as [|l r'] eqn:Er; [discriminate|]. apply N.eqb_eq in Hlast. subst l.
      exists (rev r'). rewrite <- (rev_involutive (emit_order sp)), Er. reflexivity. }
    split; [|split; [|exact Hty]].
    + rewrite negb_true_iff in Hnm. intros Hin. apply memb_In in Hin. congruence.
    + destruct Hty as [tys ->]. apply in_or_app. right. left. reflexivity.
  - exact Hcase_in.
  - intros c Hc. rewrite forallb_forall in P8. specialize (P8 c Hc). unfold case_ok in P8.
    destruct (find_field sp (ac_slot c)); [|discriminate]. rewrite !andb_true_iff in P8. destruct P8 as [_ E]. apply N.eqb_eq in E. exact E.
  - unfold prefix_ok in P11. destruct (emit_order sp) as [|s0 [|s1 [|s2 rest]]] eqn:Ee; try discriminate.
    destruct (find_field sp s0) as [f0|] eqn:E0; [|discriminate]. destruct (find_field sp s1) as [f1|] eqn:E1; [|discriminate].
    destruct (find_field sp s2) as [f2|] eqn:E2; [|discriminate]. rewrite !andb_true_iff in P11.
    destruct P11 as (((((((K0 & N0) & K1) & N1) & K2) & N2) & Honly) & Hsort).
    apply fkind_eqb_eq in K0, K1, K2. apply N.eqb_eq in N0, N1, N2.
    destruct (case_for_slot sp s0 f0 Hwf E0) as (c0 & Hc0 & Es0 & En0 & Ek0); [rewrite K0; discriminate|].
    destruct (case_for_slot sp s1 f1 Hwf E1) as (c1 & Hc1 & Es1 & En1 & Ek1); [rewrite K1; discriminate|].
    destruct (case_for_slot sp s2 f2 Hwf E2) as (c2 & Hc2 & Es2 & En2 & Ek2); [rewrite K2; discriminate|].
    apply akind_fits_append in Ek0, Ek1, Ek2. rewrite K0 in Ek0. rewrite K1 in Ek1. rewrite K2 in Ek2.
    exists s0, s1, s2, rest, c0, c1, c2. repeat match goal with |- _ /\ _ => split end; try assumption; try congruence.
    + unfold init. rewrite E0, K0, N0. reflexivity.
    + intros s Hs. unfold init. destruct (find_field sp s) as [f|] eqn:Ef; [|reflexivity].
      destruct (find_field_slot _ _ _ Ef) as [Es Hin]. rewrite forallb_forall in Honly. specialize (Honly f Hin).
      destruct (ff_kind f); try reflexivity. cbn in Honly. apply N.eqb_eq in Honly. congruence.
    + unfold is_all. intros Hall. destruct (classify sp) as [[| |]|]; try discriminate.
      destruct (fs_sort_start sp) as [[k [|a [|b [|? ?]]]]|]; try discriminate.
      rewrite !andb_true_iff in Hsort. destruct Hsort as [[Hk Ha] Hb]. apply N.eqb_eq in Hk, Ha, Hb. subst. reflexivity.
  - unfold prefix_ok in P11. destruct (emit_order sp) as [|s0 [|s1 [|s2 rest]]]; try discriminate.
    destruct (find_field sp s0); [|discriminate]. destruct (find_field sp s1); [|discriminate]. destruct (find_field sp s2); [|discriminate].
    rewrite !andb_true_iff in P11. destruct P11 as [_ Hsort]. destruct (classify sp); [discriminate|discriminate].
Qed.

(* ================================================================ conservation *)
Section Conserve.
Variable sp : fspec.
Hypothesis Hf : facts sp.

Definition assigns_to (s : N) (m : msg) : bool := match target sp m with Some (s', false) => s' =? s | _ => false end.
Definition ow (s : N) (ms : list msg) : bool := existsb (assigns_to s) ms.

Lemma target_dispatch m s ap : target sp m = Some (s, ap) ->
  (exists c, dispatch sp (m_num m) = Some c /\ In c (fs_add sp) /\ ac_slot c = s /\ is_append (ac_kind c) = ap /\ ac_num c = m_num m) \/
  (dispatch sp (m_num m) = None /\ ap = true /\ exists cl, fs_default sp = Some (s, cl)).
Proof.
  unfold target. destruct (dispatch sp (m_num m)) as [c|] eqn:Ed.
  - intros H. injection H as <- <-. left. exists c. apply find_In in Ed. destruct Ed as [Hin E]. apply N.eqb_eq in E. auto.
  - destruct (fs_default sp) as [[u cl]|]; [|discriminate]. intros H. injection H as <- <-. right. eauto.
Qed.

Lemma target_total m : exists s ap, target sp m = Some (s, ap) /\ In s (emit_order sp).
Proof.
  unfold target. destruct (dispatch sp (m_num m)) as [c|] eqn:Ed.
  - exists (ac_slot c), (is_append (ac_kind c)). split; [reflexivity|]. apply (F_case_in sp Hf). apply find_In in Ed. tauto.
  - destruct (F_default sp Hf) as (u & cl & -> & _ & Hin & _). exists u, true. auto.
Qed.

(* two messages are dispatched to the same replacing slot iff they have the same number *)
Lemma assigns_same m s m' : target sp m = Some (s, false) -> assigns_to s m' = (m_num m' =? m_num m).
Proof.
  intros Ht. destruct (target_dispatch _ _ _ Ht) as [(c & Hd & Hc & Es & Ea & En)|(_ & ? & _)]; [|discriminate].
  unfold assigns_to. destruct (target sp m') as [[s' ap']|] eqn:Et'.
  - destruct (target_dispatch _ _ _ Et') as [(c' & Hd' & Hc' & Es' & Ea' & En')|(Hd' & -> & cl & Hdef)].
    + destruct (N.eqb_spec (m_num m') (m_num m)) as [E|E].
      * rewrite E, Hd in Hd'. injection Hd' as <-. rewrite Ea in Ea'. subst ap'. rewrite <- Es', Es. apply N.eqb_refl.
      * destruct ap'; [reflexivity|]. apply N.eqb_neq. intros E'. apply E.
        assert (c' = c) by (apply (NoDup_map_inj ac_slot (fs_add sp)); [apply (F_slots sp Hf)|assumption|assumption|congruence]).
        subst c'. congruence.
    + symmetry. apply N.eqb_neq. intros E. rewrite E, Hd in Hd'. discriminate.
  - destruct (target_total m') as (? & ? & E & _). congruence.
Qed.

(* an appending slot is never overwritten *)
Lemma append_not_assigned m s m' : target sp m = Some (s, true) -> assigns_to s m' = false.
Proof.
  intros Ht. unfold assigns_to. destruct (target sp m') as [[s' [|]]|] eqn:Et'; try reflexivity.
  apply N.eqb_neq. intros ->.
  destruct (target_dispatch _ _ _ Et') as [(c' & Hd' & Hc' & Es' & Ea' & En')|(_ & ? & _)]; [|discriminate].
  destruct (target_dispatch _ _ _ Ht) as [(c & Hd & Hc & Es & Ea & En)|(Hd & _ & cl & Hdef)].
  - assert (c' = c) by (apply (NoDup_map_inj ac_slot (fs_add sp)); [apply (F_slots sp Hf)|assumption|assumption|congruence]).
    subst c'. congruence.
  - destruct (F_default sp Hf) as (u & cl' & Hdef' & Hnot & _). rewrite Hdef in Hdef'. injection Hdef' as <- <-.
    apply Hnot. rewrite <- Es'. apply in_map, Hc'.
Qed.

Lemma singleton_target m : singleton sp (m_num m) = match target sp m with Some (_, false) => true | _ => false end.
Proof.
  unfold singleton, target. destruct (dispatch sp (m_num m)) as [c|]; [destruct (is_append (ac_kind c)); reflexivity|].
  destruct (fs_default sp) as [[? ?]|]; reflexivity.
Qed.

Lemma conserve_gen ms : forall st,
  Permutation (flat_map (fun s => fold_left (add sp) ms st s) (emit_order sp))
              (flat_map (fun s => if ow s ms then [] else st s) (emit_order sp) ++ map (stored sp) (survivors sp ms)).
Proof.
  induction ms as [|m r IH]; intros st.
  - cbn. rewrite app_nil_r. reflexivity.
  - cbn [fold_left]. etransitivity; [apply IH|]. clear IH.
    destruct (target_total m) as (s0 & ap & Ht & Hin). cbn [survivors]. rewrite singleton_target, Ht.
    destruct ap.
    + (* appended *)
      cbn [andb map].
      apply (flat_map_upd_perm _ _ (stored sp m) _ s0 _ (F_nodup sp Hf) Hin).
      * intros s Hs. unfold ow. cbn [existsb]. replace (assigns_to s m) with false.
        2:{ unfold assigns_to. rewrite Ht. reflexivity. }
        cbn [orb]. rewrite add_at. unfold step. rewrite Ht. destruct (N.eqb_spec s s0); [contradiction|reflexivity].
      * unfold ow. cbn [existsb]. rewrite (append_not_assigned m s0 m Ht). cbn [orb].
        replace (existsb (assigns_to s0) r) with false.
        2:{ symmetry. apply not_true_iff_false. intros H. apply existsb_exists in H. destruct H as (m' & _ & H').
            rewrite (append_not_assigned m s0 m' Ht) in H'. discriminate. }
        rewrite add_at. unfold step. rewrite Ht, N.eqb_refl. apply Permutation_sym, Permutation_cons_append.
    + (* replaced *)
      assert (Eow : ow s0 r = existsb (fun m' => m_num m' =? m_num m) r).
      { unfold ow. clear -Ht Hf. induction r as [|m' r IH]; [reflexivity|]. cbn [existsb]. rewrite IH, (assigns_same m s0 m' Ht). reflexivity. }
      cbn [andb]. rewrite <- Eow. destruct (ow s0 r) eqn:Es0.
      * (* shadowed by a later message of the same number *)
        apply Permutation_app_tail. apply Permutation_refl'. apply flat_map_ext_in. intros s _.
        unfold ow in *. cbn [existsb]. destruct (N.eqb_spec s s0) as [->|Hne].
        -- rewrite Es0, orb_true_r. reflexivity.
        -- replace (assigns_to s m) with false.
           2:{ unfold assigns_to. rewrite Ht. symmetry. apply N.eqb_neq. congruence. }
           cbn [orb]. rewrite add_at. unfold step. rewrite Ht. destruct (N.eqb_spec s s0); [contradiction|reflexivity].
      * cbn [map]. apply (flat_map_upd_perm _ _ (stored sp m) _ s0 _ (F_nodup sp Hf) Hin).
        -- intros s Hs. unfold ow. cbn [existsb]. replace (assigns_to s m) with false.
           2:{ unfold assigns_to. rewrite Ht. symmetry. apply N.eqb_neq. congruence. }
           cbn [orb]. rewrite add_at. unfold step. rewrite Ht. destruct (N.eqb_spec s s0); [contradiction|reflexivity].
        -- rewrite Es0. unfold ow. cbn [existsb]. replace (assigns_to s0 m) with true.
           2:{ unfold assigns_to. rewrite Ht. symmetry. apply N.eqb_refl. }
           cbn [orb]. rewrite add_at. unfold step. rewrite Ht, N.eqb_refl. reflexivity.
Qed.

Lemma stored_normalise m : stored sp m = normalise sp m.
Proof.
  unfold normalise, typed. destruct (dispatch sp (m_num m)) as [c|] eqn:Ed.
  - apply (stored_typed sp m c Ed). apply (F_ctor sp Hf). apply find_In in Ed. tauto.
  - unfold stored. rewrite Ed. reflexivity.
Qed.

Theorem build_conserves ms : has_file_id ms = true ->
  Permutation (flat_map (build sp ms) (emit_order sp)) (map (normalise sp) (survivors sp ms)).
Proof.
  intros Hfid. unfold build. etransitivity; [apply conserve_gen|].
  rewrite (map_ext _ _ stored_normalise).
  replace (flat_map (fun s => if ow s ms then [] else init sp s) (emit_order sp)) with (@nil msg); [reflexivity|].
  symmetry. apply flat_map_all_nil. intros s _.
  destruct (F_prefix sp Hf) as (s0 & s1 & s2 & rest & c0 & c1 & c2 & _ & Hc0 & Es0 & En0 & Ea0 & _ & _ & _ & _ & _ & _ & _ & _ & _ & Hothers & _).
  destruct (N.eq_dec s s0) as [->|Hne]; [|rewrite (Hothers s Hne); destruct (ow s ms); reflexivity].
  replace (ow s0 ms) with true; [reflexivity|]. symmetry.
  unfold has_file_id in Hfid. apply existsb_exists in Hfid. destruct Hfid as (m & Hm & Em). apply N.eqb_eq in Em.
  apply existsb_exists. exists m. split; [exact Hm|]. unfold assigns_to, target.
  assert (Hd : dispatch sp (m_num m) = Some c0).
  { unfold dispatch. destruct (find (fun c => ac_num c =? m_num m) (fs_add sp)) as [c|] eqn:E.
    - apply find_In in E. destruct E as [Hc E]. apply N.eqb_eq in E. f_equal.
      apply (NoDup_map_inj ac_num (fs_add sp)); [apply (F_nums sp Hf)|assumption|assumption|]. unfold num_file_id in En0. congruence.
    - exfalso. pose proof (find_none _ _ E c0 Hc0) as Hn. cbn in Hn. apply N.eqb_neq in Hn. unfold num_file_id in En0. congruence. }
  rewrite Hd, Es0, Ea0. apply N.eqb_refl.
Qed.
End Conserve.

(* ================================================================ ToFIT: shape per sort mode *)
Lemma emit_order_eo sp : emit_order sp = eo (fs_tofit sp).
Proof. reflexivity. Qed.

Lemma classify_cases sp :
  match classify sp with
  | Some SortNone => snd (split_ops (fs_tofit sp)) = []
  | Some SortAll => snd (split_ops (fs_tofit sp)) = [TSortTail]
  | Some SortUnrelated => exists u, snd (split_ops (fs_tofit sp)) = [TSortSlot u; TEmit u ESpread]
  | None => True
  end.
Proof.
  unfold classify. destruct (snd (split_ops (fs_tofit sp))) as [|o1 t1]; [reflexivity|].
  destruct o1 as [s k| |s].
  - exact I.
  - destruct t1; [reflexivity|exact I].
  - destruct t1 as [|o2 t2]; [exact I|]. destruct o2 as [s' k'| |s']; try exact I. destruct k'; try exact I.
    destruct t2; [|exact I]. destruct (N.eqb_spec s s') as [<-|]; [|exact I]. exists s. reflexivity.
Qed.

Lemma to_fit_none c sp st : classify sp = Some SortNone -> to_fit c sp st = flat_map st (emit_order sp).
Proof.
  intros H. pose proof (classify_cases sp) as Hc. rewrite H in Hc. unfold to_fit. rewrite run_ops_split, emit_order_eo, eo_split, Hc.
  cbn. rewrite app_nil_r. reflexivity.
Qed.
Lemma to_fit_all c sp st : classify sp = Some SortAll ->
  to_fit c sp st = firstn (sort_start sp st) (flat_map st (emit_order sp)) ++ sort_by c (skipn (sort_start sp st) (flat_map st (emit_order sp))).
Proof.
  intros H. pose proof (classify_cases sp) as Hc. rewrite H in Hc. unfold to_fit. rewrite run_ops_split, emit_order_eo, eo_split, Hc.
  cbn. rewrite app_nil_r. reflexivity.
Qed.
Lemma to_fit_unrelated c sp st : classify sp = Some SortUnrelated ->
  exists tys u, emit_order sp = tys ++ [u] /\ to_fit c sp st = flat_map st tys ++ sort_by c (st u).
Proof.
  intros H. pose proof (classify_cases sp) as Hc. rewrite H in Hc. destruct Hc as [u Hc].
  exists (fst (split_ops (fs_tofit sp))), u. unfold to_fit. rewrite run_ops_split, emit_order_eo, eo_split, Hc.
  split; [reflexivity|]. cbn. unfold upd. rewrite N.eqb_refl. reflexivity.
Qed.

Lemma sort_by_perm c l : Permutation l (sort_by c l).
Proof. apply isort_perm. Qed.

Theorem to_fit_perm c sp st : classify sp <> None -> Permutation (to_fit c sp st) (flat_map st (emit_order sp)).
Proof.
  destruct (classify sp) as [[| |]|] eqn:E; [| | |congruence]; intros _.
  - rewrite (to_fit_all c sp st E). etransitivity; [apply Permutation_app_head, Permutation_sym, sort_by_perm|].
    rewrite firstn_skipn. reflexivity.
  - destruct (to_fit_unrelated c sp st E) as (tys & u & -> & ->). rewrite flat_map_app. cbn. rewrite app_nil_r.
    apply Permutation_app_head, Permutation_sym, sort_by_perm.
  - rewrite (to_fit_none c sp st E). reflexivity.
Qed.

(* ---- C14, conservation *)
Theorem conserve c sp ms : wf_fspec sp = true -> has_file_id ms = true ->
  Permutation (file_of c sp ms) (map (normalise sp) (survivors sp ms)).
Proof.
  intros Hwf Hfid. pose proof (wf_facts sp Hwf) as Hf. unfold file_of.
  etransitivity; [apply to_fit_perm, (F_class sp Hf)|]. apply build_conserves; assumption.
Qed.

(* ================================================================ contents of the prefix slots *)
Section Slots.
Variable sp : fspec.
Hypothesis Hf : facts sp.

Lemma case_target c m : In c (fs_add sp) -> m_num m = ac_num c -> target sp m = Some (ac_slot c, is_append (ac_kind c)) /\ stored sp m = norm m.
Proof.
  intros Hc En.
  assert (Hd : dispatch sp (m_num m) = Some c).
  { unfold dispatch. destruct (find (fun c => ac_num c =? m_num m) (fs_add sp)) as [c'|] eqn:E.
    - apply find_In in E. destruct E as [Hc' E]. apply N.eqb_eq in E. f_equal.
      apply (NoDup_map_inj ac_num (fs_add sp)); [apply (F_nums sp Hf)|assumption|assumption|congruence].
    - exfalso. pose proof (find_none _ _ E c Hc) as Hn. cbn in Hn. apply N.eqb_neq in Hn. congruence. }
  split; [unfold target; rewrite Hd; reflexivity|]. apply (stored_typed sp m c Hd), (F_ctor sp Hf), Hc.
Qed.

Lemma other_target c m s ap : In c (fs_add sp) -> m_num m <> ac_num c -> target sp m = Some (s, ap) -> s <> ac_slot c.
Proof.
  intros Hc Hne Ht. destruct (target_dispatch sp _ _ _ Ht) as [(c' & Hd & Hc' & Es & Ea & En)|(Hd & _ & cl & Hdef)].
  - intros E. apply Hne. assert (c' = c) by (apply (NoDup_map_inj ac_slot (fs_add sp)); [apply (F_slots sp Hf)|assumption|assumption|congruence]). subst. auto.
  - destruct (F_default sp Hf) as (u & cl' & Hdef' & Hnot & _). rewrite Hdef in Hdef'. injection Hdef' as <- <-.
    intros ->. apply Hnot. apply in_map, Hc.
Qed.

(* an appending slot holds its messages in arrival order *)
Lemma append_slot c ms : In c (fs_add sp) -> is_append (ac_kind c) = true ->
  forall acc, fold_left (step sp (ac_slot c)) ms acc = acc ++ map norm (with_num (ac_num c) ms).
Proof.
  intros Hc Ha. induction ms as [|m r IH]; intros acc; cbn [fold_left with_num filter map]; [rewrite app_nil_r; reflexivity|].
  rewrite IH. fold (with_num (ac_num c) r). unfold step. destruct (N.eqb_spec (m_num m) (ac_num c)) as [E|E].
  - destruct (case_target c m Hc E) as [-> ->]. rewrite N.eqb_refl, Ha. cbn [map]. rewrite <- app_assoc. reflexivity.
  - destruct (target sp m) as [[s ap]|] eqn:Et; [|reflexivity].
    pose proof (other_target c m s ap Hc E Et) as Hs. destruct (N.eqb_spec (ac_slot c) s); [congruence|reflexivity].
Qed.

(* a replacing slot holds the last message of its number *)
Lemma assign_slot c ms : In c (fs_add sp) -> is_append (ac_kind c) = false ->
  forall acc, fold_left (step sp (ac_slot c)) ms acc = match last_num (ac_num c) ms with Some m => [norm m] | None => acc end.
Proof.
  intros Hc Ha. induction ms as [|m r IH]; intros acc; cbn [fold_left last_num]; [reflexivity|].
  rewrite IH. destruct (last_num (ac_num c) r); [reflexivity|]. unfold step. destruct (N.eqb_spec (m_num m) (ac_num c)) as [E|E].
  - destruct (case_target c m Hc E) as [-> ->]. rewrite N.eqb_refl, Ha. reflexivity.
  - destruct (target sp m) as [[s ap]|] eqn:Et; [|reflexivity].
    pose proof (other_target c m s ap Hc E Et) as Hs. destruct (N.eqb_spec (ac_slot c) s); [congruence|reflexivity].
Qed.
End Slots.

Lemma firstn_skipn_exact {X} (a b : list X) k : List.length a = k -> firstn k (a ++ b) = a /\ skipn k (a ++ b) = b.
Proof. intros <-. split; [rewrite firstn_app, Nat.sub_diag, firstn_all; cbn; apply app_nil_r|rewrite skipn_app, Nat.sub_diag, skipn_all; reflexivity]. Qed.


Lemma has_file_id_last ms : has_file_id ms = true -> exists m, last_num num_file_id ms = Some m.
Proof.
  unfold has_file_id. induction ms as [|m r IH]; cbn [existsb last_num]; [discriminate|].
  destruct (last_num num_file_id r) as [x|]; [eauto|]. unfold num_file_id in *. destruct (m_num m =? 0); [eauto|]. cbn. intros H. destruct (IH H). discriminate.
Qed.
Lemma last_num_num n ms m : last_num n ms = Some m -> m_num m = n /\ In m ms.
Proof.
  induction ms as [|x r IH]; cbn [last_num]; [discriminate|]. destruct (last_num n r) as [y|].
  - intros H. injection H as ->. destruct (IH eq_refl). split; [assumption|right; assumption].
  - destruct (N.eqb_spec (m_num x) n); [|discriminate]. intros H. injection H as ->. split; [assumption|left; reflexivity].
Qed.

(* ---- C14, prefix and order *)
Definition prefix_of (ms : list msg) (fid : msg) : list msg :=
  norm fid :: map norm (with_num num_developer_data_id ms) ++ map norm (with_num num_field_description ms).

Theorem file_shape c sp ms : wf_fspec sp = true -> has_file_id ms = true ->
  exists fid, last_num num_file_id ms = Some fid /\
  let pre := prefix_of ms fid in
  let st := build sp ms in
  List.length pre = prefix_len ms /\
  match classify sp with
  | Some SortAll => file_of c sp ms = pre ++ sort_by c (flat_map st (body_slots sp))
  | Some SortNone => file_of c sp ms = pre ++ flat_map st (body_slots sp)
  | Some SortUnrelated => exists tys u, body_slots sp = tys ++ [u] /\
                                        file_of c sp ms = pre ++ flat_map st tys ++ sort_by c (st u)
  | None => False
  end.
Proof.
  intros Hwf Hfid. pose proof (wf_facts sp Hwf) as Hf.
  destruct (F_prefix sp Hf) as (s0 & s1 & s2 & rest & c0 & c1 & c2 & Ee & Hc0 & Es0 & En0 & Ea0 & Hc1 & Es1 & En1 & Ea1 & Hc2 & Es2 & En2 & Ea2 & Hi0 & Hothers & Hstart).
  pose proof (F_nodup sp Hf) as Hnd. rewrite Ee in Hnd.
  apply NoDup_cons_iff in Hnd. destruct Hnd as [Hn0 _].
  assert (Hs10 : s1 <> s0). { intros E. apply Hn0. left. exact E. }
  assert (Hs20 : s2 <> s0). { intros E. apply Hn0. right. left. exact E. }
  destruct (has_file_id_last ms Hfid) as [fid Hlast]. exists fid. split; [exact Hlast|]. cbv zeta.
  assert (H1 : build sp ms s1 = map norm (with_num num_developer_data_id ms)).
  { unfold build. rewrite fold_add_at, <- Es1, (append_slot sp Hf c1 ms Hc1 Ea1), En1, Es1, (Hothers s1 Hs10). reflexivity. }
  assert (H2 : build sp ms s2 = map norm (with_num num_field_description ms)).
  { unfold build. rewrite fold_add_at, <- Es2, (append_slot sp Hf c2 ms Hc2 Ea2), En2, Es2, (Hothers s2 Hs20). reflexivity. }
  assert (H0 : build sp ms s0 = [norm fid]).
  { unfold build. rewrite fold_add_at, <- Es0, (assign_slot sp Hf c0 ms Hc0 Ea0), En0, Hlast. reflexivity. }
  assert (Hlen : List.length (prefix_of ms fid) = prefix_len ms).
  { unfold prefix_of, prefix_len. cbn [List.length]. rewrite app_length, !map_length. reflexivity. }
  split; [exact Hlen|].
  assert (Hflat : flat_map (build sp ms) (emit_order sp) = prefix_of ms fid ++ flat_map (build sp ms) (body_slots sp)).
  { unfold body_slots. rewrite Ee. cbn [flat_map skipn]. rewrite H0, H1, H2. unfold prefix_of. cbn [app]. rewrite <- !app_assoc. reflexivity. }
  unfold file_of. pose proof (F_class sp Hf) as Hcl. destruct (classify sp) as [[| |]|] eqn:Ec; [| | |congruence].
  - rewrite (to_fit_all c sp _ Ec), Hflat.
    assert (Hk : sort_start sp (build sp ms) = prefix_len ms).
    { unfold sort_start. rewrite Hstart; [|unfold is_all; rewrite Ec; reflexivity]. cbn [map list_sum]. rewrite H1, H2, !map_length.
      unfold prefix_len. cbn. lia. }
    rewrite Hk. destruct (firstn_skipn_exact (prefix_of ms fid) (flat_map (build sp ms) (body_slots sp)) _ Hlen) as [-> ->]. reflexivity.
  - destruct (to_fit_unrelated c sp (build sp ms) Ec) as (tys & u & Eo & ->).
    destruct (F_default sp Hf) as (u' & cl & _ & Hnot & _ & tys' & Eo'). rewrite Eo in Eo'. apply app_inj_tail in Eo'. destruct Eo' as [<- <-].
    rewrite Ee in Eo. destruct tys as [|t0 [|t1 [|t2 tys]]]; cbn in Eo.
    + injection Eo as _ E. discriminate.
    + injection Eo as _ _ E. discriminate.
    + injection Eo as _ _ E _. exfalso. apply Hnot. rewrite <- E, <- Es2. apply in_map, Hc2.
    + injection Eo as <- <- <- ->. exists tys, u. split; [unfold body_slots; rewrite Ee; reflexivity|].
      cbn [flat_map]. rewrite H0, H1, H2. unfold prefix_of. cbn [app]. rewrite <- !app_assoc. reflexivity.
  - rewrite (to_fit_none c sp _ Ec). exact Hflat.
Qed.

(* ---- what each slot holds after building (arrival order, normalised) *)
Theorem typed_slot_contents sp ms c : wf_fspec sp = true -> In c (fs_add sp) ->
  build sp ms (ac_slot c) =
    if is_append (ac_kind c) then init sp (ac_slot c) ++ map norm (with_num (ac_num c) ms)
    else match last_num (ac_num c) ms with Some m => [norm m] | None => init sp (ac_slot c) end.
Proof.
  intros Hwf Hc. pose proof (wf_facts sp Hwf) as Hf. unfold build. rewrite fold_add_at.
  destruct (is_append (ac_kind c)) eqn:Ea; [apply append_slot|apply assign_slot]; assumption.
Qed.
Theorem unrelated_slot_contents sp ms u cl : wf_fspec sp = true -> fs_default sp = Some (u, cl) ->
  build sp ms u = init sp u ++ filter (fun m => negb (typed sp (m_num m))) ms.
Proof.
  intros Hwf Hd. pose proof (wf_facts sp Hwf) as Hf. unfold build. rewrite fold_add_at. generalize (init sp u).
  destruct (F_default sp Hf) as (u' & cl' & Hd' & Hnot & _). rewrite Hd in Hd'. injection Hd' as <- <-.
  induction ms as [|m r IH]; intros acc; cbn [fold_left filter]; [rewrite app_nil_r; reflexivity|].
  rewrite IH. unfold step, target, typed, stored. destruct (dispatch sp (m_num m)) as [c|] eqn:E; cbn [negb].
  - destruct (N.eqb_spec u (ac_slot c)) as [E'|]; [|reflexivity]. exfalso. apply Hnot. rewrite E'. apply in_map. apply find_In in E. tauto.
  - rewrite Hd, N.eqb_refl, <- app_assoc. reflexivity.
Qed.

(* ---- C14: prefix, order *)
Theorem prefix_first c sp ms : wf_fspec sp = true -> has_file_id ms = true ->
  exists fid, last_num num_file_id ms = Some fid /\ firstn (prefix_len ms) (file_of c sp ms) = prefix_of ms fid.
Proof.
  intros Hwf Hfid. destruct (file_shape c sp ms Hwf Hfid) as (fid & Hl & Hlen & Hsh). exists fid. split; [exact Hl|].
  destruct (classify sp) as [[| |]|]; [| |..]; try contradiction.
  - rewrite Hsh. apply firstn_skipn_exact, Hlen.
  - destruct Hsh as (tys & u & _ & ->). apply firstn_skipn_exact, Hlen.
  - rewrite Hsh. apply firstn_skipn_exact, Hlen.
Qed.

Theorem tail_all c sp ms : wf_fspec sp = true -> has_file_id ms = true -> is_all sp = true ->
  skipn (prefix_len ms) (file_of c sp ms) = sort_by c (flat_map (build sp ms) (body_slots sp)).
Proof.
  intros Hwf Hfid Hall. destruct (file_shape c sp ms Hwf Hfid) as (fid & Hl & Hlen & Hsh). unfold is_all in Hall.
  destruct (classify sp) as [[| |]|]; try discriminate. rewrite Hsh. apply firstn_skipn_exact, Hlen.
Qed.
Theorem sorted_all c sp ms : wf_cmp c = true -> wf_fspec sp = true -> has_file_id ms = true -> is_all sp = true ->
  sorted (kle (key c)) (skipn (prefix_len ms) (file_of c sp ms)).
Proof.
  intros Hc Hwf Hfid Hall. rewrite (tail_all c sp ms Hwf Hfid Hall), (sort_by_kle c Hc).
  apply isort_sorted; [apply kle_total|apply kle_trans].
Qed.
Theorem stable_all c sp ms : wf_cmp c = true -> wf_fspec sp = true -> has_file_id ms = true -> is_all sp = true ->
  forall k, filter (same_key (key c) k) (skipn (prefix_len ms) (file_of c sp ms)) =
            filter (same_key (key c) k) (flat_map (build sp ms) (body_slots sp)).
Proof.
  intros Hc Hwf Hfid Hall k. rewrite (tail_all c sp ms Hwf Hfid Hall), (sort_by_kle c Hc).
  apply isort_stable. apply same_key_kle.
Qed.
(* the weaker order the other file types have *)
Theorem tail_other c sp ms : wf_cmp c = true -> wf_fspec sp = true -> has_file_id ms = true -> is_all sp = false ->
  (classify sp = Some SortNone /\ skipn (prefix_len ms) (file_of c sp ms) = flat_map (build sp ms) (body_slots sp)) \/
  (classify sp = Some SortUnrelated /\ exists tys u, body_slots sp = tys ++ [u] /\
     skipn (prefix_len ms) (file_of c sp ms) = flat_map (build sp ms) tys ++ isort (kle (key c)) (build sp ms u) /\
     sorted (kle (key c)) (isort (kle (key c)) (build sp ms u))).
Proof.
  intros Hc Hwf Hfid Hall. destruct (file_shape c sp ms Hwf Hfid) as (fid & Hl & Hlen & Hsh). unfold is_all in Hall.
  destruct (classify sp) as [[| |]|]; try discriminate; try contradiction.
  - right. split; [reflexivity|]. destruct Hsh as (tys & u & Eb & ->). exists tys, u. split; [exact Eb|]. split.
    + rewrite <- (sort_by_kle c Hc). apply firstn_skipn_exact, Hlen.
    + apply isort_sorted; [apply kle_total|apply kle_trans].
  - left. split; [reflexivity|]. rewrite Hsh. apply firstn_skipn_exact, Hlen.
Qed.

(* ---- refutation of the ordering clause for every file type that does not sort everything *)
Definition refutes_all (c : cmpspec) (specs : list fspec) : bool :=
  forallb (fun sp => is_all sp || (has_file_id (order_witness c sp) && order_violated c sp (order_witness c sp))) specs.
Theorem order_refuted c specs : refutes_all c specs = true -> forall sp, In sp specs -> is_all sp = false ->
  exists ms, has_file_id ms = true /\ ~ sorted (kle (key c)) (skipn (prefix_len ms) (file_of c sp ms)).
Proof.
  unfold refutes_all. rewrite forallb_forall. intros H sp Hin Hall. specialize (H sp Hin). rewrite Hall in H. cbn [orb] in H.
  apply andb_prop in H. destruct H as [H1 H2]. exists (order_witness c sp). split; [exact H1|].
  unfold order_violated in H2. rewrite negb_true_iff in H2. intros Hs. apply sorted_b_spec in Hs. congruence.
Qed.
