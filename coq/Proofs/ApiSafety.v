(* C03 on Model/Api.v: no entry point of the decoder object panics or hangs, for any stream, options and history. *)
From Coq Require Import NArith ZArith List Lia Bool ZifyN ZifyNat ZifyBool.
Import ListNotations.
From Fit Require Import Model.Api Proofs.DecoderSafety.
Open Scope N_scope.

Definition good (r : ares) : Prop := r <> RPanic /\ r <> RFuel.
Definition ainv (a : api) : Prop := inv (a_s a).

Lemma header_once_post c a : ainv a -> post (header_once c a) (fun a' => ainv a' /\ after 0 (a_s a) (a_s a')).
Proof.
  intros Hi. unfold header_once. destruct (a_once a).
  - destruct (a_err a); cbn; [exact I|]. split; [exact Hi|apply after_refl].
  - pose proof (decode_file_header_post c (a_s a) Hi) as Hp.
    destruct (decode_file_header c (a_s a)); cbn in *; try contradiction; [|exact I].
    destruct Hp as [Hi' Ha']. split; [exact Hi'|]. eapply after_weaken; [|exact Ha']. lia.
Qed.

Lemma discard_messages_post c : forall fuel s, inv s -> (length (s_rest s) < fuel)%nat ->
  post (discard_messages fuel c s) (step_post 0 s).
Proof.
  induction fuel as [|f IH]; intros s Hi Hf; [lia|]. cbn [discard_messages].
  destruct (h_datasize (s_header s) <=? s_cur s) eqn:E; [cbn; split; [exact Hi|apply after_refl]|].
  eapply post_bind; [apply read_n_post; apply Hi|]. intros [b s1] Hr.
  destruct (read_inv _ _ _ _ Hi Hr) as (Hi1 & Ha1 & _ & Hh).
  assert (Hpos : (1 <= N.to_nat (N.min (h_datasize (s_header s) - s_cur s) 765))%nat) by lia.
  eapply post_weaken; [apply IH; [exact Hi1|unfold after in Ha1; lia]|].
  intros s2 [Hi2 Ha2]. split; [exact Hi2|]. eapply after_weaken; [|exact (after_trans _ _ _ _ _ Ha1 Ha2)]. lia.
Qed.

Lemma until_file_id_post c : forall fuel s, inv s -> (length (s_rest s) < fuel)%nat ->
  post (until_file_id fuel c s) (step_post 0 s).
Proof.
  induction fuel as [|f IH]; intros s Hi Hf; [lia|]. cbn [until_file_id].
  destruct (s_fileid s); [cbn; split; [exact Hi|apply after_refl]|].
  destruct (peekfileid_bounded && (h_datasize (s_header s) <=? s_cur s)); [exact I|].
  eapply post_bind; [apply decode_message_post; exact Hi|]. intros s1 [Hi1 Ha1].
  destruct (peekfileid_checks_overrun && (h_datasize (s_header s1) <? s_cur s1)); [exact I|].
  eapply post_weaken; [apply IH; [exact Hi1|unfold after in Ha1; lia]|].
  intros s2 [Hi2 Ha2]. split; [exact Hi2|]. eapply after_weaken; [|exact (after_trans _ _ _ _ _ Ha1 Ha2)]. lia.
Qed.

Lemma ainv_with_state a s : inv s -> ainv (with_state a s). Proof. auto. Qed.
Lemma ainv_fail a e : ainv a -> ainv (fail a e). Proof. auto. Qed.
Lemma ainv_once_failed a e : ainv a -> ainv (once_failed a e). Proof. auto. Qed.

Lemma release_inv s : inv s -> inv (release_state s).
Proof. intros [Hb _]. split; [exact Hb|]. cbn. unfold defs_valid. repeat constructor. Qed.
Lemma reset_state_inv s : inv s -> inv (reset_state s).
Proof.
  intros [Hb Hd]. split; [exact Hb|]. unfold reset_state. cbn [s_defs].
  destruct reset_clears_definitions; first [exact Hd | unfold defs_valid; repeat constructor].
Qed.

(* the integrity loop terminates with fuel to spare and keeps the invariant *)
Definition il_ok (r : api * N * option N * bool) : Prop := ainv (fst (fst (fst r))) /\ snd r = true.
Lemma integrity_loop_post c : forall fuel a seq, ainv a -> (length (s_rest (a_s a)) < fuel)%nat ->
  il_ok (integrity_loop fuel c a seq).
Proof.
  induction fuel as [|f IH]; intros a seq Hi Hf; [lia|]. cbn [integrity_loop].
  pose proof (header_once_post c a Hi) as Hh.
  destruct (header_once c a) as [a1| | |]; cbn in Hh; try contradiction.
  2: { split; [apply ainv_once_failed; exact Hi|reflexivity]. }
  destruct Hh as [Hi1 Ha1].
  pose proof (discard_messages_post c (S (length (s_rest (a_s a1)))) (a_s a1) Hi1 ltac:(lia)) as Hd.
  destruct (discard_messages _ c (a_s a1)) as [s2| | |]; cbn in Hd; try contradiction.
  2: { split; [exact Hi1|reflexivity]. }
  destruct Hd as [Hi2 Ha2].
  pose proof (decode_crc_post c s2 Hi2) as Hc.
  destruct (decode_crc c s2) as [[crc s3]| | |]; cbn in Hc; try contradiction.
  2: { split; [apply ainv_with_state; exact Hi2|reflexivity]. }
  destruct Hc as [Hi3 Ha3].
  apply IH.
  - unfold ainv. cbn. destruct Hi3 as [Hb3 Hd3]. split; assumption.
  - cbn. unfold after in *.
    (* a completed header consumed at least 12 bytes unless it was already decoded (once): then the CRC read consumes 2 *)
    lia.
Qed.

Theorem api_step_safe a o : ainv a -> good (snd (api_step a o)) /\ ainv (fst (api_step a o)).
Proof.
  intros Hi. unfold api_step, good.
  destruct o.
  - (* Decode *)
    destruct (a_err a); [cbn; (split; [split; discriminate|]); exact Hi|].
    pose proof (header_once_post (a_cfg a) a Hi) as Hh.
    destruct (header_once (a_cfg a) a) as [a1| | |]; cbn in Hh; try contradiction.
    2: { cbn. (split; [split; discriminate|]). exact Hi. }
    destruct Hh as [Hi1 _].
    pose proof (decode_messages_post (a_cfg a) (S (length (s_rest (a_s a1)))) (a_s a1) Hi1 ltac:(lia)) as Hm.
    destruct (decode_messages _ _ (a_s a1)) as [s2| | |]; cbn in Hm; try contradiction.
    2: { cbn. (split; [split; discriminate|]). apply release_inv. exact Hi1. }
    destruct Hm as [Hi2 _].
    pose proof (decode_crc_post (a_cfg a) s2 Hi2) as Hc.
    destruct (decode_crc _ s2) as [[crc s3]| | |]; cbn in Hc; try contradiction.
    2: { cbn. (split; [split; discriminate|]). apply release_inv. exact Hi2. }
    destruct Hc as [Hi3 _]. cbn. (split; [split; discriminate|]). apply reset_state_inv, release_inv. exact Hi3.
  - (* DecodeWithContext, context already done *)
    destruct (a_err a); cbn; (split; [split; discriminate|]); exact Hi.
  - (* Next *)
    destruct (a_err a); [cbn; (split; [split; discriminate|]); exact Hi|].
    destruct (s_n (a_s a) =? 0); [cbn; (split; [split; discriminate|]); exact Hi|].
    pose proof (header_once_post (a_cfg a) a Hi) as Hh.
    destruct (header_once (a_cfg a) a) as [a1| | |]; cbn in Hh; try contradiction; cbn; (split; [split; discriminate|]); [apply Hh|exact Hi].
  - (* PeekFileHeader *)
    destruct (a_err a); [cbn; (split; [split; discriminate|]); exact Hi|].
    pose proof (header_once_post (a_cfg a) a Hi) as Hh.
    destruct (header_once (a_cfg a) a) as [a1| | |]; cbn in Hh; try contradiction; cbn; (split; [split; discriminate|]); [apply Hh|exact Hi].
  - (* PeekFileId *)
    destruct (a_err a); [cbn; (split; [split; discriminate|]); exact Hi|].
    pose proof (header_once_post (a_cfg a) a Hi) as Hh.
    destruct (header_once (a_cfg a) a) as [a1| | |]; cbn in Hh; try contradiction.
    2: { cbn. (split; [split; discriminate|]). exact Hi. }
    destruct Hh as [Hi1 _].
    pose proof (until_file_id_post (a_cfg a) (S (length (s_rest (a_s a1)))) (a_s a1) Hi1 ltac:(lia)) as Hu.
    destruct (until_file_id _ _ (a_s a1)) as [s2| | |] eqn:Eu; cbn in Hu; try contradiction.
    2: { cbn. (split; [split; discriminate|]). exact Hi1. }
    destruct Hu as [Hi2 _]. cbn.
    assert (Hfid : s_fileid s2 <> None).
    { clear -Eu. revert Eu. generalize (S (length (s_rest (a_s a1)))) as fuel. generalize (a_s a1) as s.
      intros s fuel. revert s. induction fuel as [|f IH]; intros s; cbn [until_file_id].
      - destruct (s_fileid s) eqn:E; [intros H; injection H as <-; congruence|].
        destruct (peekfileid_bounded && _); discriminate.
      - destruct (s_fileid s) eqn:E; [intros H; injection H as <-; congruence|].
        destruct (peekfileid_bounded && _); [discriminate|].
        unfold bind. destruct (decode_message (a_cfg a) s) as [s1'| | |]; try discriminate.
        destruct (peekfileid_checks_overrun && _); [discriminate|]. apply IH. }
    destruct (s_fileid s2); [|contradiction]. (split; [split; discriminate|]). exact Hi2.
  - (* Discard *)
    destruct (a_err a); [cbn; (split; [split; discriminate|]); exact Hi|].
    set (c0 := mkcfg false (c_expand (a_cfg a)) (c_bufsize (a_cfg a))).
    pose proof (header_once_post c0 a Hi) as Hh.
    destruct (header_once c0 a) as [a1| | |]; cbn in Hh; try contradiction.
    2: { cbn. (split; [split; discriminate|]). exact Hi. }
    destruct Hh as [Hi1 _].
    pose proof (discard_messages_post c0 (S (length (s_rest (a_s a1)))) (a_s a1) Hi1 ltac:(lia)) as Hd.
    destruct (discard_messages _ c0 (a_s a1)) as [s2| | |]; cbn in Hd; try contradiction.
    2: { cbn. (split; [split; discriminate|]). exact Hi1. }
    destruct Hd as [Hi2 _].
    pose proof (read_n_post c0 s2 2 (proj1 Hi2)) as Hr.
    destruct (read_n c0 s2 2) as [[b s3]| | |]; cbn [post] in Hr; try contradiction.
    2: { cbn. (split; [split; discriminate|]). exact Hi2. }
    destruct (read_inv s2 2 b s3 Hi2 Hr) as (Hi3 & _). cbn. (split; [split; discriminate|]). apply reset_state_inv. exact Hi3.
  - (* CheckIntegrity *)
    destruct (a_err a); [cbn; (split; [split; discriminate|]); exact Hi|].
    set (c1 := mkcfg true (c_expand (a_cfg a)) (c_bufsize (a_cfg a))).
    pose proof (integrity_loop_post c1 (S (length (s_rest (a_s a)))) a 0 Hi ltac:(lia)) as Hl.
    destruct (integrity_loop _ c1 a 0) as [[[a1 seq] err] fuel_ok]. destruct Hl as [Hi1 Hf]. cbn [fst snd] in Hi1, Hf. subst fuel_ok. cbn [negb].
    cbn [snd fst]. (split; [split; discriminate|]).
    pose proof (reset_state_inv _ Hi1) as [Hb Hd]. unfold ainv. cbn [a_s].
    destruct integrity_drops_buffer.
    + split; [unfold buf_ok, upd_read; cbn [s_buf s_rest]; apply N.le_0_l|exact Hd].
    + split; [exact Hb|exact Hd].
  - (* Reset *)
    cbn. (split; [split; discriminate|]). split.
    + unfold buf_ok. cbn [s_buf s_rest a_s]. apply N.le_0_l.
    + cbn. unfold defs_valid. repeat constructor.
  - (* SeekStart *)
    cbn. (split; [split; discriminate|]). split.
    + destruct Hi as [Hb _]. unfold buf_ok in *. unfold with_state, upd_read. cbn [a_s s_buf s_rest]. unfold len, take in *. rewrite app_length, firstn_length. lia.
    + apply Hi.
Qed.

Theorem api_run_safe : forall ops a, ainv a -> Forall good (api_run a ops).
Proof.
  induction ops as [|o ops IH]; intros a Hi; cbn [api_run]; [constructor|].
  pose proof (api_step_safe a o Hi) as [Hg Hi']. destruct (api_step a o) as [a' r]. cbn in *.
  constructor; [exact Hg|apply IH; exact Hi'].
Qed.

Theorem api_new_inv c bs : ainv (api_new c bs).
Proof. apply init_inv. Qed.
