(* C16: the raw decoder's segments concatenate to exactly the bytes it consumed. *)
From Coq Require Import NArith ZArith List Lia Bool ZifyN ZifyNat ZifyBool.
Import ListNotations.
From Fit Require Import Model.Raw.
Open Scope N_scope.

(* invariant: what has been consumed so far = segments emitted so far ++ bytes read but not yet emitted (pending) *)
Definition consumed (bs : bytes) (s : rstate) (pending : bytes) : Prop :=
  bs = concat (map snd (rev (r_segs s))) ++ pending ++ r_rest s /\ r_n s = len (concat (map snd (rev (r_segs s))) ++ pending).

Lemma len_app' {A} (a b : list A) : len (a ++ b) = len a + len b.
Proof. unfold len. rewrite app_length. lia. Qed.

Lemma read_full_spec bs s pend k b e s' : consumed bs s pend -> read_full s k = (b, e, s') ->
  consumed bs s' (pend ++ b) /\ r_segs s' = r_segs s /\ (e = None -> len b = k).
Proof.
  unfold read_full. intros [Hb Hn].
  destruct (k =? 0) eqn:E0.
  { intros H. injection H as <- <- <-. rewrite app_nil_r. apply N.eqb_eq in E0. subst k. repeat split; auto. }
  destruct (k <=? len (r_rest s)) eqn:Ek.
  - intros H. injection H as <- <- <-. cbn [r_segs r_rest r_n]. split; [|split; [reflexivity|]].
    + split.
      * cbn [r_n r_rest r_segs]. rewrite Hb. rewrite <- ?app_assoc. f_equal. f_equal. unfold take, drop. rewrite firstn_skipn. reflexivity.
      * cbn [r_n r_rest r_segs]. rewrite Hn. rewrite !len_app'. unfold len, take in *. rewrite firstn_length, Nat.min_l by lia. lia.
    + intros _. unfold len, take in *. rewrite firstn_length, Nat.min_l by lia. lia.
  - destruct (r_rest s) as [|x rest] eqn:Er.
    + intros H. injection H as <- <- <-. rewrite app_nil_r. repeat split; auto; try discriminate. rewrite Er. exact Hb.
    + intros H. injection H as <- <- <-. cbn [r_segs r_rest r_n]. split; [|split; [reflexivity|discriminate]].
      split.
      * cbn [r_n r_rest r_segs]. rewrite Hb. rewrite app_nil_r. rewrite <- ?app_assoc. reflexivity.
      * cbn [r_n r_rest r_segs]. rewrite Hn. rewrite !len_app'. lia.
Qed.

Lemma emit_spec bs s pend f : consumed bs s pend -> consumed bs (emit s f pend) [].
Proof.
  intros [Hb Hn]. unfold emit, consumed. cbn [r_segs r_rest r_n rev map].
  rewrite map_app, concat_app. cbn [map concat]. rewrite !app_nil_r. split.
  - rewrite Hb. rewrite <- app_assoc. reflexivity.
  - exact Hn.
Qed.

(* a finished run: the segments are a prefix of the stream of length at most n, and exactly n when nothing is pending *)
Definition result_ok (bs : bytes) (r : result) : Prop :=
  let '(segs, n, e) := r in
  exists pend rest, bs = concat (map snd segs) ++ pend ++ rest /\ n = len (concat (map snd segs) ++ pend) /\ (e = None -> pend = []).

Lemma finish_ok bs s pend e : consumed bs s pend -> (e = None -> pend = []) -> result_ok bs (finish s e).
Proof. intros [Hb Hn] He. unfold finish, result_ok. exists pend, (r_rest s). auto. Qed.

Lemma read_full_eof s k b e s' : read_full s k = (b, Some e, s') -> (e =? E_EOF) = true -> b = [].
Proof.
  unfold read_full. destruct (k =? 0); [discriminate|]. destruct (k <=? len (r_rest s)); [discriminate|].
  destruct (r_rest s); intros H He; injection H as <- <- <-; [reflexivity|]. vm_compute in He. discriminate.
Qed.

Ltac rf H x e s' Hs := let E := fresh "E" in
  match goal with |- context[read_full ?s ?k] =>
    destruct (read_full s k) as [[x e] s'] eqn:E;
    destruct (read_full_spec _ _ _ _ _ _ _ H E) as (Hs & _ & _) end.

Lemma raw_record_ok bs s lens : consumed bs s [] ->
  match raw_record s lens with
  | inl (s', _) => consumed bs s' []
  | inr r => result_ok bs r
  end.
Proof.
  intros H0. unfold raw_record.
  rf H0 hb e s1 H1. cbn [app] in H1.
  destruct e as [e|]; [apply (finish_ok _ _ _ _ H1); discriminate|].
  destruct hb as [|h [|? ?]]; try (apply (finish_ok _ _ _ _ H1); discriminate).
  destruct (_ =? MesgDefinitionMask).
  - rf H1 fixed e s2 H2. destruct e as [e|]; [apply (finish_ok _ _ _ _ H2); discriminate|].
    rf H2 fds e s3 H3. destruct e as [e|]; [apply (finish_ok _ _ _ _ H3); discriminate|].
    destruct (_ =? DevDataMask).
    + rf H3 nd e s4 H4. destruct e as [e|]; [apply (finish_ok _ _ _ _ H4); discriminate|].
      rf H4 dds e s5 H5. destruct e as [e|]; [apply (finish_ok _ _ _ _ H5); discriminate|].
      replace (h :: fixed ++ fds ++ nd ++ dds) with (((([h] ++ fixed) ++ fds) ++ nd) ++ dds) by (rewrite <- !app_assoc; reflexivity).
      apply emit_spec. exact H5.
    + replace (h :: fixed ++ fds) with (([h] ++ fixed) ++ fds) by (rewrite <- !app_assoc; reflexivity).
      apply emit_spec. exact H3.
  - destruct (_ =? 0); [apply (finish_ok _ _ _ _ H1); discriminate|].
    rf H1 body e s2 H2. destruct e as [e|]; [apply (finish_ok _ _ _ _ H2); discriminate|].
    change (h :: body) with ([h] ++ body). apply emit_spec. exact H2.
Qed.

Lemma raw_records_ok bs : forall fuel s lens pos ds, consumed bs s [] ->
  match raw_records fuel s lens pos ds with
  | inl s' => consumed bs s' []
  | inr r => result_ok bs r
  end.
Proof.
  induction fuel as [|f IH]; intros s lens pos ds H0; cbn [raw_records].
  - destruct (ds <=? _); [exact H0|apply (finish_ok _ _ _ _ H0); discriminate].
  - destruct (ds <=? _); [exact H0|].
    pose proof (raw_record_ok bs s lens H0) as Hr. destruct (raw_record s lens) as [[s' lens']|r]; [apply IH; exact Hr|exact Hr].
Qed.

Lemma raw_sequence_ok bs s seq : consumed bs s [] ->
  match raw_sequence s seq with
  | inl s' => consumed bs s' []
  | inr r => result_ok bs r
  end.
Proof.
  intros H0. unfold raw_sequence.
  rf H0 b0 e s1 H1. cbn [app] in H1.
  destruct e as [e|].
  { destruct (negb (seq =? 0) && (e =? E_EOF)) eqn:Ec; [|apply (finish_ok _ _ _ _ H1); discriminate].
    (* clean end: nothing was obtained by the failing read *)
    apply (finish_ok _ _ _ _ H1). intros _. apply andb_prop in Ec. destruct Ec as [_ Ec].
    match goal with E : read_full _ _ = _ |- _ => exact (read_full_eof _ _ _ _ _ E Ec) end. }
  destruct b0 as [|hs [|? ?]]; try (apply (finish_ok _ _ _ _ H1); discriminate).
  destruct (negb _); [apply (finish_ok _ _ _ _ H1); discriminate|].
  rf H1 hr e s2 H2. destruct e as [e|]; [apply (finish_ok _ _ _ _ H2); discriminate|].
  destruct (negb _); [apply (finish_ok _ _ _ _ H2); discriminate|].
  change (hs :: hr) with ([hs] ++ hr).
  pose proof (emit_spec _ _ _ RFHeader H2) as H3.
  match goal with |- context[raw_records ?f ?s ?l ?p ?d] => pose proof (raw_records_ok bs f s l p d H3) as Hr; destruct (raw_records f s l p d) as [s4|r] end; [|exact Hr].
  rf Hr c e s5 H5. cbn [app] in H5. destruct e as [e|]; [apply (finish_ok _ _ _ _ H5); discriminate|].
  apply emit_spec. exact H5.
Qed.

Lemma raw_loop_ok bs : forall fuel s seq, consumed bs s [] -> result_ok bs (raw_loop fuel s seq).
Proof.
  induction fuel as [|f IH]; intros s seq H0; cbn [raw_loop].
  - apply (finish_ok _ _ _ _ H0). discriminate.
  - pose proof (raw_sequence_ok bs s seq H0) as Hs. destruct (raw_sequence s seq) as [s'|r]; [apply IH; exact Hs|exact Hs].
Qed.

(* the segments concatenate to a prefix of the stream of exactly the reported length when the decoder succeeds, and to a
   prefix no longer than the reported length when it fails *)
Theorem raw_concat bs : result_ok bs (raw_decode bs).
Proof. unfold raw_decode. apply raw_loop_ok. split; cbn; reflexivity. Qed.

Corollary raw_concat_success bs segs n : raw_decode bs = (segs, n, None) -> concat (map snd segs) = take n bs.
Proof.
  intros H. pose proof (raw_concat bs) as Hr. rewrite H in Hr. destruct Hr as (pend & rest & Hb & Hn & He).
  rewrite (He eq_refl) in *. rewrite app_nil_r in Hn. cbn [app] in Hb. subst n.
  set (c := concat (map snd segs)) in *. rewrite Hb. unfold take, len. rewrite Nat2N.id, firstn_app, Nat.sub_diag, firstn_all. cbn. rewrite app_nil_r. reflexivity.
Qed.
