(* C02, record-grammar clause: what the encoder model writes parses under the independent record grammar of Model/Wire.v --
   every definition record has the length its own counts announce, every data record has a live definition (the one the
   encoder's LRU associates with its local number) whose sizes add up to the record's length, and the records cover exactly
   the bytes written.  The invariant relates the encoder's LRU of definitions to the grammar's table of record lengths. *)
From Coq Require Import NArith ZArith List Lia Bool ZifyN ZifyNat ZifyBool.
Import ListNotations.
From Fit Require Import Model.Encoder Model.Wire Proofs.ValueProofs.
Open Scope N_scope.

(* ---------------------------------------------------------------- lists *)
Lemma list_N_eqb_eq a : forall b, list_N_eqb a b = true -> a = b.
Proof.
  induction a as [|x a IH]; intros [|y b] H; cbn in H; try discriminate; [reflexivity|].
  apply andb_prop in H. destruct H as [H1 H2]. apply N.eqb_eq in H1. subst y. f_equal. apply IH. exact H2.
Qed.
Lemma replace_nth_length {A} (l : list A) : forall i x, length (replace_nth l i x) = length l.
Proof. induction l as [|y l IH]; intros [|i] x; cbn [replace_nth length]; auto. Qed.
Lemma nth_replace_same {A} (l : list A) : forall i x d, (i < length l)%nat -> nth i (replace_nth l i x) d = x.
Proof. induction l as [|y l IH]; intros [|i] x d H; cbn [replace_nth nth length] in *; try lia; auto. apply IH. lia. Qed.
Lemma nth_replace_other {A} (l : list A) : forall i j x d, i <> j -> nth j (replace_nth l i x) d = nth j l d.
Proof. induction l as [|y l IH]; intros [|i] [|j] x d H; cbn [replace_nth nth]; auto; try congruence. Qed.
Lemma remove_nth_incl {A} (l : list A) : forall i x, In x (remove_nth l i) -> In x l.
Proof. induction l as [|y l IH]; intros [|i] x H; cbn [remove_nth] in H; auto; [right; exact H|]. destruct H as [->|H]; [left; reflexivity|right; eapply IH; exact H]. Qed.
Lemma remove_nth_length {A} (l : list A) : forall i, (i < length l)%nat -> length (remove_nth l i) = (length l - 1)%nat.
Proof. induction l as [|y l IH]; intros [|i] H; cbn [remove_nth length] in *; try lia. rewrite IH by lia. lia. Qed.

(* ---------------------------------------------------------------- the LRU *)
Definition linv (l : lru) : Prop :=
  (length (l_bucket l) <= length (l_items l))%nat /\ Forall (fun c => (N.to_nat c < length (l_items l))%nat) (l_bucket l).

Lemma bucket_find_spec items item : forall bucket i found bi,
  bucket_find items bucket item i found = Some bi ->
  (found = Some bi) \/ (exists k, (k < length bucket)%nat /\ bi = (i + k)%nat /\ nth (N.to_nat (nth k bucket 0)) items [] = item).
Proof.
  induction bucket as [|c r IH]; intros i found bi H; cbn [bucket_find] in H; [left; exact H|].
  destruct (list_N_eqb (nth (N.to_nat c) items []) item) eqn:E.
  - destruct (IH _ _ _ H) as [Hf|(k & Hk & Hb & Hn)].
    + right. exists 0%nat. cbn [length nth]. injection Hf as <-. split; [lia|]. split; [lia|]. apply list_N_eqb_eq. exact E.
    + right. exists (S k). cbn [length nth]. split; [lia|]. split; [lia|exact Hn].
  - destruct (IH _ _ _ H) as [Hf|(k & Hk & Hb & Hn)]; [left; exact Hf|].
    right. exists (S k). cbn [length nth]. split; [lia|]. split; [lia|exact Hn].
Qed.

Lemma lru_put_spec l item idx isnew l' : linv l -> (0 < length (l_items l))%nat -> lru_put l item = (idx, isnew, l') ->
  linv l' /\ length (l_items l') = length (l_items l) /\ (N.to_nat idx < length (l_items l))%nat /\
  (if isnew then l_items l' = replace_nth (l_items l) (N.to_nat idx) item
   else l_items l' = l_items l /\ nth (N.to_nat idx) (l_items l) [] = item).
Proof.
  intros [Hlen Hall] Hpos. unfold lru_put.
  destruct (bucket_find (l_items l) (l_bucket l) item 0 None) as [bi|] eqn:Ef.
  - destruct (bucket_find_spec _ _ _ _ _ _ Ef) as [Habs|(k & Hk & Hb & Hn)]; [discriminate|]. cbn [Nat.add] in Hb. subst bi.
    intros H. injection H as <- <- <-. cbn [l_items l_bucket].
    assert (Hin : In (nth k (l_bucket l) 0) (l_bucket l)) by (apply nth_In; exact Hk).
    rewrite Forall_forall in Hall. pose proof (Hall _ Hin) as Hidx.
    split; [|split; [reflexivity|split; [exact Hidx|split; [reflexivity|exact Hn]]]].
    unfold linv. cbn [l_items l_bucket]. split.
    + rewrite app_length, remove_nth_length by exact Hk. cbn [length]. lia.
    + apply Forall_forall. intros x Hx. apply in_app_or in Hx. destruct Hx as [Hx|[<-|[]]]; [apply Hall; eapply remove_nth_incl; exact Hx|exact Hidx].
  - destruct (negb (length (l_bucket l) =? length (l_items l))%nat) eqn:Efull.
    + intros H. injection H as <- <- <-. cbn [l_items l_bucket].
      assert (Hlt : (length (l_bucket l) < length (l_items l))%nat) by (apply negb_true_iff, Nat.eqb_neq in Efull; lia).
      assert (Hidx : (N.to_nat (len (l_bucket l)) < length (l_items l))%nat) by (unfold len; rewrite Nat2N.id; exact Hlt).
      split; [|split; [apply replace_nth_length|split; [exact Hidx|reflexivity]]].
      unfold linv. cbn [l_items l_bucket]. split; rewrite replace_nth_length.
      * rewrite app_length. cbn [length]. lia.
      * apply Forall_app. split; [exact Hall|]. constructor; [exact Hidx|constructor].
    + destruct (l_bucket l) as [|c r] eqn:Eb.
      * cbn [length] in Efull. apply negb_false_iff, Nat.eqb_eq in Efull. lia.
      * intros H. injection H as <- <- <-. cbn [l_items l_bucket].
        inversion Hall as [|? ? Hc Hr]; subst.
        split; [|split; [apply replace_nth_length|split; [exact Hc|reflexivity]]].
        unfold linv. cbn [l_items l_bucket]. split; rewrite replace_nth_length.
        -- rewrite app_length. cbn [length] in *. lia.
        -- apply Forall_app. split; [exact Hr|]. constructor; [exact Hc|constructor].
Qed.

Lemma linv_init n : linv (lru_init n).
Proof. unfold linv, lru_init. cbn [l_items l_bucket length]. split; [lia|constructor]. Qed.

(* ---------------------------------------------------------------- header bytes (finite sweeps) *)
Fixpoint nrange (k : nat) (s : N) : list N := match k with O => [] | S k' => s :: nrange k' (s + 1) end.
Lemma in_nrange k : forall s x, s <= x < s + N.of_nat k -> In x (nrange k s).
Proof. induction k as [|k IH]; intros s x H; cbn [nrange]; [lia|]. destruct (N.eq_dec s x) as [->|Hn]; [left; reflexivity|right; apply IH; lia]. Qed.

Definition def_header_ok (h0 l : N) : bool :=
  let h := N.lor h0 l in is_def h && (N.land h 15 =? l) && (N.land h 32 =? N.land h0 32).
Lemma def_header_sweep : forallb (fun l => def_header_ok 64 l && def_header_ok 96 l) (nrange 16 0) = true.
Proof. vm_compute. reflexivity. Qed.
Lemma def_header h0 l : (h0 = 64 \/ h0 = 96) -> l < 16 -> is_def (N.lor h0 l) = true /\ N.land (N.lor h0 l) 15 = l /\ N.land (N.lor h0 l) 32 = N.land h0 32.
Proof.
  intros Hh Hl. pose proof def_header_sweep as Hs. rewrite forallb_forall in Hs. specialize (Hs l (in_nrange 16 0 l ltac:(lia))).
  apply andb_prop in Hs. destruct Hs as [H1 H2]. destruct Hh as [-> | ->]; [clear H2; rename H1 into H|clear H1; rename H2 into H];
    unfold def_header_ok in H; apply andb_prop in H; destruct H as [H Hc]; apply andb_prop in H; destruct H as [Ha Hb];
    apply N.eqb_eq in Hb, Hc; auto.
Qed.

Definition normal_header_ok (l : N) : bool := negb (is_def (N.lor 0 l)) && (local_of (N.lor 0 l) =? l).
Lemma normal_header_sweep : forallb normal_header_ok (nrange 16 0) = true. Proof. vm_compute. reflexivity. Qed.
Lemma normal_header l : l < 16 -> is_def (N.lor MesgNormalHeaderMask l) = false /\ local_of (N.lor MesgNormalHeaderMask l) = l.
Proof.
  intros Hl. pose proof normal_header_sweep as Hs. rewrite forallb_forall in Hs. specialize (Hs l (in_nrange 16 0 l ltac:(lia))).
  unfold normal_header_ok in Hs. apply andb_prop in Hs. destruct Hs as [Ha Hb]. apply negb_true_iff in Ha. apply N.eqb_eq in Hb. auto.
Qed.

Definition comp_header (t l : N) : N := N.lor (N.lor 128 t) (wrap 8 (N.shiftl l 5)).
Definition comp_header_ok (t l : N) : bool := negb (is_def (comp_header t l)) && (local_of (comp_header t l) =? l).
Lemma comp_header_sweep : forallb (fun t => forallb (comp_header_ok t) (nrange 4 0)) (nrange 32 0) = true. Proof. vm_compute. reflexivity. Qed.
Lemma comp_header_spec t l : t < 32 -> l < 4 -> is_def (comp_header t l) = false /\ local_of (comp_header t l) = l.
Proof.
  intros Ht Hl. pose proof comp_header_sweep as Hs. rewrite forallb_forall in Hs. specialize (Hs t (in_nrange 32 0 t ltac:(lia))).
  rewrite forallb_forall in Hs. specialize (Hs l (in_nrange 4 0 l ltac:(lia))).
  unfold comp_header_ok in Hs. apply andb_prop in Hs. destruct Hs as [Ha Hb]. apply negb_true_iff in Ha. apply N.eqb_eq in Hb. auto.
Qed.

(* ---------------------------------------------------------------- definition records *)
Definition fsum (fs : list fdef) : N := fold_right (fun f a => fd_size f + a) 0 fs.
Definition dsum (ds : list ddef) : N := fold_right (fun f a => dd_size f + a) 0 ds.
Definition ftriples (fs : list fdef) : bytes := flat_map (fun f => [fd_num f; fd_size f; fd_base f]) fs.
Definition dtriples (ds : list ddef) : bytes := flat_map (fun f => [dd_num f; dd_size f; dd_idx f]) ds.

Lemma ftriples_length fs : length (ftriples fs) = (3 * length fs)%nat.
Proof. induction fs as [|f fs IH]; cbn [ftriples flat_map app length] in *; [reflexivity|]. unfold ftriples in IH. rewrite IH. lia. Qed.
Lemma dtriples_length ds : length (dtriples ds) = (3 * length ds)%nat.
Proof. induction ds as [|f fs IH]; cbn [dtriples flat_map app length] in *; [reflexivity|]. unfold dtriples in IH. rewrite IH. lia. Qed.
Lemma sum_sizes_0 t : sum_sizes t 0 = 0. Proof. destruct t; reflexivity. Qed.
Lemma sum_sizes_f fs : forall tail, sum_sizes (ftriples fs ++ tail) (length fs) = fsum fs.
Proof. induction fs as [|f fs IH]; intros tail; [apply sum_sizes_0|]. cbn [ftriples flat_map app length sum_sizes fsum fold_right]. f_equal. apply IH. Qed.
Lemma sum_sizes_d ds : forall tail, sum_sizes (dtriples ds ++ tail) (length ds) = dsum ds.
Proof. induction ds as [|f fs IH]; intros tail; [apply sum_sizes_0|]. cbn [dtriples flat_map app length sum_sizes dsum fold_right]. f_equal. apply IH. Qed.

Lemma nth_opt_app {A} (a : list A) x b : nth_opt (a ++ x :: b) (length a) = Some x.
Proof. induction a as [|y a IH]; cbn [app length nth_opt]; auto. Qed.
Lemma take_len_app {A} n (a b : list A) : N.to_nat n = length a -> take n (a ++ b) = a.
Proof. intros H. unfold take. rewrite H, firstn_app, Nat.sub_diag, firstn_all. cbn. apply app_nil_r. Qed.
Lemma drop_len_app {A} n (a b : list A) : N.to_nat n = length a -> drop n (a ++ b) = b.
Proof. intros H. unfold drop. rewrite H, skipn_app, Nat.sub_diag, skipn_all. reflexivity. Qed.

(* the data-record length a marshalled definition announces, read off its bytes the way the grammar does *)
Definition reclen_def (d : mdef) : N := 1 + fsum (md_fields d) + (if has (md_header d) DevDataMask then dsum (md_devs d) else 0).

Definition def_ok (d : mdef) : Prop :=
  (md_header d = 64 \/ md_header d = 96) /\ (length (md_fields d) <= 255)%nat /\ (length (md_devs d) <= 255)%nat.

Lemma wrap8_small x : x < 256 -> wrap 8 x = x.
Proof. intros H. unfold wrap. apply N.mod_small. exact H. Qed.

Lemma parse_def_nodev h' res arch e0 e1 (fs : list fdef) rest lens : is_def h' = true -> N.land h' 32 = 0 -> (length fs <= 255)%nat ->
  parse_record lens (h' :: res :: arch :: e0 :: e1 :: N.of_nat (length fs) :: ftriples fs ++ rest)
  = Some ((SDef, h' :: res :: arch :: e0 :: e1 :: N.of_nat (length fs) :: ftriples fs), rest, set_len lens (N.land h' 15) (1 + fsum fs)).
Proof.
  intros Hd Hdev Hn. unfold parse_record. rewrite Hd. cbn [nth_opt]. rewrite Hdev. change (0 =? 32) with false. cbv iota.
  set (nf := N.of_nat (length fs)). set (F := ftriples fs).
  assert (LF : length F = (3 * length fs)%nat) by apply ftriples_length.
  set (pre := h' :: res :: arch :: e0 :: e1 :: nf :: F).
  change (h' :: res :: arch :: e0 :: e1 :: nf :: F ++ rest) with (pre ++ rest).
  assert (Lpre : length pre = (6 + 3 * length fs)%nat) by (unfold pre; cbn [length]; rewrite LF; lia).
  replace (len (pre ++ rest) <? 6 + 3 * nf) with false by (symmetry; apply N.ltb_ge; unfold len; rewrite app_length, Lpre; unfold nf; lia).
  assert (Hdrop6 : drop 6 (pre ++ rest) = F ++ rest) by (unfold drop, pre; change (N.to_nat 6) with 6%nat; reflexivity).
  rewrite Hdrop6. rewrite (take_len_app (3 * nf) F rest) by (rewrite LF; unfold nf; lia).
  replace (N.to_nat nf) with (length fs) by (unfold nf; lia).
  replace (sum_sizes F (length fs)) with (fsum fs) by (rewrite <- (sum_sizes_f fs []); unfold F; rewrite app_nil_r; reflexivity).
  assert (Lb : N.to_nat (6 + 3 * nf) = length pre) by (rewrite Lpre; unfold nf; lia).
  rewrite (take_len_app _ pre rest Lb), (drop_len_app _ pre rest Lb). reflexivity.
Qed.

Lemma parse_def_dev h' res arch e0 e1 (fs : list fdef) (ds : list ddef) rest lens : is_def h' = true -> N.land h' 32 = 32 ->
  (length fs <= 255)%nat -> (length ds <= 255)%nat ->
  parse_record lens (h' :: res :: arch :: e0 :: e1 :: N.of_nat (length fs) :: ftriples fs ++ N.of_nat (length ds) :: dtriples ds ++ rest)
  = Some ((SDef, h' :: res :: arch :: e0 :: e1 :: N.of_nat (length fs) :: ftriples fs ++ N.of_nat (length ds) :: dtriples ds), rest,
          set_len lens (N.land h' 15) (1 + fsum fs + dsum ds)).
Proof.
  intros Hd Hdev Hn Hm. unfold parse_record. rewrite Hd.
  set (nf := N.of_nat (length fs)). set (nd := N.of_nat (length ds)). set (F := ftriples fs). set (D := dtriples ds).
  assert (LF : length F = (3 * length fs)%nat) by apply ftriples_length.
  assert (LD : length D = (3 * length ds)%nat) by apply dtriples_length.
  set (pre := h' :: res :: arch :: e0 :: e1 :: nf :: F).
  change (h' :: res :: arch :: e0 :: e1 :: nf :: F ++ nd :: D ++ rest) with (pre ++ nd :: D ++ rest).
  replace (nth_opt (pre ++ nd :: D ++ rest) 5) with (Some nf) by reflexivity.
  cbv beta iota zeta. rewrite Hdev. change (32 =? 32) with true. cbv iota.
  assert (Lpre : length pre = (6 + 3 * length fs)%nat) by (unfold pre; cbn [length]; rewrite LF; lia).
  assert (Lall : len (pre ++ nd :: D ++ rest) = 6 + 3 * nf + 1 + 3 * nd + len rest).
  { unfold len. rewrite app_length. cbn [length]. rewrite app_length, Lpre, LD. unfold nf, nd. lia. }
  replace (len (pre ++ nd :: D ++ rest) <? 6 + 3 * nf) with false by (symmetry; apply N.ltb_ge; lia).
  assert (Hdrop6 : drop 6 (pre ++ nd :: D ++ rest) = F ++ nd :: D ++ rest) by (unfold drop, pre; change (N.to_nat 6) with 6%nat; reflexivity).
  rewrite Hdrop6. rewrite (take_len_app (3 * nf) F _) by (rewrite LF; unfold nf; lia).
  assert (Hbase : N.to_nat (6 + 3 * nf) = length pre) by (rewrite Lpre; unfold nf; lia).
  rewrite Hbase, nth_opt_app.
  replace (len (pre ++ nd :: D ++ rest) <? 6 + 3 * nf + 1 + 3 * nd) with false by (symmetry; apply N.ltb_ge; lia).
  assert (Edrop : drop (6 + 3 * nf + 1) (pre ++ nd :: D ++ rest) = D ++ rest).
  { replace (pre ++ nd :: D ++ rest) with ((pre ++ [nd]) ++ D ++ rest) by (rewrite <- app_assoc; reflexivity).
    apply drop_len_app. rewrite app_length. cbn [length]. lia. }
  rewrite Edrop. rewrite (take_len_app (3 * nd) D rest) by (rewrite LD; unfold nd; lia).
  replace (N.to_nat nf) with (length fs) by (unfold nf; lia). replace (N.to_nat nd) with (length ds) by (unfold nd; lia).
  replace (sum_sizes F (length fs)) with (fsum fs) by (rewrite <- (sum_sizes_f fs []); unfold F; rewrite app_nil_r; reflexivity).
  replace (sum_sizes D (length ds)) with (dsum ds) by (rewrite <- (sum_sizes_d ds []); unfold D; rewrite app_nil_r; reflexivity).
  assert (Etot : N.to_nat (6 + 3 * nf + 1 + 3 * nd) = length (pre ++ nd :: D)).
  { rewrite app_length. cbn [length]. rewrite Lpre, LD. unfold nf, nd. lia. }
  replace (pre ++ nd :: D ++ rest) with ((pre ++ nd :: D) ++ rest) by (rewrite <- app_assoc; reflexivity).
  rewrite (take_len_app _ _ rest Etot), (drop_len_app _ _ rest Etot). reflexivity.
Qed.

Lemma parse_def d l lens rest : def_ok d -> l < 16 ->
  match marshal_def d with
  | h :: r => parse_record lens ((N.lor h l :: r) ++ rest) = Some ((SDef, N.lor h l :: r), rest, set_len lens l (reclen_def d))
  | [] => False
  end.
Proof.
  intros (Hh & Hnf & Hnd) Hl. unfold marshal_def.
  destruct (enc (negb (md_arch d =? LittleEndian)) 2 (md_num d)) as [|e0 [|e1 [|? ?]]] eqn:Ee;
    try (apply (f_equal (@length N)) in Ee; rewrite enc_length in Ee; cbn in Ee; lia).
  cbn [app]. fold (ftriples (md_fields d)). fold (dtriples (md_devs d)).
  rewrite (wrap8_small (len (md_fields d))) by (unfold len; lia).
  destruct (def_header (md_header d) l Hh Hl) as (Hd & Hloc & Hdev).
  unfold reclen_def, has. destruct Hh as [Hh|Hh]; rewrite Hh in *.
  - change (N.land 64 DevDataMask =? DevDataMask) with false. cbv iota. rewrite app_nil_r, N.add_0_r.
    change (N.land 64 32) with 0 in Hdev. unfold len.
    rewrite (parse_def_nodev _ _ _ _ _ _ rest lens Hd Hdev Hnf). rewrite Hloc. reflexivity.
  - change (N.land 96 DevDataMask =? DevDataMask) with true. cbv iota.
    rewrite (wrap8_small (len (md_devs d))) by (unfold len; lia).
    change (N.land 96 32) with 32 in Hdev. unfold len. cbn [app]. rewrite <- app_assoc. cbn [app].
    rewrite (parse_def_dev _ _ _ _ _ _ _ rest lens Hd Hdev Hnf Hnd). rewrite Hloc. reflexivity.
Qed.

(* ---------------------------------------------------------------- data records *)
Lemma parse_data lens h body rest l : is_def h = false -> local_of h = l -> get_len lens l = 1 + len body ->
  parse_record lens ((h :: body) ++ rest) = Some ((SData, h :: body), rest, lens).
Proof.
  intros Hd Hl Hg. unfold parse_record. cbn [app]. rewrite Hd, Hl, Hg.
  replace (1 + len body =? 0) with false by (symmetry; apply N.eqb_neq; lia).
  change (h :: body ++ rest) with ((h :: body) ++ rest).
  assert (L : N.to_nat (1 + len body) = length (h :: body)) by (unfold len; cbn [length]; lia).
  replace (len ((h :: body) ++ rest) <? 1 + len body) with false by (symmetry; apply N.ltb_ge; unfold len; rewrite app_length; cbn [length]; lia).
  rewrite (take_len_app _ _ rest L), (drop_len_app _ _ rest L). reflexivity.
Qed.

(* ---------------------------------------------------------------- sizes of what the encoder marshals *)
Definition msg_ok (m : message) : Prop :=
  (length (m_fields m) <= 255)%nat /\ (length (m_devs m) <= 255)%nat /\
  Forall (fun f => size (f_value f) <= 255) (m_fields m) /\ Forall (fun d => size (df_value d) <= 255) (m_devs m).

Lemma marshal_values_len big : forall vs b, marshal_values big vs = Some b -> len b = fold_right (fun v a => size v + a) 0 vs.
Proof.
  induction vs as [|v vs IH]; intros b H; cbn [marshal_values] in H.
  - injection H as <-. reflexivity.
  - destruct (marshal big v) as [a|] eqn:Ea; [|discriminate]. destruct (marshal_values big vs) as [c|] eqn:Ec; [|discriminate].
    injection H as <-. rewrite len_app, (size_marshal _ _ _ Ea), (IH _ eq_refl). reflexivity.
Qed.

Lemma fsum_new big m : Forall (fun f => size (f_value f) <= 255) (m_fields m) ->
  fsum (md_fields (new_definition big m)) = fold_right (fun v a => size v + a) 0 (map f_value (m_fields m)).
Proof.
  unfold new_definition. cbn [md_fields]. induction (m_fields m) as [|f fs IH]; intros H; cbn [map fsum fold_right fd_size]; [reflexivity|].
  inversion H; subst. rewrite wrap8_small by lia. f_equal. apply IH. assumption.
Qed.
Lemma dsum_new big m : Forall (fun d => size (df_value d) <= 255) (m_devs m) ->
  dsum (md_devs (new_definition big m)) = fold_right (fun v a => size v + a) 0 (map df_value (m_devs m)).
Proof.
  unfold new_definition. cbn [md_devs]. induction (m_devs m) as [|f fs IH]; intros H; cbn [map dsum fold_right dd_size]; [reflexivity|].
  inversion H; subst. rewrite wrap8_small by lia. f_equal. apply IH. assumption.
Qed.
Lemma fold_size_app (a b : list value) : fold_right (fun v x => size v + x) 0 (a ++ b) = fold_right (fun v x => size v + x) 0 a + fold_right (fun v x => size v + x) 0 b.
Proof. induction a as [|v a IH]; cbn [app fold_right]; [reflexivity|]. rewrite IH. lia. Qed.

Lemma new_definition_ok big m : msg_ok m -> def_ok (new_definition big m).
Proof.
  intros (Hf & Hd & _ & _). unfold def_ok, new_definition. cbn [md_header md_fields md_devs]. rewrite !map_length.
  split; [|split; assumption]. destruct (m_devs m); [left; reflexivity|right; reflexivity].
Qed.

(* the record length announced by the definition of a message = the length of the message's data record *)
Lemma reclen_is_record_length big m mb : msg_ok m -> marshal_message big m = Some mb -> reclen_def (new_definition big m) = len mb.
Proof.
  intros (_ & _ & Hfs & Hds) H. unfold marshal_message in H.
  destruct (marshal_values big _) as [b|] eqn:Eb; [|discriminate]. injection H as <-.
  pose proof (marshal_values_len _ _ _ Eb) as Hl. rewrite fold_size_app in Hl.
  unfold reclen_def. rewrite (fsum_new big m Hfs). unfold has, new_definition at 1. cbn [md_header].
  unfold len in *. cbn [length].
  destruct (m_devs m) as [|d ds] eqn:Ed.
  - change (N.land MesgDefinitionMask DevDataMask =? DevDataMask) with false. cbv iota. cbn [map fold_right] in Hl. lia.
  - change (N.land (N.lor MesgDefinitionMask DevDataMask) DevDataMask =? DevDataMask) with true. cbv iota.
    rewrite <- Ed in *. rewrite (dsum_new big m Hds). lia.
Qed.

(* ---------------------------------------------------------------- the grammar without fuel *)
Inductive parses : list N -> bytes -> N -> list segment -> bytes -> Prop :=
| P_nil lens bs : parses lens bs 0 [] bs
| P_cons lens bs size k seg rest lens' segs rest' : size <> 0 -> parse_record lens bs = Some ((k, seg), rest, lens') -> 0 < len seg <= size ->
    parses lens' rest (size - len seg) segs rest' -> parses lens bs size ((k, seg) :: segs) rest'.

Lemma parses_fuel lens bs size segs rest : parses lens bs size segs rest ->
  forall fuel, (length segs <= fuel)%nat -> parse_records fuel lens bs size = Some (segs, rest).
Proof.
  induction 1 as [lens bs|lens bs size k seg rest lens' segs rest' Hs Hp Hl Hrest IH]; intros fuel Hf.
  - destruct fuel; reflexivity.
  - destruct fuel as [|fuel]; [cbn [length] in Hf; lia|]. cbn [parse_records].
    replace (size =? 0) with false by (symmetry; apply N.eqb_neq; exact Hs). rewrite Hp.
    replace (size <? len seg) with false by (symmetry; apply N.ltb_ge; apply Hl).
    rewrite IH by (cbn [length] in Hf; lia). reflexivity.
Qed.

Lemma parses_step lens seg kind rest lens' k segs rest' : parse_record lens (seg ++ rest) = Some ((kind, seg), rest, lens') -> seg <> [] ->
  parses lens' rest k segs rest' -> parses lens (seg ++ rest) (len seg + k) ((kind, seg) :: segs) rest'.
Proof.
  intros Hp Hne Hk. assert (0 < len seg) by (destruct seg; [congruence|unfold len; cbn [length]; lia]).
  eapply P_cons; [lia|exact Hp|lia|]. replace (len seg + k - len seg) with k by lia. exact Hk.
Qed.

(* ---------------------------------------------------------------- encoder LRU vs the grammar's table of record lengths *)
Definition winv (c : ecfg) (l : lru) (lens : list N) : Prop :=
  linv l /\ length lens = 16%nat /\ (0 < length (l_items l))%nat /\ (length (l_items l) <= (if e_compressed c then 4 else 16))%nat /\
  forall i, (i < length (l_items l))%nat -> nth i (l_items l) [] <> [] ->
    exists d, def_ok d /\ nth i (l_items l) [] = marshal_def d /\ nth i lens 0 = reclen_def d.

Lemma set_len_nth lens l v : (N.to_nat l < length lens)%nat -> nth (N.to_nat l) (set_len lens l v) 0 = v.
Proof. intros H. unfold set_len. apply nth_replace_same. exact H. Qed.

Lemma reclen_inj d d' : def_ok d -> def_ok d' -> marshal_def d = marshal_def d' -> reclen_def d = reclen_def d'.
Proof.
  intros Hd Hd' He. pose proof (parse_def d 0 (repeat 0 16) [] Hd ltac:(lia)) as P1. pose proof (parse_def d' 0 (repeat 0 16) [] Hd' ltac:(lia)) as P2.
  rewrite He in P1. destruct (marshal_def d') as [|h r]; [contradiction|]. rewrite P1 in P2. injection P2 as P2.
  exact P2.
Qed.

Lemma marshal_def_cons d : exists h r, marshal_def d = h :: r /\ h = md_header d.
Proof. unfold marshal_def. cbn [app]. eexists. eexists. split; reflexivity. Qed.

Lemma land31_lt x : N.land x 31 < 32.
Proof. change 31 with (N.ones 5). rewrite N.land_ones. apply N.mod_lt. discriminate. Qed.

Lemma remove_first_sub fs num : (length (remove_first_num fs num) <= length fs)%nat /\
  (forall P, Forall P fs -> Forall P (remove_first_num fs num)).
Proof.
  induction fs as [|f fs [IH1 IH2]]; cbn [remove_first_num length]; [split; [lia|auto]|].
  destruct (f_num f =? num).
  - split; [lia|]. intros P H. inversion H; assumption.
  - cbn [length]. split; [lia|]. intros P H. inversion H; subst. constructor; [assumption|apply IH2; assumption].
Qed.

Lemma compress_some tsref lastts m h fs a b : compress_timestamp tsref lastts m = (Some (h, fs), a, b) ->
  exists t, t < 32 /\ h = N.lor 128 t /\ fs = remove_first_num (m_fields m) FieldNumTimestamp.
Proof.
  unfold compress_timestamp. destruct encoder_tracks_last_timestamp.
  - destruct (ts_field_u32 m) as [ts|]; [|discriminate].
    destruct (ts =? 4294967295); [discriminate|]. destruct (ts <? DateTimeMin); [discriminate|].
    destruct (CompressedTimeMask <? _); [discriminate|]. destruct (CompressedTimeMask <? _); [discriminate|].
    intros H. injection H as <- <- _ _. exists (N.land ts 31). split; [apply land31_lt|split; reflexivity].
  - destruct (_ =? 4294967295); [discriminate|]. destruct (_ <? DateTimeMin); [discriminate|].
    destruct (CompressedTimeMask <? _); [discriminate|].
    intros H. injection H as <- <- _ _. eexists. split; [apply land31_lt|split; reflexivity].
Qed.

Lemma msg_ok_fields m fs' : msg_ok m -> (length fs' <= length (m_fields m))%nat ->
  Forall (fun f => size (f_value f) <= 255) fs' -> forall h, msg_ok (mkmsg h (m_num m) fs' (m_devs m)).
Proof. intros (A & B & C & D) Hl Hf h. unfold msg_ok. cbn [m_fields m_devs]. repeat split; try assumption. lia. Qed.

(* one message: the records it contributes parse, and the invariant is kept *)
Lemma encode_step c st m chunks st' lens : winv c (es_lru st) lens -> msg_ok m ->
  encode_message_chunks c st m = Ok (chunks, st') ->
  exists lens' msegs, winv c (es_lru st') lens' /\
    forall rest k segs rest', parses lens' rest k segs rest' ->
      parses lens (concat chunks ++ rest) (len (concat chunks) + k) (msegs ++ segs) rest'.
Proof.
  intros (Hli & Hlens & Hpos & Hmax & Hslots) Hok. unfold encode_message_chunks.
  destruct (if e_compressed c then compress_timestamp (es_tsref st) (es_lastts st) m else (None, es_tsref st, es_lastts st)) as [[cmp tsref] lastts] eqn:Ecmp.
  (* the message as it goes out: header kind, fields *)
  assert (Hshape : exists hdr fs compressed, (match cmp with Some (h, fs) => (h, fs, true) | None => (MesgNormalHeaderMask, m_fields m, false) end) = (hdr, fs, compressed)
            /\ msg_ok (mkmsg hdr (m_num m) fs (m_devs m))
            /\ (if compressed then e_compressed c = true /\ exists t, t < 32 /\ hdr = N.lor 128 t else hdr = MesgNormalHeaderMask)).
  { destruct cmp as [[h fs]|].
    - exists h, fs, true. split; [reflexivity|].
      destruct (e_compressed c) eqn:Ec; [|discriminate Ecmp].
      destruct (compress_some _ _ _ _ _ _ _ Ecmp) as (t & Ht & Hh & Hfs). subst fs.
      destruct (remove_first_sub (m_fields m) FieldNumTimestamp) as [S1 S2].
      split; [apply msg_ok_fields; [exact Hok|exact S1|apply S2; apply Hok]|]. split; [reflexivity|]. exists t. auto.
    - exists MesgNormalHeaderMask, (m_fields m), false. split; [reflexivity|]. split; [|reflexivity].
      destruct Hok as (A & B & C & D). unfold msg_ok. cbn [m_fields m_devs]. auto. }
  destruct Hshape as (hdr & fs & compressed & -> & Hok2 & Hhdr).
  set (m2 := mkmsg hdr (m_num m) fs (m_devs m)) in *.
  set (d := new_definition (e_big c) m2).
  pose proof (new_definition_ok (e_big c) m2 Hok2) as Hdok.
  destruct (marshal_def_cons d) as (h0 & r & Eb & Hh0). rewrite Eb.
  destruct (lru_put (es_lru st) (h0 :: r)) as [[local isnew] lru'] eqn:Ep.
  destruct (lru_put_spec _ _ _ _ _ Hli Hpos Ep) as (Hli' & Hlen' & Hidx & Hitems).
  assert (Hl16 : local < 16) by (destruct (e_compressed c); lia).
  set (hdr3 := N.lor hdr (if compressed then wrap 8 (N.shiftl local CompressedBitShift) else local)).
  set (m3 := mkmsg hdr3 (m_num m2) fs (m_devs m2)).
  destruct (marshal_message (e_big c) m3) as [mb|] eqn:Em; [|discriminate].
  intros H. injection H as <- <-. cbn [es_lru].
  (* the data record *)
  assert (Hmb : exists body, mb = hdr3 :: body).
  { unfold marshal_message in Em. destruct (marshal_values _ _); [|discriminate]. injection Em as <-. eexists. reflexivity. }
  destruct Hmb as (body & ->).
  assert (Hrl : reclen_def d = 1 + len body).
  { assert (Hok3 : msg_ok m3) by exact Hok2. pose proof (reclen_is_record_length (e_big c) m3 _ Hok3 Em) as Hr.
    change (new_definition (e_big c) m3) with d in Hr. rewrite Hr. unfold len. cbn [length]. lia. }
  assert (Hdata : is_def hdr3 = false /\ local_of hdr3 = local).
  { unfold hdr3. destruct compressed.
    - destruct Hhdr as (Ec & t & Ht & ->). rewrite Ec in Hmax. apply (comp_header_spec t local Ht). lia.
    - rewrite Hhdr. apply normal_header. exact Hl16. }
  destruct Hdata as [Hd1 Hd2].
  assert (Hh0v : h0 = 64 \/ h0 = 96) by (rewrite Hh0; apply Hdok).
  destruct isnew.
  - (* new definition: definition record, then data record *)
    set (lens1 := set_len lens local (reclen_def d)).
    exists lens1, [(SDef, N.lor h0 local :: r); (SData, hdr3 :: body)]. split.
    + unfold winv. rewrite Hlen'. split; [exact Hli'|]. split; [unfold lens1, set_len; rewrite replace_nth_length; exact Hlens|].
      split; [exact Hpos|]. split; [exact Hmax|].
      intros i Hi Hne. rewrite Hitems in *. destruct (Nat.eq_dec i (N.to_nat local)) as [->|Hneq].
      * exists d. split; [exact Hdok|]. rewrite nth_replace_same by exact Hidx. split; [symmetry; exact Eb|].
        unfold lens1. apply set_len_nth. lia.
      * rewrite nth_replace_other in Hne |- * by congruence. destruct (Hslots i Hi Hne) as (d' & A & B & C).
        exists d'. split; [exact A|]. split; [exact B|]. unfold lens1, set_len. rewrite nth_replace_other by congruence. exact C.
    + intros rest k segs rest' Hk.
      change (concat ([N.lor h0 local :: r] ++ [hdr3 :: body])) with ((N.lor h0 local :: r) ++ (hdr3 :: body) ++ []). rewrite app_nil_r.
      pose proof (parse_def d local lens ((hdr3 :: body) ++ rest) Hdok Hl16) as Pd. rewrite Eb in Pd. fold lens1 in Pd.
      rewrite <- app_assoc. rewrite len_app. rewrite <- N.add_assoc.
      apply (parses_step lens (N.lor h0 local :: r) SDef _ lens1 _ _ _ Pd); [discriminate|].
      apply (parses_step lens1 (hdr3 :: body) SData rest lens1 k segs rest'); [|discriminate|exact Hk].
      apply (parse_data lens1 hdr3 body rest local Hd1 Hd2). unfold get_len, lens1. rewrite set_len_nth by lia. exact Hrl.
  - (* known definition: data record only *)
    destruct Hitems as [Hsame Hnth]. exists lens, [(SData, hdr3 :: body)]. split.
    + unfold winv. split; [exact Hli'|]. rewrite Hsame. split; [exact Hlens|]. split; [exact Hpos|]. split; [exact Hmax|exact Hslots].
    + intros rest k segs rest' Hk. change (concat ([] ++ [hdr3 :: body])) with ((hdr3 :: body) ++ []). rewrite app_nil_r.
      apply (parses_step lens (hdr3 :: body) SData rest lens k segs rest'); [|discriminate|exact Hk].
      apply (parse_data lens hdr3 body rest local Hd1 Hd2). unfold get_len.
      destruct (Hslots (N.to_nat local) Hidx) as (d' & A & B & C); [rewrite Hnth; discriminate|].
      rewrite C. rewrite <- Hrl. apply reclen_inj; [exact A|exact Hdok|]. rewrite <- B, Hnth. symmetry. exact Eb.
Qed.

Lemma parses_count lens bs size segs rest : parses lens bs size segs rest -> N.of_nat (length segs) <= size.
Proof. induction 1 as [|lens bs size k seg rest lens' segs rest' Hs Hp Hl Hrest IH]; cbn [length]; lia. Qed.

(* ---------------------------------------------------------------- all messages of a sequence *)
Lemma encode_messages_parses c : forall ms st acc out st' lens, winv c (es_lru st) lens -> Forall msg_ok ms ->
  encode_messages c st ms acc = Ok (out, st') ->
  exists lens' segs x, out = acc ++ x /\ winv c (es_lru st') lens' /\
    forall rest k segs2 rest', parses lens' rest k segs2 rest' -> parses lens (x ++ rest) (len x + k) (segs ++ segs2) rest'.
Proof.
  induction ms as [|m ms IH]; intros st acc out st' lens W Hok H; cbn [encode_messages] in H.
  - injection H as <- <-. exists lens, [], []. rewrite app_nil_r. split; [reflexivity|]. split; [exact W|].
    intros rest k segs2 rest' Hk. cbn [app]. change (len (@nil N)) with 0. rewrite N.add_0_l. exact Hk.
  - inversion Hok as [|? ? Hm Hrest]; subst. unfold bind, encode_message in H. unfold bind in H.
    destruct (encode_message_chunks c st m) as [[ch st1]| | |] eqn:E; try discriminate. cbn [fst snd] in H.
    destruct (encode_step c st m ch st1 lens W Hm E) as (lens1 & msegs & W1 & P1).
    destruct (IH st1 (acc ++ concat ch) out st' lens1 W1 Hrest H) as (lens2 & segs & x & Hx & W2 & P2).
    exists lens2, (msegs ++ segs), (concat ch ++ x). split; [rewrite Hx, app_assoc; reflexivity|]. split; [exact W2|].
    intros rest k segs2 rest' Hk. rewrite <- !app_assoc. rewrite len_app, <- N.add_assoc. apply P1. apply P2. exact Hk.
Qed.

Lemma winv_init c : winv c (es_lru (es_init c)) (repeat 0 16).
Proof.
  unfold winv, es_init, lru_init, local_types. cbn [es_lru l_items l_bucket]. rewrite !repeat_length.
  split; [apply linv_init|]. split; [reflexivity|]. split; [lia|]. split; [destruct (e_compressed c); lia|].
  intros i Hi Hne. exfalso. apply Hne. apply nth_repeat.
Qed.

(* ---------------------------------------------------------------- what the validator lets through *)
Lemma value_integrity_size v base : value_integrity v base = Ok tt -> size v <= 255.
Proof.
  unfold value_integrity. destruct (negb (align v base)); [discriminate|]. destruct (negb _); [discriminate|].
  destruct (255 <? size v) eqn:E; [discriminate|]. intros _. apply N.ltb_ge in E. exact E.
Qed.

Lemma validate_fields_ok preserve : forall fs kept out, validate_fields preserve fs kept = Ok out ->
  (length kept <= 255)%nat -> Forall (fun f => size (f_value f) <= 255) kept ->
  (length out <= 255)%nat /\ Forall (fun f => size (f_value f) <= 255) out.
Proof.
  induction fs as [|f fs IH]; intros kept out H Hl Hs; cbn [validate_fields] in H.
  - injection H as <-. auto.
  - destruct (f_expanded f); [apply (IH _ _ H Hl Hs)|].
    destruct (negb preserve && negb (valid _ _)); [apply (IH _ _ H Hl Hs)|].
    unfold bind in H. destruct (value_integrity _ _) as [[]| | |] eqn:Ev; try discriminate.
    destruct (len kept =? 255) eqn:E255; [discriminate|].
    apply (IH _ _ H).
    + rewrite app_length. cbn [length]. apply N.eqb_neq in E255. unfold len in E255. lia.
    + apply Forall_app. split; [exact Hs|]. constructor; [apply (value_integrity_size _ _ Ev)|constructor].
Qed.

Lemma validate_devs_ok preserve vs : forall ds kept out, validate_devs preserve vs ds kept = Ok out ->
  (length kept <= 255)%nat -> Forall (fun d => size (df_value d) <= 255) kept ->
  (length out <= 255)%nat /\ Forall (fun d => size (df_value d) <= 255) out.
Proof.
  induction ds as [|d ds IH]; intros kept out H Hl Hs; cbn [validate_devs] in H.
  - injection H as <-. auto.
  - destruct (negb (existsb _ _)); [discriminate|]. destruct (find_fdesc _ _ _) as [fd|]; [|discriminate].
    destruct (negb preserve && negb (valid _ _)); [apply (IH _ _ H Hl Hs)|].
    unfold bind in H. destruct (value_integrity _ _) as [[]| | |] eqn:Ev; try discriminate.
    destruct (len kept =? 255) eqn:E255; [discriminate|].
    apply (IH _ _ H).
    + rewrite app_length. cbn [length]. apply N.eqb_neq in E255. unfold len in E255. lia.
    + apply Forall_app. split; [exact Hs|]. constructor; [apply (value_integrity_size _ _ Ev)|constructor].
Qed.

Lemma validate_ok preserve vs m m' vs' : validate preserve vs m = Ok (m', vs') -> msg_ok m'.
Proof.
  unfold validate, bind. destruct (validate_fields preserve (m_fields m) []) as [fs| | |] eqn:Ef; try discriminate.
  destruct (validate_fields_ok _ _ _ _ Ef ltac:(cbn; lia) ltac:(constructor)) as [Lf Sf].
  assert (Hnod : forall h n, msg_ok (mkmsg h n fs [])) by (intros; unfold msg_ok; cbn [m_fields m_devs length]; repeat split; auto; lia).
  assert (Hdev : forall h n ds', (length ds' <= 255)%nat -> Forall (fun d => size (df_value d) <= 255) ds' -> msg_ok (mkmsg h n fs ds'))
    by (intros; unfold msg_ok; cbn [m_fields m_devs]; repeat split; auto).
  destruct fs as [|f0 fs0]; destruct (m_devs m) as [|d0 ds0] eqn:Ed; try discriminate.
  - set (vs1 := if m_num m =? mesgnum_DeveloperDataId then _ else _).
    destruct (validate_devs preserve vs1 (d0 :: ds0) []) as [ds'| | |] eqn:Edv; try discriminate.
    destruct (validate_devs_ok _ _ _ _ _ Edv ltac:(cbn; lia) ltac:(constructor)) as [Ld Sd].
    destruct ds' as [|x xs]; [destruct validator_rechecks_empty; [discriminate|]|]; intros H; injection H as <- _; apply Hdev; assumption.
  - intros H. injection H as <- _. apply Hnod.
  - set (vs1 := if m_num m =? mesgnum_DeveloperDataId then _ else _).
    destruct (validate_devs preserve vs1 (d0 :: ds0) []) as [ds'| | |] eqn:Edv; try discriminate.
    destruct (validate_devs_ok _ _ _ _ _ Edv ltac:(cbn; lia) ltac:(constructor)) as [Ld Sd].
    destruct ds'; intros H; injection H as <- _; apply Hdev; assumption.
Qed.

Lemma validate_all_ok preserve : forall ms vs acc out, validate_all preserve vs ms acc = Ok out -> Forall msg_ok acc -> Forall msg_ok out.
Proof.
  induction ms as [|m ms IH]; intros vs acc out H Ha; cbn [validate_all] in H.
  - injection H as <-. exact Ha.
  - unfold bind in H. destruct (validate preserve vs m) as [[m' vs']| | |] eqn:Ev; try discriminate.
    apply (IH _ _ _ H). apply Forall_app. split; [exact Ha|]. constructor; [apply (validate_ok _ _ _ _ _ Ev)|constructor].
Qed.
